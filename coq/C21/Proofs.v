(* C21 -- lemmas about the model of nifty/cl/random.py *)
From Coq Require Import List ZArith Bool Arith Lia FinFun.
Import ListNotations.
Require Import NV.C21.Model.

(* ------------------------------------------------------------------------------------------ *)
(* Frames                                                                                      *)
(* ------------------------------------------------------------------------------------------ *)

Lemma frame_isolate : forall s, frame (sseq s) (rng s) (isolate s) = s.
Proof. intros [h p ss rr sv dl ch cp]; reflexivity. Qed.

Lemma frame_empty : forall B RB s, sseq s = [] -> rng s = [] -> frame B RB s = set_stacks s B RB.
Proof. intros B RB s H1 H2; unfold frame; rewrite H1, H2; reflexivity. Qed.

Lemma lookup_frame : forall B RB s id, lookup (frame B RB s) id = lookup s id.
Proof. reflexivity. Qed.

Lemma push_frame : forall B RB id s, do_push id (frame B RB s) = frame B RB (do_push id s).
Proof. reflexivity. Qed.

Lemma spawn_frame : forall B RB id n s, do_spawn id n (frame B RB s) = frame B RB (do_spawn id n s).
Proof. reflexivity. Qed.

Lemma pop_frame : forall B RB s s' o,
  do_pop s = (s', o, false) -> do_pop (frame B RB s) = (frame B RB s', o, false).
Proof.
  intros B RB s s' o. unfold do_pop, frame. cbn [sseq rng set_stacks].
  destruct (sseq s) as [|a ss]; [discriminate|].
  destruct (rng s) as [|g rr]; [discriminate|].
  intros H; injection H as <- <-. reflexivity.
Qed.

Lemma draw_frame : forall B RB k n s s' o,
  do_draw k n s = (s', o, false) -> do_draw k n (frame B RB s) = (frame B RB s', o, false).
Proof.
  intros B RB k n s s' o. unfold do_draw, frame. cbn [sseq rng set_stacks heap pool saved dlog].
  destruct (rng s) as [|g rr]; [discriminate|].
  intros H; injection H as <- <-. reflexivity.
Qed.

Lemma resolve_frame : forall B RB i s,
  resolve i (frame B RB s) =
  match resolve i s with Some (s1, id) => Some (frame B RB s1, id) | None => None end.
Proof.
  intros B RB [z|v] s; cbn.
  - reflexivity.
  - destruct (nth_error (pool s) v); reflexivity.
Qed.

Lemma ctx_exit_frame : forall B RB d s3 o t s' o',
  ctx_exit d (s3, o, t) = (s', o', false) ->
  t = false /\ ctx_exit (d + length B) (frame B RB s3, o, false) = (frame B RB s', o', false).
Proof.
  intros B RB d s3 o t s' o'. unfold ctx_exit.
  destruct (do_pop s3) as [[s4 o4] t4] eqn:Hp.
  destruct o4 as [e|]; [discriminate|].
  assert (t4 = false) as ->.
  { unfold do_pop in Hp. destruct (sseq s3); [discriminate|]. destruct (rng s3); [discriminate|].
    inversion Hp; reflexivity. }
  rewrite (pop_frame B RB _ _ _ Hp).
  assert (Hl : length (sseq (frame B RB s4)) = length (sseq s4) + length B).
  { unfold frame; cbn. apply app_length. }
  rewrite Hl.
  destruct (d =? length (sseq s4)) eqn:Hd.
  - intros H; injection H as <- <- <-. split; [reflexivity|].
    apply Nat.eqb_eq in Hd. rewrite Hd, Nat.eqb_refl. reflexivity.
  - intros H; injection H as <- <- <-. split; [reflexivity|].
    apply Nat.eqb_neq in Hd.
    destruct (d + length B =? length (sseq s4) + length B) eqn:Hd'; [|reflexivity].
    apply Nat.eqb_eq in Hd'. lia.
Qed.

(* The frame lemma: an execution that does not touch the stacks non-locally is oblivious to
   whatever lies below: it runs identically (same heap, variables, draws, outcome, same upper
   stack part) and leaves the lower part alone. *)
Lemma frame_exec : forall p, noobj p = true -> forall s B RB s' o,
  exec p s = (s', o, false) -> exec p (frame B RB s) = (frame B RB s', o, false).
Proof.
  induction p; intros Hno s B RB s' o H; cbn [noobj] in Hno; try discriminate;
    try (apply andb_true_iff in Hno as [Hno1 Hno2]); cbn [exec] in *.
  - injection H as <- <-. reflexivity.
  - destruct (exec p1 s) as [[s1 o1] t1] eqn:H1.
    destruct o1 as [e|].
    + injection H as <- <- ->. rewrite (IHp1 Hno1 _ B RB _ _ H1). reflexivity.
    + destruct (exec p2 s1) as [[s2 o2] t2] eqn:H2.
      injection H as <- <- Ht. apply orb_false_iff in Ht as [-> ->].
      rewrite (IHp1 Hno1 _ B RB _ _ H1), (IHp2 Hno2 _ B RB _ _ H2). reflexivity.
  - apply draw_frame; assumption.
  - unfold frame at 1; cbn [sseq set_stacks].
    destruct (sseq s) as [|id ss]; [discriminate|]. cbn [app].
    injection H as <- <-. rewrite <- spawn_frame. unfold frame, do_spawn, lookup; cbn. reflexivity.
  - change (pool (frame B RB s)) with (pool s).
    destruct (nth_error (pool s) v).
    + injection H as <- <-. rewrite spawn_frame. reflexivity.
    + injection H as <- <-. reflexivity.
  - change (pool (frame B RB s)) with (pool s).
    destruct (nth_error (pool s) v).
    + injection H as <- <-. rewrite push_frame. reflexivity.
    + injection H as <- <-. reflexivity.
  - cbn in *. injection H as <- <-. reflexivity.
  - apply pop_frame; assumption.
  - rewrite resolve_frame. destruct (resolve i s) as [[s1 id]|].
    + destruct (exec p (do_push id s1)) as [[s3 o3] t3] eqn:Hb.
      apply (ctx_exit_frame B RB) in H as [-> H].
      rewrite push_frame, (IHp Hno _ B RB _ _ Hb).
      assert (Hl : length (sseq (frame B RB s1)) = length (sseq s1) + length B)
        by (unfold frame; cbn; apply app_length).
      rewrite Hl. exact H.
    + injection H as <- <-. reflexivity.
  - injection H as <- <-. reflexivity.
  - destruct (exec p s) as [[s1 o1] t1] eqn:H1.
    injection H as <- <- ->. rewrite (IHp Hno _ B RB _ _ H1). reflexivity.
Qed.

(* ------------------------------------------------------------------------------------------ *)
(* Well-formedness is preserved                                                                *)
(* ------------------------------------------------------------------------------------------ *)

Lemma ids_ok_mono : forall n m l, n <= m -> ids_ok n l -> ids_ok m l.
Proof. intros n m l Hnm H. eapply Forall_impl; [|exact H]. cbn; intros; lia. Qed.

Lemma upd_length : forall A (l : list A) i v, length (upd l i v) = length l.
Proof. induction l; intros [|i] v; cbn; auto. Qed.

Lemma ids_ok_nth : forall n l i x, ids_ok n l -> nth_error l i = Some x -> x < n.
Proof.
  intros n l i x H E. unfold ids_ok in H. rewrite Forall_forall in H. apply H.
  eapply nth_error_In; eassumption.
Qed.

Lemma wf_push : forall id s, wf s -> id < length (heap s) -> wf (do_push id s).
Proof.
  intros id s (H1 & H2 & H3 & H4 & H5 & H6) Hid. unfold wf, do_push; cbn.
  repeat split; auto. constructor; auto.
Qed.

Lemma wf_alloc : forall o s, wf s -> wf (fst (alloc o s)) /\ snd (alloc o s) < length (heap (fst (alloc o s))).
Proof.
  intros o s (H1 & H2 & H3 & H4 & H5 & H6). unfold wf, alloc; cbn. rewrite app_length; cbn.
  repeat split; auto; try lia; eapply ids_ok_mono; try eassumption; lia.
Qed.

Lemma wf_pop : forall s, wf s -> wf (fst (fst (do_pop s))).
Proof.
  intros s (H1 & H2 & H3 & H4 & H5 & H6). unfold do_pop.
  destruct (sseq s) as [|a ss] eqn:Es; cbn.
  - unfold wf; rewrite Es; auto 10.
  - destruct (rng s) as [|g rr] eqn:Er; cbn in *; [discriminate|].
    unfold wf; cbn. inversion H1; subst. repeat split; auto.
Qed.

Lemma wf_spawn : forall id n s, wf s -> wf (do_spawn id n s).
Proof.
  intros id n s (H1 & H2 & H3 & H4 & H5 & H6). unfold wf, do_spawn; cbn.
  rewrite app_length, upd_length. unfold children; rewrite map_length, seq_length.
  repeat split; auto.
  - eapply ids_ok_mono; try eassumption; lia.
  - apply Forall_app; split.
    + apply Forall_forall. intros x Hx. apply in_rev in Hx. apply in_seq in Hx. lia.
    + eapply ids_ok_mono; try eassumption; lia.
  - eapply ids_ok_mono; try eassumption; lia.
Qed.

Lemma wf_draw : forall k n s, wf s -> wf (fst (fst (do_draw k n s))).
Proof.
  intros k n s (H1 & H2 & H3 & H4 & H5 & H6). unfold do_draw.
  destruct (rng s) as [|g rr] eqn:Er; cbn.
  - unfold wf; rewrite Er; auto 10.
  - unfold wf; cbn. repeat split; auto.
Qed.

Lemma wf_getstate : forall s, wf s -> wf (do_getstate s).
Proof. intros s (H1 & H2 & H3 & H4 & H5 & H6). unfold wf, do_getstate; cbn. repeat split; auto. Qed.

Lemma wf_setstate : forall s, wf s -> wf (do_setstate s).
Proof.
  intros s (H1 & H2 & H3 & H4 & H5 & H6). unfold do_setstate.
  destruct (saved s) as [[[h ss] rr]|] eqn:Es; [|unfold wf; rewrite Es; auto 10].
  destruct H4 as [Ha Hb]. unfold wf; cbn. rewrite app_length, map_length.
  repeat split; auto.
  - apply Forall_forall. intros x Hx. apply in_map_iff in Hx as (y & <- & Hy).
    unfold ids_ok in Ha. rewrite Forall_forall in Ha. specialize (Ha _ Hy). lia.
  - eapply ids_ok_mono; try eassumption; lia.
  - eapply ids_ok_mono; try eassumption; lia.
Qed.

Lemma wf_resolve : forall i s s1 id, wf s -> resolve i s = Some (s1, id) -> wf s1 /\ id < length (heap s1).
Proof.
  intros [z|v] s s1 id Hw H; cbn in H.
  - injection H as <- <-. apply (wf_alloc (mkS z [] 0) s Hw).
  - destruct (nth_error (pool s) v) as [x|] eqn:E; [|discriminate].
    injection H as <- <-. split; auto.
    destruct Hw as (_ & H2 & _). eapply ids_ok_nth; eassumption.
Qed.

Lemma wf_ctx_exit : forall d r, wf (fst (fst r)) -> wf (fst (fst (ctx_exit d r))).
Proof.
  intros d [[s3 o] t] Hw. cbn in Hw. unfold ctx_exit.
  pose proof (wf_pop s3 Hw) as Hp.
  destruct (do_pop s3) as [[s4 o4] t4]. cbn in Hp.
  destruct o4; [exact Hp|]. destruct (d =? length (sseq s4)); exact Hp.
Qed.

Lemma wf_new_ctx : forall id s, wf s -> id < length (heap s) -> wf (new_ctx id s).
Proof.
  intros id s (H1 & H2 & H3 & H4 & H5 & H6) Hid. unfold wf, new_ctx; cbn.
  rewrite map_app, app_length. cbn. repeat split; auto.
  - apply Forall_app; split; [assumption|]. repeat constructor. assumption.
  - constructor; [lia|]. eapply ids_ok_mono; try eassumption; lia.
Qed.

Lemma map_upd_same : forall (l : list cobj) i d,
  map c_sseq (upd l i (mkC (c_sseq (nth i l dC)) d)) = map c_sseq l.
Proof. induction l; intros [|i] d; cbn; auto. rewrite IHl. reflexivity. Qed.

Lemma wf_set_cdepth : forall cid d s, wf s -> wf (set_cdepth cid d s).
Proof.
  intros cid d s (H1 & H2 & H3 & H4 & H5 & H6). unfold wf, set_cdepth, cobj_of; cbn.
  rewrite map_upd_same, upd_length. repeat split; auto.
Qed.

Lemma wf_cobj : forall s c cid, wf s -> nth_error (cpool s) c = Some cid ->
  c_sseq (cobj_of s cid) < length (heap s).
Proof.
  intros s c cid (H1 & H2 & H3 & H4 & H5 & H6) E.
  pose proof (ids_ok_nth _ _ _ _ H6 E) as Hc. unfold cobj_of.
  unfold ids_ok in H5. rewrite Forall_forall in H5. apply H5.
  rewrite <- (map_nth c_sseq). apply nth_In. rewrite map_length. exact Hc.
Qed.

Lemma wf_exec : forall p s, wf s -> wf (fst (fst (exec p s))).
Proof.
  induction p; intros s Hw; cbn [exec].
  - exact Hw.
  - specialize (IHp1 s Hw). destruct (exec p1 s) as [[s1 o1] t1]. cbn in IHp1.
    destruct o1; [exact IHp1|].
    specialize (IHp2 s1 IHp1). destruct (exec p2 s1) as [[s2 o2] t2]. exact IHp2.
  - apply wf_draw; assumption.
  - destruct (sseq s); cbn; [exact Hw|apply wf_spawn; assumption].
  - destruct (nth_error (pool s) v); cbn; [apply wf_spawn|]; assumption.
  - destruct (nth_error (pool s) v) as [id|] eqn:E; cbn; [|assumption].
    apply wf_push; auto. destruct Hw as (_ & H2 & _). eapply ids_ok_nth; eassumption.
  - pose proof (wf_alloc (mkS z [] 0) s Hw) as [Ha Hb].
    destruct (alloc (mkS z [] 0) s) as [s1 id]. cbn in *. apply wf_push; assumption.
  - apply wf_pop; assumption.
  - destruct (resolve i s) as [[s1 id]|] eqn:E; [|exact Hw].
    destruct (wf_resolve _ _ _ _ Hw E) as [H1 H2].
    apply wf_ctx_exit. apply IHp. apply wf_push; assumption.
  - exact Hw.
  - specialize (IHp s Hw). destruct (exec p s) as [[s1 o1] t1]. exact IHp.
  - apply wf_getstate; assumption.
  - apply wf_setstate; assumption.
  - destruct (resolve i s) as [[s1 id]|] eqn:E; [|exact Hw].
    destruct (wf_resolve _ _ _ _ Hw E) as [H1 H2]. cbn. apply wf_new_ctx; assumption.
  - destruct (nth_error (cpool s) c) as [cid|] eqn:E; [|exact Hw].
    pose proof (wf_cobj s c cid Hw E) as Hc.
    assert (Hw1 : wf (do_push (c_sseq (cobj_of s cid)) (set_cdepth cid (length (sseq s)) s))).
    { apply wf_push; [apply wf_set_cdepth; assumption|exact Hc]. }
    specialize (IHp _ Hw1). unfold obj_exit.
    destruct (exec p _) as [[s3 o3] t3] eqn:Eb. apply wf_ctx_exit. exact IHp.
Qed.

Lemma wf_isolate : forall s, wf s -> wf (isolate s).
Proof.
  intros s (H1 & H2 & H3 & H4 & H5 & H6). unfold wf, isolate; cbn. repeat split; auto. constructor.
Qed.

Lemma wf_init : forall e, wf (init e).
Proof. intros e. unfold wf, init; cbn. repeat split; auto; repeat constructor. Qed.

(* ------------------------------------------------------------------------------------------ *)
(* Leaving a context restores the stacks; what happens inside is independent of the stacks     *)
(* ------------------------------------------------------------------------------------------ *)

Lemma ctx_restores : forall i body s s1 o,
  noobj body = true -> wf s ->
  exec (Ctx i body) (isolate s) = (s1, o, false) ->
  sseq s1 = [] ->
  exec (Ctx i body) s = (set_stacks s1 (sseq s) (rng s), o, false).
Proof.
  intros i body s s1 o Hno Hw H Hs.
  pose proof (wf_exec (Ctx i body) (isolate s) (wf_isolate s Hw)) as Hw1.
  rewrite H in Hw1. cbn in Hw1. destruct Hw1 as (_ & _ & Hl & _).
  rewrite Hs in Hl. cbn in Hl. symmetry in Hl. apply length_zero_iff_nil in Hl.
  pose proof (frame_exec (Ctx i body) Hno _ (sseq s) (rng s) _ _ H) as Hf.
  rewrite frame_isolate in Hf. rewrite Hf. rewrite frame_empty by assumption. reflexivity.
Qed.

(* if the context is left normally or with the body's own exception, the depth check passed *)
Lemma ctx_exit_balanced : forall i body s s1 o t,
  exec (Ctx i body) (isolate s) = (s1, o, t) ->
  o = None \/ o = Some EUser -> sseq s1 = [].
Proof.
  intros i body s s1 o t H Ho. cbn [exec] in H.
  destruct (resolve i (isolate s)) as [[s0 id]|] eqn:Er.
  - assert (Hd : length (sseq s0) = 0).
    { destruct i; cbn in Er.
      - injection Er as <- _. reflexivity.
      - destruct (nth_error (pool s) v); [|discriminate]. injection Er as <- _. reflexivity. }
    rewrite Hd in H. destruct (exec body (do_push id s0)) as [[s3 o3] t3].
    unfold ctx_exit in H. destruct (do_pop s3) as [[s4 o4] t4] eqn:Hp.
    destruct o4 as [e|].
    + injection H as <- <- <-. unfold do_pop in Hp.
      destruct (sseq s3); [|destruct (rng s3)]; inversion Hp; subst; destruct Ho; discriminate.
    + destruct (0 =? length (sseq s4)) eqn:E.
      * injection H as <- _ _. apply Nat.eqb_eq in E. symmetry in E.
        apply length_zero_iff_nil in E. exact E.
      * injection H as _ <- _. destruct Ho; discriminate.
  - injection H as <- _ _. reflexivity.
Qed.

Lemma ctx_local : forall i body s s' s1 o,
  noobj body = true -> wf s -> wf s' -> isolate s = isolate s' ->
  exec (Ctx i body) (isolate s) = (s1, o, false) -> sseq s1 = [] ->
  exec (Ctx i body) s = (set_stacks s1 (sseq s) (rng s), o, false) /\
  exec (Ctx i body) s' = (set_stacks s1 (sseq s') (rng s'), o, false).
Proof.
  intros i body s s' s1 o Hno Hw Hw' Hi H Hs. split.
  - apply ctx_restores; assumption.
  - apply ctx_restores; try assumption. rewrite <- Hi. assumption.
Qed.

(* an unbalanced body is detected by __exit__, and this is the state left behind *)
Lemma unbalanced_detected : forall d s3 o t x ss g rr,
  sseq s3 = x :: ss -> rng s3 = g :: rr -> length ss <> d ->
  ctx_exit d (s3, o, t) = (set_stacks s3 ss rr, Some ERuntime, t).
Proof.
  intros d s3 o t x ss g rr Hs Hr Hd. unfold ctx_exit, do_pop. rewrite Hs, Hr.
  cbn [set_stacks sseq]. destruct (d =? length ss) eqn:E; [|reflexivity].
  apply Nat.eqb_eq in E. congruence.
Qed.

(* ------------------------------------------------------------------------------------------ *)
(* Programs that use the stacks only through `with Context`                                    *)
(* ------------------------------------------------------------------------------------------ *)

Definition same_id (g g' : gen) : Prop := g_ent g = g_ent g' /\ g_key g = g_key g'.

Lemma scoped_exec : forall p, scoped p = true ->
  forall s a A g S, sseq s = a :: A -> rng s = g :: S ->
  exists s1 o g1, exec p s = (s1, o, false) /\ sseq s1 = a :: A /\ rng s1 = g1 :: S /\
                  same_id g g1 /\ (o = None \/ o = Some EUser).
Proof.
  induction p; intros Hsc s a A g S Hs Hr; cbn [scoped] in Hsc; try discriminate; cbn [exec].
  - exists s, None, g. unfold same_id; auto 10.
  - apply andb_true_iff in Hsc as [H1 H2].
    destruct (IHp1 H1 s a A g S Hs Hr) as (s1 & o1 & g1 & E1 & Hs1 & Hr1 & Hi1 & Ho1).
    rewrite E1. destruct o1 as [e|].
    + exists s1, (Some e), g1. auto 10.
    + destruct (IHp2 H2 s1 a A g1 S Hs1 Hr1) as (s2 & o2 & g2 & E2 & Hs2 & Hr2 & Hi2 & Ho2).
      rewrite E2. exists s2, o2, g2. cbn. repeat split; auto.
      * destruct Hi1, Hi2; congruence.
      * destruct Hi1, Hi2; congruence.
  - unfold do_draw. rewrite Hr. eexists _, None, _. cbn. repeat split; eauto.
  - rewrite Hs. eexists _, None, g. unfold do_spawn; cbn. unfold same_id. repeat split; eauto.
  - destruct (nth_error (pool s) v).
    + eexists _, None, g. unfold do_spawn; cbn. unfold same_id. repeat split; eauto.
    + exists s, None, g. unfold same_id; auto 10.
  - destruct (resolve i s) as [[s0 id]|] eqn:Er.
    + assert (Hs0 : sseq s0 = a :: A /\ rng s0 = g :: S).
      { destruct i; cbn in Er.
        - injection Er as <- _. cbn. auto.
        - destruct (nth_error (pool s) v); [|discriminate]. injection Er as <- _. auto. }
      destruct Hs0 as [Hs0 Hr0].
      destruct (IHp Hsc (do_push id s0) id (a :: A) (mkgen (lookup s0 id)) (g :: S))
        as (s3 & o3 & g3 & E3 & Hs3 & Hr3 & _ & Ho3).
      { unfold do_push; cbn. rewrite Hs0. reflexivity. }
      { unfold do_push; cbn. rewrite Hr0. reflexivity. }
      rewrite E3. unfold ctx_exit, do_pop. rewrite Hs3, Hr3. cbn [set_stacks sseq].
      rewrite Hs0. rewrite Nat.eqb_refl.
      eexists _, o3, g. unfold same_id. cbn. repeat split; auto.
    + exists s, None, g. unfold same_id; auto 10.
  - exists s, (Some EUser), g. unfold same_id; auto 10.
  - destruct (IHp Hsc s a A g S Hs Hr) as (s1 & o1 & g1 & E1 & Hs1 & Hr1 & Hi1 & Ho1).
    rewrite E1. exists s1, None, g1. auto 10.
Qed.

Lemma scoped_context_restores : forall i body s s' o t,
  scoped body = true ->
  exec (Ctx i body) s = (s', o, t) ->
  sseq s' = sseq s /\ rng s' = rng s /\ t = false /\ (o = None \/ o = Some EUser).
Proof.
  intros i body s s' o t Hsc H. cbn [exec] in H.
  destruct (resolve i s) as [[s0 id]|] eqn:Er.
  - assert (Hs0 : sseq s0 = sseq s /\ rng s0 = rng s).
    { destruct i; cbn in Er.
      - injection Er as <- _. cbn. auto.
      - destruct (nth_error (pool s) v); [|discriminate]. injection Er as <- _. auto. }
    destruct Hs0 as [Hs0 Hr0].
    destruct (scoped_exec body Hsc (do_push id s0) id (sseq s0) (mkgen (lookup s0 id)) (rng s0))
      as (s3 & o3 & g3 & E3 & Hs3 & Hr3 & _ & Ho3); try reflexivity.
    rewrite E3 in H. unfold ctx_exit, do_pop in H. rewrite Hs3, Hr3 in H.
    cbn [set_stacks sseq] in H. rewrite Nat.eqb_refl in H.
    injection H as <- <- <-. cbn. rewrite Hs0, Hr0. auto.
  - injection H as <- <- <-. auto.
Qed.

(* ------------------------------------------------------------------------------------------ *)
(* Draws inside a context depend only on its seed and the operations inside                    *)
(* ------------------------------------------------------------------------------------------ *)

(* bodies that do not refer to SeedSequence objects created elsewhere *)
Fixpoint pure (p : prog) : bool :=
  match p with
  | Skip | Draw _ _ | Spawn _ | Raise => true
  | Seq p q => pure p && pure q
  | Ctx (ISeed _) b => pure b
  | Try b => pure b
  | _ => false
  end.

Lemma lookup_alloc : forall o s, lookup (fst (alloc o s)) (snd (alloc o s)) = o.
Proof.
  intros o s. unfold lookup, alloc; cbn. rewrite app_nth2 by lia. rewrite Nat.sub_diag. reflexivity.
Qed.

(* what a pure program draws, the exception it ends with and the generator it leaves on top are
   functions of the program and of the generator on top when it starts -- of nothing else *)
Lemma pure_exec : forall p, pure p = true ->
  forall g, exists new o g1, forall s a A S, sseq s = a :: A -> rng s = g :: S ->
  exists s1, exec p s = (s1, o, false) /\ sseq s1 = a :: A /\ rng s1 = g1 :: S /\
             dlog s1 = new ++ dlog s.
Proof.
  induction p; intros Hp g; cbn [pure] in Hp; try discriminate.
  - exists [], None, g. intros s a A S Hs Hr. exists s. cbn. auto.
  - apply andb_true_iff in Hp as [H1 H2].
    destruct (IHp1 H1 g) as (n1 & o1 & g1 & F1).
    destruct o1 as [e|].
    + exists n1, (Some e), g1. intros s a A S Hs Hr.
      destruct (F1 s a A S Hs Hr) as (s1 & E1 & R1). exists s1. cbn [exec]. rewrite E1. auto.
    + destruct (IHp2 H2 g1) as (n2 & o2 & g2 & F2).
      exists (n2 ++ n1), o2, g2. intros s a A S Hs Hr.
      destruct (F1 s a A S Hs Hr) as (s1 & E1 & Hs1 & Hr1 & Hd1).
      destruct (F2 s1 a A S Hs1 Hr1) as (s2 & E2 & Hs2 & Hr2 & Hd2).
      exists s2. cbn [exec]. rewrite E1, E2. cbn. repeat split; auto.
      rewrite Hd2, Hd1, app_assoc. reflexivity.
  - exists [mkD (g_ent g) (g_key g) (g_hist g) k n], None,
           (mkG (g_ent g) (g_key g) ((k, n) :: g_hist g)).
    intros s a A S Hs Hr. cbn [exec]. unfold do_draw. rewrite Hr.
    eexists. split; [reflexivity|]. cbn. auto.
  - exists [], None, g. intros s a A S Hs Hr. cbn [exec]. rewrite Hs.
    eexists. split; [reflexivity|]. unfold do_spawn; cbn. auto.
  - destruct i as [z|v]; [|discriminate].
    destruct (IHp Hp (mkgen (mkS z [] 0))) as (n1 & o1 & g1 & F1).
    exists n1, o1, g. intros s a A S Hs Hr. cbn [exec resolve].
    pose proof (lookup_alloc (mkS z [] 0) s) as Hl.
    destruct (alloc (mkS z [] 0) s) as [s0 id] eqn:Ea. cbn in Hl.
    assert (Hs0 : sseq s0 = a :: A /\ rng s0 = g :: S /\ dlog s0 = dlog s).
    { unfold alloc in Ea. injection Ea as <- _. cbn. auto. }
    destruct Hs0 as (Hs0 & Hr0 & Hd0).
    destruct (F1 (do_push id s0) id (a :: A) (g :: S)) as (s3 & E3 & Hs3 & Hr3 & Hd3).
    { unfold do_push; cbn. rewrite Hs0. reflexivity. }
    { unfold do_push; cbn. rewrite Hr0, Hl. reflexivity. }
    rewrite E3. unfold ctx_exit, do_pop. rewrite Hs3, Hr3. cbn [set_stacks sseq].
    rewrite Hs0. rewrite Nat.eqb_refl. eexists. split; [reflexivity|]. cbn.
    repeat split; auto. rewrite Hd3. unfold do_push; cbn. rewrite Hd0. reflexivity.
  - exists [], (Some EUser), g. intros s a A S Hs Hr. exists s. cbn. auto.
  - destruct (IHp Hp g) as (n1 & o1 & g1 & F1).
    exists n1, None, g1. intros s a A S Hs Hr.
    destruct (F1 s a A S Hs Hr) as (s1 & E1 & R1). exists s1. cbn [exec]. rewrite E1. auto.
Qed.

Lemma context_local_pure : forall z body, pure body = true ->
  exists new o, forall s, exists s1,
    exec (Ctx (ISeed z) body) s = (s1, o, false) /\
    dlog s1 = new ++ dlog s /\ sseq s1 = sseq s /\ rng s1 = rng s.
Proof.
  intros z body Hp.
  destruct (pure_exec body Hp (mkgen (mkS z [] 0))) as (n1 & o1 & g1 & F1).
  exists n1, o1. intros s. cbn [exec resolve].
  pose proof (lookup_alloc (mkS z [] 0) s) as Hl.
  destruct (alloc (mkS z [] 0) s) as [s0 id] eqn:Ea. cbn in Hl.
  assert (Hs0 : sseq s0 = sseq s /\ rng s0 = rng s /\ dlog s0 = dlog s).
  { unfold alloc in Ea. injection Ea as <- _. cbn. auto. }
  destruct Hs0 as (Hs0 & Hr0 & Hd0).
  destruct (F1 (do_push id s0) id (sseq s0) (rng s0)) as (s3 & E3 & Hs3 & Hr3 & Hd3).
  { reflexivity. }
  { unfold do_push; cbn. rewrite Hl. reflexivity. }
  rewrite E3. unfold ctx_exit, do_pop. rewrite Hs3, Hr3. cbn [set_stacks sseq].
  rewrite Nat.eqb_refl. eexists. split; [reflexivity|]. cbn.
  rewrite Hd3. unfold do_push; cbn. rewrite Hd0, Hs0, Hr0. auto.
Qed.

(* ------------------------------------------------------------------------------------------ *)
(* Context OBJECTS that are created once and entered several times                              *)
(* ------------------------------------------------------------------------------------------ *)

Lemma cheap_pop : forall s, cheap (fst (fst (do_pop s))) = cheap s.
Proof. intros s; unfold do_pop; destruct (sseq s); [reflexivity|destruct (rng s); reflexivity]. Qed.

Lemma cheap_ctx_exit : forall d r, cheap (fst (fst (ctx_exit d r))) = cheap (fst (fst r)).
Proof.
  intros d [[s3 o] t]. unfold ctx_exit. pose proof (cheap_pop s3) as Hp.
  destruct (do_pop s3) as [[s4 o4] t4]. cbn in *.
  destruct o4; [exact Hp|]. destruct (d =? length (sseq s4)); exact Hp.
Qed.

(* programs without Context objects never touch the Context objects that exist *)
Lemma noobj_cheap : forall p, noobj p = true -> forall s, cheap (fst (fst (exec p s))) = cheap s.
Proof.
  induction p; intros Hno s; cbn [noobj] in Hno; try discriminate;
    try (apply andb_true_iff in Hno as [Hno1 Hno2]); cbn [exec].
  - reflexivity.
  - specialize (IHp1 Hno1 s). destruct (exec p1 s) as [[s1 o1] t1]. cbn in IHp1.
    destruct o1; [exact IHp1|].
    specialize (IHp2 Hno2 s1). destruct (exec p2 s1) as [[s2 o2] t2]. cbn in *. congruence.
  - unfold do_draw. destruct (rng s); reflexivity.
  - destruct (sseq s); reflexivity.
  - destruct (nth_error (pool s) v); reflexivity.
  - destruct (nth_error (pool s) v); reflexivity.
  - reflexivity.
  - apply cheap_pop.
  - destruct (resolve i s) as [[s1 id]|] eqn:E; [|reflexivity].
    rewrite cheap_ctx_exit, (IHp Hno). cbn.
    destruct i; cbn in E.
    + injection E as <- _. reflexivity.
    + destruct (nth_error (pool s) v); [|discriminate]. injection E as <- _. reflexivity.
  - reflexivity.
  - specialize (IHp Hno s). destruct (exec p s) as [[s1 o1] t1]. exact IHp.
  - reflexivity.
  - unfold do_setstate. destruct (saved s) as [[[h ss] rr]|]; reflexivity.
Qed.

Lemma pure_noobj : forall p, pure p = true -> noobj p = true.
Proof.
  induction p; cbn; intros H; try discriminate; try reflexivity.
  - apply andb_true_iff in H as [H1 H2]. rewrite IHp1, IHp2; auto.
  - destruct i; [auto|discriminate].
  - auto.
Qed.

Lemma nth_upd_same' : forall A (l : list A) i v d, i < length l -> nth i (upd l i v) d = v.
Proof. induction l; intros [|i] v d H; cbn in *; try lia; auto. apply IHl. lia. Qed.

(* Entering a Context OBJECT -- for the first time or again, at top level or nested -- pushes a NEW
   generator built from its seed sequence: what a pure body draws, and the exception it ends
   with, are functions of that generator identity and of the body, not of the state (hence not
   of earlier entries of the same object); both stacks are restored. *)
Lemma reentry_local_pure : forall body, pure body = true -> forall g0 : gen,
  exists new o, forall s c cid,
    nth_error (cpool s) c = Some cid -> cid < length (cheap s) ->
    mkgen (lookup s (c_sseq (cobj_of s cid))) = g0 ->
    exists s1, exec (Enter c body) s = (s1, o, false) /\
               dlog s1 = new ++ dlog s /\ sseq s1 = sseq s /\ rng s1 = rng s.
Proof.
  intros body Hp g0.
  destruct (pure_exec body Hp g0) as (n1 & o1 & g1 & F1).
  exists n1, o1. intros s c cid Hc Hlt Hg. cbn [exec]. rewrite Hc.
  set (s1 := set_cdepth cid (length (sseq s)) s).
  set (sid := c_sseq (cobj_of s cid)).
  destruct (F1 (do_push sid s1) sid (sseq s) (rng s)) as (s3 & E3 & Hs3 & Hr3 & Hd3).
  { reflexivity. }
  { unfold do_push; cbn. unfold sid. fold (lookup s (c_sseq (cobj_of s cid))). rewrite <- Hg. reflexivity. }
  rewrite E3. unfold obj_exit.
  assert (Hch : cheap s3 = cheap s1).
  { pose proof (noobj_cheap body (pure_noobj _ Hp) (do_push sid s1)) as H. rewrite E3 in H. exact H. }
  assert (Hdp : c_depth (cobj_of s3 cid) = length (sseq s)).
  { unfold cobj_of. rewrite Hch. unfold s1, set_cdepth. cbn [cheap]. rewrite nth_upd_same' by assumption. reflexivity. }
  rewrite Hdp. unfold ctx_exit, do_pop. rewrite Hs3, Hr3. cbn [set_stacks sseq].
  rewrite Nat.eqb_refl. eexists. split; [reflexivity|]. cbn. rewrite Hd3. auto.
Qed.

(* bodies that change the stacks only through `with`, on inline contexts or on Context objects *)
Fixpoint scoped2 (p : prog) : bool :=
  match p with
  | Skip | Draw _ _ | Spawn _ | SpawnFrom _ _ | Raise | NewCtx _ => true
  | Seq p q => scoped2 p && scoped2 q
  | Ctx _ b => scoped2 b
  | Try b => scoped2 b
  | Enter _ b => scoped2 b
  | Push _ | PushSeed _ | Pop | GetState | SetState => false
  end.

Lemma scoped2_exec : forall p, scoped2 p = true ->
  forall s a A g S, sseq s = a :: A -> rng s = g :: S ->
  exists s1 o g1, exec p s = (s1, o, false) /\ sseq s1 = a :: A /\ rng s1 = g1 :: S /\
                  same_id g g1 /\ o <> Some EIndex.
Proof.
  induction p; intros Hsc s a A g S Hs Hr; cbn [scoped2] in Hsc; try discriminate; cbn [exec].
  - exists s, None, g. unfold same_id. repeat split; auto; discriminate.
  - apply andb_true_iff in Hsc as [H1 H2].
    destruct (IHp1 H1 s a A g S Hs Hr) as (s1 & o1 & g1 & E1 & Hs1 & Hr1 & Hi1 & Ho1).
    rewrite E1. destruct o1 as [e|].
    + exists s1, (Some e), g1. auto 10.
    + destruct (IHp2 H2 s1 a A g1 S Hs1 Hr1) as (s2 & o2 & g2 & E2 & Hs2 & Hr2 & Hi2 & Ho2).
      rewrite E2. exists s2, o2, g2. cbn. repeat split; auto;
        destruct Hi1, Hi2; congruence.
  - unfold do_draw. rewrite Hr. eexists _, None, _. cbn. unfold same_id. repeat split; eauto; discriminate.
  - rewrite Hs. eexists _, None, g. unfold do_spawn, same_id; cbn. repeat split; eauto; discriminate.
  - destruct (nth_error (pool s) v).
    + eexists _, None, g. unfold do_spawn, same_id; cbn. repeat split; eauto; discriminate.
    + exists s, None, g. unfold same_id. repeat split; auto; discriminate.
  - destruct (resolve i s) as [[s0 id]|] eqn:Er.
    + assert (Hs0 : sseq s0 = a :: A /\ rng s0 = g :: S).
      { destruct i; cbn in Er.
        - injection Er as <- _. cbn. auto.
        - destruct (nth_error (pool s) v); [|discriminate]. injection Er as <- _. auto. }
      destruct Hs0 as [Hs0 Hr0].
      destruct (IHp Hsc (do_push id s0) id (a :: A) (mkgen (lookup s0 id)) (g :: S))
        as (s3 & o3 & g3 & E3 & Hs3 & Hr3 & _ & Ho3).
      { unfold do_push; cbn. rewrite Hs0. reflexivity. }
      { unfold do_push; cbn. rewrite Hr0. reflexivity. }
      rewrite E3. unfold ctx_exit, do_pop. rewrite Hs3, Hr3. cbn [set_stacks sseq].
      rewrite Hs0. rewrite Nat.eqb_refl.
      eexists _, o3, g. unfold same_id. cbn. repeat split; auto.
    + exists s, None, g. unfold same_id. repeat split; auto; discriminate.
  - exists s, (Some EUser), g. unfold same_id. repeat split; auto; discriminate.
  - destruct (IHp Hsc s a A g S Hs Hr) as (s1 & o1 & g1 & E1 & Hs1 & Hr1 & Hi1 & Ho1).
    rewrite E1. exists s1, None, g1. destruct Hi1. unfold same_id. repeat split; auto; discriminate.
  - destruct (resolve i s) as [[s0 id]|] eqn:Er.
    + assert (Hs0 : sseq s0 = a :: A /\ rng s0 = g :: S).
      { destruct i; cbn in Er.
        - injection Er as <- _. cbn. auto.
        - destruct (nth_error (pool s) v); [|discriminate]. injection Er as <- _. auto. }
      destruct Hs0 as [Hs0 Hr0].
      eexists _, None, g. unfold new_ctx, same_id; cbn. repeat split; eauto; discriminate.
    + exists s, None, g. unfold same_id. repeat split; auto; discriminate.
  - destruct (nth_error (cpool s) c) as [cid|].
    + set (s1 := set_cdepth cid (length (sseq s)) s).
      destruct (IHp Hsc (do_push (c_sseq (cobj_of s cid)) s1) (c_sseq (cobj_of s cid)) (a :: A)
                    (mkgen (lookup s1 (c_sseq (cobj_of s cid)))) (g :: S))
        as (s3 & o3 & g3 & E3 & Hs3 & Hr3 & _ & Ho3).
      { unfold do_push, s1; cbn. rewrite Hs. reflexivity. }
      { unfold do_push, s1; cbn. rewrite Hr. reflexivity. }
      rewrite E3. unfold obj_exit, ctx_exit, do_pop. rewrite Hs3, Hr3. cbn [set_stacks sseq].
      destruct (c_depth (cobj_of s3 cid) =? length (a :: A)).
      * eexists _, o3, g. unfold same_id. cbn. repeat split; auto.
      * eexists _, (Some ERuntime), g. unfold same_id. cbn. repeat split; auto; discriminate.
    + exists s, None, g. unfold same_id. repeat split; auto; discriminate.
Qed.

(* leaving a Context object -- entered for whichever time, also nested in itself -- restores both
   stacks; the only exception __exit__ can add is the RuntimeError of the depth check (which a
   nested entry of the SAME object provokes, because it overwrites self._depth) *)
Lemma objects_restore : forall c body s s' o t,
  scoped2 body = true ->
  exec (Enter c body) s = (s', o, t) ->
  sseq s' = sseq s /\ rng s' = rng s /\ t = false /\ o <> Some EIndex.
Proof.
  intros c body s s' o t Hsc H. cbn [exec] in H.
  destruct (nth_error (cpool s) c) as [cid|].
  - set (s1 := set_cdepth cid (length (sseq s)) s) in *.
    destruct (scoped2_exec body Hsc (do_push (c_sseq (cobj_of s cid)) s1) (c_sseq (cobj_of s cid)) (sseq s)
                (mkgen (lookup s1 (c_sseq (cobj_of s cid)))) (rng s))
      as (s3 & o3 & g3 & E3 & Hs3 & Hr3 & _ & Ho3); try reflexivity.
    rewrite E3 in H. unfold obj_exit, ctx_exit, do_pop in H. rewrite Hs3, Hr3 in H.
    cbn [set_stacks sseq] in H.
    destruct (c_depth (cobj_of s3 cid) =? length (sseq s)); injection H as <- <- <-; cbn;
      repeat split; auto; discriminate.
  - injection H as <- <- <-. repeat split; auto; discriminate.
Qed.

(* ------------------------------------------------------------------------------------------ *)
(* spawn                                                                                       *)
(* ------------------------------------------------------------------------------------------ *)

Lemma map_seq_shift : forall A (f : nat -> A) n m,
  map f (seq n m) = map (fun i => f (n + i)) (seq 0 m).
Proof.
  intros A f n m. revert n. induction m; intros n; cbn; [reflexivity|].
  rewrite Nat.add_0_r. f_equal. rewrite IHm. rewrite <- seq_shift, map_map.
  apply map_ext. intros i. f_equal. lia.
Qed.

(* spawning n and then m children yields the same objects as spawning n + m at once *)
Lemma children_add : forall o n m,
  children o (n + m) = children o n ++ children (mkS (s_ent o) (s_key o) (s_nch o + n)) m.
Proof.
  intros o n m. unfold children. rewrite seq_app, map_app. f_equal. cbn [s_ent s_key s_nch plus].
  rewrite map_seq_shift. apply map_ext. intros i. do 3 f_equal. lia.
Qed.

Lemma children_keys_nodup : forall o n, NoDup (map s_key (children o n)).
Proof.
  intros o n. unfold children. rewrite map_map. cbn [s_key].
  apply FinFun.Injective_map_NoDup; [|apply seq_NoDup].
  intros i j H. apply app_inv_head in H. injection H as H. lia.
Qed.

(* children never repeat, however the spawn calls are split up *)
Lemma spawn_fresh : forall o n m,
  NoDup (map s_key (children o n ++ children (mkS (s_ent o) (s_key o) (s_nch o + n)) m)).
Proof. intros. rewrite <- children_add. apply children_keys_nodup. Qed.

Lemma spawn_deterministic : forall (o : sobj) (n m : nat),
  children o (n + m) = children o n ++ children (mkS (s_ent o) (s_key o) (s_nch o + n)) m /\
  NoDup (map s_key (children o n ++ children (mkS (s_ent o) (s_key o) (s_nch o + n)) m)).
Proof. intros o n m. split; [apply children_add|apply spawn_fresh]. Qed.

Lemma children_not_parent : forall o n c, In c (children o n) -> s_key c <> s_key o.
Proof.
  intros o n c H. unfold children in H. apply in_map_iff in H as (i & <- & _). cbn.
  intros E. apply (f_equal (@length nat)) in E. rewrite app_length in E. cbn in E. lia.
Qed.

Lemma nth_upd_same : forall A (l : list A) i v d, i < length l -> nth i (upd l i v) d = v.
Proof. induction l; intros [|i] v d H; cbn in *; try lia; auto. apply IHl. lia. Qed.

(* the state-level reading: after spawn_sseq(n, parent) the parent's counter has advanced by n *)
Lemma spawn_advances : forall id n s, id < length (heap s) ->
  lookup (do_spawn id n s) id =
  mkS (s_ent (lookup s id)) (s_key (lookup s id)) (s_nch (lookup s id) + n).
Proof.
  intros id n s H. unfold do_spawn, lookup at 1. cbn [heap].
  rewrite app_nth1 by (rewrite upd_length; exact H). apply nth_upd_same. exact H.
Qed.

(* ------------------------------------------------------------------------------------------ *)
(* getState / setState                                                                         *)
(* ------------------------------------------------------------------------------------------ *)

Lemma setstate_roundtrip : forall s s2,
  saved s2 = Some (heap s, sseq s, rng s) ->
  rng (do_setstate s2) = rng s /\ view_sseq (do_setstate s2) = view_sseq s.
Proof.
  intros s s2 H. unfold do_setstate. rewrite H. cbn. split; [reflexivity|].
  unfold view_sseq. cbn. rewrite map_map. apply map_ext. intros i. unfold lookup. cbn.
  rewrite Nat.add_comm. apply app_nth2_plus.
Qed.
