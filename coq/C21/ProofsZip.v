(* C21 -- proofs about the model of concatenate_zip. *)
From Coq Require Import List Bool Arith ZArith Lia.
Import ListNotations.
Require Import NV.C21.Model NV.C21.ModelVI NV.C21.ModelZip.

Lemma czip_self (l : list key) : czip l l = zip2 l.
Proof. induction l as [|k l IH]; cbn; [reflexivity | now rewrite IH]. Qed.

Lemma czip_length {A} (a b : list A) : length a = length b -> length (czip a b) = 2 * length a.
Proof.
  revert b; induction a as [|x a IH]; intros [|y b] H; cbn [length czip] in *; try discriminate; auto.
  injection H as H. rewrite (IH _ H). lia.
Qed.

Lemma czip_nth {A} (a b : list A) (d : A) i :
  length a = length b -> i < length a ->
  nth (2 * i) (czip a b) d = nth i a d /\ nth (2 * i + 1) (czip a b) d = nth i b d.
Proof.
  revert b i; induction a as [|x a IH]; intros [|y b] i H Hi; cbn [length] in *; try discriminate; try lia.
  destruct i as [|i].
  - cbn. auto.
  - injection H as H.
    replace (2 * S i + 1) with (S (S (2 * i + 1))) by lia.
    replace (2 * S i) with (S (S (2 * i))) by lia.
    cbn [czip nth]. apply IH; lia.
Qed.

Lemma vi_mirror_pairing (ks : list key) (d : key) i :
  czip ks ks = zip2 ks /\
  (i < length ks -> nth (2 * i) (zip2 ks) d = nth i ks d /\ nth (2 * i + 1) (zip2 ks) d = nth i ks d).
Proof.
  split; [apply czip_self|]. intros Hi. rewrite <- czip_self. apply czip_nth; auto.
Qed.

Lemma sgns_nth n i : i < n -> nth (2 * i) (sgns n) 0%Z = 1%Z /\ nth (2 * i + 1) (sgns n) 0%Z = (-1)%Z.
Proof.
  intros Hi. unfold sgns.
  destruct (czip_nth (repeat 1%Z n) (repeat (-1)%Z n) 0%Z i) as [H1 H2];
    rewrite ?repeat_length; auto.
  rewrite H1, H2. split; apply nth_error_nth; rewrite nth_error_repeat; auto.
Qed.

Lemma czip_interleaves (A : Type) (a b : list A) (d : A) (i : nat) :
  length a = length b -> i < length a ->
  length (czip a b) = 2 * length a /\
  nth (2 * i) (czip a b) d = nth i a d /\ nth (2 * i + 1) (czip a b) d = nth i b d.
Proof. intros H Hi. split; [exact (czip_length a b H) | exact (czip_nth a b d i H Hi)]. Qed.
