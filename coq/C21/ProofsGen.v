(* C21 -- the functions regenerated from nifty/cl/random.py (Gen_Random.v) ARE the operations of the
   hand model (Model.v). *)
From Coq Require Import List ZArith Bool Arith Lia.
Import ListNotations.
Require Import NV.C21.Model NV.C21.Stmt NV.C21.Gen_Random.

Lemma gen_push_sseq : forall id s, g_push_sseq id s = (do_push id s, None, false).
Proof. intros id [h p ss rr sv dl ch cp]. reflexivity. Qed.

Lemma gen_push_sseq_from_seed : forall z s, g_push_sseq_from_seed z s = exec (PushSeed z) s.
Proof. intros z [h p ss rr sv dl ch cp]. reflexivity. Qed.

Lemma gen_pop_sseq : forall s, g_pop_sseq s = do_pop s.
Proof.
  intros [h p ss rr sv dl ch cp]. unfold g_pop_sseq, bind, sseq_pop, rng_pop, do_pop. cbn.
  destruct ss as [|a ss]; [reflexivity|]. cbn. destruct rr as [|g rr]; reflexivity.
Qed.

Lemma gen_spawn_sseq : forall n s,
  g_spawn_sseq n None s = exec (Spawn n) s /\
  (forall id, g_spawn_sseq n (Some id) s = (do_spawn id n s, None, false)).
Proof.
  intros n s. split; [|reflexivity].
  unfold g_spawn_sseq, parent_default_top, spawn_parent. cbn [exec]. destruct (sseq s); reflexivity.
Qed.

Lemma gen_ctx_init : forall i s, g_ctx_init i s = exec (NewCtx i) s.
Proof. reflexivity. Qed.

Lemma nth_upd : forall A (l : list A) i v d, nth i (upd l i v) d = if i <? length l then v else d.
Proof.
  induction l; intros [|i] v d; cbn; auto. rewrite IHl. reflexivity.
Qed.

Lemma c_sseq_set_cdepth : forall cid d s, c_sseq (cobj_of (set_cdepth cid d s) cid) = c_sseq (cobj_of s cid).
Proof.
  intros cid d s. unfold cobj_of, set_cdepth. cbn [cheap]. rewrite nth_upd.
  destruct (cid <? length (cheap s)) eqn:E; [reflexivity|].
  apply Nat.ltb_ge in E. rewrite nth_overflow by assumption. reflexivity.
Qed.

Lemma gen_ctx_enter : forall cid s,
  g_ctx_enter cid s =
  (do_push (c_sseq (cobj_of s cid)) (set_cdepth cid (length (sseq s)) s), None, false).
Proof.
  intros cid s. unfold g_ctx_enter, bind, set_self_depth_len, with_self_sseq.
  rewrite gen_push_sseq, c_sseq_set_cdepth. reflexivity.
Qed.

(* `with ctx: body` through the generated __enter__/__exit__ and Python's with-protocol is the
   model's [Enter] *)
Lemma gen_with_object : forall c cid body s,
  nth_error (cpool s) c = Some cid ->
  py_with (g_ctx_enter cid) (g_ctx_exit cid) g_ctx_exit_value (exec body) s = exec (Enter c body) s.
Proof.
  intros c cid body s Hc. cbn [exec]. rewrite Hc. unfold py_with. rewrite gen_ctx_enter.
  destruct (exec body _) as [[s3 o] t]. unfold obj_exit, ctx_exit, g_ctx_exit, bind.
  rewrite gen_pop_sseq. unfold do_pop.
  destruct (sseq s3) as [|a ss] eqn:Es; [cbn; rewrite orb_true_r; reflexivity|].
  destruct (rng s3) as [|g rr] eqn:Er; [cbn; rewrite orb_true_r; reflexivity|].
  unfold raise_if_depth_ne. cbn [set_stacks sseq cheap cobj_of].
  change (cobj_of (set_stacks s3 ss rr) cid) with (cobj_of s3 cid).
  destruct (c_depth (cobj_of s3 cid) =? length ss); cbn; rewrite ?orb_false_r; [|reflexivity].
  destruct o; reflexivity.
Qed.

Lemma source_tie :
  (forall id s, g_push_sseq id s = (do_push id s, None, false)) /\
  (forall z s, g_push_sseq_from_seed z s = exec (PushSeed z) s) /\
  (forall s, g_pop_sseq s = exec Pop s) /\
  (forall n s, g_spawn_sseq n None s = exec (Spawn n) s) /\
  (forall n id s, g_spawn_sseq n (Some id) s = (do_spawn id n s, None, false)) /\
  (forall i s, g_ctx_init i s = exec (NewCtx i) s) /\
  (forall c cid body s, nth_error (cpool s) c = Some cid ->
     py_with (g_ctx_enter cid) (g_ctx_exit cid) g_ctx_exit_value (exec body) s = exec (Enter c body) s).
Proof.
  repeat split; intros; try apply gen_push_sseq; try apply gen_push_sseq_from_seed;
    try apply gen_pop_sseq; try apply gen_spawn_sseq; try apply gen_ctx_init;
    try (apply gen_with_object; assumption).
Qed.
