(* C21 -- executable model of nifty/cl/random.py (no proofs in this file).

   Source mirrored (nifty/cl/random.py):

     _sseq = [np.random.SeedSequence(42)]
     _rng = [np.random.default_rng(_sseq[-1])]

     def getState():            return pickle.dumps((_sseq, _rng))
     def setState(state):       global _sseq, _rng;  _sseq, _rng = pickle.loads(state)
     def spawn_sseq(n, parent=None):
         if parent is None:     parent = _sseq[-1]
         return parent.spawn(n)
     def current_rng():         return _rng[-1]
     def push_sseq(sseq):       _sseq.append(sseq);  _rng.append(np.random.default_rng(_sseq[-1]))
     def push_sseq_from_seed(seed):
         _sseq.append(np.random.SeedSequence(seed));  _rng.append(np.random.default_rng(_sseq[-1]))
     def pop_sseq():            _sseq.pop();  _rng.pop()
     class Random:  pm1 / normal / uniform   -- all draw from _rng[-1]
     class Context:
         def __init__(self, inp):
             if not isinstance(inp, np.random.SeedSequence): inp = np.random.SeedSequence(inp)
             self._sseq = inp
         def __enter__(self):   self._depth = len(_sseq);  push_sseq(self._sseq)
         def __exit__(self, exc_type, exc_value, tb):
             pop_sseq()
             if self._depth != len(_sseq): raise RuntimeError("inconsistent RNG usage detected")
             return exc_type is None

   Abstraction.
   * A numpy SeedSequence is a mutable object (entropy, spawn_key, n_children_spawned); the same
     object can sit on the stack, in user variables and in a Context at the same time, and
     `spawn` mutates its counter.  The model therefore keeps a heap of such objects (list,
     append-only allocation) and refers to them by index.
   * A Generator built by default_rng(sseq) is determined by (entropy, spawn_key) of the seed
     sequence; its current state is determined by that identity and the sequence of draws made
     on it so far (its history).  Nothing else is assumed about numpy or about how class Random
     maps its methods to Generator calls: the correspondence check replays identity + history
     through the same public API on a fresh generator and compares the drawn values and the
     bit-generator state exactly.
   * Lists representing the stacks have their TOP AT THE HEAD; histories and the draw log have the
     NEWEST ENTRY AT THE HEAD; the pool of user variables (results of spawn_sseq) has the newest
     variable at index 0. *)
From Coq Require Import List ZArith Bool Arith Lia.
Import ListNotations.

(* ---- seed-sequence objects ---- *)
Record sobj := mkS { s_ent : Z; s_key : list nat; s_nch : nat }.
Definition dS : sobj := mkS 0 [] 0.

(* ---- generators ---- *)
(* draws through the public API (class Random), real and complex result dtypes
   (DU/DN/DP: uniform/normal/pm1 with a real dtype, DUC/DNC/DPC: with a complex dtype; the complex
   variants of uniform and normal make two raw Generator calls, the others one).  All of them use
   _rng[-1] and nothing else. *)
Inductive dkind := DU | DN | DP | DUC | DNC | DPC.
(* history of a generator: the API draws it has served so far (kind, number of values), NEWEST FIRST *)
Definition hist := list (dkind * nat).
Record gen := mkG { g_ent : Z; g_key : list nat; g_hist : hist }.

(* np.random.default_rng(sseq) *)
Definition mkgen (o : sobj) : gen := mkG (s_ent o) (s_key o) [].

(* one entry of the draw log: which generator (identity + history before the draw) served
   which API call.  This determines the drawn values. *)
Record drec := mkD { d_ent : Z; d_key : list nat; d_before : hist; d_kind : dkind; d_n : nat }.

(* a Context object: self._sseq (heap index) and self._depth (written by every __enter__) *)
Record cobj := mkC { c_sseq : nat; c_depth : nat }.
Definition dC : cobj := mkC 0 0.

(* ---- module state ---- *)
Definition snap := (list sobj * list nat * list gen)%type.    (* pickled (_sseq, _rng) *)
Record st := mkSt {
  heap : list sobj;        (* all SeedSequence objects ever created *)
  pool : list nat;         (* user variables holding spawned SeedSequence objects, newest first *)
  sseq : list nat;         (* _sseq, top first (heap indices) *)
  rng : list gen;          (* _rng, top first *)
  saved : option snap;     (* result of the last getState() *)
  dlog : list drec;        (* draws made so far, newest first *)
  cheap : list cobj;       (* all Context objects that were bound to a variable *)
  cpool : list nat         (* user variables holding Context objects, newest first (indices into cheap) *)
}.

Definition set_stacks (s : st) (ss : list nat) (rr : list gen) : st :=
  mkSt (heap s) (pool s) ss rr (saved s) (dlog s) (cheap s) (cpool s).

Inductive exc := EUser | EIndex | ERuntime.
(* result of executing something: new state, exception raised (if any), and a flag telling
   whether the execution touched the stacks non-locally (accessed an empty stack, or read/replaced
   the whole stacks through getState/setState).  The flag is a ghost: it does not influence the
   execution. *)
Definition res := (st * option exc * bool)%type.

Definition lookup (s : st) (id : nat) : sobj := nth id (heap s) dS.

(* push_sseq(obj) *)
Definition do_push (id : nat) (s : st) : st :=
  set_stacks s (id :: sseq s) (mkgen (lookup s id) :: rng s).

(* np.random.SeedSequence(seed): a new object *)
Definition alloc (o : sobj) (s : st) : st * nat :=
  (mkSt (heap s ++ [o]) (pool s) (sseq s) (rng s) (saved s) (dlog s) (cheap s) (cpool s), length (heap s)).

(* pop_sseq():  _sseq.pop(); _rng.pop()   (list.pop on an empty list raises IndexError) *)
Definition do_pop (s : st) : res :=
  match sseq s with
  | [] => (s, Some EIndex, true)
  | _ :: ss =>
    match rng s with
    | [] => (set_stacks s ss [], Some EIndex, true)
    | _ :: rr => (set_stacks s ss rr, None, false)
    end
  end.

Fixpoint upd {A : Type} (l : list A) (i : nat) (v : A) : list A :=
  match l, i with
  | [], _ => []
  | _ :: t, O => v :: t
  | x :: t, S i' => x :: upd t i' v
  end.

(* SeedSequence.spawn(n):  children get spawn_key + (i,) for
   i in range(n_children_spawned, n_children_spawned + n); the counter advances by n *)
Definition children (o : sobj) (n : nat) : list sobj :=
  map (fun i => mkS (s_ent o) (s_key o ++ [s_nch o + i]) 0) (seq 0 n).

Definition do_spawn (id n : nat) (s : st) : st :=
  let o := lookup s id in
  let h1 := upd (heap s) id (mkS (s_ent o) (s_key o) (s_nch o + n)) in
  mkSt (h1 ++ children o n) (rev (seq (length h1) n) ++ pool s) (sseq s) (rng s) (saved s) (dlog s)
       (cheap s) (cpool s).

(* one API draw of kind k, n values, from _rng[-1] *)
Definition do_draw (k : dkind) (n : nat) (s : st) : res :=
  match rng s with
  | [] => (s, Some EIndex, true)                       (* _rng[-1] on an empty list *)
  | g :: rr =>
    (mkSt (heap s) (pool s) (sseq s)
          (mkG (g_ent g) (g_key g) ((k, n) :: g_hist g) :: rr)
          (saved s)
          (mkD (g_ent g) (g_key g) (g_hist g) k n :: dlog s) (cheap s) (cpool s), None, false)
  end.

(* getState(): pickle.dumps((_sseq, _rng)) -- a deep copy of everything reachable *)
Definition do_getstate (s : st) : st :=
  mkSt (heap s) (pool s) (sseq s) (rng s) (Some (heap s, sseq s, rng s)) (dlog s) (cheap s) (cpool s).

(* setState(state): pickle.loads creates NEW objects (aliasing inside the pickle preserved, aliasing
   with live objects lost).  The model copies the whole pickled heap behind the current heap. *)
Definition do_setstate (s : st) : st :=
  match saved s with
  | None => s                                          (* the test programs never do this *)
  | Some (h, ss, rr) =>
    mkSt (heap s ++ h) (pool s) (map (fun i => i + length (heap s)) ss) rr (saved s) (dlog s)
         (cheap s) (cpool s)
  end.

(* ---- test programs ---- *)
Inductive inp := ISeed (z : Z) | IVar (v : nat).
Inductive prog :=
| Skip
| Seq (p q : prog)
| Draw (k : dkind) (n : nat)          (* Random.uniform/normal/pm1(dtype, (n,)) *)
| Spawn (n : nat)                     (* pool = spawn_sseq(n) + pool *)
| SpawnFrom (v n : nat)               (* spawn_sseq(n, parent=pool[v]) *)
| Push (v : nat)                      (* push_sseq(pool[v]) *)
| PushSeed (z : Z)                    (* push_sseq_from_seed(z) *)
| Pop                                 (* pop_sseq() *)
| Ctx (i : inp) (body : prog)         (* with Context(i): body *)
| Raise                               (* raise UserError *)
| Try (body : prog)                   (* try: body / except Exception: pass *)
| GetState                            (* saved = getState() *)
| SetState                            (* setState(saved) *)
| NewCtx (i : inp)                    (* cpool = [Context(i)] + cpool   (a Context OBJECT bound to a variable) *)
| Enter (c : nat) (body : prog).      (* with cpool[c]: body            (the same object may be entered again) *)

(* Context(inp): an int becomes a new SeedSequence object; a variable is used as it is.
   A reference to a variable that does not exist is skipped by the test-program interpreter
   (same convention in harness/props/c21.py). *)
Definition resolve (i : inp) (s : st) : option (st * nat) :=
  match i with
  | ISeed z => Some (alloc (mkS z [] 0) s)
  | IVar v => match nth_error (pool s) v with Some id => Some (s, id) | None => None end
  end.

(* Context.__exit__ after the body returned (s3, o, t);  depth = self._depth *)
Definition ctx_exit (depth : nat) (r : res) : res :=
  let '(s3, o, t) := r in
  let '(s4, o4, t4) := do_pop s3 in
  match o4 with
  | Some e => (s4, Some e, true)                       (* IndexError out of pop_sseq() *)
  | None => if depth =? length (sseq s4)
            then (s4, o, t)                            (* return exc_type is None: o propagates *)
            else (s4, Some ERuntime, t)                (* "inconsistent RNG usage detected" *)
  end.

(* Context(inp) bound to a variable *)
Definition new_ctx (id : nat) (s : st) : st :=
  mkSt (heap s) (pool s) (sseq s) (rng s) (saved s) (dlog s) (cheap s ++ [mkC id 0]) (length (cheap s) :: cpool s).
Definition cobj_of (s : st) (cid : nat) : cobj := nth cid (cheap s) dC.
Definition set_cdepth (cid d : nat) (s : st) : st :=
  mkSt (heap s) (pool s) (sseq s) (rng s) (saved s) (dlog s)
       (upd (cheap s) cid (mkC (c_sseq (cobj_of s cid)) d)) (cpool s).
(* __exit__ of a Context object: the depth compared is the one CURRENTLY stored in the object
   (a nested entry of the same object has overwritten it) *)
Definition obj_exit (cid : nat) (r : res) : res :=
  let '(s3, _, _) := r in ctx_exit (c_depth (cobj_of s3 cid)) r.

Fixpoint exec (p : prog) (s : st) : res :=
  match p with
  | Skip => (s, None, false)
  | Seq p q =>
    let '(s1, o, t) := exec p s in
    match o with
    | Some e => (s1, Some e, t)
    | None => let '(s2, o2, t2) := exec q s1 in (s2, o2, t || t2)
    end
  | Draw k n => do_draw k n s
  | Spawn n =>
    match sseq s with
    | [] => (s, Some EIndex, true)                     (* _sseq[-1] on an empty list *)
    | id :: _ => (do_spawn id n s, None, false)
    end
  | SpawnFrom v n =>
    match nth_error (pool s) v with
    | None => (s, None, false)
    | Some id => (do_spawn id n s, None, false)
    end
  | Push v =>
    match nth_error (pool s) v with
    | None => (s, None, false)
    | Some id => (do_push id s, None, false)
    end
  | PushSeed z => let '(s1, id) := alloc (mkS z [] 0) s in (do_push id s1, None, false)
  | Pop => do_pop s
  | Ctx i body =>
    match resolve i s with
    | None => (s, None, false)
    | Some (s1, id) => ctx_exit (length (sseq s1)) (exec body (do_push id s1))
    end
  | Raise => (s, Some EUser, false)
  | Try body => let '(s1, _, t) := exec body s in (s1, None, t)
  | GetState => (do_getstate s, None, true)
  | SetState => (do_setstate s, None, true)
  | NewCtx i =>
    match resolve i s with
    | None => (s, None, false)
    | Some (s1, id) => (new_ctx id s1, None, false)
    end
  | Enter c body =>
    match nth_error (cpool s) c with
    | None => (s, None, false)
    | Some cid =>
      (* __enter__: self._depth = len(_sseq); push_sseq(self._sseq) *)
      let s1 := set_cdepth cid (length (sseq s)) s in
      obj_exit cid (exec body (do_push (c_sseq (cobj_of s cid)) s1))
    end
  end.

(* module state right after import, with SeedSequence(e) instead of 42 *)
Definition init (e : Z) : st :=
  mkSt [mkS e [] 0] [] [0] [mkgen (mkS e [] 0)] None [] [] [].

(* ---- frames: the same state with further entries below the stacks ---- *)
Definition frame (B : list nat) (RB : list gen) (s : st) : st :=
  set_stacks s (sseq s ++ B) (rng s ++ RB).
(* the state with the stacks emptied *)
Definition isolate (s : st) : st := set_stacks s [] [].

(* ---- syntactic class: programs that change the stacks only through `with Context` ---- *)
Fixpoint scoped (p : prog) : bool :=
  match p with
  | Skip | Draw _ _ | Spawn _ | SpawnFrom _ _ | Raise => true
  | Seq p q => scoped p && scoped q
  | Ctx _ b => scoped b
  | Try b => scoped b
  | Push _ | PushSeed _ | Pop | GetState | SetState | NewCtx _ | Enter _ _ => false
  end.

(* ---- programs that do not use Context objects bound to variables (only inline `with Context(..)`) ---- *)
Fixpoint noobj (p : prog) : bool :=
  match p with
  | NewCtx _ | Enter _ _ => false
  | Seq p q => noobj p && noobj q
  | Ctx _ b => noobj b
  | Try b => noobj b
  | _ => true
  end.

(* ---- well-formedness (what makes the totalised [nth] lookups meaningful) ---- *)
Definition ids_ok (n : nat) (l : list nat) : Prop := Forall (fun i => i < n) l.
Definition snap_ok (x : snap) : Prop :=
  let '(h, ss, rr) := x in ids_ok (length h) ss /\ length ss = length rr.
Definition wf (s : st) : Prop :=
  ids_ok (length (heap s)) (sseq s) /\ ids_ok (length (heap s)) (pool s) /\
  length (sseq s) = length (rng s) /\
  match saved s with None => True | Some x => snap_ok x end /\
  ids_ok (length (heap s)) (map c_sseq (cheap s)) /\ ids_ok (length (cheap s)) (cpool s).

(* ---- observations used by the correspondence check ---- *)
Definition view_sseq (s : st) : list sobj := map (lookup s) (sseq s).

Definition exc_code (o : option exc) : Z :=
  match o with None => 0 | Some EUser => 1 | Some EIndex => 2 | Some ERuntime => 3 end%Z.

(* top-level statements are executed one after the other, each inside try/except that records
   the exception class; the observation after each statement is
   (exception code, _sseq as objects bottom..top, identities of _rng bottom..top) *)
Definition obs := (Z * list (Z * list nat * nat) * list (Z * list nat))%type.
Definition observe (s : st) (o : option exc) : obs :=
  (exc_code o,
   rev (map (fun x => (s_ent x, s_key x, s_nch x)) (view_sseq s)),
   rev (map (fun g => (g_ent g, g_key g)) (rng s))).

Fixpoint run_items (ps : list prog) (s : st) : list obs * st :=
  match ps with
  | [] => ([], s)
  | p :: r => let '(s1, o, _) := exec p s in
              let '(l, s2) := run_items r s1 in (observe s1 o :: l, s2)
  end.

(* decidable equality of observations *)
Definition eqb_keys (a b : list nat) : bool := if list_eq_dec Nat.eq_dec a b then true else false.
Definition eqb_s3 (a b : Z * list nat * nat) : bool :=
  let '(e1, k1, c1) := a in let '(e2, k2, c2) := b in Z.eqb e1 e2 && eqb_keys k1 k2 && Nat.eqb c1 c2.
Definition eqb_g2 (a b : Z * list nat) : bool :=
  let '(e1, k1) := a in let '(e2, k2) := b in Z.eqb e1 e2 && eqb_keys k1 k2.
Fixpoint eqb_list {A} (f : A -> A -> bool) (a b : list A) : bool :=
  match a, b with
  | [], [] => true
  | x :: a', y :: b' => f x y && eqb_list f a' b'
  | _, _ => false
  end.
Definition eqb_obs (a b : obs) : bool :=
  let '(c1, s1, g1) := a in let '(c2, s2, g2) := b in
  Z.eqb c1 c2 && eqb_list eqb_s3 s1 s2 && eqb_list eqb_g2 g1 g2.

Definition items_ok (e : Z) (ps : list prog) (expected : list obs) : bool :=
  eqb_list eqb_obs (fst (run_items ps (init e))) expected.

(* ---- flat integer encoding of the generator histories and of the draw log
        (printed by coqc, replayed on numpy by the harness) ---- *)
Definition zn (n : nat) : Z := Z.of_nat n.
Definition enc_list {A} (f : A -> list Z) (l : list A) : list Z := zn (length l) :: flat_map f l.
Definition enc_kind (k : dkind) : Z :=
  match k with DU => 0 | DN => 1 | DP => 2 | DUC => 3 | DNC => 4 | DPC => 5 end%Z.
Definition enc_hist (h : hist) : list Z :=             (* oldest first *)
  enc_list (fun x => [enc_kind (fst x); zn (snd x)]) (rev h).
Definition enc_key (k : list nat) : list Z := enc_list (fun i => [zn i]) k.
Definition enc_gen (g : gen) : list Z := g_ent g :: enc_key (g_key g) ++ enc_hist (g_hist g).
Definition enc_drec (d : drec) : list Z :=
  d_ent d :: enc_key (d_key d) ++ enc_hist (d_before d) ++ [enc_kind (d_kind d); zn (d_n d)].

(* generators bottom..top after every statement, and the complete draw log oldest first *)
Fixpoint run_gens (ps : list prog) (s : st) : list (list gen) * st :=
  match ps with
  | [] => ([], s)
  | p :: r => let '(s1, _, _) := exec p s in
              let '(l, s2) := run_gens r s1 in (rev (rng s1) :: l, s2)
  end.
Definition encode_run (e : Z) (ps : list prog) : list Z :=
  let '(gs, s) := run_gens ps (init e) in
  enc_list (enc_list enc_gen) gs ++ enc_list enc_drec (rev (dlog s)).
