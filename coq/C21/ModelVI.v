(* C21 -- executable model of the PRNG-key schedule of the JAX VI driver (no proofs in this file).

   Source mirrored (nifty/re/optimize_kl.py):

   OptimizeVI.update:
        nit, key, config = state.nit, state.key, state.config
        sample_mode = _getitem_at_nit(config, "sample_mode", nit) ; n_samples = ... (nit)
        # Make the `key` tick independently of whether samples are drawn or not
        key, sk = random.split(key, 2)
        samples, st_smpls = self.draw_samples(samples, key=sk, sample_mode=..., n_samples=..., ...)
        ... kl_minimize ...
        state = state._replace(nit=nit + 1, key=key, ...)

   OptimizeVI.draw_samples:
        n_keys = 0 if samples.keys is None else len(samples.keys)
        if n_samples == 0:                                                   sample_mode = ""
        elif n_samples != n_keys and sample_mode.lower() == "nonlinear_update":
                                                                             sample_mode = "nonlinear_resample"
        elif n_samples != n_keys and sample_mode.lower().endswith("_sample"):
                                              sample_mode = sample_mode.replace("_sample", "_resample")
        if sample_mode.lower() in ("linear_resample", "linear_sample", "nonlinear_resample", "nonlinear_sample"):
            k_smpls = samples.keys  # Re-use the keys if not re-sampling
            if sample_mode.lower().endswith("_resample"):
                k_smpls = random.split(key, n_samples)
            samples, st_smpls = self.draw_linear_samples(samples.pos, k_smpls, ...)
            if sample_mode.lower().startswith("nonlinear"):
                samples, st_smpls = self.nonlinearly_update_samples(samples, ...)
        elif sample_mode.lower() == "nonlinear_update":
            samples, st_smpls = self.nonlinearly_update_samples(samples, ...)
        elif sample_mode == "":
            samples, st_smpls = samples, 0  # Do nothing for MAP

   OptimizeVI.draw_linear_samples(primals, keys):
        sampler = self.residual_map(sampler, in_axes=(None, 0));  smpls, _ = sampler(primals, keys)
        smpls = Samples(pos=primals, samples=smpls, keys=keys)
   OptimizeVI.nonlinearly_update_samples(samples):
        metric_sample_key = concatenate_zip(samples.keys, samples.keys)   [written with argument unpacking]
        curver = self.residual_map(curver, in_axes=(None, 0, 0, 0))
        smpls, _ = curver(samples.pos, samples._samples, metric_sample_key, sgn)
        smpls = Samples(pos=samples.pos, samples=smpls, keys=samples.keys)

   `jax.random.split` is UNINTERPRETED: keys are terms.  The three sample maps are modelled by three
   different traversals (vmap: all at once; smap: lax.scan accumulating outputs; lmap: Python loop
   writing ys[i], nifty/re/custom_map.py:_lscan). *)
From Coq Require Import List Bool Arith Lia.
Import ListNotations.
Require Import NV.C21.Model.

Inductive key := K0 | KS (k : key) (n i : nat).      (* KS k n i  =  random.split(k, n)[i] *)

Fixpoint key_eqb (a b : key) : bool :=
  match a, b with
  | K0, K0 => true
  | KS a' n i, KS b' m j => key_eqb a' b' && Nat.eqb n m && Nat.eqb i j
  | _, _ => false
  end.

Definition split_n (k : key) (n : nat) : list key := map (KS k n) (seq 0 n).

Inductive smode := LinResample | LinSample | NlResample | NlSample | NlUpdate.
Inductive mapk := Vmap | Lmap | Smap.
Record impl := mkImpl { residual_map : mapk; kl_map : mapk; jit : bool;
                        linear_jit : bool; nonlinear_jit : bool }.

Section Maps.
  Context {A B : Type}.
  Variable f : A -> B.
  Definition vmap (xs : list A) : list B := map f xs.
  (* lax.scan(fun_reord, None, xs): outputs are stacked in iteration order *)
  Definition smap (xs : list A) : list B := rev (fold_left (fun acc x => f x :: acc) xs []).
  (* _lscan: for i in range(length): y = f(xs[i]); (ys = empty_like(..) at i == 0); ys[i] = y *)
  Definition lmap (xs : list A) : list B :=
    match xs with
    | [] => []
    | x0 :: _ =>
      fold_left (fun ys i => upd ys i (f (nth i xs x0))) (seq 0 (length xs)) (repeat (f x0) (length xs))
    end.
End Maps.

Definition the_map {A B} (m : mapk) (f : A -> B) : list A -> list B :=
  match m with Vmap => vmap f | Lmap => lmap f | Smap => smap f end.

(* concatenate_zip(keys, keys) *)
Definition zip2 (l : list key) : list key := flat_map (fun k => [k; k]) l.

(* the rewriting of sample_mode at the top of draw_samples; None is "" (MAP) *)
Definition rewrite_mode (m : smode) (n n_keys : nat) : option smode :=
  if n =? 0 then None
  else if negb (n =? n_keys) then
    match m with
    | NlUpdate => Some NlResample
    | LinSample => Some LinResample
    | NlSample => Some NlResample
    | LinResample => Some LinResample
    | NlResample => Some NlResample
    end
  else Some m.

Definition is_resample (m : smode) : bool :=
  match m with LinResample | NlResample => true | _ => false end.
Definition is_nonlinear (m : smode) : bool :=
  match m with NlResample | NlSample | NlUpdate => true | _ => false end.

Record vstate := mkV { v_nit : nat; v_key : key; v_skeys : option (list key) }.
(* what one iteration hands out: the key seen by each call of draw_linear_residual, the key
   seen by each call of nonlinearly_update_residual (both in sample order, through
   residual_map), the new state key and the new samples.keys *)
Record vobs := mkO { o_lin : list key; o_nl : list key; o_key : key; o_skeys : option (list key) }.

Definition keys_of (o : option (list key)) : list key := match o with Some l => l | None => [] end.

Definition update (im : impl) (cfg : nat -> smode * nat) (s : vstate) : vstate * vobs :=
  let '(m, n) := cfg (v_nit s) in
  let key' := KS (v_key s) 2 0 in
  let sk := KS (v_key s) 2 1 in
  let n_keys := match v_skeys s with None => 0 | Some l => length l end in
  let seen := the_map (residual_map im) (fun k : key => k) in
  match rewrite_mode m n n_keys with
  | None => (mkV (S (v_nit s)) key' (v_skeys s), mkO [] [] key' (v_skeys s))
  | Some NlUpdate =>
    (mkV (S (v_nit s)) key' (v_skeys s),
     mkO [] (seen (zip2 (keys_of (v_skeys s)))) key' (v_skeys s))
  | Some m' =>
    let ks := if is_resample m' then split_n sk n else keys_of (v_skeys s) in
    (mkV (S (v_nit s)) key' (Some ks),
     mkO (seen ks) (if is_nonlinear m' then seen (zip2 ks) else []) key' (Some ks))
  end.

Fixpoint run (im : impl) (cfg : nat -> smode * nat) (t : nat) (s : vstate) : list vobs * vstate :=
  match t with
  | O => ([], s)
  | S t' => let '(s1, o) := update im cfg s in
            let '(l, s2) := run im cfg t' s1 in (o :: l, s2)
  end.

(* ---- comparison with observations ----
   An observed key is a bit pattern; the harness names it by the list of ALL split-terms (within the
   horizon of the run) that evaluate to this bit pattern under the real jax.random.split (with the
   threefry implementation split(k, n)[i] does not depend on n, so several terms share a pattern).
   The model's term must be among them, i.e. the real key is the model's term evaluated with the
   real split. *)
Definition key_in (k : key) (c : list key) : bool := existsb (key_eqb k) c.
Fixpoint keys_in (a : list key) (b : list (list key)) : bool :=
  match a, b with
  | [], [] => true
  | x :: a', c :: b' => key_in x c && keys_in a' b'
  | _, _ => false
  end.
Definition cobs := (list (list key) * list (list key) * list key * option (list (list key)))%type.
Definition match_vobs (a : vobs) (b : cobs) : bool :=
  let '(l, n, k, s) := b in
  keys_in (o_lin a) l && keys_in (o_nl a) n && key_in (o_key a) k &&
  match o_skeys a, s with
  | None, None => true
  | Some x, Some y => keys_in x y
  | _, _ => false
  end.
Fixpoint match_vobs_list (a : list vobs) (b : list cobs) : bool :=
  match a, b with
  | [], [] => true
  | x :: a', y :: b' => match_vobs x y && match_vobs_list a' b'
  | _, _ => false
  end.

(* per-iteration configuration given as a list (mode, n_samples) *)
Definition cfg_of (l : list (smode * nat)) (i : nat) : smode * nat := nth i l (LinResample, 0).

Definition vi_ok (im : impl) (l : list (smode * nat)) (expected : list cobs) : bool :=
  match_vobs_list (fst (run im (cfg_of l) (length l) (mkV 0 K0 None))) expected.
