(* C21 -- lemmas about the VI key schedule *)
From Coq Require Import List Bool Arith Lia.
Import ListNotations.
Require Import NV.C21.Model NV.C21.ModelVI.

(* ---- the three sample maps compute the same list ---- *)
Lemma smap_vmap : forall A B (f : A -> B) xs, smap f xs = vmap f xs.
Proof.
  intros A B f xs. unfold smap, vmap.
  assert (H : forall acc, fold_left (fun acc x => f x :: acc) xs acc = rev (map f xs) ++ acc).
  { induction xs as [|x xs IH]; intros acc; cbn; [reflexivity|].
    rewrite IH, <- app_assoc. reflexivity. }
  rewrite H, app_nil_r, rev_involutive. reflexivity.
Qed.

Lemma upd_app_len : forall A (a b : list A) v, upd (a ++ b) (length a) v = a ++ upd b 0 v.
Proof. induction a; intros b v; cbn; [reflexivity|]. rewrite IHa. reflexivity. Qed.

Lemma skipn_cons : forall A (l : list A) k d, k < length l -> skipn k l = nth k l d :: skipn (S k) l.
Proof.
  induction l; intros k d H; cbn in H; [lia|]. destruct k; cbn; [reflexivity|].
  apply IHl. lia.
Qed.

Lemma upd_app_len' : forall A (a b : list A) k v, length a = k -> upd (a ++ b) k v = a ++ upd b 0 v.
Proof. intros A a b k v <-. apply upd_app_len. Qed.

Lemma index_loop : forall B (g : nat -> B) k ys, k <= length ys ->
  fold_left (fun ys i => upd ys i (g i)) (seq 0 k) ys = map g (seq 0 k) ++ skipn k ys.
Proof.
  induction k; intros ys H; [reflexivity|].
  rewrite seq_S, fold_left_app, map_app. cbn [fold_left map plus].
  rewrite IHk by lia.
  rewrite upd_app_len' by (rewrite map_length, seq_length; reflexivity).
  destruct ys as [|y0 ys']; [cbn in H; lia|].
  rewrite (skipn_cons _ (y0 :: ys') k y0) by lia. cbn [upd]. rewrite <- app_assoc. reflexivity.
Qed.

Lemma map_nth_seq : forall A (xs : list A) d, map (fun i => nth i xs d) (seq 0 (length xs)) = xs.
Proof.
  induction xs as [|x xs IH]; intros d; [reflexivity|].
  cbn [length seq map nth]. f_equal. rewrite <- seq_shift, map_map. apply IH.
Qed.

Lemma lmap_vmap : forall A B (f : A -> B) xs, lmap f xs = vmap f xs.
Proof.
  intros A B f xs. unfold lmap, vmap. destruct xs as [|x0 xs']; [reflexivity|].
  set (xs := x0 :: xs').
  rewrite (index_loop B (fun i => f (nth i xs x0))) by (rewrite repeat_length; lia).
  rewrite <- (repeat_length (f x0) (length xs)) at 2. rewrite skipn_all, app_nil_r.
  rewrite <- (map_map (fun i => nth i xs x0) f). rewrite map_nth_seq. reflexivity.
Qed.

Lemma the_map_vmap : forall A B m (f : A -> B) xs, the_map m f xs = map f xs.
Proof. intros A B [] f xs; cbn; [reflexivity|apply lmap_vmap|apply smap_vmap]. Qed.

(* ---- the schedule does not depend on the execution strategy ---- *)
Lemma update_impl_independent : forall im im' cfg s, update im cfg s = update im' cfg s.
Proof.
  intros im im' cfg s. unfold update. destruct (cfg (v_nit s)) as [m n].
  destruct (rewrite_mode m n _) as [[]|]; rewrite ?the_map_vmap; reflexivity.
Qed.

Lemma run_impl_independent : forall im im' cfg t s, run im cfg t s = run im' cfg t s.
Proof.
  intros im im' cfg t. induction t; intros s; cbn; [reflexivity|].
  rewrite (update_impl_independent im im'). destruct (update im' cfg s) as [s1 o].
  rewrite IHt. reflexivity.
Qed.

(* ---- closed form ---- *)
Fixpoint tick (t : nat) (k : key) : key := match t with O => k | S t' => tick t' (KS k 2 0) end.

Lemma update_state : forall im cfg s,
  v_nit (fst (update im cfg s)) = S (v_nit s) /\ v_key (fst (update im cfg s)) = KS (v_key s) 2 0.
Proof.
  intros im cfg s. unfold update. destruct (cfg (v_nit s)) as [m n].
  destruct (rewrite_mode m n _) as [[]|]; cbn; auto.
Qed.

Lemma run_state : forall im cfg t s,
  v_nit (snd (run im cfg t s)) = t + v_nit s /\ v_key (snd (run im cfg t s)) = tick t (v_key s).
Proof.
  intros im cfg t. induction t; intros s; cbn; [auto|].
  pose proof (update_state im cfg s) as [H1 H2].
  destruct (update im cfg s) as [s1 o]. cbn in H1, H2.
  specialize (IHt s1). destruct (run im cfg t s1) as [l s2]. cbn in *.
  rewrite H1, H2 in IHt. destruct IHt as [-> ->]. split; [lia|reflexivity].
Qed.

(* in an iteration that draws new samples (a *_resample mode after rewriting), call number i of
   the linear residual sampler receives split(split(key, 2)[1], n)[i] *)
Lemma resample_keys : forall im cfg s m n n_keys m',
  cfg (v_nit s) = (m, n) ->
  n_keys = match v_skeys s with None => 0 | Some l => length l end ->
  rewrite_mode m n n_keys = Some m' -> is_resample m' = true ->
  o_lin (snd (update im cfg s)) = split_n (KS (v_key s) 2 1) n /\
  o_skeys (snd (update im cfg s)) = Some (split_n (KS (v_key s) 2 1) n) /\
  o_nl (snd (update im cfg s)) =
    (if is_nonlinear m' then zip2 (split_n (KS (v_key s) 2 1) n) else []).
Proof.
  intros im cfg s m n n_keys m' Hc -> Hr Hm. unfold update. rewrite Hc, Hr.
  destruct m'; try discriminate; cbn; rewrite ?the_map_vmap, ?map_id; auto.
Qed.

Lemma closed_form : forall (im : impl) (cfg : nat -> smode * nat),
    (forall t s, v_nit (snd (run im cfg t s)) = t + v_nit s /\
                 v_key (snd (run im cfg t s)) = tick t (v_key s)) /\
    (forall s m n n_keys m',
        cfg (v_nit s) = (m, n) ->
        n_keys = match v_skeys s with None => 0 | Some l => length l end ->
        rewrite_mode m n n_keys = Some m' -> is_resample m' = true ->
        o_lin (snd (update im cfg s)) = split_n (KS (v_key s) 2 1) n /\
        o_skeys (snd (update im cfg s)) = Some (split_n (KS (v_key s) 2 1) n) /\
        o_nl (snd (update im cfg s)) = (if is_nonlinear m' then zip2 (split_n (KS (v_key s) 2 1) n) else [])).
Proof. intros im cfg. split; [apply run_state|apply resample_keys]. Qed.

(* keys are re-used exactly when the mode is a *_sample / nonlinear_update mode and the number of
   samples did not change *)
Lemma reuse_keys : forall im cfg s m n ks,
  cfg (v_nit s) = (m, n) -> v_skeys s = Some ks -> n = length ks -> n <> 0 ->
  is_resample m = false ->
  o_skeys (snd (update im cfg s)) = Some ks /\
  (m <> NlUpdate -> o_lin (snd (update im cfg s)) = ks) /\
  (is_nonlinear m = true -> o_nl (snd (update im cfg s)) = zip2 ks).
Proof.
  intros im cfg s m n ks Hc Hk -> Hn Hm. unfold update. rewrite Hc, Hk. unfold rewrite_mode.
  destruct (length ks =? 0) eqn:E; [apply Nat.eqb_eq in E; contradiction|].
  rewrite Nat.eqb_refl. cbn [negb].
  destruct m; try discriminate; cbn; rewrite ?the_map_vmap, ?map_id; repeat split; auto;
    intros; try congruence; try discriminate.
Qed.

(* ---- resuming ---- *)
Lemma run_resume : forall im cfg t1 t2 s,
  run im cfg (t1 + t2) s =
  (fst (run im cfg t1 s) ++ fst (run im cfg t2 (snd (run im cfg t1 s))),
   snd (run im cfg t2 (snd (run im cfg t1 s)))).
Proof.
  intros im cfg t1 t2. induction t1; intros s; cbn.
  - destruct (run im cfg t2 s); reflexivity.
  - destruct (update im cfg s) as [s1 o]. rewrite IHt1.
    destruct (run im cfg t1 s1) as [l s2]. cbn.
    destruct (run im cfg t2 s2) as [l2 s3]. reflexivity.
Qed.

(* ---- freshness: as terms, the state keys of different iterations differ, hence so do the
        keys handed to the samples (for an injective split) ---- *)
Fixpoint kdepth (k : key) : nat := match k with K0 => 0 | KS k' _ _ => S (kdepth k') end.

Lemma tick_depth : forall t k, kdepth (tick t k) = t + kdepth k.
Proof. induction t; intros k; cbn; [reflexivity|]. rewrite IHt. cbn. lia. Qed.

Lemma sample_keys_fresh : forall k t t' n n' i i',
  KS (KS (tick t k) 2 1) n i = KS (KS (tick t' k) 2 1) n' i' -> t = t' /\ n = n' /\ i = i'.
Proof.
  intros k t t' n n' i i' H. injection H as H -> ->.
  apply (f_equal kdepth) in H. rewrite !tick_depth in H. split; [lia|auto].
Qed.
