(* C21 -- statement-level primitives for the translated pieces of nifty/cl/random.py (no proofs).

   tr/c21_random.py reads push_sseq, push_sseq_from_seed, pop_sseq, spawn_sseq and
   Context.__init__/__enter__/__exit__ from the CURRENT source with Python's `ast`, accepts only the
   statement shapes listed below (anything else: TranslationError, fail closed) and writes
   coq/C21/Gen_Random.v, in which every function is the sequence of the primitives its statements
   map to.  ProofsGen.v then proves that these generated functions ARE the operations used by the
   hand model (Model.v).  So a change of those functions either fails the translator or breaks a
   proof -- before any test program is run.

     statement in the source                                     primitive
     _sseq.append(<e>)                                           sseq_append <e>
     _rng.append(np.random.default_rng(_sseq[-1]))               rng_append_default_rng_top
     _sseq.pop()   /   _rng.pop()                                sseq_pop / rng_pop
     self._depth = len(_sseq)                                    set_self_depth_len
     if self._depth != len(_sseq): raise RuntimeError("...")     raise_if_depth_ne
     push_sseq(<e>) / pop_sseq()                                 call of the translated function
     return exc_type is None                                     (exit value) ret_exc_is_none
     if not isinstance(inp, np.random.SeedSequence): inp = np.random.SeedSequence(inp)
     self._sseq = inp                                            (both together) init_self_sseq
     if parent is None: global _sseq; parent = _sseq[-1]         parent_default_top
     return parent.spawn(n)                                      spawn_parent
   expressions <e>: a parameter (a SeedSequence object), np.random.SeedSequence(<param>) (a new
   object from an int), self._sseq. *)
From Coq Require Import List ZArith Bool Arith.
Import ListNotations.
Require Import NV.C21.Model.

Definition M := st -> res.
Definition ret : M := fun s => (s, None, false).
Definition bind (a b : M) : M := fun s =>
  let '(s1, o, t) := a s in
  match o with
  | Some e => (s1, Some e, t)
  | None => let '(s2, o2, t2) := b s1 in (s2, o2, t || t2)
  end.

(* <e> evaluated to a heap index (possibly allocating) and handed to k *)
Definition with_param (id : nat) (k : nat -> M) : M := k id.
Definition with_new_seedseq (z : Z) (k : nat -> M) : M :=
  fun s => let '(s1, id) := alloc (mkS z [] 0) s in k id s1.
Definition with_self_sseq (cid : nat) (k : nat -> M) : M := fun s => k (c_sseq (cobj_of s cid)) s.

Definition sseq_append (id : nat) : M := fun s => (set_stacks s (id :: sseq s) (rng s), None, false).
Definition rng_append_default_rng_top : M := fun s =>
  match sseq s with
  | [] => (s, Some EIndex, true)                              (* _sseq[-1] *)
  | id :: _ => (set_stacks s (sseq s) (mkgen (lookup s id) :: rng s), None, false)
  end.
Definition sseq_pop : M := fun s =>
  match sseq s with [] => (s, Some EIndex, true) | _ :: ss => (set_stacks s ss (rng s), None, false) end.
Definition rng_pop : M := fun s =>
  match rng s with [] => (s, Some EIndex, true) | _ :: rr => (set_stacks s (sseq s) rr, None, false) end.
Definition set_self_depth_len (cid : nat) : M := fun s => (set_cdepth cid (length (sseq s)) s, None, false).
Definition raise_if_depth_ne (cid : nat) : M := fun s =>
  if c_depth (cobj_of s cid) =? length (sseq s) then (s, None, false) else (s, Some ERuntime, false).
Definition ret_exc_is_none (o : option exc) : bool := match o with None => true | Some _ => false end.

(* Context.__init__(self, inp) followed by binding the object to a variable *)
Definition init_self_sseq (i : inp) : st -> res := fun s =>
  match resolve i s with
  | None => (s, None, false)
  | Some (s1, id) => (new_ctx id s1, None, false)
  end.

(* spawn_sseq(n, parent): `parent` is None (top of the stack) or a variable *)
Definition parent_default_top (parent : option nat) (k : nat -> M) : M := fun s =>
  match parent with
  | Some id => k id s
  | None => match sseq s with [] => (s, Some EIndex, true) | id :: _ => k id s end
  end.
Definition spawn_parent (n id : nat) : M := fun s => (do_spawn id n s, None, false).

(* Python's `with obj: body` protocol: obj.__enter__(); body; obj.__exit__(exc...) -- an exception
   raised by __exit__ replaces the body's; otherwise the body's exception propagates unless
   __exit__ returned a true value *)
Definition py_with (enter exit_ : M) (exit_value : option exc -> bool) (body : M) : M := fun s =>
  let '(s1, o1, t1) := enter s in
  match o1 with
  | Some e => (s1, Some e, t1)
  | None =>
    let '(s3, o, t) := body s1 in
    let '(s4, o4, t4) := exit_ s3 in
    match o4 with
    | Some e => (s4, Some e, t1 || t || t4)
    | None => (s4, match o with None => None | Some e => if exit_value o then None else Some e end,
               t1 || t || t4)
    end
  end.
