(* C21 -- property theorems only.  Each is closed by [exact] of a lemma from Proofs.v / ProofsVI.v. *)
From Coq Require Import List ZArith Bool Arith Lia.
Import ListNotations.
Require Import NV.C21.Model NV.C21.Proofs NV.C21.ModelVI NV.C21.ProofsVI.
Require Import NV.C21.Stmt NV.C21.Gen_Random NV.C21.ProofsGen.
Require Import NV.C21.ModelZip NV.C21.ProofsZip.

(* ------------------------------------------------------------------------------------------ *)
(* Classic random-number contexts (nifty/cl/random.py)                                          *)
(* ------------------------------------------------------------------------------------------ *)

(* Frame / locality.  Take ANY test program p without Context objects bound to variables
   ([noobj]: arbitrary nesting of inline contexts, raw pushes and pops, draws, spawns, raised and
   caught exceptions; Context objects store an absolute depth and are covered by the theorems
   C21_context_objects_restore / C21_reentry_local below) and run it on the stacks (S, R) alone.  If that
   run never reaches below its own entries (flag false: no access to an empty stack, no
   getState/setState), then on top of ANY further entries B / RB the program does exactly the same
   (same heap of seed sequences, same variables, same draws, same exception, same upper stacks)
   and B / RB -- including the draw histories of all generators in RB -- are left untouched. *)
Theorem C21_frame :
  forall (p : prog), noobj p = true ->
  forall (s : st) (B : list nat) (RB : list gen) (s' : st) (o : option exc),
    exec p s = (s', o, false) -> exec p (frame B RB s) = (frame B RB s', o, false).
Proof. exact frame_exec. Qed.

(* Leaving a context restores both stacks.  For every context `with Context(i): body` and every
   well-formed state s: if the body, seen from the context's own stack entry, does not reach below
   it and the context is left at its entry depth (sseq s1 = []; guaranteed by
   C21_context_exit_balanced whenever the context is left normally or by the body's exception),
   then after the with-statement _sseq and _rng are EXACTLY what they were before (same objects,
   same generators with the same draw histories), and everything else (draw log, outcome
   o = None / Some exception, heap, variables) is what the run on the emptied stacks produced,
   i.e. it does not depend on the enclosing stacks at all. *)
Theorem C21_context_restores :
  forall (i : inp) (body : prog) (s s1 : st) (o : option exc),
    noobj body = true -> wf s ->
    exec (Ctx i body) (isolate s) = (s1, o, false) ->
    sseq s1 = [] ->
    exec (Ctx i body) s = (set_stacks s1 (sseq s) (rng s), o, false).
Proof. exact ctx_restores. Qed.

Theorem C21_context_exit_balanced :
  forall (i : inp) (body : prog) (s s1 : st) (o : option exc) (t : bool),
    exec (Ctx i body) (isolate s) = (s1, o, t) ->
    o = None \/ o = Some EUser -> sseq s1 = [].
Proof. exact ctx_exit_balanced. Qed.

(* Two states that differ only in the stacks: the context behaves identically in both. *)
Theorem C21_context_local :
  forall (i : inp) (body : prog) (s s' s1 : st) (o : option exc),
    noobj body = true -> wf s -> wf s' -> isolate s = isolate s' ->
    exec (Ctx i body) (isolate s) = (s1, o, false) -> sseq s1 = [] ->
    exec (Ctx i body) s = (set_stacks s1 (sseq s) (rng s), o, false) /\
    exec (Ctx i body) s' = (set_stacks s1 (sseq s') (rng s'), o, false).
Proof. exact ctx_local. Qed.

(* Unconditional version for bodies that change the stacks only through nested `with Context`
   (draws, spawns, raises, try/except, nested contexts on seeds or variables -- no raw push/pop,
   no getState/setState): for EVERY state, leaving the context -- normally (o = None) or by the
   exception raised inside (o = Some EUser) -- restores both stacks exactly; __exit__ never raises. *)
Theorem C21_scoped_context_restores :
  forall (i : inp) (body : prog) (s s' : st) (o : option exc) (t : bool),
    scoped body = true ->
    exec (Ctx i body) s = (s', o, t) ->
    sseq s' = sseq s /\ rng s' = rng s /\ t = false /\ (o = None \/ o = Some EUser).
Proof. exact scoped_context_restores. Qed.

(* Draws inside a context depend only on its seed and the operations inside: for a body that does
   not refer to SeedSequence objects created elsewhere, the draw records (generator identity,
   history before the draw, kind, count -- which determine the drawn values), and the outcome, are
   the same for EVERY state the context is entered from. *)
Theorem C21_context_local_pure :
  forall (z : Z) (body : prog), pure body = true ->
    exists (new : list drec) (o : option exc), forall s : st, exists s1 : st,
      exec (Ctx (ISeed z) body) s = (s1, o, false) /\
      dlog s1 = new ++ dlog s /\ sseq s1 = sseq s /\ rng s1 = rng s.
Proof. exact context_local_pure. Qed.

(* Context OBJECTS (`ctx = Context(seed)` ... `with ctx:` ... `with ctx:` ...).  Every entry -- the
   first or a later one, at top level, nested in other contexts or after an entry that was left by
   an exception -- pushes a NEW generator built from the object's seed sequence: for a body that
   does not refer to outside SeedSequence objects, the draw records and the outcome are functions
   of that generator identity g0 (entropy, spawn key) and of the body ALONE -- the same for every
   state, hence independent of what earlier entries of the same object drew -- and both stacks
   are restored. *)
Theorem C21_reentry_local :
  forall (body : prog), pure body = true -> forall g0 : gen,
    exists (new : list drec) (o : option exc), forall (s : st) (c cid : nat),
      nth_error (cpool s) c = Some cid -> cid < length (cheap s) ->
      mkgen (lookup s (c_sseq (cobj_of s cid))) = g0 ->
      exists s1 : st, exec (Enter c body) s = (s1, o, false) /\
                      dlog s1 = new ++ dlog s /\ sseq s1 = sseq s /\ rng s1 = rng s.
Proof. exact reentry_local_pure. Qed.

(* Leaving a Context object restores both stacks for every body that uses the stacks only through
   `with` (inline contexts or Context objects, also the SAME object nested in itself), for every
   state; __exit__ never fails with IndexError.  (It can raise the RuntimeError of the depth
   check: a nested entry of the same object overwrites self._depth -- see the Example below.) *)
Theorem C21_context_objects_restore :
  forall (c : nat) (body : prog) (s s' : st) (o : option exc) (t : bool),
    scoped2 body = true ->
    exec (Enter c body) s = (s', o, t) ->
    sseq s' = sseq s /\ rng s' = rng s /\ t = false /\ o <> Some EIndex.
Proof. exact objects_restore. Qed.

(* A body that leaves the stacks at another depth is detected: __exit__ raises RuntimeError, and
   the state left behind is the body's final state minus the top entry. *)
Theorem C21_unbalanced_detected :
  forall (d : nat) (s3 : st) (o : option exc) (t : bool) (x : nat) (ss : list nat) (g : gen) (rr : list gen),
    sseq s3 = x :: ss -> rng s3 = g :: rr -> length ss <> d ->
    ctx_exit d (s3, o, t) = (set_stacks s3 ss rr, Some ERuntime, t).
Proof. exact unbalanced_detected. Qed.

(* The model's [nth]-with-default lookups are never out of range: well-formedness (all stack and
   variable entries point into the heap, both stacks have the same length, the pickled state is
   consistent) holds initially and is preserved by every program. *)
Theorem C21_wf_preserved : forall (p : prog) (s : st), wf s -> wf (fst (fst (exec p s))).
Proof. exact wf_exec. Qed.

Theorem C21_wf_init : forall e : Z, wf (init e).
Proof. exact wf_init. Qed.

(* spawn_sseq: the children depend only on the parent's identity and spawn counter; however the
   calls are split up (n, then m) the same children result as for one call (n + m), and no
   spawn key is handed out twice. *)
Theorem C21_spawn_deterministic :
  forall (o : sobj) (n m : nat),
    children o (n + m) = children o n ++ children (mkS (s_ent o) (s_key o) (s_nch o + n)) m /\
    NoDup (map s_key (children o n ++ children (mkS (s_ent o) (s_key o) (s_nch o + n)) m)).
Proof. exact spawn_deterministic. Qed.

Theorem C21_spawn_advances :
  forall (id n : nat) (s : st), id < length (heap s) ->
    lookup (do_spawn id n s) id =
    mkS (s_ent (lookup s id)) (s_key (lookup s id)) (s_nch (lookup s id) + n).
Proof. exact spawn_advances. Qed.

(* setState(getState()) -- at any later time -- brings back the generators (with their draw
   histories) and seed sequences (as values) that were on the stacks when getState was called. *)
Theorem C21_setstate_roundtrip :
  forall s s2 : st,
    saved s2 = Some (heap s, sseq s, rng s) ->
    rng (do_setstate s2) = rng s /\ view_sseq (do_setstate s2) = view_sseq s.
Proof. exact setstate_roundtrip. Qed.

(* Source tie by translation.  Gen_Random.v is regenerated on every run from the CURRENT
   nifty/cl/random.py (push_sseq, push_sseq_from_seed, pop_sseq, spawn_sseq, Context.__init__ /
   __enter__ / __exit__; statement by statement, fail closed).  The generated functions are exactly
   the operations the model executes, and `with ctx: body` run through the generated __enter__ /
   __exit__ under Python's with-protocol is the model's [Enter]. *)
Theorem C21_source_tie :
  (forall id s, g_push_sseq id s = (do_push id s, None, false)) /\
  (forall z s, g_push_sseq_from_seed z s = exec (PushSeed z) s) /\
  (forall s, g_pop_sseq s = exec Pop s) /\
  (forall n s, g_spawn_sseq n None s = exec (Spawn n) s) /\
  (forall n id s, g_spawn_sseq n (Some id) s = (do_spawn id n s, None, false)) /\
  (forall i s, g_ctx_init i s = exec (NewCtx i) s) /\
  (forall c cid body s, nth_error (cpool s) c = Some cid ->
     py_with (g_ctx_enter cid) (g_ctx_exit cid) g_ctx_exit_value (exec body) s = exec (Enter c body) s).
Proof. exact source_tie. Qed.

(* ------------------------------------------------------------------------------------------ *)
(* JAX VI key schedule (nifty/re/optimize_kl.py)                                                *)
(* ------------------------------------------------------------------------------------------ *)

(* The keys handed to the samples, the state key and samples.keys of every iteration are the same
   whatever residual_map (vmap / lmap / smap), kl_map and the jit switches are. *)
Theorem C21_vi_keys :
  forall (im im' : impl) (cfg : nat -> smode * nat) (t : nat) (s : vstate),
    run im cfg t s = run im' cfg t s.
Proof. exact run_impl_independent. Qed.

(* closed form: after t iterations the state key is split(.,2)[0] applied t times; in an
   iteration that draws new samples, call i of the linear residual sampler receives
   split(split(key,2)[1], n_samples)[i] *)
Theorem C21_vi_keys_closed_form :
  forall (im : impl) (cfg : nat -> smode * nat),
    (forall t s, v_nit (snd (run im cfg t s)) = t + v_nit s /\
                 v_key (snd (run im cfg t s)) = tick t (v_key s)) /\
    (forall s m n n_keys m',
        cfg (v_nit s) = (m, n) ->
        n_keys = match v_skeys s with None => 0 | Some l => length l end ->
        rewrite_mode m n n_keys = Some m' -> is_resample m' = true ->
        o_lin (snd (update im cfg s)) = split_n (KS (v_key s) 2 1) n /\
        o_skeys (snd (update im cfg s)) = Some (split_n (KS (v_key s) 2 1) n) /\
        o_nl (snd (update im cfg s)) = (if is_nonlinear m' then zip2 (split_n (KS (v_key s) 2 1) n) else [])).
Proof. exact closed_form. Qed.

Theorem C21_vi_keys_reused :
  forall (im : impl) (cfg : nat -> smode * nat) (s : vstate) (m : smode) (n : nat) (ks : list key),
    cfg (v_nit s) = (m, n) -> v_skeys s = Some ks -> n = length ks -> n <> 0 ->
    is_resample m = false ->
    o_skeys (snd (update im cfg s)) = Some ks /\
    (m <> NlUpdate -> o_lin (snd (update im cfg s)) = ks) /\
    (is_nonlinear m = true -> o_nl (snd (update im cfg s)) = zip2 ks).
Proof. exact reuse_keys. Qed.

(* resuming from the state after t1 iterations continues the same schedule (used by C24) *)
Theorem C21_vi_resume :
  forall (im : impl) (cfg : nat -> smode * nat) (t1 t2 : nat) (s : vstate),
    run im cfg (t1 + t2) s =
    (fst (run im cfg t1 s) ++ fst (run im cfg t2 (snd (run im cfg t1 s))),
     snd (run im cfg t2 (snd (run im cfg t1 s)))).
Proof. exact run_resume. Qed.

(* as terms over an uninterpreted split, sample keys of different iterations never coincide *)
Theorem C21_vi_keys_fresh :
  forall (k : key) (t t' n n' i i' : nat),
    KS (KS (tick t k) 2 1) n i = KS (KS (tick t' k) 2 1) n' i' -> t = t' /\ n = n' /\ i = i'.
Proof. exact sample_keys_fresh. Qed.

(* ------------------------------------------------------------------------------------------ *)
(* Non-vacuity                                                                                  *)
(* ------------------------------------------------------------------------------------------ *)

(* a context whose body draws, spawns, enters a nested context on a spawned child, raises inside
   it and pushes/pops by hand meets the hypotheses of C21_context_restores ... *)
Definition ex_body : prog :=
  Seq (Draw DN 3) (Seq (Spawn 2) (Seq (Try (Ctx (IVar 0) (Seq (Draw DU 1) Raise)))
      (Seq (PushSeed 5) (Seq (Draw DPC 2) (Seq Pop Raise))))).
Example C21_restores_nonvacuous :
  let r := exec (Ctx (ISeed 7) ex_body) (isolate (init 42)) in
  snd r = false /\ snd (fst r) = Some EUser /\ sseq (fst (fst r)) = [] /\
  length (dlog (fst (fst r))) = 3.
Proof. vm_compute. auto. Qed.

(* ... whereas a body that pops the outer entry and pushes a replacement is not covered (flag) *)
Example C21_reaching_below_is_flagged :
  snd (exec (Ctx (ISeed 7) (Seq Pop (Seq Pop (Seq (PushSeed 1) (PushSeed 2))))) (isolate (init 42))) = true.
Proof. vm_compute. reflexivity. Qed.

(* and on the full stack that program silently replaces the outer generator (depth check passes) *)
Example C21_reaching_below_replaces_outer :
  let r := exec (Ctx (ISeed 7) (Seq Pop (Seq Pop (Seq (PushSeed 1) (PushSeed 2))))) (init 42) in
  snd (fst r) = None /\ map g_ent (rng (fst (fst r))) = [1%Z].
Proof. vm_compute. auto. Qed.

Example C21_unbalanced_example :
  snd (fst (exec (Ctx (ISeed 7) (PushSeed 1)) (init 42))) = Some ERuntime.
Proof. vm_compute. reflexivity. Qed.

(* a Context object entered twice draws the same numbers twice (same identity, EMPTY history before
   the first draw of each entry), also when re-entered after an exception and inside another context *)
Example C21_reentry_example :
  let p := Seq (NewCtx (ISeed 123))
          (Seq (Enter 0 (Draw DU 2))
          (Seq (Try (Enter 0 (Seq (Draw DN 1) Raise)))
               (Ctx (ISeed 5) (Enter 0 (Draw DU 6))))) in
  map (fun d => (d_ent d, d_before d, d_n d)) (dlog (fst (fst (exec p (init 42))))) =
  [(123%Z, [], 6); (123%Z, [], 1); (123%Z, [], 2)] /\
  length (sseq (fst (fst (exec p (init 42))))) = 1.
Proof. vm_compute. auto. Qed.

(* the same object nested in itself: the outer __exit__ raises RuntimeError (self._depth was
   overwritten by the inner __enter__), the stacks are nevertheless restored *)
Example C21_nested_same_object :
  let r := exec (Seq (NewCtx (ISeed 1)) (Enter 0 (Enter 0 (Draw DU 1)))) (init 42) in
  snd (fst r) = Some ERuntime /\ sseq (fst (fst r)) = [0] /\ length (rng (fst (fst r))) = 1.
Proof. vm_compute. auto. Qed.

Example C21_vi_example :
  fst (run (mkImpl Lmap Smap false true false)
           (cfg_of [(NlSample, 2); (NlSample, 2); (NlUpdate, 3)]) 3 (mkV 0 K0 None)) =
  fst (run (mkImpl Vmap Vmap true false true)
           (cfg_of [(NlSample, 2); (NlSample, 2); (NlUpdate, 3)]) 3 (mkV 0 K0 None)) /\
  o_lin (nth 2 (fst (run (mkImpl Lmap Smap false true false)
           (cfg_of [(NlSample, 2); (NlSample, 2); (NlUpdate, 3)]) 3 (mkV 0 K0 None))) (mkO [] [] K0 None))
  = split_n (KS (tick 2 K0) 2 1) 3.
Proof. vm_compute. auto. Qed.

(* ------------------------------------------------------------------------------------------ *)
(* concatenate_zip (nifty/re/evi.py), round 7                                                   *)
(* ------------------------------------------------------------------------------------------ *)

(* For ANY two row lists of equal length, concatenate_zip(a, b) has twice the length and row 2i is
   a[i], row 2i+1 is b[i]: the mirrored counterpart always comes right after the original. *)
Theorem C21_czip_interleaves : forall (A : Type) (a b : list A) (d : A) (i : nat),
  length a = length b -> i < length a ->
  length (czip a b) = 2 * length a /\
  nth (2 * i) (czip a b) d = nth i a d /\ nth (2 * i + 1) (czip a b) d = nth i b d.
Proof. exact @czip_interleaves. Qed.

(* The key list handed to the non-linear update (ModelVI.zip2) IS concatenate_zip(keys, keys), and a
   sample and its mirrored counterpart (2i, 2i+1) receive the SAME key, the i-th sample key. *)
Theorem C21_vi_mirror_pairing : forall (ks : list key) (d : key) (i : nat),
  czip ks ks = zip2 ks /\
  (i < length ks -> nth (2 * i) (zip2 ks) d = nth i ks d /\ nth (2 * i + 1) (zip2 ks) d = nth i ks d).
Proof. exact vi_mirror_pairing. Qed.

(* sgn = concatenate_zip(ones, -ones): +1 for every original, -1 for every mirrored sample. *)
Theorem C21_vi_sgn_alternates : forall n i : nat, i < n ->
  nth (2 * i) (sgns n) 0%Z = 1%Z /\ nth (2 * i + 1) (sgns n) 0%Z = (-1)%Z.
Proof. exact sgns_nth. Qed.
