(* C21 -- executable model of nifty/re/evi.py:concatenate_zip (no proofs in this file).

   def concatenate_zip( *arrays ):
       return tree_map(lambda star-x: jnp.stack(x, axis=1).reshape((-1,) + x[0].shape[1:]), star-arrays)

   For two arrays of equal leading length (what draw_linear_samples / nonlinearly_update_samples pass:
   `concatenate_zip(smpls, -smpls)`, `concatenate_zip(keys, keys)`, `concatenate_zip(sgn, -sgn)`)
   stack(axis=1) + reshape(-1, ...) interleaves the rows: a0 b0 a1 b1 ...  Rows are opaque elements. *)
From Coq Require Import List Bool Arith ZArith.
Import ListNotations.

Fixpoint czip {A : Type} (a b : list A) : list A :=
  match a, b with
  | x :: a', y :: b' => x :: y :: czip a' b'
  | _, _ => []
  end.

(* sgn = ones(n); sgn = concatenate_zip(sgn, -sgn) *)
Definition sgns (n : nat) : list Z := czip (repeat 1%Z n) (repeat (-1)%Z n).

Fixpoint zl_eqb (a b : list Z) : bool :=
  match a, b with
  | [], [] => true
  | x :: a', y :: b' => Z.eqb x y && zl_eqb a' b'
  | _, _ => false
  end.

Definition czip_ok (a b r : list Z) : bool := zl_eqb (czip a b) r.
Definition sgns_ok (n : nat) (r : list Z) : bool := zl_eqb (sgns n) r.
