(* C35 -- proofs about the models of LinearInterpolator._build_mat and _comp_traverse. *)
From Coq Require Import ZArith QArith Qround Qabs Qminmax List Bool Lia Lqa Setoid Morphisms.
Import ListNotations.
Require Import NV.C35.Model.
Local Open Scope Q_scope.

(* ------------------------------------------------------------------------------------------ *)
(* sums *)
Lemma qsum_app a b : qsum (a ++ b) == qsum a + qsum b.
Proof. induction a; cbn; [ring | rewrite IHa; ring]. Qed.

Lemma qsum_ext {A} (f g : A -> Q) l : (forall x, f x == g x) -> qsum (map f l) == qsum (map g l).
Proof. intro E; induction l; cbn; [reflexivity | rewrite E, IHl; reflexivity]. Qed.

Lemma qsum_lin {A} (G H1 H2 : A -> Q) (u v : Q) l :
  qsum (map (fun c => u * G c * (H1 c + v * H2 c)) l)
  == u * (qsum (map (fun c => G c * H1 c) l) + v * qsum (map (fun c => G c * H2 c) l)).
Proof. induction l; cbn; [ring | rewrite IHl; ring]. Qed.

Lemma qsum_scal {A} (G : A -> Q) (u : Q) l :
  qsum (map (fun c => u * G c) l) == u * qsum (map G l).
Proof. induction l; cbn; [ring | rewrite IHl; ring]. Qed.

(* ------------------------------------------------------------------------------------------ *)
(* multilinear interpolation *)

Lemma corner_weight_nonneg c ex : 0 <= corner_weight c ex.
Proof.
  revert ex; induction c as [|b c IH]; intros [|e ex]; cbn [corner_weight]; try lra.
  apply Qmult_le_0_compat; [apply Qabs_nonneg | apply IH].
Qed.

Lemma abs_one_minus e : 0 <= e -> e <= 1 -> Qabs (1 - b2q false - e) == 1 - e.
Proof.
  intros. unfold b2q. setoid_replace (1 - 0 - e) with (1 - e) by ring.
  apply Qabs_pos. lra.
Qed.
Lemma abs_minus e : 0 <= e -> e <= 1 -> Qabs (1 - b2q true - e) == e.
Proof.
  intros. unfold b2q. setoid_replace (1 - 1 - e) with (- e) by ring.
  rewrite Qabs_opp. apply Qabs_pos. assumption.
Qed.

Definition unit_range (ex : list Q) : Prop := Forall (fun e => 0 <= e /\ e <= 1) ex.

Lemma weights_sum_one ex :
  unit_range ex -> qsum (map (fun c => corner_weight c ex) (corners (length ex))) == 1.
Proof.
  induction 1 as [|e ex [H0 H1] HF IH]; cbn [length corners].
  - cbn. ring.
  - rewrite map_app, qsum_app, !map_map. cbn [corner_weight].
    rewrite (qsum_ext _ (fun c => (1 - e) * corner_weight c ex)) by (intro; rewrite abs_one_minus by assumption; reflexivity).
    rewrite (qsum_ext (fun x => Qabs (1 - b2q true - e) * corner_weight x ex) (fun c => e * corner_weight c ex))
      by (intro; rewrite abs_minus by assumption; reflexivity).
    rewrite !qsum_scal, IH. ring.
Qed.

(* the point, in pixel units: cell + excess *)
Fixpoint point_of (cell : list Z) (ex : list Q) : list Q :=
  match cell, ex with
  | k :: cell', e :: ex' => (inject_Z k + e) :: point_of cell' ex'
  | _, _ => []
  end.

Lemma interp_exact f : forall cell ex,
  length cell = length ex -> unit_range ex ->
  interp_value f cell ex == ml_eval f (point_of cell ex).
Proof.
  unfold interp_value. intros cell ex; revert cell f.
  induction ex as [|e ex IH]; intros [|k cell] f Hlen HR; try discriminate.
  - cbn. destruct f; cbn; ring.
  - inversion HR as [|? ? [H0 H1] HF]; subst. injection Hlen as Hlen.
    cbn [length corners]. rewrite map_app, qsum_app, !map_map.
    cbn [corner_weight corner_coord point_of].
    destruct f as [c|a b].
    + cbn [ml_eval].
      rewrite (qsum_ext _ (fun x => ((1 - e) * c) * corner_weight x ex))
        by (intro; rewrite abs_one_minus by assumption; ring).
      rewrite (qsum_ext (fun x => Qabs (1 - b2q true - e) * corner_weight x ex * c) (fun x => (e * c) * corner_weight x ex))
        by (intro; rewrite abs_minus by assumption; ring).
      rewrite !qsum_scal. rewrite Hlen, weights_sum_one by assumption. ring.
    + cbn [ml_eval].
      rewrite (qsum_ext _ (fun x => (1 - e) * corner_weight x ex *
                                    (ml_eval a (corner_coord x cell) + (inject_Z k + b2q false) * ml_eval b (corner_coord x cell))))
        by (intro; rewrite abs_one_minus by assumption; reflexivity).
      rewrite (qsum_ext (fun x => Qabs (1 - b2q true - e) * corner_weight x ex * _)
                        (fun x => e * corner_weight x ex *
                                    (ml_eval a (corner_coord x cell) + (inject_Z k + b2q true) * ml_eval b (corner_coord x cell))))
        by (intro; rewrite abs_minus by assumption; reflexivity).
      rewrite !qsum_lin. rewrite (IH cell a Hlen HF), (IH cell b Hlen HF). cbn [b2q]. ring.
Qed.

(* ------------------------------------------------------------------------------------------ *)
(* line of sight: successive differences of a sorted list *)

Fixpoint sorted (l : list Q) : Prop :=
  match l with
  | a :: ((b :: _) as r) => a <= b /\ sorted r
  | _ => True
  end.

Lemma last_cons (b : Q) l a : last (b :: l) a = last l b.
Proof. revert b; induction l as [|c l IH]; intro b; [reflexivity|]. cbn [last] in *. destruct l; [reflexivity|]. apply IH. Qed.

Lemma diffs_telescope a l : qsum (diffs (a :: l)) == last l a - a.
Proof.
  revert a; induction l as [|b l IH]; intro a.
  - cbn. ring.
  - change (diffs (a :: b :: l)) with ((b - a) :: diffs (b :: l)). cbn [qsum].
    rewrite IH, last_cons. ring.
Qed.

Lemma diffs_nonneg l : sorted l -> Forall (fun w => 0 <= w) (diffs l).
Proof.
  induction l as [|a [|b l] IH]; cbn [diffs sorted]; intros; try constructor.
  - destruct H; lra.
  - apply IH. tauto.
Qed.

Lemma insert_sorted x l : sorted (map fst l) -> sorted (map fst (insert x l)).
Proof.
  induction l as [|y l IH]; cbn [insert map sorted]; [tauto|].
  intro S. destruct (Qle_bool (fst x) (fst y)) eqn:E.
  - cbn [map sorted]. split; [apply Qle_bool_iff; exact E | exact S].
  - assert (Hyx : fst y <= fst x).
    { destruct (Qlt_le_dec (fst x) (fst y)) as [L|L]; [|exact L].
      apply Qlt_le_weak in L. apply Qle_bool_iff in L. congruence. }
    cbn [map]. destruct l as [|z l].
    + cbn. split; [exact Hyx | exact I].
    + cbn [map sorted] in S. destruct S as [Syz S].
      specialize (IH S). cbn [insert] in *. destruct (Qle_bool (fst x) (fst z)); cbn [map sorted] in *; tauto.
Qed.

Lemma isort_sorted l : sorted (map fst (isort l)).
Proof. induction l; cbn [isort]; [exact I | apply insert_sorted; assumption]. Qed.

Lemma insert_Forall (P : Q * Z -> Prop) x l : P x -> Forall P l -> Forall P (insert x l).
Proof.
  intros Px; induction 1; cbn [insert]; [repeat constructor; assumption|].
  destruct (Qle_bool _ _); repeat constructor; assumption.
Qed.
Lemma isort_Forall (P : Q * Z -> Prop) l : Forall P l -> Forall P (isort l).
Proof. induction 1; cbn [isort]; [constructor | apply insert_Forall; assumption]. Qed.

(* a sorted list whose entries lie in [lo, hi] stays sorted when lo / hi are put at the ends *)
Lemma sorted_bracket lo hi l :
  lo <= hi -> sorted l -> Forall (fun t => lo <= t /\ t <= hi) l -> sorted (lo :: l ++ [hi]).
Proof.
  intros Hlh S F.
  assert (G : forall l, sorted l -> Forall (fun t => lo <= t /\ t <= hi) l -> sorted (l ++ [hi])).
  { clear. induction l as [|a [|b l] IH]; intros S F; cbn [app sorted]; auto.
    - inversion F; subst. split; [tauto | exact I].
    - cbn [sorted] in S. inversion F; subst. split; [tauto|]. apply IH; tauto. }
  destruct l as [|a l]; cbn [app sorted].
  - split; [exact Hlh | exact I].
  - split; [inversion F; tauto|]. apply (G (a :: l)); assumption.
Qed.

(* np.arange(start, stop, step) stays in [start, stop) *)
Lemma arange_n_bounds lo stop step : 0 < step -> forall n s,
  lo <= s -> ((0 < n)%nat -> s + (inject_Z (Z.of_nat n) - 1) * step < stop) ->
  Forall (fun t => lo <= t /\ t < stop) (arange_n s step n).
Proof.
  intros Hst. induction n as [|n IH]; intros s Hlo Hhi; cbn [arange_n]; constructor.
  - split; [exact Hlo|]. specialize (Hhi (Nat.lt_0_succ n)).
    assert (0 <= inject_Z (Z.of_nat (S n)) - 1).
    { rewrite Nat2Z.inj_succ. unfold Z.succ. rewrite inject_Z_plus.
      assert (0 <= inject_Z (Z.of_nat n)) by (change 0 with (inject_Z 0); rewrite <- Zle_Qle; lia). change (inject_Z 1) with 1. lra. }
    nra.
  - apply IH; [lra|]. intro Hn. specialize (Hhi (Nat.lt_0_succ n)).
    rewrite Nat2Z.inj_succ in Hhi. unfold Z.succ in Hhi. rewrite inject_Z_plus in Hhi. change (inject_Z 1) with 1 in Hhi. lra.
Qed.

Lemma arange_bounds start stop step :
  0 < step -> Forall (fun t => start <= t /\ t < stop) (arange start stop step).
Proof.
  intro Hst. unfold arange. apply arange_n_bounds; [assumption | lra |].
  intro Hn. set (x := (stop - start) / step) in *.
  assert (Hc : (0 < Qceiling x)%Z) by (destruct (Qceiling x); cbn in Hn; lia).
  rewrite Z2Nat.id by lia.
  assert (L := Qceiling_lt x). unfold Z.sub in L. rewrite inject_Z_plus, inject_Z_opp in L. change (inject_Z 1) with 1 in L.
  assert (E : x * step == stop - start) by (unfold x; field; lra).
  nra.
Qed.
