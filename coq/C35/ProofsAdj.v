(* C35 -- adjoint of the regridding: shape and conservation of the total. *)
From Coq Require Import ZArith QArith Qround List Bool Lia Lqa Setoid.
Import ListNotations.
Require Import NV.C35.Model NV.C35.ModelAdj NV.C35.ProofsOps.
Local Open Scope Q_scope.

Lemma add_at_length k x l : length (add_at k x l) = length l.
Proof. revert k; induction l as [|h t IH]; intros [|k]; cbn; auto. Qed.

Lemma add_at_sum l : forall k x, (k < length l)%nat -> qsum (add_at k x l) == qsum l + x.
Proof.
  induction l as [|h t IH]; intros k x H; cbn in H; [lia|].
  destruct k as [|k]; cbn [add_at qsum fold_right].
  - ring.
  - fold (qsum (add_at k x t)). fold (qsum t). rewrite IH by lia. ring.
Qed.

Lemma scatter_spec ps : forall l, Forall (fun p => (fst p < length l)%nat) ps ->
  length (scatter l ps) = length l /\ qsum (scatter l ps) == qsum l + qsum (map snd ps).
Proof.
  induction ps as [|p ps IH]; intros l H.
  - split; [reflexivity|]. change (qsum l == qsum l + 0). ring.
  - cbn [scatter fold_left map]. inversion H as [|? ? Hp Hr]; subst.
    destruct (IH (add_at (fst p) (snd p) l)) as [L S].
    { rewrite add_at_length. exact Hr. }
    unfold scatter in L, S. split.
    + rewrite L. apply add_at_length.
    + rewrite S. rewrite add_at_sum by exact Hp. change (qsum (snd p :: map snd ps)) with (snd p + qsum (map snd ps)). ring.
Qed.

Lemma pairs_sum n_old n_new l :
  qsum (map snd (flat_map (regrid_adj_pairs n_old n_new) l)) == qsum (map fst l).
Proof.
  induction l as [|a l IH]; [reflexivity|].
  cbn [flat_map regrid_adj_pairs app map qsum fold_right fst snd].
  fold (qsum (map snd (flat_map (regrid_adj_pairs n_old n_new) l))). fold (qsum (map fst l)).
  rewrite IH. ring.
Qed.

Lemma qsum_repeat0 n : qsum (repeat 0 n) == 0.
Proof. induction n; cbn; [reflexivity|]. fold (qsum (repeat 0 n)). rewrite IHn. ring. Qed.

Lemma map_fst_combine {A B} (a : list A) : forall (b : list B), length a = length b -> map fst (combine a b) = a.
Proof. induction a as [|x a IH]; intros [|y b] H; try discriminate; [reflexivity|]. cbn. f_equal. apply IH. cbn in H. lia. Qed.

Lemma regrid_adjoint_conserves (w : list Q) (n_old : Z) :
  (2 <= n_old)%Z -> (1 <= Z.of_nat (length w) <= n_old)%Z ->
  length (regrid_adj_1d w n_old) = Z.to_nat n_old /\ qsum (regrid_adj_1d w n_old) == qsum w.
Proof.
  intros Ho Hn. unfold regrid_adj_1d.
  set (l := combine w (map Z.of_nat (seq 0 (length w)))).
  destruct (scatter_spec (flat_map (regrid_adj_pairs n_old (Z.of_nat (length w))) l) (repeat 0 (Z.to_nat n_old))) as [L S].
  - rewrite repeat_length. apply Forall_forall. intros p Hp.
    apply in_flat_map in Hp. destruct Hp as [[wi i] [Hin Hp]].
    assert (Hi : (0 <= i < Z.of_nat (length w))%Z).
    { apply in_combine_r in Hin. apply in_map_iff in Hin. destruct Hin as [k [<- Hk]]. apply in_seq in Hk. lia. }
    destruct (regrid_frac_range n_old (Z.of_nat (length w)) i Ho Hn Hi) as [_ [_ Hb]].
    unfold regrid_adj_pairs in Hp. cbn [fst snd] in Hp.
    destruct Hp as [<-|[<-|[]]]; cbn [fst]; lia.
  - split; [rewrite L; apply repeat_length|].
    rewrite S, pairs_sum, qsum_repeat0. unfold l. rewrite map_fst_combine; [ring|].
    rewrite map_length, seq_length. reflexivity.
Qed.
