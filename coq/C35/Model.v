(* C35 -- executable models of response operators (no proofs here).
   nifty/cl/operators/linear_interpolation.py  LinearInterpolator._build_mat
   nifty/cl/library/los_response.py            _comp_traverse (one line of sight, no parallax error)
   nifty/cl/operators/regridding_operator.py   per-axis two-point interpolation
   nifty/cl/operators/field_zero_padder.py     per-axis padding / cropping
   nifty/cl/operators/mask_operator.py         selection of the unflagged pixels
   Arithmetic: Q (exact).  The implementation is float64; the correspondence uses dyadic inputs where
   the float computation is exact (interpolation, regridding, padding, masks) and a tolerance for
   the line-of-sight weights (the implementation stores them in float32). *)
From Coq Require Import ZArith QArith Qround Qabs Qminmax List Bool.
Import ListNotations.
Local Open Scope Q_scope.

(* ------------------------------------------------------------------------------------------ *)
(* LinearInterpolator._build_mat *)

(*  mg = np.mgrid[(slice(0, 2),)*ndim]; mg = np.array(list(map(np.ravel, mg)))
    corner i = mg[:, i]; C order: the first axis is the slowest *)
Fixpoint corners (d : nat) : list (list bool) :=
  match d with
  | O => [[]]
  | S d' => map (cons false) (corners d') ++ map (cons true) (corners d')
  end.

Definition b2q (b : bool) : Q := if b then 1 else 0.

(*  factor = np.prod(np.abs(1 - mg[:, i].reshape(-1, 1) - excess), axis=0) *)
Fixpoint corner_weight (c : list bool) (excess : list Q) : Q :=
  match c, excess with
  | b :: c', e :: ex' => Qabs (1 - b2q b - e) * corner_weight c' ex'
  | _, _ => 1
  end.

(*  pos = sampling_points/dist; excess = pos - np.floor(pos); pos = np.floor(pos).astype(np.int64) *)
Definition cell_of (p dist : Q) : Z := Qfloor (p / dist).
Definition excess_of (p dist : Q) : Q := p / dist - inject_Z (Qfloor (p / dist)).

(*  fromi = (pos + mg[:, i].reshape(-1, 1)) % max_index      (Python %: result in [0, n))
    jj[i, :] = np.ravel_multi_index(fromi, self.domain.shape)                                  *)
Fixpoint ravel (idx shape : list Z) (acc : Z) : Z :=
  match idx, shape with
  | i :: idx', n :: shape' => ravel idx' shape' (acc * n + i)%Z
  | _, _ => acc
  end.
Fixpoint corner_index (c : list bool) (cell shape : list Z) : list Z :=
  match c, cell, shape with
  | b :: c', k :: cell', n :: shape' => ((k + (if b then 1 else 0)) mod n)%Z :: corner_index c' cell' shape'
  | _, _, _ => []
  end.

(* one row of the sparse matrix: (flat column index, weight) for the 2^d corners, in corner order *)
Definition interp_row (shape : list Z) (dist point : list Q) : list (Z * Q) :=
  let cell := map (fun pd => cell_of (fst pd) (snd pd)) (combine point dist) in
  let ex := map (fun pd => excess_of (fst pd) (snd pd)) (combine point dist) in
  map (fun c => (ravel (corner_index c cell shape) shape 0%Z, corner_weight c ex)) (corners (length shape)).

(* dense row (coo_matrix sums duplicate entries) *)
Fixpoint dense_row (n : nat) (entries : list (Z * Q)) : list Q :=
  match entries with
  | [] => repeat 0 n
  | (j, w) :: r =>
    let row := dense_row n r in
    let k := Z.to_nat j in
    firstn k row ++ match skipn k row with [] => [] | x :: t => Qred (x + w) :: t end
  end.

(* ------------------------------------------------------------------------------------------ *)
(* multilinear functions of d variables: f(x :: xs) = a(xs) + x * b(xs) *)
Inductive mlin : Type :=
| MLconst (c : Q)
| MLnode (a b : mlin).
Fixpoint ml_eval (f : mlin) (x : list Q) : Q :=
  match f, x with
  | MLconst c, _ => c
  | MLnode a b, x0 :: xs => ml_eval a xs + x0 * ml_eval b xs
  | MLnode a b, [] => ml_eval a []
  end.
(* coordinates (in units of the pixel distance) of corner c of the cell *)
Fixpoint corner_coord (c : list bool) (cell : list Z) : list Q :=
  match c, cell with
  | b :: c', k :: cell' => (inject_Z k + b2q b) :: corner_coord c' cell'
  | _, _ => []
  end.
Fixpoint qsum (l : list Q) : Q := match l with [] => 0 | x :: r => x + qsum r end.
(* sum over the corners of weight * f(corner) *)
Definition interp_value (f : mlin) (cell : list Z) (ex : list Q) : Q :=
  qsum (map (fun c => corner_weight c ex * ml_eval f (corner_coord c cell)) (corners (length cell))).

(* ------------------------------------------------------------------------------------------ *)
(* _comp_traverse, one line of sight, erf part switched off (sigma = 0: lo = mid = hi = length, so
   apply_erf leaves every weight with mdist <= hi untouched).  All quantities in pixel units except
   the final factor corfac = |direction * dist| (a square root: supplied by the caller). *)

Definition Qtrunc (x : Q) : Z := if Qle_bool 0 x then Qfloor x else Qceiling x.   (* astype(np.int64) *)
Definition Qmaxl (l : list Q) (d : Q) : Q := fold_left Qmax l d.
Definition Qminl (l : list Q) (d : Q) : Q := fold_left Qmin l d.

(* the float constants of the source, as exact rationals *)
Definition c1e12 : Q := 1000000000000.

(* np.arange(start, stop, step): start + k*step for k = 0 .. ceil((stop-start)/step) - 1 *)
Fixpoint arange_n (start step : Q) (n : nat) : list Q :=
  match n with O => [] | S n' => start :: arange_n (start + step) step n' end.
Definition arange (start stop step : Q) : list Q :=
  arange_n start step (Z.to_nat (Qceiling ((stop - start) / step))).

(* insertion sort of (parameter, index increment) by parameter: np.argsort(cdist) (ties: see notes) *)
Fixpoint insert (x : Q * Z) (l : list (Q * Z)) : list (Q * Z) :=
  match l with
  | [] => [x]
  | y :: r => if Qle_bool (fst x) (fst y) then x :: y :: r else y :: insert x r
  end.
Fixpoint isort (l : list (Q * Z)) : list (Q * Z) :=
  match l with [] => [] | x :: r => insert x (isort r) end.

Fixpoint diffs (l : list Q) : list Q :=
  match l with
  | a :: ((b :: _) as r) => (b - a) :: diffs r
  | _ => []
  end.
Fixpoint cumsum (acc : Z) (l : list Z) : list Z :=
  match l with [] => [] | x :: r => (acc + x)%Z :: cumsum (acc + x)%Z r end.

(* inc[i] = inc[i+1]*shp[i+1], inc[-1] = 1 : C strides *)
Fixpoint strides (shp : list Z) : list Z :=
  match shp with
  | [] => []
  | _ :: r => fold_left Z.mul r 1%Z :: strides r
  end.

Record los_out := mkLos { l_dmin : Q; l_dmax : Q; l_cross : list (Q * Z); l_pos1 : Z }.

Section Los.
  Variable eps : Q.       (* the literal 1e-7 of `dmin += 1e-7; dmax -= 1e-7` *)

  (*  direction = end - start
      d0 = np.where(direction == 0., ((start > 0)-0.5)*1e12, -start/dirx)
      d1 = np.where(direction == 0., ((start < pmax)-0.5)*-1e12, (pmax-start)/dirx)          *)
  Definition d0_of (s dir : Q) : Q :=
    if Qeq_bool dir 0 then ((if Qle_bool s 0 then 0 else 1) - (1 # 2)) * c1e12 else - s / dir.
  Definition d1_of (s dir pmax : Q) : Q :=
    if Qeq_bool dir 0 then ((if Qle_bool pmax s then 0 else 1) - (1 # 2)) * - c1e12 else (pmax - s) / dir.

  (* (dmin, dmax) = (np.minimum(d0, d1), np.maximum(d0, d1)); dmin = dmin.max(); dmax = dmax.min()
     dmin = np.maximum(0., dmin); dmax = np.minimum(1., dmax); dmax = np.maximum(dmin, dmax)
     dmin += 1e-7; dmax -= 1e-7 *)
  Definition los_bounds (sd : list (Q * Q)) (shp : list Z) : option (Q * Q) :=
    let sdp := combine sd (map inject_Z shp) in
    let d0 := map (fun x => d0_of (fst x) (snd x)) sd in
    let d1 := map (fun x => d1_of (fst (fst x)) (snd (fst x)) (snd x)) sdp in
    let mins := map (fun ab => Qmin (fst ab) (snd ab)) (combine d0 d1) in
    let maxs := map (fun ab => Qmax (fst ab) (snd ab)) (combine d0 d1) in
    match mins, maxs with
    | m0 :: mr, M0 :: Mr =>
      let dmin := Qmax 0 (Qmaxl mr m0) in
      let dmax := Qmax dmin (Qmin 1 (Qminl Mr M0)) in
      Some (dmin + eps, dmax - eps)
    | _, _ => None
    end.

  (* c_first = np.ceil(start+direction*dmin); c_first = np.where(direction > 0., c_first, c_first-1.)
     c_first = (c_first-start)/dirx *)
  Definition c_first (dmin : Q) (x : Q * Q) : Q :=
    let s := fst x in let dr := snd x in
    let c := inject_Z (Qceiling (s + dr * dmin)) in
    let c := if Qle_bool dr 0 then c - 1 else c in
    (c - s) / dr.

  (* for j in range(ndim): if direction[j] != 0:
         step = inc[j] if direction[j] > 0 else -inc[j]
         tmp = np.arange(start=c_first[j], stop=dmax, step=abs(1./direction[j]))            *)
  Definition axis_cross (dmin dmax : Q) (x : (Q * Q) * Z) : list (Q * Z) :=
    let dr := snd (fst x) in let st := snd x in
    if Qeq_bool dr 0 then []
    else map (fun t => (t, if Qle_bool dr 0 then (- st)%Z else st))
             (arange (c_first dmin (fst x)) dmax (Qabs (1 / dr))).

  Definition los_traverse (start endp : list Q) (shp : list Z) : option los_out :=
    let dirs := map (fun se => snd se - fst se) (combine start endp) in
    let sd := combine start dirs in
    match los_bounds sd shp with
    | None => None
    | Some (dmin, dmax) =>
      (* if dmin >= dmax: no intersection *)
      if Qle_bool dmax dmin then None
      else
        (* pos1 = np.sum(np.asarray(start+dmin*direction, dtype=np.int64)*inc) *)
        let pos1 := fold_left Z.add (map (fun x => (Qtrunc (fst (fst x) + dmin * snd (fst x)) * snd x)%Z)
                                         (combine sd (strides shp))) 0%Z in
        (* idx = np.argsort(cdist); cdist = cdist[idx]; add = add[idx] *)
        Some (mkLos dmin dmax (isort (concat (map (axis_cross dmin dmax) (combine sd (strides shp))))) pos1)
    end.

  (* cdist = [dmin] + sorted + [dmax]; wgt = np.diff(cdist) (times corfac, applied by the caller);
     add = np.cumsum([pos1] + add) *)
  Definition los_weights (o : los_out) : list Q :=
    diffs (l_dmin o :: map fst (l_cross o) ++ [l_dmax o]).
  Definition los_cells (o : los_out) : list Z :=
    cumsum 0%Z (l_pos1 o :: map snd (l_cross o)).
End Los.

(* dense response row of one line: sum of the weights per pixel, in parameter units *)
Definition los_row (npix : nat) (o : los_out) : list Q :=
  dense_row npix (combine (los_cells o) (los_weights o)).

(* ------------------------------------------------------------------------------------------ *)
(* RegriddingOperator, one axis:
     tmp = np.arange(new_shape[d])*(newdist[d]/dom.distances[d])
     bindex = np.minimum(dom.shape[d]-2, tmp.astype(np.int64));  frac = tmp - bindex
     TIMES:  xnew = v[bindex]*(1.-frac) + v[bindex+1]*frac                                      *)
Definition regrid_bindex (n_old n_new : Z) (i : Z) : Z :=
  Z.min (n_old - 2) (Qfloor (inject_Z i * (inject_Z n_old / inject_Z n_new))).
Definition regrid_frac (n_old n_new : Z) (i : Z) : Q :=
  inject_Z i * (inject_Z n_old / inject_Z n_new) - inject_Z (regrid_bindex n_old n_new i).
Definition regrid_1d (v : list Q) (n_new : Z) : list Q :=
  let n_old := Z.of_nat (length v) in
  map (fun i => let b := Z.to_nat (regrid_bindex n_old n_new i) in
                let f := regrid_frac n_old n_new i in
                Qred (nth b v 0 * (1 - f) + nth (S b) v 0 * f))
      (map Z.of_nat (seq 0 (Z.to_nat n_new))).

(* ------------------------------------------------------------------------------------------ *)
(* FieldZeroPadder, one axis.
     not central:  xnew[0:n] = v
     central:      Nyquist = n//2; xnew[0:Nyquist+1] = v[0:Nyquist+1]; xnew[-1 .. -Nyquist] = v[-1 .. -Nyquist] *)
Definition pad_1d (central : bool) (v : list Q) (n_new : nat) : list Q :=
  let n := length v in
  if Nat.eqb n n_new then v
  else if central then
    let ny := Nat.div n 2 in
    firstn (S ny) v ++ repeat 0 (n_new - S ny - ny) ++ skipn (n - ny) v
  else v ++ repeat 0 (n_new - n).
(*   adjoint, central: xnew[0:Ny+1] = v[0:Ny+1]; xnew[-1..-Ny] += v[-1..-Ny]   (Ny = n_small//2)
     adjoint, not central: v[0:n_small]                                                        *)
Definition add_tail (a b : list Q) : list Q :=   (* add b onto the last |b| entries of a *)
  let k := (length a - length b)%nat in
  firstn k a ++ map (fun xy => Qred (fst xy + snd xy)) (combine (skipn k a) b).
Definition crop_1d (central : bool) (v : list Q) (n_small : nat) : list Q :=
  let n := length v in
  if Nat.eqb n n_small then v
  else if central then
    let ny := Nat.div n_small 2 in
    add_tail (firstn (S ny) v ++ repeat 0 (n_small - S ny)) (skipn (n - ny) v)
  else firstn n_small v.

(* ------------------------------------------------------------------------------------------ *)
(* MaskOperator: self._flags = np.logical_not(flags.val); TIMES: x[self._flags] (C order);
   ADJOINT: res[self._flags] = x; res[~self._flags] = 0 *)
Fixpoint mask_times (flags : list bool) (x : list Q) : list Q :=
  match flags, x with
  | f :: fr, v :: xr => if f then mask_times fr xr else v :: mask_times fr xr
  | _, _ => []
  end.
Fixpoint mask_adjoint (flags : list bool) (y : list Q) : list Q :=
  match flags with
  | [] => []
  | f :: fr => if f then 0 :: mask_adjoint fr y
               else match y with v :: yr => v :: mask_adjoint fr yr | [] => 0 :: mask_adjoint fr [] end
  end.

(* apply_erf (parallax errors, sigma > 0): which treatment a sub-segment with mid-point distance `dist` gets
     mask = dist > hi;                 wgt[mask] = 0.
     mask = (dist > lo) & (dist <= hi); wgt[mask] *= erf((-1/dist[mask]+1/mid)/sig)
   with lo = 1/(1/length + truncation*sigma) < length < hi = 1/(1/length - truncation*sigma).
   0 = full weight, 1 = weighted by the survival function, 2 = dropped. *)
Definition erf_regime (lo hi dist : Q) : nat :=
  if Qle_bool dist hi then (if Qle_bool dist lo then 0%nat else 1%nat) else 2%nat.
