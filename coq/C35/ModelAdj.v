(* C35 -- RegriddingOperator, ADJOINT_TIMES on one axis (executable model, no proofs).
     xnew = np.zeros_like(v, shape=shp)                               (shp[d] = dom.shape[d] = n_old)
     xnew = special_add_at(xnew, d, self._bindex[d-d0],   v*(1.-wgt))
     xnew = special_add_at(xnew, d, self._bindex[d-d0]+1, v*wgt)
   special_add_at = np.add.at: duplicates in the index are accumulated. *)
From Coq Require Import ZArith QArith Qround List Bool.
Import ListNotations.
Require Import NV.C35.Model.
Local Open Scope Q_scope.

Fixpoint add_at (k : nat) (x : Q) (l : list Q) : list Q :=
  match l with
  | [] => []
  | h :: t => match k with O => (h + x) :: t | S k' => h :: add_at k' x t end
  end.
Definition scatter (l : list Q) (ps : list (nat * Q)) : list Q :=
  fold_left (fun acc p => add_at (fst p) (snd p) acc) ps l.
Definition qsum (l : list Q) : Q := fold_right Qplus 0 l.

(* the two contributions of target pixel i (value wi) *)
Definition regrid_adj_pairs (n_old n_new : Z) (wi : Q * Z) : list (nat * Q) :=
  let b := Z.to_nat (regrid_bindex n_old n_new (snd wi)) in
  let f := regrid_frac n_old n_new (snd wi) in
  [(b, fst wi * (1 - f)); (S b, fst wi * f)].
Definition regrid_adj_1d (w : list Q) (n_old : Z) : list Q :=
  let n_new := Z.of_nat (length w) in
  scatter (repeat 0 (Z.to_nat n_old))
          (flat_map (regrid_adj_pairs n_old n_new) (combine w (map Z.of_nat (seq 0 (length w))))).
