(* C35 -- check functions of the correspondence (evaluated by vm_compute).  No proofs. *)
From Coq Require Import ZArith QArith Qround Qabs Qminmax List Bool.
Import ListNotations.
Require Import NV.C35.Model NV.C35.ModelAdj.
Local Open Scope Q_scope.

Fixpoint list_qeq (a b : list Q) : bool :=
  match a, b with
  | [], [] => true
  | x :: r, y :: s => Qeq_bool x y && list_qeq r s
  | _, _ => false
  end.
Fixpoint list_close (tol : Q) (a b : list Q) : bool :=
  match a, b with
  | [], [] => true
  | x :: r, y :: s => Qle_bool (Qabs (x - y)) tol && list_close tol r s
  | _, _ => false
  end.

(* LinearInterpolator: one row of the dense matrix, exact (dyadic positions and distances) *)
Definition interp_case (shape : list Z) (dist point : list Q) (npix : nat) (expected : list Q) : bool :=
  list_qeq (dense_row npix (interp_row shape dist point)) expected.

(* multilinear exactness on a concrete multilinear function, evaluated (sanity of the theorem's reading) *)
Definition interp_ml_case (f : mlin) (dist point : list Q) : bool :=
  let cell := map (fun pd => cell_of (fst pd) (snd pd)) (combine point dist) in
  let ex := map (fun pd => excess_of (fst pd) (snd pd)) (combine point dist) in
  Qeq_bool (interp_value f cell ex)
           (ml_eval f (map (fun pd => fst pd / snd pd) (combine point dist))).

(* LOSResponse: one dense row, weights = parameter differences * corfac, absolute tolerance *)
Definition los_case (eps : Q) (start endp : list Q) (shp : list Z) (npix : nat) (corfac tol : Q)
           (expected : list Q) : bool :=
  match los_traverse eps start endp shp with
  | None => list_close tol (repeat 0 npix) expected
  | Some o => list_close tol (map (fun w => w * corfac) (los_row npix o)) expected
  end.
(* total weight = clipped length *)
Definition los_total (eps : Q) (start endp : list Q) (shp : list Z) : Q :=
  match los_traverse eps start endp shp with
  | None => 0
  | Some o => l_dmax o - l_dmin o
  end.

Definition regrid_case (v : list Q) (n_new : Z) (expected : list Q) : bool := list_qeq (regrid_1d v n_new) expected.
Definition regrid_adj_case (w : list Q) (n_old : Z) (expected : list Q) : bool := list_qeq (regrid_adj_1d w n_old) expected.
Definition pad_case (central : bool) (v : list Q) (n_new : nat) (expected : list Q) : bool :=
  list_qeq (pad_1d central v n_new) expected.
Definition crop_case (central : bool) (v : list Q) (n_small : nat) (expected : list Q) : bool :=
  list_qeq (crop_1d central v n_small) expected.
Definition mask_case (flags : list bool) (x expected : list Q) : bool := list_qeq (mask_times flags x) expected.
Definition mask_adj_case (flags : list bool) (y expected : list Q) : bool := list_qeq (mask_adjoint flags y) expected.

Definition regime_case (lo hi dist : Q) (obs : nat) : bool := Nat.eqb (erf_regime lo hi dist) obs.
