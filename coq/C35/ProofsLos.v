(* C35 -- the weights of one line of sight (model of _comp_traverse): non-negative, and they
   telescope to the clipped parameter length. *)
From Coq Require Import ZArith QArith Qround Qabs Qminmax List Bool Lia Lqa.
Import ListNotations.
Require Import NV.C35.Model NV.C35.Proofs.
Local Open Scope Q_scope.

Lemma Qeq_bool_false_neq a b : Qeq_bool a b = false -> ~ a == b.
Proof. intros E H. apply Qeq_bool_iff in H. congruence. Qed.

Lemma Qle_bool_false_lt a b : Qle_bool a b = false -> b < a.
Proof.
  intro E. destruct (Qlt_le_dec b a) as [L|L]; [exact L|].
  apply Qle_bool_iff in L. congruence.
Qed.

Lemma div_pos_ge a dr m : 0 < dr -> m * dr <= a -> m <= a / dr.
Proof. intros. apply Qle_shift_div_l; assumption. Qed.

Lemma div_neg_ge a dr m : dr < 0 -> a <= m * dr -> m <= a / dr.
Proof.
  intros Hd H. setoid_replace (a / dr) with ((- a) / (- dr)) by (field; lra).
  apply Qle_shift_div_l; lra.
Qed.

(* the first crossing on every axis is not before dmin *)
Lemma c_first_ge dmin s dr : ~ dr == 0 -> dmin <= c_first dmin (s, dr).
Proof.
  intro Hne. unfold c_first; cbn [fst snd].
  destruct (Qle_bool dr 0) eqn:E.
  - apply Qle_bool_iff in E. assert (Hd : dr < 0) by (destruct (Qlt_le_dec dr 0); [assumption | exfalso; apply Hne; lra]).
    apply div_neg_ge; [exact Hd|].
    assert (L := Qceiling_lt (s + dr * dmin)).
    unfold Z.sub in L. rewrite inject_Z_plus, inject_Z_opp in L. change (inject_Z 1) with 1 in L. lra.
  - apply Qle_bool_false_lt in E. apply div_pos_ge; [exact E|].
    assert (L := Qle_ceiling (s + dr * dmin)). lra.
Qed.

Lemma axis_cross_bounds dmin dmax x :
  Forall (fun tz => dmin <= fst tz /\ fst tz <= dmax) (axis_cross dmin dmax x).
Proof.
  unfold axis_cross. destruct x as [[s dr] st]; cbn [fst snd].
  destruct (Qeq_bool dr 0) eqn:E; [constructor|].
  apply Qeq_bool_false_neq in E.
  assert (Hstep : 0 < Qabs (1 / dr)).
  { assert (N : ~ 1 / dr == 0).
    { intro Z0. apply E. assert (X : 1 == (1 / dr) * dr) by (field; exact E). rewrite Z0 in X. lra. }
    apply Qabs_case; intro G.
    - destruct (Qlt_le_dec 0 (1 / dr)) as [L|L]; [exact L | exfalso; apply N; lra].
    - destruct (Qlt_le_dec 0 (- (1 / dr))) as [L|L]; [exact L | exfalso; apply N; lra]. }
  assert (B := arange_bounds (c_first dmin (s, dr)) dmax _ Hstep).
  assert (C := c_first_ge dmin s dr E).
  apply Forall_forall. intros tz Hin. apply in_map_iff in Hin. destruct Hin as [t [<- Hin]].
  rewrite Forall_forall in B. specialize (B t Hin). cbn [fst]. lra.
Qed.

Lemma Forall_concat {A} (P : A -> Prop) ls : Forall (fun l => Forall P l) ls -> Forall P (concat ls).
Proof. induction 1; cbn [concat]; [constructor | apply Forall_app; split; assumption]. Qed.

Theorem los_weights_ok eps start endp shp o :
  los_traverse eps start endp shp = Some o ->
  l_dmin o < l_dmax o /\
  Forall (fun w => 0 <= w) (los_weights o) /\
  qsum (los_weights o) == l_dmax o - l_dmin o /\
  length (los_cells o) = length (los_weights o).
Proof.
  unfold los_traverse. destruct (los_bounds _ _ _) as [[dmin dmax]|]; [|discriminate].
  destruct (Qle_bool dmax dmin) eqn:E; [discriminate|]. apply Qle_bool_false_lt in E.
  intro H. injection H as <-. unfold los_weights, los_cells. cbn [l_dmin l_dmax l_cross l_pos1].
  set (cr := isort _).
  assert (F : Forall (fun tz : Q * Z => dmin <= fst tz /\ fst tz <= dmax) cr).
  { apply isort_Forall, Forall_concat. apply Forall_forall. intros l Hin.
    apply in_map_iff in Hin. destruct Hin as [x [<- _]]. apply axis_cross_bounds. }
  assert (S : sorted (map fst cr)) by apply isort_sorted.
  assert (F' : Forall (fun t => dmin <= t /\ t <= dmax) (map fst cr)).
  { apply Forall_forall. intros t Hin. apply in_map_iff in Hin. destruct Hin as [tz [<- Hin]].
    rewrite Forall_forall in F. apply F, Hin. }
  split; [exact E|]. split; [|split].
  - apply diffs_nonneg. apply sorted_bracket; [lra | assumption | assumption].
  - rewrite diffs_telescope, last_last. reflexivity.
  - clear.
    assert (L1 : forall acc (l : list Z), length (cumsum acc l) = length l)
      by (intros acc l; revert acc; induction l; intro; cbn; [reflexivity | rewrite IHl; reflexivity]).
    rewrite L1. cbn [length]. rewrite map_length.
    assert (L2 : forall (l : list Q) a, length (diffs (a :: l)) = length l).
    { induction l as [|b l IH]; intro a; [reflexivity|].
      change (diffs (a :: b :: l)) with ((b - a) :: diffs (b :: l)). cbn [length]. rewrite IH. reflexivity. }
    rewrite L2, app_length, map_length. cbn. lia.
Qed.
