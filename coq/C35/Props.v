(* C35 -- property theorems only. *)
From Coq Require Import ZArith QArith List Bool.
Import ListNotations.
Require Import NV.C35.Model NV.C35.ModelAdj NV.C35.Proofs NV.C35.ProofsLos NV.C35.ProofsOps NV.C35.ProofsAdj.
Local Open Scope Q_scope.

(* Multilinear interpolation weights of LinearInterpolator._build_mat, any dimension:
   (a) every corner weight is >= 0 (for any excess: the code takes absolute values) *)
Theorem C35_interp_weights_nonneg : forall (c : list bool) (ex : list Q), 0 <= corner_weight c ex.
Proof. exact corner_weight_nonneg. Qed.

(* (b) for excesses in [0,1] (excess = pos - floor(pos)) the 2^d weights sum to 1 *)
Theorem C35_interp_weights_sum_one : forall ex : list Q,
  Forall (fun e => 0 <= e /\ e <= 1) ex ->
  qsum (map (fun c => corner_weight c ex) (corners (length ex))) == 1.
Proof. exact weights_sum_one. Qed.

(* (c) and they reproduce EVERY multilinear function exactly:
       sum_c w_c f(corner_c) = f(cell + excess)                                                 *)
Theorem C35_multilinear_exact : forall (f : mlin) (cell : list Z) (ex : list Q),
  length cell = length ex -> Forall (fun e => 0 <= e /\ e <= 1) ex ->
  interp_value f cell ex == ml_eval f (point_of cell ex).
Proof. exact interp_exact. Qed.

(* Line of sight (model of _comp_traverse, one line, any dimension, any grid shape, any value of
   the 1e-7 offset): whenever the line intersects the volume, the weights (in units of the line
   parameter; the code multiplies by the constant |direction*dist|) are >= 0 and sum to the clipped
   parameter interval dmax - dmin, and there is one cell index per weight.
   PARTIAL: that each sub-segment lies in the cell it is attributed to is not proved (tied by the
   correspondence with exact segment lengths and by brute-force sub-sampling). *)
Theorem C35_los_telescoping_partial :
  forall (eps : Q) (start endp : list Q) (shp : list Z) (o : los_out),
    los_traverse eps start endp shp = Some o ->
    l_dmin o < l_dmax o /\
    Forall (fun w => 0 <= w) (los_weights o) /\
    qsum (los_weights o) == l_dmax o - l_dmin o /\
    length (los_cells o) = length (los_weights o).
Proof. exact los_weights_ok. Qed.

(* MaskOperator: TIMES returns exactly the unflagged pixels (as many as there are), ADJOINT
   scatters them back and zeroes the flagged ones *)
Theorem C35_mask_selects_unflagged : forall (flags : list bool) (x : list Q),
  length x = length flags ->
  length (mask_times flags x) = unflagged flags /\
  mask_adjoint flags (mask_times flags x) = zero_flagged flags x.
Proof. intros; split; [apply mask_times_length | apply mask_adjoint_times]; assumption. Qed.

Theorem C35_mask_times_after_adjoint : forall (flags : list bool) (y : list Q),
  length y = unflagged flags -> mask_times flags (mask_adjoint flags y) = y.
Proof. exact mask_times_adjoint. Qed.

(* FieldZeroPadder (padding at the end of an axis): embeds the data, pads with zeros, and the
   adjoint crops it back *)
Theorem C35_pad_embeds : forall (v : list Q) (n : nat), (length v <= n)%nat ->
  length (pad_1d false v n) = n /\ firstn (length v) (pad_1d false v n) = v /\
  skipn (length v) (pad_1d false v n) = repeat 0 (n - length v) /\
  crop_1d false (pad_1d false v n) (length v) = v.
Proof.
  intros v n H. destruct (pad_end_spec v n H) as [A [B C]].
  repeat split; try assumption. apply crop_pad_end; assumption.
Qed.

(* RegriddingOperator: for every target pixel the two source pixels exist and the weights
   (1-frac, frac) are a convex combination: interpolation, never extrapolation *)
Theorem C35_regrid_convex : forall n_old n_new i : Z,
  (2 <= n_old)%Z -> (1 <= n_new <= n_old)%Z -> (0 <= i < n_new)%Z ->
  0 <= regrid_frac n_old n_new i /\ regrid_frac n_old n_new i <= 1 /\
  (0 <= regrid_bindex n_old n_new i <= n_old - 2)%Z.
Proof. exact regrid_frac_range. Qed.

(* RegriddingOperator, ADJOINT_TIMES (np.add.at scatter of v*(1-frac) to bindex and v*frac to bindex+1):
   for every coarse vector w (1 <= |w| <= n_old, n_old >= 2) the result lives on the n_old fine pixels (no
   contribution is scattered outside the array) and the total is conserved: sum(R^T w) = sum(w) *)
Theorem C35_regrid_adjoint_conserves : forall (w : list Q) (n_old : Z),
  (2 <= n_old)%Z -> (1 <= Z.of_nat (length w) <= n_old)%Z ->
  length (regrid_adj_1d w n_old) = Z.to_nat n_old /\ qsum (regrid_adj_1d w n_old) == qsum w.
Proof. exact regrid_adjoint_conserves. Qed.

(* LOS with parallax errors: along the line the treatment of the sub-segments goes from "full weight" (up to
   the near truncation distance lo) over "weighted by the survival function" to "dropped" (beyond the far
   truncation distance hi), never back *)
Theorem C35_los_parallax_regimes :
  forall lo hi d1 d2 : Q, lo <= hi -> d1 <= d2 ->
    (erf_regime lo hi d1 <= erf_regime lo hi d2)%nat /\
    (d1 <= lo -> erf_regime lo hi d1 = 0%nat) /\ (hi < d2 -> erf_regime lo hi d2 = 2%nat).
Proof.
  intros lo hi d1 d2 H1 H2. split; [apply erf_regime_monotone; assumption|].
  split; [intro H; apply (proj1 (erf_regime_spec lo hi d1)); assumption | apply (proj2 (erf_regime_spec lo hi d2))].
Qed.

(* non-vacuity: a 2-D case *)
Example C35_interp_example :
  interp_value (MLnode (MLnode (MLconst 1) (MLconst 2)) (MLnode (MLconst 3) (MLconst 5))) [2; 7]%Z [1 # 4; 1 # 2]
  == 1 + 2 * (15 # 2) + (9 # 4) * (3 + 5 * (15 # 2)).
Proof. vm_compute. reflexivity. Qed.
