(* C35 -- mask, zero padding, regridding: the documented action of the per-axis models. *)
From Coq Require Import ZArith QArith Qround Qabs Qminmax List Bool Lia Lqa.
Import ListNotations.
Require Import NV.C35.Model.
Local Open Scope Q_scope.

(* ---- MaskOperator ---- *)
Fixpoint unflagged (flags : list bool) : nat :=
  match flags with [] => 0 | f :: r => (if f then 0 else 1) + unflagged r end%nat.

Lemma mask_times_length flags : forall x, length x = length flags ->
  length (mask_times flags x) = unflagged flags.
Proof.
  induction flags as [|f fr IH]; intros [|v xr] H; try discriminate; [reflexivity|].
  injection H as H. cbn [mask_times unflagged]. destruct f; cbn [length]; rewrite IH by assumption; reflexivity.
Qed.

(* selecting after scattering gives the data back *)
Lemma mask_times_adjoint flags : forall y, length y = unflagged flags ->
  mask_times flags (mask_adjoint flags y) = y.
Proof.
  induction flags as [|f fr IH]; intros y H; cbn [mask_adjoint mask_times unflagged] in *.
  - destruct y; [reflexivity | discriminate].
  - destruct f; cbn [mask_times].
    + apply IH. exact H.
    + destruct y as [|v yr]; [discriminate|]. cbn [mask_times]. f_equal. apply IH. cbn in H. lia.
Qed.

(* scattering after selecting zeroes exactly the flagged pixels and keeps the others *)
Fixpoint zero_flagged (flags : list bool) (x : list Q) : list Q :=
  match flags, x with
  | f :: fr, v :: xr => (if f then 0 else v) :: zero_flagged fr xr
  | _, _ => []
  end.
Lemma mask_adjoint_times flags : forall x, length x = length flags ->
  mask_adjoint flags (mask_times flags x) = zero_flagged flags x.
Proof.
  induction flags as [|f fr IH]; intros [|v xr] H; try discriminate; [reflexivity|].
  injection H as H. cbn [mask_times mask_adjoint zero_flagged]. destruct f; cbn [mask_adjoint]; rewrite IH by assumption; reflexivity.
Qed.

(* ---- FieldZeroPadder, padding at the end ---- *)
Lemma pad_end_spec v n : (length v <= n)%nat ->
  length (pad_1d false v n) = n /\ firstn (length v) (pad_1d false v n) = v /\
  skipn (length v) (pad_1d false v n) = repeat 0 (n - length v).
Proof.
  intro H. unfold pad_1d. destruct (Nat.eqb_spec (length v) n) as [E|E].
  - subst. rewrite firstn_all, skipn_all, Nat.sub_diag. auto.
  - rewrite app_length, repeat_length.
    rewrite firstn_app, firstn_all, Nat.sub_diag, skipn_app, skipn_all, Nat.sub_diag. cbn.
    rewrite app_nil_r. repeat split; lia.
Qed.
Lemma crop_pad_end v n : (length v <= n)%nat -> crop_1d false (pad_1d false v n) (length v) = v.
Proof.
  intro H. destruct (pad_end_spec v n H) as [L [F _]]. unfold crop_1d. rewrite L.
  destruct (Nat.eqb_spec n (length v)) as [E|E]; [|exact F].
  unfold pad_1d. rewrite <- E, Nat.eqb_refl. reflexivity.
Qed.

(* ---- RegriddingOperator: the two-point weights interpolate (never extrapolate) ---- *)
Lemma regrid_frac_range n_old n_new i :
  (2 <= n_old)%Z -> (1 <= n_new <= n_old)%Z -> (0 <= i < n_new)%Z ->
  0 <= regrid_frac n_old n_new i /\ regrid_frac n_old n_new i <= 1 /\
  (0 <= regrid_bindex n_old n_new i <= n_old - 2)%Z.
Proof.
  intros Ho Hn Hi. unfold regrid_frac, regrid_bindex.
  set (t := inject_Z i * (inject_Z n_old / inject_Z n_new)).
  assert (Qn : 0 < inject_Z n_new) by (change 0 with (inject_Z 0); rewrite <- Zlt_Qlt; lia).
  assert (Qo : 2 <= inject_Z n_old) by (change 2 with (inject_Z 2); rewrite <- Zle_Qle; lia).
  assert (Qno : inject_Z n_new <= inject_Z n_old) by (rewrite <- Zle_Qle; lia).
  assert (Qi0 : 0 <= inject_Z i) by (change 0 with (inject_Z 0); rewrite <- Zle_Qle; lia).
  assert (Qi1 : inject_Z i <= inject_Z n_new - 1).
  { assert (X : (i <= n_new - 1)%Z) by lia. rewrite Zle_Qle in X.
    unfold Z.sub in X. rewrite inject_Z_plus, inject_Z_opp in X. exact X. }
  assert (Et : t * inject_Z n_new == inject_Z i * inject_Z n_old) by (unfold t; field; lra).
  assert (T0 : 0 <= t) by nra.
  assert (A1 : inject_Z i * inject_Z n_old <= (inject_Z n_new - 1) * inject_Z n_old) by nra.
  assert (A2 : (inject_Z n_new - 1) * inject_Z n_old <= inject_Z n_new * (inject_Z n_old - 1)) by lra.
  assert (T1 : t <= inject_Z n_old - 1).
  { destruct (Qlt_le_dec (inject_Z n_old - 1) t) as [L|L]; [|exact L]. exfalso.
    assert (inject_Z n_new * (inject_Z n_old - 1) < t * inject_Z n_new) by nra. lra. }
  assert (F0 := Qfloor_le t). assert (F1 := Qlt_floor t).
  rewrite inject_Z_plus in F1. change (inject_Z 1) with 1 in F1.
  assert (Fnn : (0 <= Qfloor t)%Z).
  { change 0%Z with (Qfloor 0). apply Qfloor_resp_le. exact T0. }
  assert (E2 : inject_Z (n_old - 2) == inject_Z n_old - 2).
  { unfold Z.sub. rewrite inject_Z_plus, inject_Z_opp. reflexivity. }
  assert (E1 : inject_Z (n_old - 1) == inject_Z n_old - 1).
  { unfold Z.sub. rewrite inject_Z_plus, inject_Z_opp. reflexivity. }
  destruct (Z.min_spec (n_old - 2) (Qfloor t)) as [[Hlt ->]|[Hge ->]].
  - (* floor t >= n_old - 1, hence t = n_old - 1 *)
    assert (X : (n_old - 1 <= Qfloor t)%Z) by lia. rewrite Zle_Qle, E1 in X.
    rewrite E2. repeat split; try lra; lia.
  - repeat split; try lra; lia.
Qed.

(* ---- LOS with parallax errors: the three treatments are ordered along the line ---- *)
Lemma erf_regime_monotone lo hi d1 d2 :
  lo <= hi -> d1 <= d2 -> (erf_regime lo hi d1 <= erf_regime lo hi d2)%nat.
Proof.
  intros Hlh Hd. unfold erf_regime.
  destruct (Qle_bool d1 hi) eqn:A1, (Qle_bool d2 hi) eqn:A2, (Qle_bool d1 lo) eqn:B1, (Qle_bool d2 lo) eqn:B2;
    try lia; exfalso;
    repeat match goal with
           | H : Qle_bool _ _ = true |- _ => apply Qle_bool_iff in H
           | H : Qle_bool ?a ?b = false |- _ =>
             assert (b < a) by (destruct (Qlt_le_dec b a) as [L|L]; [exact L | apply Qle_bool_iff in L; congruence]); clear H
           end; lra.
Qed.
Lemma erf_regime_spec lo hi d :
  (d <= lo -> lo <= hi -> erf_regime lo hi d = 0%nat) /\ (hi < d -> erf_regime lo hi d = 2%nat).
Proof.
  unfold erf_regime. split.
  - intros H1 H2. assert (H3 : d <= hi) by lra. apply Qle_bool_iff in H1. apply Qle_bool_iff in H3. rewrite H3, H1. reflexivity.
  - intro H. destruct (Qle_bool d hi) eqn:E; [apply Qle_bool_iff in E; lra | reflexivity].
Qed.
