(* C28 -- the normalisation identities for the GENERATED functions npa_tail / matern_tail
   (JAX NonParametricAmplitude.__call__ / MaternAmplitude.__call__ after the exponentiation). *)
From Coq Require Import Reals List Bool Lra Lia.
Import ListNotations.
Require Import NV.C28.Prelude NV.C28.Gen_Norm.
Local Open Scope R_scope.

Definition allpos (a : list R) : Prop := Forall (fun x => 0 < x) a.

Lemma tl_vscale c a : tl (vscale c a) = vscale c (tl a).
Proof. destruct a; reflexivity. Qed.
Lemma tl_vsqrt a : tl (vsqrt a) = vsqrt (tl a).
Proof. destruct a; reflexivity. Qed.
Lemma tl_set0 v a : tl (set0 v a) = tl a.
Proof. destruct a; reflexivity. Qed.
Lemma hd_set0 v a : a <> [] -> hd 0 (set0 v a) = v.
Proof. destruct a; [congruence|reflexivity]. Qed.
Lemma vscale_nil_iff c a : vscale c a = [] <-> a = [].
Proof. destruct a; cbn; split; congruence. Qed.
Lemma vsqrt_nil_iff a : vsqrt a = [] <-> a = [].
Proof. destruct a; cbn; split; congruence. Qed.

Lemma vsum_scaled m a c :
  vsum (vmul m (vsq (vscale c a))) = c * c * vsum (vmul m (vsq a)).
Proof.
  unfold vsq, vscale. revert a. induction m as [|x m IH]; intros [|y a]; cbn; try lra.
  rewrite IH. unfold Rsqr. lra.
Qed.

Lemma vsq_vsqrt a : Forall (fun x => 0 <= x) a -> vsq (vsqrt a) = a.
Proof.
  induction 1; cbn; [reflexivity|]. f_equal; [|assumption].
  unfold Rsqr. apply sqrt_sqrt. assumption.
Qed.

Lemma allpos_nonneg a : allpos a -> Forall (fun x => 0 <= x) a.
Proof. induction 1; constructor; [lra|assumption]. Qed.

Lemma vsum_pos_sq m a :
  length m = length a -> a <> [] -> allpos m -> allpos a -> 0 < vsum (vmul m (vsq a)).
Proof.
  revert a. induction m as [|x m IH]; intros [|y a] Hl Hne Hm Ha; cbn in *; try congruence; try discriminate.
  inversion Hm; inversion Ha; subst.
  assert (Hxy : 0 < x * Rsqr y) by (apply Rmult_lt_0_compat; [assumption|apply Rlt_0_sqr; lra]).
  set (t := x * Rsqr y) in *.
  destruct a as [|z a].
  - destruct m; cbn; lra.
  - assert (0 < vsum (vmul m (vsq (z :: a)))) by (apply IH; [lia|congruence|assumption|assumption]).
    unfold vsq in *. lra.
Qed.

Lemma vsum_pos_lin m a :
  length m = length a -> a <> [] -> allpos m -> allpos a -> 0 < vsum (vmul m a).
Proof.
  revert a. induction m as [|x m IH]; intros [|y a] Hl Hne Hm Ha; cbn in *; try congruence; try discriminate.
  inversion Hm; inversion Ha; subst.
  assert (Hxy : 0 < x * y) by (apply Rmult_lt_0_compat; assumption).
  set (t := x * y) in *.
  destruct a as [|z a].
  - destruct m; cbn; lra.
  - assert (0 < vsum (vmul m (z :: a))) by (apply IH; [lia|congruence|assumption|assumption]).
    lra.
Qed.

(* the scalar algebra: c = flu * (sqrt V / (sqrt S / sqrt V))  ==>  c^2 * S = flu^2 V^2 *)
Lemma coefficient_identity flu V S :
  0 < V -> 0 < S ->
  let c := flu * (sqrt V / (sqrt S / sqrt V)) in c * c * S = flu * flu * (V * V).
Proof.
  intros HV HS c. unfold c.
  assert (HsV : sqrt V * sqrt V = V) by (apply sqrt_sqrt; lra).
  assert (HsS : sqrt S * sqrt S = S) by (apply sqrt_sqrt; lra).
  assert (sqrt V <> 0) by (apply Rgt_not_eq, sqrt_lt_R0; assumption).
  assert (sqrt S <> 0) by (apply Rgt_not_eq, sqrt_lt_R0; assumption).
  transitivity (flu * flu * ((sqrt V * sqrt V) * (sqrt V * sqrt V)) * (S / (sqrt S * sqrt S))).
  - field. split; assumption.
  - rewrite HsV, HsS. field. lra.
Qed.

Section Hyps.
  Variables (m s : list R) (V : R).
  Hypothesis Hlen : length m = length s.
  Hypothesis HV : 0 < V.
  Hypothesis Hm : allpos (tl m).
  Hypothesis Hs : allpos (tl s).
  Hypothesis Hne : tl s <> [].      (* at least one mode besides the zero mode *)

  Lemma s_ne : s <> [].
  Proof. destruct s; [cbn in Hne; congruence|congruence]. Qed.

  Lemma tl_len : length (tl m) = length (tl s).
  Proof. destruct m, s; cbn in *; try lia; discriminate. Qed.

  (* NonParametricAmplitude: sum_{k != 0} m_k A_k^2 = flu^2 V^2 and A_0 = V, both kinds *)
  Lemma npa_norm kind flu :
    let A := npa_tail kind m s flu V in
    hd 0 A = V /\ wsum m A = flu * flu * (V * V).
  Proof.
    unfold npa_tail. destruct kind.
    - cbn zeta. split.
      + apply hd_set0. rewrite vscale_nil_iff. exact s_ne.
      + unfold wsum. rewrite tl_set0, tl_vscale, vsum_scaled.
        apply coefficient_identity; [assumption|].
        apply vsum_pos_sq; [exact tl_len|assumption|assumption|assumption].
    - cbn zeta. split.
      + apply hd_set0. rewrite vscale_nil_iff, vsqrt_nil_iff. exact s_ne.
      + unfold wsum. rewrite tl_set0, tl_vscale, tl_vsqrt, vsum_scaled.
        rewrite vsq_vsqrt by (apply allpos_nonneg; assumption).
        apply coefficient_identity; [assumption|].
        apply vsum_pos_lin; [exact tl_len|assumption|assumption|assumption].
  Qed.

  (* MaternAmplitude with renormalize_amplitude=True: the same identity with scl in place of flu *)
  Lemma matern_renorm kind scl :
    let A := matern_tail kind true m s scl V in
    hd 0 A = V /\ wsum m A = scl * scl * (V * V).
  Proof.
    unfold matern_tail. destruct kind; cbn [negb].
    - cbn zeta. split.
      + apply hd_set0. rewrite vscale_nil_iff. exact s_ne.
      + unfold wsum. rewrite tl_set0, tl_vscale, vsum_scaled.
        apply coefficient_identity; [assumption|].
        apply vsum_pos_sq; [exact tl_len|assumption|assumption|assumption].
    - cbn zeta. split.
      + apply hd_set0. rewrite vscale_nil_iff, vsqrt_nil_iff. exact s_ne.
      + unfold wsum. rewrite tl_set0, tl_vscale, tl_vsqrt, vsum_scaled.
        rewrite vsq_vsqrt by (apply allpos_nonneg; assumption).
        apply coefficient_identity; [assumption|].
        apply vsum_pos_lin; [exact tl_len|assumption|assumption|assumption].
  Qed.

  (* MaternAmplitude without renormalisation: A_k = scl * sqrt(V) * s_k (amplitude kind) resp.
     scl * sqrt(V) * sqrt(s_k) (power kind), A_0 = V; hence sum_{k != 0} m_k A_k^2 = scl^2 V sum m_k s_k^(2|1) *)
  Lemma matern_plain kind scl :
    let A := matern_tail kind false m s scl V in
    hd 0 A = V /\
    wsum m A = scl * scl * V * (if kind then vsum (vmul (tl m) (vsq (tl s))) else vsum (vmul (tl m) (tl s))).
  Proof.
    assert (HsV : sqrt V * sqrt V = V) by (apply sqrt_sqrt; lra).
    unfold matern_tail. destruct kind; cbn [negb].
    - cbn zeta. split.
      + apply hd_set0. rewrite vscale_nil_iff. exact s_ne.
      + unfold wsum. rewrite tl_set0, tl_vscale, vsum_scaled. cbn [INR].
        transitivity (scl * scl * (sqrt V * sqrt V) * vsum (vmul (tl m) (vsq (tl s)))); [field|].
        rewrite HsV. reflexivity.
    - cbn zeta. split.
      + apply hd_set0. rewrite vscale_nil_iff, vsqrt_nil_iff. exact s_ne.
      + unfold wsum. rewrite tl_set0, tl_vscale, tl_vsqrt, vsum_scaled. cbn [INR].
        rewrite vsq_vsqrt by (apply allpos_nonneg; assumption).
        transitivity (scl * scl * (sqrt V * sqrt V) * vsum (vmul (tl m) (tl s))); [field|].
        rewrite HsV. reflexivity.
  Qed.
End Hyps.
