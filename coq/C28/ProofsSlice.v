(* C28 -- slice and average fluctuations.
   Abstractly: any averaging operator over part of the pixel index that maps each row of the transform
   matrix to itself or to zero (according to a predicate on the modes) turns "variance within slices"
   and "variance of the average" into masked mode sums.  Concretely: two (groups of) sub-domains, with
   the Kronecker-product transform of finalize; the masked mode sums of the outer-product model are
   the coded slice_fluctuation^2 and average_fluctuation^2. *)
From Coq Require Import List Arith Bool PeanoNat Lia Ring Ring_theory.
Import ListNotations.
Require Import NV.C09.Model NV.C09.Proofs NV.C09.ProofsH NV.C09.ProofsK NV.C28.Model NV.C28.ProofsVar.

Section Slice.
  Variable K : ring_ops.
  Local Notation R := (carrier K).
  Local Notation r0 := (op_0 K).
  Local Notation r1 := (op_1 K).
  Local Notation radd := (op_add K).
  Local Notation rmul := (op_mul K).
  Local Notation rsub := (op_sub K).
  Local Notation ropp := (op_opp K).
  Local Notation rsum := (rsum K).
  Local Notation natR := (natR K).
  Local Notation rsq := (rsq K).

  Hypothesis Rth : ring_theory r0 r1 radd rmul rsub ropp eq.
  Add Ring Rring : Rth.

  (* an averaging operator on pixel functions: linear in a scalar factor, extensional *)
  Definition averaging (avg : (nat -> R) -> nat -> R) : Prop :=
    (forall f g x, (forall x', f x' = g x') -> avg f x = avg g x) /\
    (forall c f x, avg (fun x' => rmul c (f x')) x = rmul c (avg f x)).

  (* it keeps the rows of t whose mode satisfies zs and annihilates the others *)
  Definition selects (N : nat) (t : nat -> nat -> R) (avg : (nat -> R) -> nat -> R) (zs : nat -> bool) : Prop :=
    forall j x, j < N -> x < N -> avg (t j) x = if zs j then t j x else r0.

  Section Abstract.
    Variable N : nat.
    Variable t : nat -> nat -> R.
    Hypothesis Ht : transform_ok K N t.
    Hypothesis HN : 0 < N.
    Variables invN invV : R.
    Hypothesis HinvN : rmul (natR N) invN = r1.
    Variable coef : nat -> R.

    Local Notation L := (lin K t invV coef).

    (* variance of a response restricted to a set of modes *)
    Lemma masked_variance (keep : nat -> bool) :
      rmul invN (rsum N (fun x => rsum N (fun j => rsq (if keep j then L x j else r0))))
      = rmul (rsq invV) (rsum N (fun j => if keep j then rsq (coef j) else r0)).
    Proof.
      rewrite (rsum_swap K Rth).
      rewrite (rsum_ext K N _ (fun j => rmul (natR N) (rmul (rsq invV) (if keep j then rsq (coef j) else r0)))).
      - rewrite (rsum_mul_l K Rth N (natR N)), (rsum_mul_l K Rth N (rsq invV)).
        set (S := rsum N (fun j => if keep j then rsq (coef j) else r0)).
        transitivity (rmul (rmul (natR N) invN) (rmul (rsq invV) S)); [ring|].
        rewrite HinvN. ring.
      - intros j Hj. destruct (keep j).
        + rewrite (rsum_ext K N _ (fun x => rmul (rmul (rsq invV) (rsq (coef j))) (rmul (t j x) (t j x)))).
          * rewrite (rsum_mul_l K Rth). destruct Ht as [_ Ho]. rewrite (Ho j j Hj Hj), Nat.eqb_refl. ring.
          * intros x Hx. unfold lin, Model.rsq. ring.
        + rewrite (rsum_ext K N _ (fun _ => r0)).
          * rewrite (rsum_zero K Rth). ring.
          * intros. unfold Model.rsq. ring.
    Qed.

    Lemma avg_lin avg zs j x :
      averaging avg -> selects N t avg zs -> j < N -> x < N ->
      avg (fun x' => L x' j) x = if zs j then L x j else r0.
    Proof.
      intros [Hext Hsc] Hsel Hj Hx.
      rewrite (Hext _ (fun x' => rmul (rmul invV (coef j)) (t j x')) x) by (intros; unfold lin; ring).
      rewrite Hsc, (Hsel j x Hj Hx). unfold lin. destruct (zs j); ring.
    Qed.

    (* E (1/N) sum_x (f_x - (avg f)_x)^2 : variance within the slices that avg averages over *)
    Definition slice_variance (avg : (nat -> R) -> nat -> R) : R :=
      rmul invN (rsum N (fun x => rsum N (fun j => rsq (rsub (L x j) (avg (fun x' => L x' j) x))))).

    Lemma slice_variance_eq avg zs :
      averaging avg -> selects N t avg zs ->
      slice_variance avg = rmul (rsq invV) (rsum N (fun j => if negb (zs j) then rsq (coef j) else r0)).
    Proof.
      intros Ha Hs. unfold slice_variance. rewrite <- (masked_variance (fun j => negb (zs j))).
      f_equal. apply rsum_ext. intros x Hx. apply rsum_ext. intros j Hj.
      rewrite (avg_lin avg zs j x Ha Hs Hj Hx). destruct (zs j); cbn [negb]; unfold Model.rsq; ring.
    Qed.

    (* E (1/N) sum_x ((avg f)_x - mean f)^2 : variance of the averaged field about the global mean *)
    Definition average_variance (avg : (nat -> R) -> nat -> R) : R :=
      rmul invN (rsum N (fun x => rsum N (fun j =>
        rsq (rsub (avg (fun x' => L x' j) x) (rmul invN (rsum N (fun x' => L x' j))))))).

    Lemma average_variance_eq avg zs :
      averaging avg -> selects N t avg zs -> zs 0 = true ->
      average_variance avg
      = rmul (rsq invV) (rsum N (fun j => if zs j && negb (j =? 0) then rsq (coef j) else r0)).
    Proof.
      intros Ha Hs H0. unfold average_variance.
      rewrite <- (masked_variance (fun j => zs j && negb (j =? 0))).
      f_equal. apply rsum_ext. intros x Hx. apply rsum_ext. intros j Hj.
      rewrite (avg_lin avg zs j x Ha Hs Hj Hx).
      rewrite (lin_col_sum K Rth N t Ht HN invV coef j Hj).
      destruct (Nat.eqb_spec j 0) as [->|Hne].
      - rewrite H0. cbn [andb negb]. unfold lin. destruct Ht as [Hz _]. rewrite (Hz x Hx).
        transitivity (rsq (rmul (rmul invV (coef 0)) (rsub r1 (rmul (natR N) invN)))).
        + unfold Model.rsq. ring.
        + rewrite HinvN. unfold Model.rsq. ring.
      - destruct (zs j); cbn [andb negb]; unfold Model.rsq; ring.
    Qed.
  End Abstract.

  (* ---- two (groups of) sub-domains: t = t1 (x) t2 on the flat index x = x1 * n2 + x2 ------------- *)
  Section Two.
    Variables n1 n2 : nat.
    Variables t1 t2 : nat -> nat -> R.
    Hypothesis H1 : 0 < n1.
    Hypothesis H2 : 0 < n2.
    Hypothesis Ht1 : transform_ok K n1 t1.
    Hypothesis Ht2 : transform_ok K n2 t2.
    Variables invn1 invn2 : R.
    Hypothesis Hi1 : rmul (natR n1) invn1 = r1.
    Hypothesis Hi2 : rmul (natR n2) invn2 = r1.

    Definition t12 (j x : nat) : R := rmul (t1 (j / n2) (x / n2)) (t2 (j mod n2) (x mod n2)).

    (* Field.mean over the first sub-domain / over the second sub-domain *)
    Definition mean1 (f : nat -> R) (x : nat) : R := rmul invn1 (rsum n1 (fun a => f (a * n2 + x mod n2))).
    Definition mean2 (f : nat -> R) (x : nat) : R := rmul invn2 (rsum n2 (fun b => f (x / n2 * n2 + b))).

    Lemma mean1_averaging : averaging mean1.
    Proof.
      split.
      - intros f g x E. unfold mean1. f_equal. apply rsum_ext. intros; apply E.
      - intros c f x. unfold mean1. rewrite (rsum_mul_l K Rth). ring.
    Qed.
    Lemma mean2_averaging : averaging mean2.
    Proof.
      split.
      - intros f g x E. unfold mean2. f_equal. apply rsum_ext. intros; apply E.
      - intros c f x. unfold mean2. rewrite (rsum_mul_l K Rth). ring.
    Qed.

    Lemma col1 j : j < n1 -> rsum n1 (t1 j) = if j =? 0 then natR n1 else r0.
    Proof. apply (col_sum K Rth n1 t1 Ht1 H1). Qed.
    Lemma col2 j : j < n2 -> rsum n2 (t2 j) = if j =? 0 then natR n2 else r0.
    Proof. apply (col_sum K Rth n2 t2 Ht2 H2). Qed.

    Lemma mean1_selects : selects (n1 * n2) t12 mean1 (fun j => j / n2 =? 0).
    Proof.
      intros j x Hj Hx.
      destruct (idx_bounds n1 n2 H2 j Hj) as [Hj1 Hj2], (idx_bounds n1 n2 H2 x Hx) as [Hx1 Hx2].
      unfold mean1, t12.
      rewrite (rsum_ext K n1 _ (fun a => rmul (t2 (j mod n2) (x mod n2)) (t1 (j / n2) a))).
      2:{ intros a Ha. rewrite Nat.div_add_l by lia. rewrite (Nat.div_small (x mod n2)) by exact Hx2.
          rewrite Nat.add_0_r. rewrite Nat.add_comm, Nat.mod_add by lia.
          rewrite (Nat.mod_small (x mod n2)) by exact Hx2. ring. }
      rewrite (rsum_mul_l K Rth), (col1 _ Hj1).
      destruct (Nat.eqb_spec (j / n2) 0) as [E|_].
      - rewrite E. destruct Ht1 as [Z1 _]. rewrite (Z1 _ Hx1).
        transitivity (rmul (rmul (natR n1) invn1) (t2 (j mod n2) (x mod n2))); [ring|]. rewrite Hi1. ring.
      - ring.
    Qed.

    Lemma mean2_selects : selects (n1 * n2) t12 mean2 (fun j => j mod n2 =? 0).
    Proof.
      intros j x Hj Hx.
      destruct (idx_bounds n1 n2 H2 j Hj) as [Hj1 Hj2], (idx_bounds n1 n2 H2 x Hx) as [Hx1 Hx2].
      unfold mean2, t12.
      rewrite (rsum_ext K n2 _ (fun b => rmul (t1 (j / n2) (x / n2)) (t2 (j mod n2) b))).
      2:{ intros b Hb. rewrite Nat.div_add_l by lia. rewrite (Nat.div_small b) by exact Hb.
          rewrite Nat.add_0_r. rewrite Nat.add_comm, Nat.mod_add by lia.
          rewrite (Nat.mod_small b) by exact Hb. reflexivity. }
      rewrite (rsum_mul_l K Rth), (col2 _ Hj2).
      destruct (Nat.eqb_spec (j mod n2) 0) as [E|_].
      - rewrite E. destruct Ht2 as [Z2 _]. rewrite (Z2 _ Hx2).
        transitivity (rmul (rmul (natR n2) invn2) (t1 (j / n2) (x / n2))); [ring|]. rewrite Hi2. ring.
      - ring.
    Qed.

    (* ---- masked mode sums of the outer-product model ------------------------------------------- *)
    Variables a1 a2 : nat -> R.          (* normalised amplitudes on the harmonic cells of the two groups *)
    Variable azm : R.
    Definition coef12 (j : nat) : R := rmul azm (rmul (a1 (j / n2)) (a2 (j mod n2))).

    Lemma masked_sum (k1 k2 : nat -> bool) :
      rsum (n1 * n2) (fun j => if k1 (j / n2) && k2 (j mod n2) then rsq (coef12 j) else r0)
      = rmul (rsq azm) (rmul (rsum n1 (fun a => if k1 a then rsq (a1 a) else r0))
                             (rsum n2 (fun b => if k2 b then rsq (a2 b) else r0))).
    Proof.
      rewrite <- (rsum_tensor K Rth n1 n2 _ _ H2), <- (rsum_mul_l K Rth).
      apply rsum_ext. intros j Hj. unfold coef12, Model.rsq.
      destruct (k1 (j / n2)), (k2 (j mod n2)); cbn [andb]; ring.
    Qed.

    Lemma sum_nonzero n (a : nat -> R) : 0 < n ->
      rsum n (fun k => if negb (k =? 0) then rsq (a k) else r0) = rsub (rsum n (fun k => rsq (a k))) (rsq (a 0)).
    Proof.
      intros Hn. rewrite <- (nonzero_sum_split K Rth n (fun k => rsq (a k)) Hn). unfold nonzero_sum.
      apply rsum_ext. intros k Hk. destruct (k =? 0); reflexivity.
    Qed.

    Lemma sum_zero_only n (a : nat -> R) : 0 < n ->
      rsum n (fun k => if k =? 0 then rsq (a k) else r0) = rsq (a 0).
    Proof.
      intros Hn.
      rewrite (rsum_ext K n _ (fun k => rmul r1 (if k =? 0 then rsq (a 0) else r0))).
      - rewrite (rsum_delta K Rth n 0 (fun _ => r1) (rsq (a 0)) Hn). ring.
      - intros k Hk. destruct (Nat.eqb_spec k 0) as [->|]; ring.
    Qed.

    (* normalisation of the two groups: a_i(0) = V_i, (1/V_i)^2 sum_k a_i(k)^2 = 1 + F_i *)
    Variables V1 V2 iV1 iV2 F1 F2 : R.
    Hypothesis Hz1 : a1 0 = V1.
    Hypothesis Hz2 : a2 0 = V2.
    Hypothesis Hv1 : rmul V1 iV1 = r1.
    Hypothesis Hv2 : rmul V2 iV2 = r1.
    Hypothesis Hn1 : rmul (rsq iV1) (rsum n1 (fun k => rsq (a1 k))) = radd r1 F1.
    Hypothesis Hn2 : rmul (rsq iV2) (rsum n2 (fun k => rsq (a2 k))) = radd r1 F2.

    Lemma zm1 : rmul (rsq iV1) (rsq (a1 0)) = r1.
    Proof. rewrite Hz1. unfold Model.rsq. transitivity (rmul (rmul V1 iV1) (rmul V1 iV1)); [ring|]. rewrite Hv1. ring. Qed.
    Lemma zm2 : rmul (rsq iV2) (rsq (a2 0)) = r1.
    Proof. rewrite Hz2. unfold Model.rsq. transitivity (rmul (rmul V2 iV2) (rmul V2 iV2)); [ring|]. rewrite Hv2. ring. Qed.

    Local Notation N := (n1 * n2).
    Local Notation invV := (rmul iV1 iV2).

    (* modes with j1 <> 0 (any j2): azm^2 F1 (1 + F2)   -- slice fluctuation^2 of group 1 *)
    Lemma slice1_sum :
      rmul (rsq invV) (rsum N (fun j => if negb (j / n2 =? 0) then rsq (coef12 j) else r0))
      = rmul (rsq azm) (rmul F1 (radd r1 F2)).
    Proof.
      rewrite (rsum_ext K N _ (fun j => if negb (j / n2 =? 0) && true then rsq (coef12 j) else r0))
        by (intros; rewrite andb_true_r; reflexivity).
      rewrite (masked_sum (fun a => negb (a =? 0)) (fun _ => true)), (sum_nonzero n1 a1 H1).
      pose proof zm1 as Z1.
      transitivity (rmul (rsq azm)
        (rmul (rsub (rmul (rsq iV1) (rsum n1 (fun k => rsq (a1 k)))) (rmul (rsq iV1) (rsq (a1 0))))
              (rmul (rsq iV2) (rsum n2 (fun b => rsq (a2 b)))))).
      - unfold Model.rsq. ring.
      - rewrite Hn1, Hn2, Z1. ring.
    Qed.

    (* modes with j2 <> 0: azm^2 (1 + F1) F2 *)
    Lemma slice2_sum :
      rmul (rsq invV) (rsum N (fun j => if negb (j mod n2 =? 0) then rsq (coef12 j) else r0))
      = rmul (rsq azm) (rmul (radd r1 F1) F2).
    Proof.
      rewrite (rsum_ext K N _ (fun j => if true && negb (j mod n2 =? 0) then rsq (coef12 j) else r0))
        by (intros; reflexivity).
      rewrite (masked_sum (fun _ => true) (fun b => negb (b =? 0))), (sum_nonzero n2 a2 H2).
      pose proof zm2 as Z2.
      transitivity (rmul (rsq azm)
        (rmul (rmul (rsq iV1) (rsum n1 (fun k => rsq (a1 k))))
              (rsub (rmul (rsq iV2) (rsum n2 (fun b => rsq (a2 b)))) (rmul (rsq iV2) (rsq (a2 0)))))).
      - unfold Model.rsq. ring.
      - rewrite Hn1, Hn2, Z2. ring.
    Qed.

    Lemma idx_zero j : j < N -> (j =? 0) = ((j / n2 =? 0) && (j mod n2 =? 0)).
    Proof.
      intros Hj. rewrite (idx_eq n2 H2 j 0). rewrite Nat.div_0_l, Nat.mod_0_l by lia. reflexivity.
    Qed.

    (* modes with j2 = 0 and j <> 0: azm^2 F1   -- average fluctuation^2 of group 1 *)
    Lemma average1_sum :
      rmul (rsq invV) (rsum N (fun j => if (j mod n2 =? 0) && negb (j =? 0) then rsq (coef12 j) else r0))
      = rmul (rsq azm) F1.
    Proof.
      rewrite (rsum_ext K N _ (fun j => if negb (j / n2 =? 0) && (j mod n2 =? 0) then rsq (coef12 j) else r0)).
      2:{ intros j Hj. rewrite (idx_zero j Hj). destruct (j / n2 =? 0), (j mod n2 =? 0); reflexivity. }
      rewrite (masked_sum (fun a => negb (a =? 0)) (fun b => b =? 0)), (sum_nonzero n1 a1 H1), (sum_zero_only n2 a2 H2).
      pose proof zm1 as Z1. pose proof zm2 as Z2.
      transitivity (rmul (rsq azm)
        (rmul (rsub (rmul (rsq iV1) (rsum n1 (fun k => rsq (a1 k)))) (rmul (rsq iV1) (rsq (a1 0))))
              (rmul (rsq iV2) (rsq (a2 0))))).
      - unfold Model.rsq. ring.
      - rewrite Hn1, Z1, Z2. ring.
    Qed.

    (* modes with j1 = 0 and j <> 0: azm^2 F2 *)
    Lemma average2_sum :
      rmul (rsq invV) (rsum N (fun j => if (j / n2 =? 0) && negb (j =? 0) then rsq (coef12 j) else r0))
      = rmul (rsq azm) F2.
    Proof.
      rewrite (rsum_ext K N _ (fun j => if (j / n2 =? 0) && negb (j mod n2 =? 0) then rsq (coef12 j) else r0)).
      2:{ intros j Hj. rewrite (idx_zero j Hj). destruct (j / n2 =? 0), (j mod n2 =? 0); reflexivity. }
      rewrite (masked_sum (fun a => a =? 0) (fun b => negb (b =? 0))), (sum_zero_only n1 a1 H1), (sum_nonzero n2 a2 H2).
      pose proof zm1 as Z1. pose proof zm2 as Z2.
      transitivity (rmul (rsq azm)
        (rmul (rmul (rsq iV1) (rsq (a1 0)))
              (rsub (rmul (rsq iV2) (rsum n2 (fun b => rsq (a2 b)))) (rmul (rsq iV2) (rsq (a2 0)))))).
      - unfold Model.rsq. ring.
      - rewrite Hn2, Z1, Z2. ring.
    Qed.

    (* ---- the four statements for the field of finalize on two (groups of) sub-domains ---------- *)
    Variable invN : R.
    Hypothesis HinvN : rmul (natR N) invN = r1.

    Lemma t12_ok : transform_ok K N t12.
    Proof. exact (kron2_ok K Rth n1 n2 t1 t2 H2 Ht1 Ht2). Qed.

    Lemma Npos : 0 < N.
    Proof. nia. Qed.

    Theorem slice1_variance :
      slice_variance N t12 invN invV coef12 mean1 = rmul (rsq azm) (rmul F1 (radd r1 F2)).
    Proof.
      rewrite (slice_variance_eq N t12 t12_ok invN invV HinvN coef12 mean1 _ mean1_averaging mean1_selects).
      apply slice1_sum.
    Qed.

    Theorem slice2_variance :
      slice_variance N t12 invN invV coef12 mean2 = rmul (rsq azm) (rmul (radd r1 F1) F2).
    Proof.
      rewrite (slice_variance_eq N t12 t12_ok invN invV HinvN coef12 mean2 _ mean2_averaging mean2_selects).
      apply slice2_sum.
    Qed.

    (* average over the second group, variance along the first *)
    Theorem average1_variance :
      average_variance N t12 invN invV coef12 mean2 = rmul (rsq azm) F1.
    Proof.
      rewrite (average_variance_eq N t12 t12_ok Npos invN invV HinvN coef12 mean2 _ mean2_averaging mean2_selects).
      - apply average1_sum.
      - cbn beta. rewrite Nat.mod_0_l by lia. reflexivity.
    Qed.

    Theorem average2_variance :
      average_variance N t12 invN invV coef12 mean1 = rmul (rsq azm) F2.
    Proof.
      rewrite (average_variance_eq N t12 t12_ok Npos invN invV HinvN coef12 mean1 _ mean1_averaging mean1_selects).
      - apply average2_sum.
      - cbn beta. rewrite Nat.div_0_l by lia. reflexivity.
    Qed.
  End Two.

  (* the coded formulas for two sub-domains, F_i = (flu_i / azm)^2 *)
  Lemma slice_sq_two azm iazm f1 f2 :
    slice_sq K azm iazm [f1; f2] 0 = rmul (rsq azm) (rmul (rsq (rmul f1 iazm)) (radd r1 (rsq (rmul f2 iazm))))
    /\ slice_sq K azm iazm [f1; f2] 1 = rmul (rsq azm) (rmul (radd r1 (rsq (rmul f1 iazm))) (rsq (rmul f2 iazm))).
  Proof. unfold slice_sq, slice_q. cbn. unfold Model.rsq. split; ring. Qed.

  Lemma average_sq_two azm iazm f1 f2 :
    rmul azm iazm = r1 ->
    average_sq K [f1; f2] 0 = rmul (rsq azm) (rsq (rmul f1 iazm)) /\
    average_sq K [f1; f2] 1 = rmul (rsq azm) (rsq (rmul f2 iazm)).
  Proof.
    intros H. unfold average_sq. cbn. unfold Model.rsq.
    split.
    - transitivity (rmul (rmul (rmul azm iazm) (rmul azm iazm)) (rmul f1 f1)); [rewrite H; ring|ring].
    - transitivity (rmul (rmul (rmul azm iazm) (rmul azm iazm)) (rmul f2 f2)); [rewrite H; ring|ring].
  Qed.
End Slice.

(* ---- the coded slice / average fluctuations of a model with two (groups of) sub-domains ---------- *)
Section TwoSpaces.
  Variable K : ring_ops.
  Local Notation R := (carrier K).
  Local Notation r1 := (op_1 K).
  Local Notation rmul := (op_mul K).
  Hypothesis Rth : ring_theory (op_0 K) r1 (op_add K) rmul (op_sub K) (op_opp K) eq.

  (* everything finalize and the normalised amplitudes provide:
     good transforms t_i on n_i cells, reciprocals of the cell counts and of the volumes, of azm,
     a_i(0) = V_i and (1/V_i)^2 sum_k a_i(k)^2 = 1 + (f_i/azm)^2 *)
  Definition two_spaces_ok (n1 n2 : nat) (t1 t2 : nat -> nat -> R) (invn1 invn2 invN : R)
             (a1 a2 : nat -> R) (azm iazm V1 V2 iV1 iV2 f1 f2 : R) : Prop :=
    0 < n1 /\ 0 < n2 /\ transform_ok K n1 t1 /\ transform_ok K n2 t2 /\
    rmul (natR K n1) invn1 = r1 /\ rmul (natR K n2) invn2 = r1 /\ rmul (natR K (n1 * n2)) invN = r1 /\
    rmul azm iazm = r1 /\ a1 0 = V1 /\ a2 0 = V2 /\ rmul V1 iV1 = r1 /\ rmul V2 iV2 = r1 /\
    rmul (rsq K iV1) (rsum K n1 (fun k => rsq K (a1 k))) = op_add K r1 (rsq K (rmul f1 iazm)) /\
    rmul (rsq K iV2) (rsum K n2 (fun k => rsq K (a2 k))) = op_add K r1 (rsq K (rmul f2 iazm)).

  Lemma slice_average_two n1 n2 t1 t2 invn1 invn2 invN a1 a2 azm iazm V1 V2 iV1 iV2 f1 f2 :
    two_spaces_ok n1 n2 t1 t2 invn1 invn2 invN a1 a2 azm iazm V1 V2 iV1 iV2 f1 f2 ->
    let t := t12 K n2 t1 t2 in
    let coef := coef12 K n2 a1 a2 azm in
    let invV := rmul iV1 iV2 in
    (* variance along sub-domain 1 / 2 within slices *)
    slice_variance K (n1 * n2) t invN invV coef (mean1 K n1 n2 invn1) = slice_sq K azm iazm [f1; f2] 0 /\
    slice_variance K (n1 * n2) t invN invV coef (mean2 K n2 invn2) = slice_sq K azm iazm [f1; f2] 1 /\
    (* variance of the average over the other sub-domain *)
    average_variance K (n1 * n2) t invN invV coef (mean2 K n2 invn2) = average_sq K [f1; f2] 0 /\
    average_variance K (n1 * n2) t invN invV coef (mean1 K n1 n2 invn1) = average_sq K [f1; f2] 1.
  Proof.
    intros (P1 & P2 & T1 & T2 & I1 & I2 & IN & Hz & Z1 & Z2 & W1 & W2 & N1 & N2). cbv zeta.
    destruct (slice_sq_two K Rth azm iazm f1 f2) as [S0 S1].
    destruct (average_sq_two K Rth azm iazm f1 f2 Hz) as [A0 A1].
    rewrite S0, S1, A0, A1. repeat split.
    - exact (slice1_variance K Rth n1 n2 t1 t2 P1 P2 T1 T2 invn1 I1 a1 a2 azm V1 iV1 iV2 _ _ Z1 W1 N1 N2 invN IN).
    - exact (slice2_variance K Rth n1 n2 t1 t2 P1 P2 T1 T2 invn2 I2 a1 a2 azm V2 iV1 iV2 _ _ Z2 W2 N1 N2 invN IN).
    - exact (average1_variance K Rth n1 n2 t1 t2 P1 P2 T1 T2 invn2 I2 a1 a2 azm V1 V2 iV1 iV2 _ Z1 Z2 W1 W2 N1 invN IN).
    - exact (average2_variance K Rth n1 n2 t1 t2 P1 P2 T1 T2 invn1 I1 a1 a2 azm V1 V2 iV1 iV2 _ Z1 Z2 W1 W2 N2 invN IN).
  Qed.
End TwoSpaces.
