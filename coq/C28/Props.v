(* C28 -- property theorems only.  Each is closed by [exact] of a lemma from Proofs*.v.

   npa_tail / matern_tail are GENERATED on every run from nifty/re/correlated_field.py
   (NonParametricAmplitude.__call__ / MaternAmplitude.__call__ after the exponentiation of the
   log-spectrum): m = mode multiplicities, s = the un-normalised positive spectrum (ANY positive
   vector: power law, integrated Wiener process, Matern kernel ...), V = total volume of the
   position space, flu / scl = the fluctuation hyper-parameter, kind = true for 'amplitude', false for
   'power'.  wsum m A = sum over all modes but the zero mode of m_k * A_k^2. *)
From Coq Require Import Reals List Bool Ring_theory Arith.
Import ListNotations.
Require Import NV.C09.Model NV.C09.ProofsK.
Require Import NV.C28.Prelude NV.C28.Gen_Norm NV.C28.Model NV.C28.ProofsNorm NV.C28.ProofsVar NV.C28.ProofsReal NV.C28.ProofsSlice.

Definition is_ring (K : ring_ops) : Prop :=
  ring_theory (op_0 K) (op_1 K) (op_add K) (op_mul K) (op_sub K) (op_opp K) eq.

(* ---- normalisation of the amplitude (over the reals, about the generated code) ------------------ *)

(* non-parametric model, both kinds: A_0 = V and sum_{k != 0} m_k A_k^2 = flu^2 V^2 *)
Theorem C28_norm_nonparametric :
  forall (m s : list R) (V : R),
  length m = length s -> (0 < V)%R -> allpos (tl m) -> allpos (tl s) -> tl s <> [] ->
  forall (kind : bool) (flu : R),
  let A := npa_tail kind m s flu V in
  hd 0%R A = V /\ wsum m A = (flu * flu * (V * V))%R.
Proof. exact npa_norm. Qed.

(* Matern model with renormalize_amplitude=True: the same identity with the scale parameter *)
Theorem C28_matern_renorm :
  forall (m s : list R) (V : R),
  length m = length s -> (0 < V)%R -> allpos (tl m) -> allpos (tl s) -> tl s <> [] ->
  forall (kind : bool) (scl : R),
  let A := matern_tail kind true m s scl V in
  hd 0%R A = V /\ wsum m A = (scl * scl * (V * V))%R.
Proof. exact matern_renorm. Qed.

(* Matern model without renormalisation: A_k = scl sqrt(V) s_k (resp. sqrt(s_k)); the variance then
   depends on the grid through sum m_k s_k^2 / V -- stated so that nobody expects otherwise *)
Theorem C28_matern_plain :
  forall (m s : list R) (V : R),
  length m = length s -> (0 < V)%R -> allpos (tl s) -> tl s <> [] ->
  forall (kind : bool) (scl : R),
  let A := matern_tail kind false m s scl V in
  hd 0%R A = V /\
  wsum m A = (scl * scl * V * (if kind then vsum (vmul (tl m) (vsq (tl s))) else vsum (vmul (tl m) (tl s))))%R.
Proof. exact matern_plain. Qed.

(* ---- the field built as in finalize: variance and mean (any commutative ring) -------------------- *)

(* for ANY transform matrix t whose zero mode is constant and whose modes are orthogonal with norm N,
   any coefficients (= azm * outer normalised amplitude) and any 1/V: the expected (unit white
   excitations) spatial variance about the spatial mean is (1/V^2) * sum_{j != 0} coef_j^2 *)
Theorem C28_variance :
  forall K, is_ring K -> forall N t, transform_ok K N t -> 0 < N ->
  forall invN invV, op_mul K (natR K N) invN = op_1 K ->
  forall coef,
  expected_variance K t N invN invV coef = op_mul K (rsq K invV) (nonzero_sum K N (fun j => rsq K (coef j))).
Proof. exact expected_variance_eq. Qed.

(* offset mean / zero-mode amplitude enter only the spatial mean: mean = offset + (1/V) coef_0 xi_0 *)
Theorem C28_zero_mode :
  forall K, is_ring K -> forall N t, transform_ok K N t -> 0 < N ->
  forall invN invV offset, op_mul K (natR K N) invN = op_1 K ->
  forall coef xi,
  op_mul K invN (rsum K N (fun x => cf_field K t N offset invV coef xi x))
  = op_add K offset (op_mul K invV (op_mul K (coef 0) (xi 0))).
Proof. exact spatial_mean. Qed.

(* the Hartley transform of C09 (either convention) is such a transform ... *)
Theorem C28_hartley_is_transform :
  forall K, is_ring K -> forall N W c, 0 < N -> kernel_ok K N W -> transform_ok K N (hm K W c).
Proof. exact hartley_transform_ok. Qed.

(* ... and so is the composite transform of several sub-domains (Kronecker product) *)
Theorem C28_product_is_transform :
  forall K, is_ring K -> forall ts ns,
  Forall2 (fun t n => 0 < n /\ transform_ok K n t) ts ns -> transform_ok K (prodl ns) (kron K ts ns).
Proof. exact kron_ok. Qed.

(* ---- product formula: total fluctuation of the outer-product model ------------------------------- *)

(* per sub-domain (a, n, V, 1/V, flu): a(0) = V, sum_{k != 0} a(k)^2 = (flu/azm * V)^2 (the normalised
   amplitude), V * (1/V) = 1.  Then (prod 1/V_i)^2 * sum_{j != 0} (azm * outer a j)^2 is exactly the
   coded total_fluctuation^2 = azm^2 (prod (1 + (flu_i/azm)^2) - 1). *)
Theorem C28_total_fluctuation :
  forall K, is_ring K -> forall azm iazm sps, Forall (space_ok K iazm) sps ->
  let ns := map (sp_n K) sps in
  let coef := fun j => op_mul K azm (outer K (map (sp_a K) sps) ns j) in
  op_mul K (rsq K (rprod K (map (sp_iV K) sps))) (nonzero_sum K (prodl ns) (fun j => rsq K (coef j)))
  = total_sq K azm iazm (map (sp_flu K) sps).
Proof. exact total_fluctuation_identity. Qed.

Theorem C28_total_single :
  forall K, is_ring K -> forall azm iazm flu, op_mul K azm iazm = op_1 K ->
  total_sq K azm iazm [flu] = rsq K flu.
Proof. exact total_single. Qed.

(* sum over all cells of an outer product = product of the per-space sums (used for slices/averages) *)
Theorem C28_outer_sum :
  forall K, is_ring K -> forall ps ns, length ps = length ns -> (forall n, In n ns -> 0 < n) ->
  rsum K (prodl ns) (outer K ps ns) = rprod K (map (fun pn => rsum K (snd pn) (fst pn)) (combine ps ns)).
Proof. exact outer_sum. Qed.

(* ---- everything together, over the reals: resolution independence -------------------------------- *)

(* the generated normalised amplitude, distributed to the harmonic cells by pd (whose bins have the
   multiplicities m), transformed by any good transform with factor 1/V: expected variance = flu^2,
   for every grid size N, volume V, multiplicities and spectrum *)
Theorem C28_variance_nonparametric :
  forall (m s : list R) (V flu : R) (kind : bool),
  length m = length s -> (0 < V)%R -> allpos (tl m) -> allpos (tl s) -> tl s <> [] ->
  forall (N : nat) (t : nat -> nat -> R), transform_ok RK N t -> 0 < N ->
  forall pd : nat -> nat,
  let A := npa_tail kind m s flu V in
  bins_ok m N pd A ->
  expected_variance RK t N (/ INR N)%R (/ V)%R (fun j => nth (pd j) A 0%R) = (flu * flu)%R.
Proof. exact npa_expected_variance. Qed.

Theorem C28_variance_matern_renorm :
  forall (m s : list R) (V : R) (kind : bool),
  length m = length s -> (0 < V)%R -> allpos (tl m) -> allpos (tl s) -> tl s <> [] ->
  forall (N : nat) (t : nat -> nat -> R), transform_ok RK N t -> 0 < N ->
  forall (pd : nat -> nat) (scl : R),
  let A := matern_tail kind true m s scl V in
  bins_ok m N pd A ->
  expected_variance RK t N (/ INR N)%R (/ V)%R (fun j => nth (pd j) A 0%R) = (scl * scl)%R.
Proof. exact matern_expected_variance. Qed.

(* ---- slice and average fluctuations --------------------------------------------------------------- *)

(* any averaging operator over part of the pixel index that maps each row of the transform matrix to
   itself (modes with zs j) or to zero (the others): the expected variance within the slices it
   averages over, E (1/N) sum_x (f_x - (avg f)_x)^2, is the power of the modes it annihilates *)
Theorem C28_slice_variance :
  forall K, is_ring K -> forall N t, transform_ok K N t ->
  forall invN invV, op_mul K (natR K N) invN = op_1 K ->
  forall coef avg zs, averaging K avg -> selects K N t avg zs ->
  slice_variance K N t invN invV coef avg
  = op_mul K (rsq K invV) (rsum K N (fun j => if negb (zs j) then rsq K (coef j) else op_0 K)).
Proof. exact slice_variance_eq. Qed.

(* and the expected variance of the averaged field about the global mean is the power of the modes it
   keeps, the zero mode apart *)
Theorem C28_average_variance :
  forall K, is_ring K -> forall N t, transform_ok K N t -> 0 < N ->
  forall invN invV, op_mul K (natR K N) invN = op_1 K ->
  forall coef avg zs, averaging K avg -> selects K N t avg zs -> zs 0 = true ->
  average_variance K N t invN invV coef avg
  = op_mul K (rsq K invV) (rsum K N (fun j => if zs j && negb (j =? 0) then rsq K (coef j) else op_0 K)).
Proof. exact average_variance_eq. Qed.

(* two (groups of) sub-domains, field built as in finalize (Kronecker transform, outer amplitude, azm,
   1/V_1 1/V_2), Field.mean over one sub-domain as the averaging operator: the variance within slices
   along sub-domain s is the coded slice_fluctuation(s)^2 and the variance of the average over the other
   sub-domain is the coded average_fluctuation(s)^2 *)
Theorem C28_slice_average_two :
  forall K, is_ring K ->
  forall n1 n2 t1 t2 invn1 invn2 invN a1 a2 azm iazm V1 V2 iV1 iV2 f1 f2,
  two_spaces_ok K n1 n2 t1 t2 invn1 invn2 invN a1 a2 azm iazm V1 V2 iV1 iV2 f1 f2 ->
  let t := t12 K n2 t1 t2 in
  let coef := coef12 K n2 a1 a2 azm in
  let invV := op_mul K iV1 iV2 in
  slice_variance K (n1 * n2) t invN invV coef (mean1 K n1 n2 invn1) = slice_sq K azm iazm [f1; f2] 0 /\
  slice_variance K (n1 * n2) t invN invV coef (mean2 K n2 invn2) = slice_sq K azm iazm [f1; f2] 1 /\
  average_variance K (n1 * n2) t invN invV coef (mean2 K n2 invn2) = average_sq K [f1; f2] 0 /\
  average_variance K (n1 * n2) t invN invV coef (mean1 K n1 n2 invn1) = average_sq K [f1; f2] 1.
Proof. exact slice_average_two. Qed.

(* non-vacuity of the normalisation hypotheses *)
Example C28_hyps_satisfiable :
  length [1; 2; 1]%R = length [1; 3; 2]%R /\ (0 < 2)%R /\ allpos (tl [1; 2; 1]%R) /\ allpos (tl [1; 3; 2]%R)
  /\ tl [1; 3; 2]%R <> [].
Proof.
  repeat split; try reflexivity; try (apply Rlt_0_2); try discriminate;
    repeat constructor; try apply Rlt_0_1; try apply Rlt_0_2.
  replace 3%R with (1 + 2)%R by (compute; ring). apply Rplus_lt_0_compat; [apply Rlt_0_1|apply Rlt_0_2].
Qed.
