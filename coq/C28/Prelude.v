(* C28 -- vector helpers over the reals used by the GENERATED normalisation functions (Gen_Norm.v).
   Vectors are lists; index 0 is the zero mode.  Hand-written, no proofs. *)
From Coq Require Import Reals List.
Import ListNotations.
Local Open Scope R_scope.

(* a * b on arrays of equal length (numpy broadcasting is not modelled: the shorter length wins) *)
Fixpoint vmul (a b : list R) : list R :=
  match a, b with
  | x :: a', y :: b' => x * y :: vmul a' b'
  | _, _ => []
  end.
Definition vscale (c : R) (a : list R) : list R := map (fun x => c * x) a.   (* scalar * array *)
Definition vsq (a : list R) : list R := map Rsqr a.                           (* a ** 2 *)
Definition vsqrt (a : list R) : list R := map sqrt a.                         (* jnp.sqrt(a) *)
Fixpoint vsum (a : list R) : R := match a with [] => 0 | x :: a' => x + vsum a' end.  (* jnp.sum *)
(* a.at[0].set(v) *)
Definition set0 (v : R) (a : list R) : list R := match a with [] => [] | _ :: t => v :: t end.

(* sum over all modes but the zero mode of multiplicity * amplitude^2 *)
Definition wsum (m a : list R) : R := vsum (vmul (tl m) (vsq (tl a))).
