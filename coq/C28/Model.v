(* C28 -- correlated-field models.  Executable model, NO proofs.

   Mirrors (over any structure K with ring operations; C09's ring_ops):
     nifty/re/correlated_field.py  CorrelatedFieldMaker.finalize
         cf_h  = azm(p) * outer_amplitude(p) * xi
         field = offset_mean + prod_i [ harmonic_dvol_i * hartley_i ] (cf_h)         harmonic_dvol_i = 1/V_i
       get_normalized_amplitudes:  amp(p).at[1:].mul(1/azm)   (entry 0 of amp is V_i)
       outer_amplitude:            jnp.tensordot(outer, amp_i[power_distributor_i], axes=0)
     nifty/cl/library/correlated_fields.py  CorrelatedFieldMaker.finalize (same structure with
         HarmonicTransformOperator = HartleyOperator on a harmonic domain, factor dvol_harmonic = 1/V_i),
         total_fluctuation / slice_fluctuation / average_fluctuation,
         _AmplitudeMatern.fluctuation_amplitude (after fixes/C28-1).
   The normalisation lines of the JAX amplitude models are NOT here: they are translated from the
   source into Gen_Norm.v on every run. *)
From Coq Require Import List Arith Bool PeanoNat.
Import ListNotations.
Require Import NV.C09.Model.

Section Generic.
  Variable K : ring_ops.
  Local Notation R := (carrier K).
  Local Notation r0 := (op_0 K).
  Local Notation r1 := (op_1 K).
  Local Notation radd := (op_add K).
  Local Notation rmul := (op_mul K).
  Local Notation rsub := (op_sub K).

  Definition rsq (a : R) : R := rmul a a.

  Fixpoint rprod (l : list R) : R := match l with [] => r1 | a :: r => rmul a (rprod r) end.

  (* ---- the harmonic transform of one sub-domain as a real matrix -------------------------------
     hm W c j x : contribution of harmonic mode j to pixel x of hartley(.)  (cos -/+ sin) *)
  Definition hm (W : nat -> nat -> C K) (noncanon : bool) (j x : nat) : R :=
    if noncanon then rsub (fst (W j x)) (snd (W j x)) else radd (fst (W j x)) (snd (W j x)).

  (* several sub-domains: the transforms act on their own axes, i.e. the matrix of the whole is the
     Kronecker product (C order: first sub-domain slowest).  [ts] = per-space matrices, [ns] = sizes *)
  Fixpoint kron (ts : list (nat -> nat -> R)) (ns : list nat) (j x : nat) : R :=
    match ts, ns with
    | t :: ts', n :: ns' =>
        let m := prodl ns' in
        rmul (t (j / m) (x / m)) (kron ts' ns' (j mod m) (x mod m))
    | _, _ => r1
    end.

  (* outer_amplitude: tensordot(...(tensordot(a_1, a_2), ...), a_n) on the flat index *)
  Fixpoint outer (ps : list (nat -> R)) (ns : list nat) (j : nat) : R :=
    match ps, ns with
    | p :: ps', n :: ns' =>
        let m := prodl ns' in
        rmul (p (j / m)) (outer ps' ns' (j mod m))
    | _, _ => r1
    end.

  (* ---- the field as a function of the excitations ------------------------------------------------
     t    : matrix of the (composite) harmonic transform, N cells
     invV : product of the harmonic pixel volumes 1/V_i
     coef : azm * outer normalised amplitude, per harmonic cell *)
  Definition cf_field (t : nat -> nat -> R) (N : nat) (offset invV : R) (coef xi : nat -> R) (x : nat) : R :=
    radd offset (rmul invV (rsum K N (fun j => rmul (t j x) (rmul (coef j) (xi j))))).

  (* linear response of pixel x to excitation j *)
  Definition lin (t : nat -> nat -> R) (invV : R) (coef : nat -> R) (x j : nat) : R :=
    rmul invV (rmul (t j x) (coef j)).

  (* response with the spatial mean removed (invN = 1/N) *)
  Definition linc (t : nat -> nat -> R) (N : nat) (invN invV : R) (coef : nat -> R) (x j : nat) : R :=
    rsub (lin t invV coef x j) (rmul invN (rsum K N (fun x' => lin t invV coef x' j))).

  (* expected spatial variance about the spatial mean for unit white excitations:
     E (1/N) sum_x (f_x - mean f)^2 = (1/N) sum_x sum_j linc(x,j)^2 *)
  Definition expected_variance (t : nat -> nat -> R) (N : nat) (invN invV : R) (coef : nat -> R) : R :=
    rmul invN (rsum K N (fun x => rsum K N (fun j => rsq (linc t N invN invV coef x j)))).

  (* ---- the predictions coded in classic CorrelatedFieldMaker --------------------------------------
     total_fluctuation:   q = prod_a (1 + (a.fluctuation_amplitude/azm)**2) ; (q - 1).sqrt()*azm
     slice_fluctuation s: q = prod_j (fl_j**2 if j == s else 1 + fl_j**2)   ; q.sqrt()*azm
     average_fluctuation s: a_s.fluctuation_amplitude
     (squares are modelled; iazm = 1/azm) *)
  Definition total_sq (azm iazm : R) (fls : list R) : R :=
    rmul (rsub (rprod (map (fun f => radd r1 (rsq (rmul f iazm))) fls)) r1) (rsq azm).

  Fixpoint slice_q_from (j : nat) (iazm : R) (fls : list R) (s : nat) : R :=
    match fls with
    | [] => r1
    | f :: r =>
        rmul (if j =? s then rsq (rmul f iazm) else radd r1 (rsq (rmul f iazm)))
             (slice_q_from (S j) iazm r s)
    end.
  Definition slice_q (iazm : R) (fls : list R) (s : nat) : R := slice_q_from 0 iazm fls s.
  Definition slice_sq (azm iazm : R) (fls : list R) (s : nat) : R := rmul (slice_q iazm fls s) (rsq azm).
  Definition average_sq (fls : list R) (s : nat) : R := rsq (nth s fls r0).

  (* _AmplitudeMatern.fluctuation_amplitude (fixed): sqrt(sum_{k>=1} rho_k A_k^2) / V ; squared: *)
  Definition matern_fluct_sq (invV : R) (rho amp : list R) : R :=
    rmul (rsq invV) (rsum K (length (tl amp)) (fun k => rmul (nth k (tl rho) r0) (rsq (nth k (tl amp) r0)))).
End Generic.

(* ================================================================================================
   Executable instance over Qc (exact rationals), used by the correspondence.
   ================================================================================================ *)
From Coq Require Import ZArith QArith Qcanon Qabs Qminmax.

Definition q2 (x : Q) : Qc := Q2Qc x.

Definition qlist (l : list Q) (k : nat) : Qc := nth k (map Q2Qc l) 0%Qc.

(* |a - b| <= tol * max(1, |b|)   (a = model, exact; b = implementation, float) *)
Definition close (tol a b : Qc) : bool :=
  Qle_bool (Qabs (this a - this b)) (this tol * Qmax 1 (Qabs (this b))).

Definition c_total (tol azm : Q) (fls : list Q) (realized : Q) : bool :=
  close (q2 tol) (total_sq QcK (q2 azm) (/ q2 azm)%Qc (map Q2Qc fls)) (q2 realized).
Definition c_slice (tol azm : Q) (fls : list Q) (s : nat) (realized : Q) : bool :=
  close (q2 tol) (slice_sq QcK (q2 azm) (/ q2 azm)%Qc (map Q2Qc fls) s) (q2 realized).
Definition c_average (tol : Q) (fls : list Q) (s : nat) (realized : Q) : bool :=
  close (q2 tol) (average_sq QcK (map Q2Qc fls) s) (q2 realized).
Definition c_matern_fluct (tol V : Q) (rho amp : list Q) (predicted_sq : Q) : bool :=
  close (q2 tol) (matern_fluct_sq QcK (/ q2 V)%Qc (map Q2Qc rho) (map Q2Qc amp)) (q2 predicted_sq).

(* the whole field: grids with axis lengths 1,2,4 per sub-domain; [shapes] one shape per sub-domain,
   [vols] the total volumes V_i, [amps] the normalised amplitudes per sub-domain (already expanded to
   the harmonic cells of that sub-domain), azm, offset, excitations xi; expected field [y] *)
Definition g_hm (noncanon : bool) (shape : list nat) : nat -> nat -> Qc := hm QcK (gkern shape) noncanon.

Definition g_field (noncanon : bool) (shapes : list (list nat)) (vols : list Q) (amps : list (list Q))
           (azm offset : Q) (xi : list Q) (x : nat) : Qc :=
  let ns := map prodl shapes in
  let N := prodl ns in
  let t := kron QcK (map (g_hm noncanon) shapes) ns in
  let invV := rprod QcK (map (fun v => (/ q2 v)%Qc) vols) in
  let coef := fun j => (q2 azm * outer QcK (map qlist amps) ns j)%Qc in
  cf_field QcK t N (q2 offset) invV coef (qlist xi) x.

Fixpoint all_close (tol : Qc) (f : nat -> Qc) (y : list Q) (x : nat) : bool :=
  match y with
  | [] => true
  | v :: y' => close tol (f x) (q2 v) && all_close tol f y' (S x)
  end.

Definition c_field (tol : Q) (noncanon : bool) (shapes : list (list nat)) (vols : list Q) (amps : list (list Q))
           (azm offset : Q) (xi y : list Q) : bool :=
  forallb (forallb axis_ok) shapes &&
  (length y =? prodl (map prodl shapes)) && (length xi =? prodl (map prodl shapes)) &&
  forallb (fun sa => length (snd sa) =? prodl (fst sa)) (combine shapes amps) &&
  (length amps =? length shapes) && (length vols =? length shapes) &&
  all_close (q2 tol) (g_field noncanon shapes vols amps azm offset xi) y 0.
