(* C28 -- the expected spatial variance of the field built as in `finalize`, for any transform
   matrix whose zero mode is constant and whose modes are orthogonal (Hartley transforms and their
   Kronecker products), and the product formulas for several sub-domains. *)
From Coq Require Import List Arith Bool PeanoNat Lia Ring Ring_theory.
Import ListNotations.
Require Import NV.C09.Model NV.C09.Proofs NV.C09.ProofsH NV.C09.ProofsK NV.C28.Model.

Section Var.
  Variable K : ring_ops.
  Local Notation R := (carrier K).
  Local Notation r0 := (op_0 K).
  Local Notation r1 := (op_1 K).
  Local Notation radd := (op_add K).
  Local Notation rmul := (op_mul K).
  Local Notation rsub := (op_sub K).
  Local Notation ropp := (op_opp K).
  Local Notation rsum := (rsum K).
  Local Notation natR := (natR K).
  Local Notation rsq := (rsq K).

  Hypothesis Rth : ring_theory r0 r1 radd rmul rsub ropp eq.
  Add Ring Rring : Rth.

  (* a "good" transform matrix on N cells: mode 0 is constant 1, modes are orthogonal with norm N *)
  Definition transform_ok (N : nat) (t : nat -> nat -> R) : Prop :=
    (forall x, x < N -> t 0 x = r1) /\
    (forall j l, j < N -> l < N ->
       rsum N (fun x => rmul (t j x) (t l x)) = if j =? l then natR N else r0).

  Lemma rsum_ext' n f g : (forall j, j < n -> f j = g j) -> rsum n f = rsum n g.
  Proof. apply rsum_ext. Qed.

  Lemma rsum_app a b f : rsum (a + b) f = radd (rsum a f) (rsum b (fun i => f (a + i))).
  Proof.
    induction b.
    - rewrite Nat.add_0_r. cbn. ring.
    - rewrite Nat.add_succ_r. cbn. rewrite IHb. ring.
  Qed.

  Lemma rsum_prod n1 n2 (f : nat -> nat -> R) :
    0 < n2 ->
    rsum (n1 * n2) (fun k => f (k / n2) (k mod n2)) = rsum n1 (fun a => rsum n2 (fun b => f a b)).
  Proof.
    intros H2. induction n1.
    - reflexivity.
    - cbn [Nat.mul Model.rsum]. rewrite Nat.add_comm, rsum_app, IHn1. f_equal.
      apply rsum_ext. intros i Hi.
      replace (n1 * n2 + i) with (i + n1 * n2) by lia.
      rewrite Nat.div_add by lia. rewrite Nat.mod_add by lia.
      rewrite Nat.div_small, Nat.mod_small by exact Hi. reflexivity.
  Qed.

  Lemma rsum_tensor n1 n2 (A B : nat -> R) :
    0 < n2 ->
    rsum (n1 * n2) (fun k => rmul (A (k / n2)) (B (k mod n2))) = rmul (rsum n1 A) (rsum n2 B).
  Proof.
    intros H2. pose proof (rsum_prod n1 n2 (fun a b => rmul (A a) (B b)) H2) as E. cbv beta in E.
    rewrite E. rewrite <- (rsum_mul_r K Rth). apply rsum_ext. intros a Ha.
    apply (rsum_mul_l K Rth).
  Qed.

  Lemma rsum_const n c : rsum n (fun _ => c) = rmul (natR n) c.
  Proof. induction n; cbn; [ring|]. rewrite IHn. ring. Qed.

  Section OneTransform.
    Variable N : nat.
    Variable t : nat -> nat -> R.
    Hypothesis Ht : transform_ok N t.
    Hypothesis HN : 0 < N.
    Variables invN invV offset : R.
    Hypothesis HinvN : rmul (natR N) invN = r1.
    Variable coef : nat -> R.

    Lemma col_sum j : j < N -> rsum N (t j) = if j =? 0 then natR N else r0.
    Proof.
      intros Hj. destruct Ht as [Hz Ho].
      rewrite <- (Ho j 0 Hj HN). apply rsum_ext. intros x Hx. rewrite (Hz x Hx). ring.
    Qed.

    Lemma lin_col_sum j : j < N ->
      rsum N (fun x => lin K t invV coef x j) = if j =? 0 then rmul (natR N) (rmul invV (coef 0)) else r0.
    Proof.
      intros Hj. unfold lin.
      rewrite (rsum_ext K N _ (fun x => rmul (rmul invV (coef j)) (t j x))) by (intros; ring).
      rewrite (rsum_mul_l K Rth), (col_sum j Hj).
      destruct (Nat.eqb_spec j 0) as [->|]; ring.
    Qed.

    Lemma linc_zero x : x < N -> linc K t N invN invV coef x 0 = r0.
    Proof.
      intros Hx. unfold linc. rewrite (lin_col_sum 0 HN). cbn [Nat.eqb]. unfold lin.
      destruct Ht as [Hz _]. rewrite (Hz x Hx).
      transitivity (rmul (rmul invV (coef 0)) (rsub r1 (rmul (natR N) invN))); [ring|].
      rewrite HinvN. ring.
    Qed.

    Lemma linc_nonzero x j : j < N -> j <> 0 -> linc K t N invN invV coef x j = lin K t invV coef x j.
    Proof.
      intros Hj Hne. unfold linc. rewrite (lin_col_sum j Hj).
      destruct (Nat.eqb_spec j 0); [contradiction|]. ring.
    Qed.

    (* sum over all modes but the zero mode *)
    Definition nonzero_sum (f : nat -> R) : R := rsum N (fun j => if j =? 0 then r0 else f j).

    (* E (1/N) sum_x (f_x - mean f)^2  =  (1/V^2) * sum_{j != 0} coef_j^2 *)
    Lemma expected_variance_eq :
      expected_variance K t N invN invV coef = rmul (rsq invV) (nonzero_sum (fun j => rsq (coef j))).
    Proof.
      unfold expected_variance. rewrite (rsum_swap K Rth).
      rewrite (rsum_ext K N _ (fun j => if j =? 0 then r0 else rmul (natR N) (rmul (rsq invV) (rsq (coef j))))).
      - unfold nonzero_sum.
        transitivity (rmul invN (rmul (natR N) (rmul (rsq invV)
                         (rsum N (fun j => if j =? 0 then r0 else rsq (coef j)))))).
        + f_equal. rewrite <- !(rsum_mul_l K Rth). apply rsum_ext. intros j Hj.
          destruct (j =? 0); ring.
        + transitivity (rmul (rmul (natR N) invN)
                          (rmul (rsq invV) (rsum N (fun j => if j =? 0 then r0 else rsq (coef j))))); [ring|].
          rewrite HinvN. ring.
      - intros j Hj. destruct (Nat.eqb_spec j 0) as [->|Hne].
        + rewrite (rsum_ext K N _ (fun _ => r0)).
          * apply (rsum_zero K Rth).
          * intros x Hx. rewrite (linc_zero x Hx). unfold Model.rsq. ring.
        + rewrite (rsum_ext K N _ (fun x => rmul (rmul (rsq invV) (rsq (coef j))) (rmul (t j x) (t j x)))).
          * rewrite (rsum_mul_l K Rth). destruct Ht as [_ Ho]. rewrite (Ho j j Hj Hj), Nat.eqb_refl. ring.
          * intros x Hx. rewrite (linc_nonzero x j Hj Hne). unfold lin, Model.rsq. ring.
    Qed.

    (* the spatial mean of the field is offset + (1/V) coef_0 xi_0: only the zero mode enters *)
    Lemma spatial_mean xi :
      rmul invN (rsum N (fun x => cf_field K t N offset invV coef xi x))
      = radd offset (rmul invV (rmul (coef 0) (xi 0))).
    Proof.
      unfold cf_field.
      rewrite (rsum_add K Rth).
      rewrite (rsum_mul_l K Rth), (rsum_swap K Rth).
      rewrite (rsum_ext K N (fun k => rsum N (fun j => rmul (t k j) (rmul (coef k) (xi k))))
                        (fun k => rmul (rmul (coef k) (xi k)) (if k =? 0 then natR N else r0))).
      - rewrite (rsum_delta K Rth N 0 (fun k => rmul (coef k) (xi k)) (natR N) HN).
        rewrite (rsum_const N offset).
        transitivity (rmul (rmul (natR N) invN) (radd offset (rmul invV (rmul (coef 0) (xi 0))))); [ring|].
        rewrite HinvN. ring.
      - intros k Hk. rewrite <- (col_sum k Hk). rewrite <- (rsum_mul_l K Rth).
        apply rsum_ext. intros; ring.
    Qed.
  End OneTransform.

  (* ---- Hartley transforms are good transforms (C09) -------------------------------------------- *)
  Lemma hm_is_hmat W c j x : hm K W c j x = hmat K W c j x.
  Proof. reflexivity. Qed.

  Lemma hartley_transform_ok N W c :
    0 < N -> kernel_ok K N W -> transform_ok N (hm K W c).
  Proof.
    intros HN (S & Z & O & Rr). split.
    - intros x Hx. rewrite hm_is_hmat, (hmat_sym K N W S c 0 x HN Hx).
      apply (hmat_zero K Rth N W Z c x Hx).
    - intros j l Hj Hl.
      rewrite (rsum_ext K N _ (fun x => rmul (hmat K W c j x) (hmat K W c l x))) by (intros; reflexivity).
      apply (hmat_orth K Rth N W O Rr c j l Hj Hl).
  Qed.

  (* ---- Kronecker products of good transforms are good ------------------------------------------- *)
  Lemma kron2_ok n1 n2 t1 t2 :
    0 < n2 -> transform_ok n1 t1 -> transform_ok n2 t2 ->
    transform_ok (n1 * n2) (fun j x => rmul (t1 (j / n2) (x / n2)) (t2 (j mod n2) (x mod n2))).
  Proof.
    intros H2 [Z1 O1] [Z2 O2]. split.
    - intros x Hx. destruct (idx_bounds n1 n2 H2 x Hx) as [Hx1 Hx2].
      rewrite Nat.div_0_l, Nat.mod_0_l by lia. rewrite (Z1 _ Hx1), (Z2 _ Hx2). ring.
    - intros j l Hj Hl.
      destruct (idx_bounds n1 n2 H2 j Hj) as [Hj1 Hj2], (idx_bounds n1 n2 H2 l Hl) as [Hl1 Hl2].
      pose proof (rsum_tensor n1 n2 (fun a => rmul (t1 (j / n2) a) (t1 (l / n2) a))
                    (fun b => rmul (t2 (j mod n2) b) (t2 (l mod n2) b)) H2) as E.
      cbv beta in E.
      rewrite (rsum_ext K (n1 * n2) _
        (fun k => rmul (rmul (t1 (j / n2) (k / n2)) (t1 (l / n2) (k / n2)))
                       (rmul (t2 (j mod n2) (k mod n2)) (t2 (l mod n2) (k mod n2))))) by (intros; ring).
      rewrite E, (O1 _ _ Hj1 Hl1), (O2 _ _ Hj2 Hl2), (idx_eq n2 H2 j l).
      destruct (j / n2 =? l / n2), (j mod n2 =? l mod n2); cbn [andb]; try ring.
      rewrite (natR_mul K Rth). reflexivity.
  Qed.

  Lemma unit_transform_ok : transform_ok 1 (fun _ _ => r1).
  Proof.
    split; [reflexivity|]. intros j l Hj Hl. assert (j = 0) by lia. assert (l = 0) by lia. subst.
    cbn. ring.
  Qed.

  Lemma transform_ok_ext N t t' :
    (forall j x, j < N -> x < N -> t j x = t' j x) -> transform_ok N t -> transform_ok N t'.
  Proof.
    intros E [Z O]. split.
    - intros x Hx. rewrite <- E by lia. apply Z; assumption.
    - intros j l Hj Hl. rewrite <- (O j l Hj Hl). apply rsum_ext. intros x Hx.
      rewrite !E by assumption. reflexivity.
  Qed.

  Lemma kron_ok ts ns :
    Forall2 (fun t n => 0 < n /\ transform_ok n t) ts ns -> transform_ok (prodl ns) (kron K ts ns).
  Proof.
    induction 1 as [|t n ts ns [Hn Ht] Hrest IH].
    - exact unit_transform_ok.
    - cbn [prodl kron].
      assert (Hpos : 0 < prodl ns).
      { clear - Hrest. induction Hrest as [|? ? ? ? [? _] _ IHf]; cbn; [lia|nia]. }
      exact (kron2_ok n (prodl ns) t (kron K ts ns) Hpos Ht IH).
  Qed.

  (* ---- outer products: sum over all cells = product of the per-space sums ----------------------- *)
  Lemma outer_sum ps ns :
    length ps = length ns -> (forall n, In n ns -> 0 < n) ->
    rsum (prodl ns) (outer K ps ns) = rprod K (map (fun pn => rsum (snd pn) (fst pn)) (combine ps ns)).
  Proof.
    revert ns. induction ps as [|p ps IH]; intros [|n ns] Hl Hpos; try discriminate.
    - cbn. ring.
    - cbn [prodl outer combine map rprod fst snd].
      assert (Hp : 0 < prodl ns) by (apply prodl_pos; intros; apply Hpos; right; assumption).
      transitivity (rmul (rsum n p) (rsum (prodl ns) (outer K ps ns))).
      { rewrite <- (rsum_tensor n (prodl ns) p (outer K ps ns) Hp). reflexivity. }
      rewrite IH; [reflexivity|cbn in Hl; lia|intros; apply Hpos; right; assumption].
  Qed.

  Lemma outer_zero ps ns :
    length ps = length ns -> (forall n, In n ns -> 0 < n) ->
    outer K ps ns 0 = rprod K (map (fun p => p 0) ps).
  Proof.
    revert ns. induction ps as [|p ps IH]; intros [|n ns] Hl Hpos; try discriminate.
    - reflexivity.
    - cbn [outer map rprod].
      assert (Hp : 0 < prodl ns) by (apply prodl_pos; intros; apply Hpos; right; assumption).
      rewrite Nat.div_0_l, Nat.mod_0_l by lia.
      rewrite IH; [reflexivity|cbn in Hl; lia|intros; apply Hpos; right; assumption].
  Qed.

  Lemma outer_sq ps ns j :
    rsq (outer K ps ns j) = outer K (map (fun p k => rsq (p k)) ps) ns j.
  Proof.
    revert ns j. induction ps as [|p ps IH]; intros [|n ns] j; cbn [outer map];
      try (unfold Model.rsq; ring).
    rewrite <- IH. unfold Model.rsq. ring.
  Qed.

  Lemma nonzero_sum_split N f : 0 < N -> nonzero_sum N f = rsub (rsum N f) (f 0).
  Proof.
    intros HN. unfold nonzero_sum.
    assert (E : forall n, 0 < n -> rsum n (fun j => if j =? 0 then r0 else f j) = rsub (rsum n f) (f 0)).
    { induction n; [lia|]. intros _. destruct n.
      - cbn. ring.
      - cbn [Model.rsum] in *. rewrite IHn by lia. cbn [Nat.eqb]. ring. }
    apply E, HN.
  Qed.

  (* ---- the total fluctuation of the outer-product model ------------------------------------------
     per sub-domain i: normalised amplitude a_i on its n_i harmonic cells with
        a_i(0) = V_i   and   sum_{k != 0} a_i(k)^2 = (fl_i * V_i)^2      (fl_i = flu_i / azm)
     coefficient of the excitation of cell j: azm * outer a j;   invV = prod 1/V_i.
     Then (1/V^2) sum_{j != 0} coef_j^2 = azm^2 (prod (1 + fl_i^2) - 1) = total_fluctuation^2. *)
  Record space_ok (iazm : R) (s : (nat -> R) * nat * R * R * R) : Prop := {
    so_n   : 0 < snd (fst (fst (fst s)));
    so_zm  : fst (fst (fst (fst s))) 0 = snd (fst (fst s));                       (* a(0) = V *)
    so_vol : rmul (snd (fst (fst s))) (snd (fst s)) = r1;                          (* V * (1/V) = 1 *)
    so_nrm : rsub (rsum (snd (fst (fst (fst s)))) (fun k => rsq (fst (fst (fst (fst s))) k)))
                  (rsq (fst (fst (fst (fst s))) 0))
             = rsq (rmul (rmul (snd s) iazm) (snd (fst (fst s))))                  (* sum_{k!=0} a^2 = (fl V)^2 *)
  }.
  (* a space is (a, n, V, invV, flu) *)
  Definition sp_a (s : (nat -> R) * nat * R * R * R) := fst (fst (fst (fst s))).
  Definition sp_n (s : (nat -> R) * nat * R * R * R) := snd (fst (fst (fst s))).
  Definition sp_V (s : (nat -> R) * nat * R * R * R) := snd (fst (fst s)).
  Definition sp_iV (s : (nat -> R) * nat * R * R * R) := snd (fst s).
  Definition sp_flu (s : (nat -> R) * nat * R * R * R) := snd s.

  Lemma per_space_factor iazm s :
    space_ok iazm s ->
    rmul (rsq (sp_iV s)) (rsum (sp_n s) (fun k => rsq (sp_a s k))) = radd r1 (rsq (rmul (sp_flu s) iazm))
    /\ rmul (rsq (sp_iV s)) (rsq (sp_a s 0)) = r1.
  Proof.
    intros [Hn Hz Hv Hs]. unfold sp_iV, sp_n, sp_a, sp_flu in *.
    set (a := fst (fst (fst (fst s)))) in *. set (n := snd (fst (fst (fst s)))) in *.
    set (V := snd (fst (fst s))) in *. set (iV := snd (fst s)) in *. set (flu := snd s) in *.
    assert (E0 : rmul (rsq iV) (rsq (a 0)) = r1).
    { rewrite Hz. unfold Model.rsq. transitivity (rmul (rmul V iV) (rmul V iV)); [ring|]. rewrite Hv. ring. }
    split; [|exact E0].
    transitivity (radd (rmul (rsq iV) (rsq (a 0)))
                       (rmul (rsq iV) (rsub (rsum n (fun k => rsq (a k))) (rsq (a 0))))); [ring|].
    rewrite E0, Hs. unfold Model.rsq.
    transitivity (radd r1 (rmul (rmul (rmul V iV) (rmul V iV)) (rmul (rmul flu iazm) (rmul flu iazm)))); [ring|].
    rewrite Hv. ring.
  Qed.

  Lemma total_fluctuation_identity (azm iazm : R) (sps : list ((nat -> R) * nat * R * R * R)) :
    Forall (space_ok iazm) sps ->
    let ns := map sp_n sps in
    let coef := fun j => rmul azm (outer K (map sp_a sps) ns j) in
    rmul (rsq (rprod K (map sp_iV sps))) (nonzero_sum (prodl ns) (fun j => rsq (coef j)))
    = total_sq K azm iazm (map sp_flu sps).
  Proof.
    intros Hs ns coef.
    assert (Hpos : forall n, In n ns -> 0 < n).
    { intros n Hn. unfold ns in Hn. rewrite in_map_iff in Hn. destruct Hn as (s & <- & Hin).
      rewrite Forall_forall in Hs. apply (so_n _ _ (Hs s Hin)). }
    assert (Hlen : length (map (fun p k => rsq (p k)) (map sp_a sps)) = length ns)
      by (unfold ns; rewrite !map_length; reflexivity).
    rewrite nonzero_sum_split by (apply prodl_pos; exact Hpos).
    unfold coef.
    rewrite (rsum_ext K (prodl ns) _ (fun j => rmul (rsq azm) (outer K (map (fun p k => rsq (p k)) (map sp_a sps)) ns j))).
    2:{ intros j Hj. rewrite <- outer_sq. unfold Model.rsq. ring. }
    rewrite (rsum_mul_l K Rth), (outer_sum _ ns Hlen Hpos).
    assert (E0 : rsq (rmul azm (outer K (map sp_a sps) ns 0))
                 = rmul (rsq azm) (rprod K (map (fun s => rsq (sp_a s 0)) sps))).
    { rewrite (outer_zero (map sp_a sps) ns) by (try exact Hpos; unfold ns; rewrite !map_length; reflexivity).
      rewrite map_map. clear - Rth. induction sps as [|s r IH]; cbn [map Model.rprod]; unfold Model.rsq in *.
      - ring.
      - transitivity (rmul (rmul (sp_a s 0) (sp_a s 0))
                           (rmul (rmul azm (rprod K (map (fun x => sp_a x 0) r)))
                                 (rmul azm (rprod K (map (fun x => sp_a x 0) r))))); [ring|].
        rewrite IH. ring. }
    rewrite E0. unfold total_sq.
    (* per-space factors *)
    assert (EP : forall l : list ((nat -> R) * nat * R * R * R), Forall (space_ok iazm) l ->
              rmul (rsq (rprod K (map sp_iV l)))
                   (rprod K (map (fun pn => rsum (snd pn) (fst pn))
                              (combine (map (fun p k => rsq (p k)) (map sp_a l)) (map sp_n l))))
              = rprod K (map (fun f => radd r1 (rsq (rmul f iazm))) (map sp_flu l))
              /\ rmul (rsq (rprod K (map sp_iV l))) (rprod K (map (fun s => rsq (sp_a s 0)) l)) = r1).
    { induction 1 as [|s l Hs1 _ IH]; cbn [map combine Model.rprod fst snd].
      - unfold Model.rsq. split; ring.
      - destruct IH as [IH1 IH2]. destruct (per_space_factor iazm s Hs1) as [P1 P2]. split.
        + rewrite <- IH1, <- P1. unfold Model.rsq. ring.
        + transitivity (rmul (rmul (rsq (sp_iV s)) (rsq (sp_a s 0)))
                             (rmul (rsq (rprod K (map sp_iV l))) (rprod K (map (fun s0 => rsq (sp_a s0 0)) l)))).
          * unfold Model.rsq. ring.
          * rewrite P2, IH2. ring. }
    destruct (EP sps Hs) as [E1 E2]. fold ns in E1.
    transitivity (rmul (rsq azm)
      (rsub (rmul (rsq (rprod K (map sp_iV sps)))
                  (rprod K (map (fun pn => rsum (snd pn) (fst pn))
                     (combine (map (fun p k => rsq (p k)) (map sp_a sps)) ns))))
            (rmul (rsq (rprod K (map sp_iV sps))) (rprod K (map (fun s => rsq (sp_a s 0)) sps))))); [ring|].
    rewrite E1, E2. ring.
  Qed.

  (* single sub-domain: total_fluctuation^2 = flu^2 when azm * (1/azm) = 1 *)
  Lemma total_single azm iazm flu : rmul azm iazm = r1 -> total_sq K azm iazm [flu] = rsq flu.
  Proof.
    intros H. unfold total_sq. cbn [map Model.rprod]. unfold Model.rsq.
    transitivity (rmul (rmul (rmul azm iazm) (rmul azm iazm)) (rmul flu flu)); [ring|]. rewrite H. ring.
  Qed.
End Var.
