(* C28 -- the pieces put together over the real numbers: the field built as in `finalize` from the
   GENERATED normalised amplitude has expected spatial variance flu^2, whatever the grid, the volume
   and the un-normalised spectrum. *)
From Coq Require Import Reals List Bool Lra Lia Ring_theory.
Import ListNotations.
Require Import NV.C09.Model NV.C09.ProofsK NV.C28.Prelude NV.C28.Gen_Norm NV.C28.Model NV.C28.ProofsNorm NV.C28.ProofsVar.
Local Open Scope R_scope.

Definition RK : ring_ops := mkops R 0 1 Rplus Rmult Rminus Ropp.

Lemma RK_ring : ring_theory (op_0 RK) (op_1 RK) (op_add RK) (op_mul RK) (op_sub RK) (op_opp RK) eq.
Proof. exact RTheory. Qed.

Section Single.
  Variables (m s : list R) (V flu : R) (kind : bool).
  Hypothesis Hlen : length m = length s.
  Hypothesis HV : 0 < V.
  Hypothesis Hm : allpos (tl m).
  Hypothesis Hs : allpos (tl s).
  Hypothesis Hne : tl s <> [].

  Variable N : nat.
  Variable t : nat -> nat -> R.              (* matrix of the harmonic transform *)
  Hypothesis Ht : transform_ok RK N t.
  Hypothesis HN : (0 < N)%nat.
  Variable pd : nat -> nat.                  (* power distributor: harmonic cell -> power bin *)

  (* m counts the harmonic cells of each bin (zero mode apart): for every g,
     sum_{j != 0} g(pd j) = sum_{k >= 1} m_k g(k), stated for the amplitude at hand *)
  Definition bins_ok (A : list R) : Prop :=
    nonzero_sum RK N (fun j => rsq RK (nth (pd j) A 0)) = wsum m A.

  Lemma npa_expected_variance :
    let A := npa_tail kind m s flu V in
    bins_ok A ->
    expected_variance RK t N (/ INR N) (/ V) (fun j => nth (pd j) A 0) = flu * flu.
  Proof.
    intros A Hb.
    assert (HinvN : op_mul RK (natR RK N) (/ INR N) = op_1 RK).
    { assert (E : natR RK N = INR N).
      { clear. induction N as [|n IH]; [reflexivity|]. cbn [natR]. rewrite IH, S_INR. reflexivity. }
      rewrite E. cbn. apply Rinv_r. apply not_0_INR. lia. }
    rewrite (expected_variance_eq RK RK_ring N t Ht HN (/ INR N) (/ V) HinvN).
    unfold bins_ok in Hb. rewrite Hb.
    destruct (npa_norm m s V Hlen HV Hm Hs Hne kind flu) as [_ Hw]. fold A in Hw. rewrite Hw.
    unfold rsq. cbn. field. lra.
  Qed.

  Lemma matern_expected_variance scl :
    let A := matern_tail kind true m s scl V in
    bins_ok A ->
    expected_variance RK t N (/ INR N) (/ V) (fun j => nth (pd j) A 0) = scl * scl.
  Proof.
    intros A Hb.
    assert (HinvN : op_mul RK (natR RK N) (/ INR N) = op_1 RK).
    { assert (E : natR RK N = INR N).
      { clear. induction N as [|n IH]; [reflexivity|]. cbn [natR]. rewrite IH, S_INR. reflexivity. }
      rewrite E. cbn. apply Rinv_r. apply not_0_INR. lia. }
    rewrite (expected_variance_eq RK RK_ring N t Ht HN (/ INR N) (/ V) HinvN).
    unfold bins_ok in Hb. rewrite Hb.
    destruct (matern_renorm m s V Hlen HV Hm Hs Hne kind scl) as [_ Hw]. fold A in Hw. rewrite Hw.
    unfold rsq. cbn. field. lra.
  Qed.
End Single.
