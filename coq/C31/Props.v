(* C31 -- property theorems only.  Each is closed by [exact] of a lemma from Proofs*.v.
   The scalar formulas gen_* are the translator's output (Gen_Index.v, regenerated from
   nifty/re/multi_grid/grid.py on every run); children / parent / grid_axes / idx2flat / flat2idx
   are the model functions that the correspondence check runs against the implementation. *)
From Coq Require Import ZArith QArith Qabs List Bool Lia.
Import ListNotations.
Require Import NV.C31.Prim NV.C31.Gen_Index NV.C31.Model.
Require Import NV.C31.Proofs NV.C31.ProofsQ NV.C31.ProofsFlat NV.C31.ProofsND NV.C31.ProofsRef.
Open Scope Z_scope.

(* ---- parent o children = id.  For every well-formed grid description (product of regular and
   open grids of any dimension, any splits / paddings / depth), every level l below the depth,
   every refined index vector and every one of its children: the parent, computed on level l+1,
   is the index vector itself. *)
Theorem C31_parent_child :
  forall (bs : list base) (l : nat) (idx v : list Z),
    Forall (wf_base_at l) bs ->
    Forall2 refined (grid_axes bs l) idx ->
    In v (children (grid_axes bs l) idx) ->
    parent (grid_axes bs (S l)) v = idx.
Proof. exact parent_children_grid. Qed.

(* ---- the children of the refined indices partition the next level: every voxel of level l+1
   is a child of exactly one refined index vector of level l ... *)
Theorem C31_partition :
  forall (bs : list base) (l : nat) (v : list Z),
    Forall (wf_base_at l) bs ->
    Forall2 (fun x a' => 0 <= x < a_shape a') v (grid_axes bs (S l)) ->
    exists idx, Forall2 refined (grid_axes bs l) idx /\ In v (children (grid_axes bs l) idx) /\
      forall idx', Forall2 refined (grid_axes bs l) idx' -> In v (children (grid_axes bs l) idx') -> idx' = idx.
Proof. exact partition_grid. Qed.

(* ... per axis even with a unique child number (regular and open axes) ... *)
Theorem C31_partition_axis_open :
  forall sh s pad j, 0 <= pad -> 0 < s -> 0 <= j < s * (sh - 2 * pad) ->
    exists i c, (pad <= i < sh - pad /\ 0 <= c < s /\ gen_open_children i sh s pad c = j) /\
      forall i' c', pad <= i' < sh - pad -> 0 <= c' < s -> gen_open_children i' sh s pad c' = j -> i' = i /\ c' = c.
Proof. exact partition_open. Qed.

Theorem C31_partition_axis_regular :
  forall sh s j, 0 < sh -> 0 < s -> 0 <= j < sh * s ->
    exists i c, (0 <= i < sh /\ 0 <= c < s /\ gen_children i sh s c = j) /\
      forall i' c', 0 <= i' < sh -> 0 <= c' < s -> gen_children i' sh s c' = j -> i' = i /\ c' = c.
Proof. exact partition_reg. Qed.

(* ... and no child leaves the next level. *)
Theorem C31_children_inside :
  forall axes axes' idx v,
    Forall2 next_axis axes axes' -> Forall2 refined axes idx -> In v (children axes idx) ->
    Forall2 (fun x a' => 0 <= x < a_shape a') v axes'.
Proof. exact children_in_next_vec. Qed.

(* out-of-range indices of an open axis are clipped to the refined range before refinement *)
Theorem C31_parent_child_open_any_index :
  forall sh s pad i c, 0 <= pad -> 0 < sh - 2 * pad -> 0 < s -> 0 <= c < s ->
    gen_open_parent (gen_open_children i sh s pad c) (s * (sh - 2 * pad)) s pad = clip i pad (sh - pad - 1).
Proof. exact parent_children_open. Qed.

(* ---- level recursion (Grid.at / OpenGrid.at): shapes, and the padded extent shape + 2*shifts
   scales exactly by the split *)
Theorem C31_shapes_regular :
  forall shape0 splits l, (l < length splits)%nat ->
    reg_shape shape0 splits (S l) = map2 Z.mul (reg_shape shape0 splits l) (nth l splits []).
Proof. exact reg_shape_S. Qed.

Theorem C31_shapes_open :
  forall shape0 splits padding l k,
    wf_open shape0 splits padding -> (l < length splits)%nat -> (k < length shape0)%nat ->
    let st := open_state shape0 splits padding l in
    let st' := open_state shape0 splits padding (S l) in
    fst (nth k st' (0, 0)) + 2 * snd (nth k st' (0, 0)) =
    nth k (nth l splits []) 0 * (fst (nth k st (0, 0)) + 2 * snd (nth k st (0, 0))).
Proof. exact open_levels_extent. Qed.

Theorem C31_levels_linked :
  forall bs l, Forall (wf_base_at l) bs -> Forall2 next_axis (grid_axes bs l) (grid_axes bs (S l)).
Proof. exact grid_levels_linked. Qed.

(* ---- _parse_index: in range, identity on valid indices, NumPy wrap for negative ones,
   saturation above *)
Theorem C31_parse_index :
  forall sh i, 0 < sh ->
    0 <= gen_parse_index i sh < sh /\
    (0 <= i < sh -> gen_parse_index i sh = i) /\
    (- sh < i < 0 -> gen_parse_index i sh = i + sh) /\
    (sh <= i -> gen_parse_index i sh = sh - 1).
Proof.
  intros sh i H. split; [apply parse_range; exact H|]. split; [apply parse_id|].
  split; [apply parse_negative | apply parse_above; exact H].
Qed.

(* ---- index <-> coordinate: exact round trip, every point of the open cell of voxel i maps to i
   (so float rounding of less than half a cell cannot change the result), and the centre of every
   child lies in the cell of its parent -- with the shapes and shifts of the next level *)
Theorem C31_coord_roundtrip_regular :
  forall sh i, 0 < sh -> gen_coord2index (gen_index2coord (qz i) (qz sh)) (qz sh) = i.
Proof. exact coord_roundtrip_reg. Qed.

Theorem C31_coord_roundtrip_open :
  forall sh shifts i, 0 < sh + 2 * shifts ->
    gen_open_coord2index (gen_open_index2coord (qz i) (qz sh) (qz shifts)) (qz sh) (qz shifts) = i.
Proof. exact coord_roundtrip_open. Qed.

Theorem C31_coord_cell :
  forall (c : Q) (sh shifts i : Z),
    (qz i < c * (qz sh + 2 * qz shifts) - qz shifts /\ c * (qz sh + 2 * qz shifts) - qz shifts < qz i + 1)%Q ->
    gen_open_coord2index c (qz sh) (qz shifts) = i.
Proof. exact open_coord2index_cell. Qed.

Theorem C31_child_coord_in_parent_cell :
  forall sh shifts s pad I c, 0 < s -> 0 <= c < s -> 0 < sh + 2 * shifts ->
    gen_open_coord2index
      (gen_open_index2coord (qz ((I - pad) * s + c)) (qz (s * (sh - 2 * pad))) (qz (s * (shifts + pad))))
      (qz sh) (qz shifts) = I.
Proof. exact child_coord_in_parent_cell. Qed.

(* ---- neighbourhoods: always inside the level, congruent to the plain window modulo the
   shape (periodic wrap), un-wrapped where the window fits; the open variant is the same map
   (its clip is the identity), and refined voxels whose padding covers the half window get the
   plain window *)
Theorem C31_neighborhood :
  forall sh w i c, 0 < sh -> 0 <= i < sh ->
    0 <= gen_neighborhood i sh w c < sh /\
    (gen_neighborhood i sh w c - (i + (c - w / 2))) mod sh = 0 /\
    (0 <= i + (c - w / 2) < sh -> gen_neighborhood i sh w c = i + (c - w / 2)) /\
    gen_neighborhood i sh w (w / 2) = i /\
    gen_open_neighborhood i sh w c = gen_neighborhood i sh w c.
Proof.
  intros sh w i c H Hi. split; [apply nbr_range; exact H|]. split; [apply nbr_congruent; assumption|].
  split; [apply nbr_nowrap; exact Hi|]. split; [apply nbr_centre; exact Hi | apply open_nbr_is_wrapped; exact H].
Qed.

Theorem C31_neighborhood_open_refined :
  forall sh pad w i c,
    0 <= w -> 0 <= c < w -> w / 2 <= pad -> w - 1 - w / 2 <= pad -> pad <= i < sh - pad ->
    gen_open_neighborhood i sh w c = i + (c - w / 2) /\ 0 <= i + (c - w / 2) < sh.
Proof. exact open_nbr_refined. Qed.

(* ---- volumes: the prod(splits) children of a refined voxel have together exactly the parent's
   volume (volume = 1 / prod(shape + 2*shifts), extents scale by the splits), and the fraction of
   the extent that is modelled never grows from one level to the next *)
Theorem C31_volume_refine :
  forall ext spl : list Z, length spl = length ext -> 0 < zprod spl -> 0 < zprod ext ->
    (qz (zprod spl) * (1 / qz (zprod (map2 Z.mul spl ext))) == 1 / qz (zprod ext))%Q.
Proof. exact volume_refine. Qed.

Theorem C31_volume_never_grows_axis :
  forall shp shifts si pd, 0 < si -> 0 <= pd -> 0 <= shifts -> 0 < shp ->
    let st := gen_open_at_step shp shifts si pd in
    fst st * (shp + 2 * shifts) <= shp * (fst st + 2 * snd st).
Proof. exact fraction_step. Qed.

Theorem C31_volume_never_grows_product :
  forall l : list (Z * Z * Z * Z),
    Forall (fun q => 0 <= q4a q /\ 0 <= q4b q /\ 0 <= q4c q /\ 0 <= q4d q /\ q4a q * q4d q <= q4c q * q4b q) l ->
    zprod (map q4a l) * zprod (map q4d l) <= zprod (map q4c l) * zprod (map q4b l).
Proof. intros l H. exact (proj2 (prod_fractions l H)). Qed.

(* ---- flat indices, serial (C-order strides), any dimension, level shifts -1, 0, +1 *)
Theorem C31_flat_serial_roundtrip :
  forall fl ls idx,
    f_serial fl = true -> py_nth (f_shapes fl) (ls - 2) <> [] ->
    in_box idx (py_nth (f_shapes fl) (ls - 2)) ->
    flat2idx fl ls (idx2flat fl ls idx) = idx.
Proof. exact flat_serial_dec_enc. Qed.

Theorem C31_flat_serial_roundtrip_inverse :
  forall fl ls f,
    f_serial fl = true -> py_nth (f_shapes fl) (ls - 2) <> [] ->
    pos_list (py_nth (f_shapes fl) (ls - 2)) -> 0 <= f < zprod (py_nth (f_shapes fl) (ls - 2)) ->
    idx2flat fl ls (flat2idx fl ls f) = f /\ in_box (flat2idx fl ls f) (py_nth (f_shapes fl) (ls - 2)).
Proof. exact flat_serial_enc_dec. Qed.

(* ---- flat indices, nest ordering, any dimension and depth: decode o encode = id on the index
   box, codes stay below the number of voxels, and the code is hierarchical: appending one
   refinement level s gives code(idx) = code(idx // s) * prod(s) + C-code(idx % s), i.e. the flat
   children of f are the block f*prod(s) .. f*prod(s)+prod(s)-1 and the flat parent is f // prod(s);
   encode o decode = id on [0, number of voxels) and decoded indices lie in the index box. *)
Theorem C31_flat_nest_roundtrip :
  forall fl ls idx,
    f_serial fl = false -> wf_rows (flat_ndim fl) (weights_nest fl ls) ->
    in_box idx (colprods (flat_ndim fl) (weights_nest fl ls)) ->
    flat2idx fl ls (idx2flat fl ls idx) = idx /\
    0 <= idx2flat fl ls idx < zprod_all (weights_nest fl ls).
Proof.
  intros fl ls idx S W B. split; [apply flat_nest_dec_enc; assumption|].
  apply flat_nest_range; try assumption.
  rewrite (in_box_length _ _ B). exact (proj1 (colprods_wf _ _ W)).
Qed.

Theorem C31_flat_nest_roundtrip_inverse :
  forall fl ls f,
    f_serial fl = false -> wf_rows (flat_ndim fl) (weights_nest fl ls) -> 0 <= f < zprod_all (weights_nest fl ls) ->
    idx2flat fl ls (flat2idx fl ls f) = f /\ in_box (flat2idx fl ls f) (colprods (flat_ndim fl) (weights_nest fl ls)).
Proof. exact flat_nest_enc_dec. Qed.

Theorem C31_flat_nest_hierarchical :
  forall d wgts s idx,
    wf_rows d wgts -> length s = d -> pos_list s -> length idx = d ->
    nest_enc (wgts ++ [s]) idx 0 =
    nest_enc wgts (map2 Z.div idx s) 0 * zprod s + nest_j idx (repeat 1 d) s 0.
Proof. intros d wgts s idx W L P Li. exact (nest_step_gen d wgts s idx W L P Li 0). Qed.

(* ---- refined_indices(): for axes of any number, shapes, splits and non-negative paddings, the box
   that refined_indices() returns (regular: slice(0, sh); open: slice(pp, sh - pp); product grids:
   outer product) contains exactly the index vectors that lie in the level and are marked by
   _is_index_refined on every axis -- i.e. exactly the vectors the partition theorem quantifies
   over; and _is_index_refined is true on every returned vector. *)
Theorem C31_refined_indices_exact :
  forall axes idx,
    Forall (fun a => forall p, a_pad a = Some p -> 0 <= p) axes ->
    In idx (refined_indices axes) <-> Forall2 refined axes idx.
Proof. exact refined_indices_spec. Qed.

Theorem C31_refined_indices_marked :
  forall axes idx,
    Forall (fun a => forall p, a_pad a = Some p -> 0 <= p) axes ->
    In idx (refined_indices axes) -> is_index_refined axes idx = true.
Proof. exact refined_indices_marked. Qed.

(* ---- non-vacuity: a concrete product grid (regular 2-D x open 1-D, depth 2) satisfies the
   hypotheses of C31_parent_child at both levels, and the nest weights of a regular grid satisfy
   those of C31_flat_nest_roundtrip with the level shape as index box. *)
Example C31_hyps_satisfiable_open :
  wf_open [5] [[2]; [3]] [[1]; [2]] /\
  map a_shape (grid_axes [Reg [3; 2] [[2; 2]; [2; 3]]; Opn [5] [[2]; [3]] [[1]; [2]]] 2) = [12; 12; 6].
Proof.
  split; [|reflexivity].
  split; [repeat constructor|]. split; [repeat constructor; lia|]. split; [reflexivity|].
  intros l Hl. simpl in Hl.
  destruct l as [|[|[|l]]]; try lia; vm_compute; repeat constructor.
Qed.

Example C31_hyps_satisfiable_nest :
  let fl := flat_at [Reg [3; 2] [[2; 2]; [2; 3]]] 1 false in
  wf_rows (flat_ndim fl) (weights_nest fl 1) /\
  colprods (flat_ndim fl) (weights_nest fl 1) = [12; 12] /\
  flat_children fl 5 = [30; 31; 32; 33; 34; 35].
Proof. cbv zeta. split; [vm_compute; repeat constructor|]. split; vm_compute; reflexivity. Qed.
