(* C31 -- lemmas about the translated per-axis index formulas (Gen_Index.v). *)
From Coq Require Import ZArith QArith Qround Qabs List Bool Lia ZifyBool.
Import ListNotations.
Require Import NV.C31.Prim NV.C31.Gen_Index NV.C31.Model.
Open Scope Z_scope.
Ltac Zify.zify_post_hook ::= Z.to_euclidean_division_equations.

(* ------------------------------------------------------------------ _parse_index *)
Lemma parse_range sh i : 0 < sh -> 0 <= gen_parse_index i sh < sh.
Proof. intros H. unfold gen_parse_index. apply Z.mod_pos_bound; lia. Qed.

Lemma parse_id sh i : 0 <= i < sh -> gen_parse_index i sh = i.
Proof.
  intros H. unfold gen_parse_index.
  destruct (Z.abs i <? sh) eqn:E; [apply Z.mod_small; lia | lia].
Qed.

Lemma parse_negative sh i : - sh < i < 0 -> gen_parse_index i sh = i + sh.
Proof.
  intros H. unfold gen_parse_index.
  destruct (Z.abs i <? sh) eqn:E; [|lia].
  symmetry. apply Z.mod_unique with (q := -1); lia.
Qed.

Lemma parse_above sh i : 0 < sh -> sh <= i -> gen_parse_index i sh = sh - 1.
Proof.
  intros H0 H. unfold gen_parse_index.
  destruct (Z.abs i <? sh) eqn:E; [lia|].
  replace (Z.sgn i) with 1 by lia. rewrite Z.mul_1_l. apply Z.mod_small; lia.
Qed.

Lemma parse_below sh i : 1 < sh -> i <= - sh -> gen_parse_index i sh = 1.
Proof.
  intros H0 H. unfold gen_parse_index.
  destruct (Z.abs i <? sh) eqn:E; [lia|].
  replace (Z.sgn i) with (-1) by lia.
  symmetry. apply Z.mod_unique with (q := -1); lia.
Qed.

(* ------------------------------------------------------------------ children / parent, one axis *)
Lemma children_val sh s i c :
  gen_children i sh s c = gen_parse_index i sh * s + c.
Proof. reflexivity. Qed.

Lemma children_range sh s i c :
  0 < sh -> 0 < s -> 0 <= c < s -> 0 <= gen_children i sh s c < sh * s.
Proof.
  intros Hsh Hs Hc. rewrite children_val. pose proof (parse_range sh i Hsh). nia.
Qed.

(* regular grid: the next level has shape sh*s and parent_splits s *)
Lemma parent_children_reg sh s i c :
  0 < sh -> 0 < s -> 0 <= c < s ->
  gen_parent (gen_children i sh s c) (sh * s) s = gen_parse_index i sh.
Proof.
  intros Hsh Hs Hc. unfold gen_parent.
  rewrite parse_id by (apply children_range; assumption).
  rewrite children_val. pose proof (parse_range sh i Hsh).
  rewrite Z.div_add_l by lia. rewrite Z.div_small by lia. lia.
Qed.

Lemma open_children_val sh s pad i c :
  0 <= pad -> 0 < sh - 2 * pad ->
  gen_open_children i sh s pad c = (clip i pad (sh - pad - 1) - pad) * s + c.
Proof.
  intros Hp Hsh. unfold gen_open_children. rewrite children_val.
  replace (sh - pad - 1) with (sh - pad - 1) by lia.
  rewrite parse_id; [unfold clip; f_equal; f_equal; lia | unfold clip; lia].
Qed.

Lemma open_children_range sh s pad i c :
  0 <= pad -> 0 < sh - 2 * pad -> 0 < s -> 0 <= c < s ->
  0 <= gen_open_children i sh s pad c < s * (sh - 2 * pad).
Proof.
  intros Hp Hsh Hs Hc. rewrite open_children_val by assumption. unfold clip. nia.
Qed.

(* open grid: the next level has shape s*(sh-2*pad) (OpenGrid.at), parent_splits s, parent_padding pad *)
Lemma parent_children_open sh s pad i c :
  0 <= pad -> 0 < sh - 2 * pad -> 0 < s -> 0 <= c < s ->
  gen_open_parent (gen_open_children i sh s pad c) (s * (sh - 2 * pad)) s pad = clip i pad (sh - pad - 1).
Proof.
  intros Hp Hsh Hs Hc. unfold gen_open_parent.
  rewrite parse_id by (apply open_children_range; assumption).
  rewrite open_children_val by assumption.
  rewrite Z.div_add_l by lia. rewrite Z.div_small by lia. lia.
Qed.

Lemma parent_children_open_refined sh s pad i c :
  0 <= pad -> 0 < s -> 0 <= c < s -> pad <= i < sh - pad ->
  gen_open_parent (gen_open_children i sh s pad c) (s * (sh - 2 * pad)) s pad = i.
Proof.
  intros Hp Hs Hc Hi. rewrite parent_children_open by lia. unfold clip. lia.
Qed.

(* children of the refined indices partition the next level: every next-level index has exactly
   one (refined index, child number) *)
Lemma partition_open sh s pad j :
  0 <= pad -> 0 < s -> 0 <= j < s * (sh - 2 * pad) ->
  exists i c, (pad <= i < sh - pad /\ 0 <= c < s /\ gen_open_children i sh s pad c = j) /\
    forall i' c', pad <= i' < sh - pad -> 0 <= c' < s -> gen_open_children i' sh s pad c' = j -> i' = i /\ c' = c.
Proof.
  intros Hp Hs Hj. assert (Hsh : 0 < sh - 2 * pad) by nia.
  exists (j / s + pad), (j mod s). split.
  - split; [|split].
    + assert (0 <= j / s < sh - 2 * pad); [|lia].
      split; [apply Z.div_pos; lia | apply Z.div_lt_upper_bound; lia].
    + apply Z.mod_pos_bound; lia.
    + rewrite open_children_val by lia.
      assert (0 <= j / s < sh - 2 * pad) by (split; [apply Z.div_pos; lia | apply Z.div_lt_upper_bound; lia]).
      unfold clip. rewrite Z.max_l, Z.min_l by lia.
      rewrite (Z.div_mod j s) at 3 by lia. lia.
  - intros i' c' Hi' Hc' E. rewrite open_children_val in E by lia.
    unfold clip in E. rewrite Z.max_l, Z.min_l in E by lia. subst j.
    rewrite Z.div_add_l by lia. rewrite Z.div_small by lia.
    rewrite Z.add_comm, Z.mod_add by lia. rewrite Z.mod_small by lia. lia.
Qed.

Lemma partition_reg sh s j :
  0 < sh -> 0 < s -> 0 <= j < sh * s ->
  exists i c, (0 <= i < sh /\ 0 <= c < s /\ gen_children i sh s c = j) /\
    forall i' c', 0 <= i' < sh -> 0 <= c' < s -> gen_children i' sh s c' = j -> i' = i /\ c' = c.
Proof.
  intros Hsh Hs Hj.
  assert (Hq : 0 <= j / s < sh) by (split; [apply Z.div_pos; lia | apply Z.div_lt_upper_bound; lia]).
  exists (j / s), (j mod s). split.
  - split; [lia | split; [apply Z.mod_pos_bound; lia|]].
    rewrite children_val, parse_id by lia. rewrite (Z.div_mod j s) at 3 by lia. lia.
  - intros i' c' Hi' Hc' E. rewrite children_val, parse_id in E by lia. subst j.
    rewrite Z.div_add_l by lia. rewrite Z.div_small by lia.
    rewrite Z.add_comm, Z.mod_add by lia. rewrite Z.mod_small by lia. lia.
Qed.
