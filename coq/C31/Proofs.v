(* C31 -- lemmas about the translated per-axis index formulas (Gen_Index.v). *)
From Coq Require Import ZArith QArith Qround Qabs List Bool Lia ZifyBool.
Import ListNotations.
Require Import NV.C31.Prim NV.C31.Gen_Index NV.C31.Model.
Open Scope Z_scope.
Ltac Zify.zify_post_hook ::= Z.to_euclidean_division_equations.

(* ------------------------------------------------------------------ _parse_index *)
Lemma parse_range sh i : 0 < sh -> 0 <= gen_parse_index i sh < sh.
Proof. intros H. unfold gen_parse_index. apply Z.mod_pos_bound; lia. Qed.

Lemma parse_id sh i : 0 <= i < sh -> gen_parse_index i sh = i.
Proof.
  intros H. unfold gen_parse_index.
  destruct (Z.abs i <? sh) eqn:E; [apply Z.mod_small; lia | lia].
Qed.

Lemma parse_negative sh i : - sh < i < 0 -> gen_parse_index i sh = i + sh.
Proof.
  intros H. unfold gen_parse_index.
  destruct (Z.abs i <? sh) eqn:E; [|lia].
  symmetry. apply Z.mod_unique with (q := -1); lia.
Qed.

Lemma parse_above sh i : 0 < sh -> sh <= i -> gen_parse_index i sh = sh - 1.
Proof.
  intros H0 H. unfold gen_parse_index.
  destruct (Z.abs i <? sh) eqn:E; [lia|].
  replace (Z.sgn i) with 1 by lia. rewrite Z.mul_1_l. apply Z.mod_small; lia.
Qed.

Lemma parse_below sh i : 1 < sh -> i <= - sh -> gen_parse_index i sh = 1.
Proof.
  intros H0 H. unfold gen_parse_index.
  destruct (Z.abs i <? sh) eqn:E; [lia|].
  replace (Z.sgn i) with (-1) by lia.
  symmetry. apply Z.mod_unique with (q := -1); lia.
Qed.

(* ------------------------------------------------------------------ children / parent, one axis *)
(* (the *_val lemmas are proved by ring normalisation, not by reflexivity, so that an
   arithmetically equivalent rewrite of the Python line does not break the development) *)
Lemma children_val sh s i c :
  gen_children i sh s c = gen_parse_index i sh * s + c.
Proof. unfold gen_children. cbv zeta. ring. Qed.

Lemma children_range sh s i c :
  0 < sh -> 0 < s -> 0 <= c < s -> 0 <= gen_children i sh s c < sh * s.
Proof.
  intros Hsh Hs Hc. rewrite children_val. pose proof (parse_range sh i Hsh). nia.
Qed.

(* regular grid: the next level has shape sh*s and parent_splits s *)
Lemma parent_children_reg sh s i c :
  0 < sh -> 0 < s -> 0 <= c < s ->
  gen_parent (gen_children i sh s c) (sh * s) s = gen_parse_index i sh.
Proof.
  intros Hsh Hs Hc. unfold gen_parent.
  rewrite parse_id by (apply children_range; assumption).
  rewrite children_val. pose proof (parse_range sh i Hsh).
  rewrite Z.div_add_l by lia. rewrite Z.div_small by lia. lia.
Qed.

Lemma open_children_val sh s pad i c :
  0 <= pad -> 0 < sh - 2 * pad ->
  gen_open_children i sh s pad c = (clip i pad (sh - pad - 1) - pad) * s + c.
Proof.
  intros Hp Hsh. unfold gen_open_children. rewrite children_val.
  replace (sh - pad - 1) with (sh - pad - 1) by lia.
  rewrite parse_id; [unfold clip; f_equal; f_equal; lia | unfold clip; lia].
Qed.

Lemma open_children_range sh s pad i c :
  0 <= pad -> 0 < sh - 2 * pad -> 0 < s -> 0 <= c < s ->
  0 <= gen_open_children i sh s pad c < s * (sh - 2 * pad).
Proof.
  intros Hp Hsh Hs Hc. rewrite open_children_val by assumption. unfold clip. nia.
Qed.

(* open grid: the next level has shape s*(sh-2*pad) (OpenGrid.at), parent_splits s, parent_padding pad *)
Lemma parent_children_open sh s pad i c :
  0 <= pad -> 0 < sh - 2 * pad -> 0 < s -> 0 <= c < s ->
  gen_open_parent (gen_open_children i sh s pad c) (s * (sh - 2 * pad)) s pad = clip i pad (sh - pad - 1).
Proof.
  intros Hp Hsh Hs Hc. unfold gen_open_parent.
  rewrite parse_id by (apply open_children_range; assumption).
  rewrite open_children_val by assumption.
  rewrite Z.div_add_l by lia. rewrite Z.div_small by lia. lia.
Qed.

Lemma parent_children_open_refined sh s pad i c :
  0 <= pad -> 0 < s -> 0 <= c < s -> pad <= i < sh - pad ->
  gen_open_parent (gen_open_children i sh s pad c) (s * (sh - 2 * pad)) s pad = i.
Proof.
  intros Hp Hs Hc Hi. rewrite parent_children_open by lia. unfold clip. lia.
Qed.

(* children of the refined indices partition the next level: every next-level index has exactly
   one (refined index, child number) *)
Lemma partition_open sh s pad j :
  0 <= pad -> 0 < s -> 0 <= j < s * (sh - 2 * pad) ->
  exists i c, (pad <= i < sh - pad /\ 0 <= c < s /\ gen_open_children i sh s pad c = j) /\
    forall i' c', pad <= i' < sh - pad -> 0 <= c' < s -> gen_open_children i' sh s pad c' = j -> i' = i /\ c' = c.
Proof.
  intros Hp Hs Hj. assert (Hsh : 0 < sh - 2 * pad) by nia.
  exists (j / s + pad), (j mod s). split.
  - split; [|split].
    + assert (0 <= j / s < sh - 2 * pad); [|lia].
      split; [apply Z.div_pos; lia | apply Z.div_lt_upper_bound; lia].
    + apply Z.mod_pos_bound; lia.
    + rewrite open_children_val by lia.
      assert (0 <= j / s < sh - 2 * pad) by (split; [apply Z.div_pos; lia | apply Z.div_lt_upper_bound; lia]).
      unfold clip. rewrite Z.max_l, Z.min_l by lia.
      rewrite (Z.div_mod j s) at 3 by lia. lia.
  - intros i' c' Hi' Hc' E. rewrite open_children_val in E by lia.
    unfold clip in E. rewrite Z.max_l, Z.min_l in E by lia. subst j.
    assert (E1 : ((i' - pad) * s + c') / s = i' - pad) by (rewrite Z.div_add_l, Z.div_small; lia).
    assert (E2 : ((i' - pad) * s + c') mod s = c') by (rewrite Z.add_comm, Z.mod_add, Z.mod_small; lia).
    rewrite E1, E2. lia.
Qed.

Lemma partition_reg sh s j :
  0 < sh -> 0 < s -> 0 <= j < sh * s ->
  exists i c, (0 <= i < sh /\ 0 <= c < s /\ gen_children i sh s c = j) /\
    forall i' c', 0 <= i' < sh -> 0 <= c' < s -> gen_children i' sh s c' = j -> i' = i /\ c' = c.
Proof.
  intros Hsh Hs Hj.
  assert (Hq : 0 <= j / s < sh) by (split; [apply Z.div_pos; lia | apply Z.div_lt_upper_bound; lia]).
  exists (j / s), (j mod s). split.
  - split; [lia | split; [apply Z.mod_pos_bound; lia|]].
    rewrite children_val, parse_id by lia. rewrite (Z.div_mod j s) at 3 by lia. lia.
  - intros i' c' Hi' Hc' E. rewrite children_val, parse_id in E by lia. subst j.
    assert (E1 : (i' * s + c') / s = i') by (rewrite Z.div_add_l, Z.div_small; lia).
    assert (E2 : (i' * s + c') mod s = c') by (rewrite Z.add_comm, Z.mod_add, Z.mod_small; lia).
    rewrite E1, E2. lia.
Qed.

(* ------------------------------------------------------------------ neighbourhood, one axis *)
Lemma nbr_val sh w i c :
  gen_neighborhood i sh w c = (gen_parse_index i sh + (c - w / 2)) mod sh.
Proof. unfold gen_neighborhood. cbv zeta. f_equal; ring. Qed.

Lemma nbr_range sh w i c : 0 < sh -> 0 <= gen_neighborhood i sh w c < sh.
Proof. intros H. rewrite nbr_val. apply Z.mod_pos_bound; lia. Qed.

(* the window is the wrapped window: congruent to i + (c - w/2) modulo the shape *)
Lemma nbr_congruent sh w i c :
  0 < sh -> 0 <= i < sh -> (gen_neighborhood i sh w c - (i + (c - w / 2))) mod sh = 0.
Proof.
  intros Hsh Hi. rewrite nbr_val, parse_id by lia.
  rewrite Zminus_mod, Zmod_mod, <- Zminus_mod. rewrite Z.sub_diag. apply Z.mod_0_l. lia.
Qed.

Lemma nbr_nowrap sh w i c :
  0 <= i < sh -> 0 <= i + (c - w / 2) < sh -> gen_neighborhood i sh w c = i + (c - w / 2).
Proof. intros Hi H. rewrite nbr_val, parse_id by lia. apply Z.mod_small; lia. Qed.

Lemma nbr_centre sh w i : 0 <= i < sh -> gen_neighborhood i sh w (w / 2) = i.
Proof. intros Hi. rewrite nbr_nowrap; lia. Qed.

(* OpenGridAtLevel.neighborhood clips AFTER the modulo of the base class: the clip is the identity *)
Lemma open_nbr_is_wrapped sh w i c :
  0 < sh -> gen_open_neighborhood i sh w c = gen_neighborhood i sh w c.
Proof.
  intros H. unfold gen_open_neighborhood. pose proof (nbr_range sh w i c H). unfold clip. lia.
Qed.

(* refined voxels of an open level whose padding covers the half window get the plain window *)
Lemma open_nbr_refined sh pad w i c :
  0 <= w -> 0 <= c < w -> w / 2 <= pad -> w - 1 - w / 2 <= pad -> pad <= i < sh - pad ->
  gen_open_neighborhood i sh w c = i + (c - w / 2) /\ 0 <= i + (c - w / 2) < sh.
Proof.
  intros Hw Hc H1 H2 Hi. rewrite open_nbr_is_wrapped by lia.
  assert (0 <= i + (c - w / 2) < sh) by lia. split; [apply nbr_nowrap; lia | assumption].
Qed.

(* ------------------------------------------------------------------ level recursion *)
Lemma open_at_step_val shp shifts si pd :
  gen_open_at_step shp shifts si pd = (si * (shp - 2 * pd), si * (shifts + pd)).
Proof. unfold gen_open_at_step. cbv zeta. f_equal; ring. Qed.

(* the padded extent shape + 2*shifts scales exactly by the split *)
Lemma open_at_step_extent shp shifts si pd :
  let st := gen_open_at_step shp shifts si pd in
  fst st + 2 * snd st = si * (shp + 2 * shifts).
Proof. rewrite open_at_step_val. cbv [fst snd]. lia. Qed.

Lemma firstn_S_nth {A} (l : list A) (n : nat) (d : A) :
  (n < length l)%nat -> firstn (S n) l = firstn n l ++ [nth n l d].
Proof.
  revert n. induction l as [|x l IH]; intros [|n] H; simpl in *; try lia; auto.
  f_equal. apply IH. lia.
Qed.

Lemma combine_snoc {A B} (l1 : list A) (l2 : list B) a b :
  length l1 = length l2 -> combine (l1 ++ [a]) (l2 ++ [b]) = combine l1 l2 ++ [(a, b)].
Proof.
  revert l2. induction l1 as [|x l1 IH]; intros [|y l2] H; simpl in *; try lia; auto.
  f_equal. apply IH. lia.
Qed.

(* OpenGrid.at(level+1) is one gen_open_at_step (per axis) applied to OpenGrid.at(level) *)
Lemma open_state_S shape0 splits padding l :
  (l < length splits)%nat -> (l < length padding)%nat ->
  open_state shape0 splits padding (S l) =
  open_step (open_state shape0 splits padding l) (nth l splits []) (nth l padding []).
Proof.
  intros H1 H2. unfold open_state.
  rewrite (firstn_S_nth splits l []), (firstn_S_nth padding l []) by assumption.
  rewrite combine_snoc by (rewrite !firstn_length; lia).
  rewrite fold_left_app. reflexivity.
Qed.

Lemma colprods_snoc d rows r : colprods d (rows ++ [r]) = map2 Z.mul (colprods d rows) r.
Proof. unfold colprods. rewrite fold_left_app. reflexivity. Qed.

Lemma map2_mul_assoc (a b c : list Z) :
  map2 Z.mul a (map2 Z.mul b c) = map2 Z.mul (map2 Z.mul a b) c.
Proof.
  revert b c. induction a as [|x a IH]; intros [|y b] [|z c]; simpl; auto.
  f_equal; [lia | apply IH].
Qed.

(* Grid.at(level+1).shape = Grid.at(level).shape * splits[level] *)
Lemma reg_shape_S shape0 splits l :
  (l < length splits)%nat ->
  reg_shape shape0 splits (S l) = map2 Z.mul (reg_shape shape0 splits l) (nth l splits []).
Proof.
  intros H. unfold reg_shape. rewrite (firstn_S_nth splits l []) by assumption.
  rewrite colprods_snoc. apply map2_mul_assoc.
Qed.
