(* C31 -- lifting of the per-axis lemmas to index vectors and to the levels of a grid description. *)
From Coq Require Import ZArith List Bool Lia ZifyBool.
Import ListNotations.
Require Import NV.C31.Prim NV.C31.Gen_Index NV.C31.Model NV.C31.Proofs NV.C31.ProofsFlat.
Open Scope Z_scope.

Lemma In_cart v ls : In v (cart ls) -> Forall2 (fun x l => In x l) v ls.
Proof.
  revert v. induction ls as [|l r IH]; intros v H.
  - simpl in H. destruct H as [H|[]]. subst. constructor.
  - cbn [cart] in H. apply in_flat_map in H. destruct H as [x [Hx H]].
    apply in_map_iff in H. destruct H as [v' [E Hv']]. subst. constructor; auto.
Qed.

Lemma In_zrange c s : In c (zrange s) -> 0 <= c < s.
Proof.
  unfold zrange. intros H. apply in_map_iff in H. destruct H as [k [E H]]. apply in_seq in H. lia.
Qed.

(* a' is the axis of the next level that refines axis a (as Grid.at / OpenGrid.at build it) *)
Definition next_axis (a a' : axis) : Prop :=
  0 < a_shape a /\
  exists s, a_split a = Some s /\ 0 < s /\ a_psplit a' = Some s /\ a_open a' = a_open a /\
    if a_open a
    then exists p, a_pad a = Some p /\ 0 <= p /\ a_ppad a' = Some p /\ a_shape a' = s * (a_shape a - 2 * p)
    else a_shape a' = a_shape a * s.

(* i is a voxel of the level that gets refined (OpenGridAtLevel.refined_indices: pp <= i < sh - pp) *)
Definition refined (a : axis) (i : Z) : Prop := 0 <= i < a_shape a /\ ax_refined a i = true.

Lemma ax_parent_child a a' i x :
  next_axis a a' -> refined a i -> In x (ax_children a i) -> ax_parent a' x = i.
Proof.
  intros [Hsh [s [Hs [Hs0 [Hps [Hop Hk]]]]]] [Hi Hr] Hx.
  unfold ax_children in Hx. unfold ax_parent. unfold ax_refined in Hr. rewrite Hs in *. rewrite Hps, Hop.
  destruct (a_open a).
  - destruct Hk as [p [Hp [Hp0 [Hpp Hshape]]]]. rewrite Hp in *. rewrite Hpp, Hshape.
    apply in_map_iff in Hx. destruct Hx as [c [E Hc]]. apply In_zrange in Hc. subst x.
    apply parent_children_open_refined; lia.
  - rewrite Hk. apply in_map_iff in Hx. destruct Hx as [c [E Hc]]. apply In_zrange in Hc. subst x.
    rewrite parent_children_reg by lia. apply parse_id. lia.
Qed.

(* every child (vector) of a refined index vector has that vector as its parent on the next level *)
Lemma parent_children_vec axes axes' idx v :
  Forall2 next_axis axes axes' -> Forall2 refined axes idx ->
  In v (children axes idx) -> parent axes' v = idx.
Proof.
  intros HN HR Hv. unfold children in Hv. apply In_cart in Hv. unfold parent.
  revert idx v HR Hv. induction HN as [|a a' axes axes' Ha HN IH]; intros idx v HR Hv.
  - inversion HR; subst. simpl in Hv. inversion Hv; subst. reflexivity.
  - inversion HR as [|? i ? idx' Hi HR']; subst. cbn [map2] in Hv.
    inversion Hv as [|x ? v' ? Hx Hv']; subst. cbn [map2]. f_equal.
    + eapply ax_parent_child; eauto.
    + apply IH; assumption.
Qed.

(* ------------------------------------------------------------------ levels of a grid description *)
Lemma Forall2_map_seq {A} (R : A -> A -> Prop) (f g : nat -> A) (n : nat) :
  (forall k, (k < n)%nat -> R (f k) (g k)) -> Forall2 R (map f (seq 0 n)) (map g (seq 0 n)).
Proof.
  intros H. assert (G : forall s, (forall k, In k s -> (k < n)%nat) -> Forall2 R (map f s) (map g s)).
  { induction s as [|k s IH]; intros Hs; simpl; constructor; [apply H, Hs; left; reflexivity | apply IH; intros; apply Hs; right; assumption]. }
  apply G. intros k Hk. apply in_seq in Hk. lia.
Qed.

Lemma nth_map2_mul (a b : list Z) k :
  (k < length a)%nat -> (k < length b)%nat -> nth k (map2 Z.mul a b) 0 = nth k a 0 * nth k b 0.
Proof.
  revert b k. induction a as [|x a IH]; intros [|y b] [|k] H1 H2; simpl in *; try lia; auto.
  apply IH; lia.
Qed.

Lemma nth_pos (l : list Z) k : pos_list l -> (k < length l)%nat -> 0 < nth k l 0.
Proof.
  intros H. revert k. induction H as [|x l Hx Hl IH]; intros [|k] Hk; simpl in *; try lia; auto.
  apply IH; lia.
Qed.

Lemma wf_rows_firstn d rows n : wf_rows d rows -> wf_rows d (firstn n rows).
Proof.
  unfold wf_rows. intros H. revert n. induction H as [|r rows Hr H IH]; intros [|n]; simpl; constructor; auto.
Qed.

Lemma wf_rows_nth d rows l : wf_rows d rows -> (l < length rows)%nat ->
  length (nth l rows []) = d /\ pos_list (nth l rows []).
Proof.
  intros H Hl. unfold wf_rows in H. rewrite Forall_forall in H. apply H. apply nth_In; assumption.
Qed.

Lemma nth_error_nth' {A} (l : list A) n d : (n < length l)%nat -> nth_error l n = Some (nth n l d).
Proof. revert n. induction l as [|x l IH]; intros [|n] H; simpl in *; try lia; auto. apply IH; lia. Qed.

(* well-formed Grid(shape0, splits): every row of splits has one positive entry per axis *)
Definition wf_reg (shape0 : list Z) (splits : list (list Z)) : Prop :=
  pos_list shape0 /\ wf_rows (length shape0) splits.

Lemma reg_shape_wf shape0 splits l :
  wf_reg shape0 splits -> length (reg_shape shape0 splits l) = length shape0 /\ pos_list (reg_shape shape0 splits l).
Proof.
  intros [H0 H]. unfold reg_shape.
  destruct (colprods_wf (length shape0) (firstn l splits) (wf_rows_firstn _ _ l H)) as [L P].
  split; [rewrite map2_length; lia | apply pos_map2_mul; assumption].
Qed.

Theorem reg_levels_linked shape0 splits l :
  wf_reg shape0 splits -> (l < length splits)%nat ->
  Forall2 next_axis (axes_at (Reg shape0 splits) l) (axes_at (Reg shape0 splits) (S l)).
Proof.
  intros W Hl. unfold axes_at. apply Forall2_map_seq. intros k Hk.
  destruct (reg_shape_wf shape0 splits l W) as [LS PS]. destruct W as [H0 H].
  destruct (wf_rows_nth _ _ l H Hl) as [Lr Pr].
  unfold next_axis. cbn [a_shape a_split a_psplit a_open a_pad a_ppad].
  split; [apply nth_pos; [assumption | lia]|].
  exists (nth k (nth l splits []) 0).
  unfold lvl_get, lvl_prev. rewrite (nth_error_nth' splits l []) by assumption. cbn [opt_nth].
  rewrite (nth_error_nth' (nth l splits []) k 0) by lia.
  repeat split; try reflexivity.
  - apply nth_pos; [assumption | lia].
  - rewrite reg_shape_S by assumption. apply nth_map2_mul; lia.
Qed.

(* well-formed OpenGrid(shape0, splits, padding): rows as above, paddings >= 0, and every level
   keeps a positive shape (what OpenGrid.__init__ asserts) *)
Definition nonneg_rows (d : nat) (rows : list (list Z)) : Prop :=
  Forall (fun r => length r = d /\ Forall (fun x => 0 <= x) r) rows.

Definition wf_open (shape0 : list Z) (splits padding : list (list Z)) : Prop :=
  wf_rows (length shape0) splits /\ nonneg_rows (length shape0) padding /\ length padding = length splits /\
  forall l, (l <= length splits)%nat -> pos_list (map fst (open_state shape0 splits padding l)).

Lemma open_step_length st si pd :
  length si = length st -> length pd = length st -> length (open_step st si pd) = length st.
Proof.
  revert si pd. induction st as [|[a b] st IH]; intros [|s si] [|p pd] H1 H2; simpl in *; try lia; auto.
  all: try (rewrite IH; lia).
Qed.

Lemma nth_open_step st si pd k :
  (k < length st)%nat -> length si = length st -> length pd = length st ->
  nth k (open_step st si pd) (0, 0) =
  gen_open_at_step (fst (nth k st (0, 0))) (snd (nth k st (0, 0))) (nth k si 0) (nth k pd 0).
Proof.
  revert si pd k. induction st as [|[a b] st IH]; intros [|s si] [|p pd] [|k] H H1 H2; simpl in *; try lia; auto.
  apply IH; lia.
Qed.

Lemma nonneg_rows_nth d rows l : nonneg_rows d rows -> (l < length rows)%nat ->
  length (nth l rows []) = d /\ Forall (fun x => 0 <= x) (nth l rows []).
Proof.
  intros H Hl. unfold nonneg_rows in H. rewrite Forall_forall in H. apply H. apply nth_In; assumption.
Qed.

Lemma nth_nonneg (l : list Z) k : Forall (fun x => 0 <= x) l -> (k < length l)%nat -> 0 <= nth k l 0.
Proof.
  intros H. revert k. induction H as [|x l Hx Hl IH]; intros [|k] Hk; simpl in *; try lia; auto.
  apply IH; lia.
Qed.

Lemma open_state_length shape0 splits padding l :
  wf_rows (length shape0) splits -> nonneg_rows (length shape0) padding -> length padding = length splits ->
  (l <= length splits)%nat -> length (open_state shape0 splits padding l) = length shape0.
Proof.
  intros Hs Hp HL. induction l as [|l IH]; intros Hl.
  - unfold open_state. simpl. apply map_length.
  - rewrite open_state_S by lia.
    destruct (wf_rows_nth _ _ l Hs ltac:(lia)) as [L1 _].
    destruct (nonneg_rows_nth _ _ l Hp ltac:(lia)) as [L2 _].
    rewrite open_step_length; rewrite IH by lia; lia.
Qed.

Lemma nth_map_fst (st : list (Z * Z)) k : fst (nth k st (0, 0)) = nth k (map fst st) 0.
Proof. revert k. induction st as [|x st IH]; intros [|k]; simpl; auto. Qed.

Theorem open_levels_linked shape0 splits padding l :
  wf_open shape0 splits padding -> (l < length splits)%nat ->
  Forall2 next_axis (axes_at (Opn shape0 splits padding) l) (axes_at (Opn shape0 splits padding) (S l)).
Proof.
  intros (Hs & Hp & HL & Hpos) Hl. unfold axes_at. apply Forall2_map_seq. intros k Hk.
  pose proof (open_state_length shape0 splits padding l Hs Hp HL ltac:(lia)) as LS.
  destruct (wf_rows_nth _ _ l Hs Hl) as [Lr Pr].
  destruct (nonneg_rows_nth _ _ l Hp ltac:(lia)) as [Lp Pp].
  unfold next_axis. cbn [a_shape a_split a_psplit a_open a_pad a_ppad].
  split.
  { rewrite nth_map_fst. apply nth_pos; [apply Hpos; lia | rewrite map_length; lia]. }
  exists (nth k (nth l splits []) 0).
  unfold lvl_get, lvl_prev. rewrite (nth_error_nth' splits l []) by assumption.
  rewrite (nth_error_nth' padding l []) by lia. cbn [opt_nth].
  rewrite (nth_error_nth' (nth l splits []) k 0) by lia.
  rewrite (nth_error_nth' (nth l padding []) k 0) by lia.
  split; [reflexivity|]. split; [apply nth_pos; [assumption | lia]|].
  split; [reflexivity|]. split; [reflexivity|].
  exists (nth k (nth l padding []) 0).
  split; [reflexivity|]. split; [apply nth_nonneg; [assumption | lia]|]. split; [reflexivity|].
  rewrite open_state_S by lia. rewrite nth_open_step by lia. reflexivity.
Qed.

(* the shifts of the next level, too: (shape + 2*shifts) scales by the split on every axis *)
Theorem open_levels_extent shape0 splits padding l k :
  wf_open shape0 splits padding -> (l < length splits)%nat -> (k < length shape0)%nat ->
  let st := open_state shape0 splits padding l in
  let st' := open_state shape0 splits padding (S l) in
  fst (nth k st' (0, 0)) + 2 * snd (nth k st' (0, 0)) =
  nth k (nth l splits []) 0 * (fst (nth k st (0, 0)) + 2 * snd (nth k st (0, 0))).
Proof.
  intros (Hs & Hp & HL & Hpos) Hl Hk st st'. subst st st'.
  pose proof (open_state_length shape0 splits padding l Hs Hp HL ltac:(lia)) as LS.
  destruct (wf_rows_nth _ _ l Hs Hl) as [Lr Pr].
  destruct (nonneg_rows_nth _ _ l Hp ltac:(lia)) as [Lp Pp].
  rewrite open_state_S by lia. rewrite nth_open_step by lia.
  apply open_at_step_extent.
Qed.

(* ------------------------------------------------------------------ product grids (MGrid) *)
Definition wf_base_at (l : nat) (b : base) : Prop :=
  match b with
  | Reg shape0 splits => wf_reg shape0 splits /\ (l < length splits)%nat
  | Opn shape0 splits padding => wf_open shape0 splits padding /\ (l < length splits)%nat
  end.

Lemma grid_levels_linked bs l :
  Forall (wf_base_at l) bs -> Forall2 next_axis (grid_axes bs l) (grid_axes bs (S l)).
Proof.
  unfold grid_axes. induction 1 as [|b bs Hb H IH]; simpl; [constructor|].
  apply Forall2_app; [|exact IH].
  destruct b; destruct Hb as [W Hl]; [apply reg_levels_linked | apply open_levels_linked]; assumption.
Qed.

Theorem parent_children_grid bs l idx v :
  Forall (wf_base_at l) bs -> Forall2 refined (grid_axes bs l) idx ->
  In v (children (grid_axes bs l) idx) -> parent (grid_axes bs (S l)) v = idx.
Proof.
  intros W R Hv. eapply parent_children_vec; eauto. apply grid_levels_linked; assumption.
Qed.

(* children of a refined vector lie inside the next level *)
Lemma ax_child_in_next a a' i x :
  next_axis a a' -> refined a i -> In x (ax_children a i) -> 0 <= x < a_shape a'.
Proof.
  intros [Hsh [s [Hs [Hs0 [Hps [Hop Hk]]]]]] [Hi Hr] Hx.
  unfold ax_children in Hx. unfold ax_refined in Hr. rewrite Hs in *.
  destruct (a_open a).
  - destruct Hk as [p [Hp [Hp0 [Hpp Hshape]]]]. rewrite Hp in *. rewrite Hshape.
    apply in_map_iff in Hx. destruct Hx as [c [E Hc]]. apply In_zrange in Hc. subst x.
    apply open_children_range; lia.
  - rewrite Hk. apply in_map_iff in Hx. destruct Hx as [c [E Hc]]. apply In_zrange in Hc. subst x.
    apply children_range; lia.
Qed.

Lemma children_in_next_vec axes axes' idx v :
  Forall2 next_axis axes axes' -> Forall2 refined axes idx ->
  In v (children axes idx) -> Forall2 (fun x a' => 0 <= x < a_shape a') v axes'.
Proof.
  intros HN HR Hv. unfold children in Hv. apply In_cart in Hv.
  revert idx v HR Hv. induction HN as [|a a' axes axes' Ha HN IH]; intros idx v HR Hv.
  - inversion HR; subst. simpl in Hv. inversion Hv; subst. constructor.
  - inversion HR as [|? i ? idx' Hi HR']; subst. cbn [map2] in Hv.
    inversion Hv as [|x ? v' ? Hx Hv']; subst. constructor.
    + eapply ax_child_in_next; eauto.
    + eapply IH; eauto.
Qed.

(* ... and every voxel of the next level is a child of exactly one refined vector (per axis: of
   exactly one refined index and child number) *)
Lemma ax_partition a a' j :
  next_axis a a' -> 0 <= j < a_shape a' ->
  exists i, refined a i /\ In j (ax_children a i) /\
            forall i', refined a i' -> In j (ax_children a i') -> i' = i.
Proof.
  intros [Hsh [s [Hs [Hs0 [Hps [Hop Hk]]]]]] Hj.
  unfold refined, ax_refined, ax_children. rewrite Hs.
  destruct (a_open a) eqn:Eo.
  - destruct Hk as [p [Hp [Hp0 [Hpp Hshape]]]]. rewrite Hp. rewrite Hshape in Hj.
    destruct (partition_open (a_shape a) s p j Hp0 Hs0 Hj) as [i [c [[Hi [Hc E]] U]]].
    exists i. split; [split; lia|]. split.
    + apply in_map_iff. exists c. split; [assumption|]. unfold zrange. apply in_map_iff.
      exists (Z.to_nat c). split; [lia | apply in_seq; lia].
    + intros i' [Hi' Hr'] Hin. apply in_map_iff in Hin. destruct Hin as [c' [E' Hc']].
      apply In_zrange in Hc'. destruct (U i' c' ltac:(lia) Hc' E'). assumption.
  - rewrite Hk in Hj.
    destruct (partition_reg (a_shape a) s j Hsh Hs0 Hj) as [i [c [[Hi [Hc E]] U]]].
    exists i. split; [split; [lia | reflexivity]|]. split.
    + apply in_map_iff. exists c. split; [assumption|]. unfold zrange. apply in_map_iff.
      exists (Z.to_nat c). split; [lia | apply in_seq; lia].
    + intros i' [Hi' Hr'] Hin. apply in_map_iff in Hin. destruct Hin as [c' [E' Hc']].
      apply In_zrange in Hc'. destruct (U i' c' Hi' Hc' E'). assumption.
Qed.

Lemma cart_In v ls : Forall2 (fun x l => In x l) v ls -> In v (cart ls).
Proof.
  induction 1 as [|x l v ls Hx H IH]; [left; reflexivity|].
  cbn [cart]. apply in_flat_map. exists x. split; [assumption|]. apply in_map. assumption.
Qed.

Theorem partition_vec axes axes' v :
  Forall2 next_axis axes axes' -> Forall2 (fun x a' => 0 <= x < a_shape a') v axes' ->
  exists idx, Forall2 refined axes idx /\ In v (children axes idx) /\
              forall idx', Forall2 refined axes idx' -> In v (children axes idx') -> idx' = idx.
Proof.
  intros HN. revert v. induction HN as [|a a' axes axes' Ha HN IH]; intros v Hv.
  - inversion Hv; subst. exists []. split; [constructor|]. split; [left; reflexivity|].
    intros idx' H _. inversion H. reflexivity.
  - inversion Hv as [|x ? v' ? Hx Hv']; subst.
    destruct (ax_partition a a' x Ha Hx) as [i [Ri [Ini Ui]]].
    destruct (IH v' Hv') as [idx [Ridx [Inidx Uidx]]].
    exists (i :: idx). split; [constructor; assumption|]. split.
    + unfold children. cbn [map2]. apply cart_In. constructor; [assumption|].
      apply In_cart. exact Inidx.
    + intros idx' R' In'. inversion R' as [|? i' ? idx'' Ri' R'']; subst.
      unfold children in In'. cbn [map2] in In'. apply In_cart in In'.
      inversion In' as [|? ? ? ? Hx' Hv'']; subst.
      f_equal; [apply Ui; assumption | apply Uidx; [assumption | apply cart_In; assumption]].
Qed.

Theorem partition_grid bs l v :
  Forall (wf_base_at l) bs ->
  Forall2 (fun x a' => 0 <= x < a_shape a') v (grid_axes bs (S l)) ->
  exists idx, Forall2 refined (grid_axes bs l) idx /\ In v (children (grid_axes bs l) idx) /\
              forall idx', Forall2 refined (grid_axes bs l) idx' -> In v (children (grid_axes bs l) idx') -> idx' = idx.
Proof. intros W. apply partition_vec. apply grid_levels_linked. assumption. Qed.
