(* C31 -- primitives the translated index formulas are written in (no proofs here). *)
From Coq Require Import ZArith QArith Qround List.
Import ListNotations.
Open Scope Z_scope.

(* numpy / jax.numpy `x.clip(lo, hi)` = minimum(maximum(x, lo), hi) *)
Definition clip (x lo hi : Z) : Z := Z.min (Z.max x lo) hi.

(* np.rint / jnp.rint: round to nearest, ties to even (on exact rationals) *)
Definition rint (q : Q) : Z :=
  let f := Qfloor q in
  match Qcompare (q - inject_Z f)%Q (1 # 2)%Q with
  | Lt => f
  | Gt => f + 1
  | Eq => if Z.even f then f else f + 1
  end.

Definition qz (z : Z) : Q := inject_Z z.
