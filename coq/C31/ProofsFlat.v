(* C31 -- lemmas about the flat encodings of FlatGridAtLevel (serial strides, nest digits). *)
From Coq Require Import ZArith List Bool Lia ZifyBool.
Import ListNotations.
Require Import NV.C31.Prim NV.C31.Gen_Index NV.C31.Model.
Open Scope Z_scope.

Lemma zprod_nil : zprod [] = 1.
Proof. reflexivity. Qed.
Lemma zprod_cons x l : zprod (x :: l) = x * zprod l.
Proof. reflexivity. Qed.

Lemma zprod_app a b : zprod (a ++ b) = zprod a * zprod b.
Proof.
  induction a as [|x a IH]; cbn [app]; [rewrite zprod_nil; lia | rewrite !zprod_cons, IH; lia].
Qed.

Lemma zprod_rev a : zprod (rev a) = zprod a.
Proof.
  induction a as [|x a IH]; cbn [rev]; [reflexivity|].
  rewrite zprod_app, IH, !zprod_cons, zprod_nil. lia.
Qed.

Lemma zprod_pos' (l : list Z) : Forall (fun x => 0 < x) l -> 0 < zprod l.
Proof. induction 1; [rewrite zprod_nil | rewrite zprod_cons]; lia. Qed.

(* ------------------------------------------------------------------ serial weights = C strides *)
Definition wser (shape : list Z) : list Z := rev (cumprod_from 1 (rev (tl shape ++ [1]))).

Lemma weights_serial_wser fl ls : weights_serial fl ls = wser (py_nth (f_shapes fl) (ls - 2)).
Proof. reflexivity. Qed.

Fixpoint strides (shape : list Z) : list Z :=
  match shape with [] => [] | _ :: r => zprod r :: strides r end.

Lemma cumprod_from_snoc acc l x :
  cumprod_from acc (l ++ [x]) = cumprod_from acc l ++ [acc * zprod l * x].
Proof.
  revert acc. induction l as [|y l IH]; intros acc; cbn [app cumprod_from].
  - rewrite zprod_nil. f_equal. lia.
  - rewrite IH, zprod_cons. do 3 f_equal. lia.
Qed.

Lemma wser_strides shape : shape <> [] -> wser shape = strides shape.
Proof.
  induction shape as [|a shape IH]; [congruence|]. intros _.
  destruct shape as [|b r].
  - reflexivity.
  - unfold wser in *. cbn [tl]. cbn [tl] in IH.
    change ((b :: r) ++ [1]) with (b :: (r ++ [1])). cbn [rev].
    rewrite cumprod_from_snoc, rev_app_distr. cbn [rev app].
    rewrite IH by congruence. cbn [strides]. f_equal.
    rewrite zprod_rev, zprod_app, !zprod_cons, zprod_nil. lia.
Qed.

Definition in_box (idx shape : list Z) : Prop := Forall2 (fun i sh => 0 <= i < sh) idx shape.

Lemma serial_enc_cons' w ws i idx :
  serial_enc (w :: ws) (i :: idx) = w * i + serial_enc ws idx.
Proof. reflexivity. Qed.

Lemma serial_enc_cons a r i idx :
  serial_enc (strides (a :: r)) (i :: idx) = zprod r * i + serial_enc (strides r) idx.
Proof. reflexivity. Qed.

Lemma serial_enc_range idx shape :
  in_box idx shape -> 0 <= serial_enc (strides shape) idx < zprod shape.
Proof.
  induction 1 as [|i a idx r Hi Hr IH].
  - unfold serial_enc; simpl; lia.
  - rewrite serial_enc_cons, zprod_cons. nia.
Qed.

Lemma serial_dec_enc idx shape :
  in_box idx shape -> serial_dec (strides shape) (serial_enc (strides shape) idx) = idx.
Proof.
  induction 1 as [|i a idx r Hi Hr IH]; [reflexivity|].
  rewrite serial_enc_cons. cbn [strides serial_dec]. unfold gen_serial_dec_step.
  pose proof (serial_enc_range idx r Hr) as R.
  assert (E : (zprod r * i + serial_enc (strides r) idx) / zprod r = i).
  { rewrite Z.mul_comm, Z.div_add_l, Z.div_small by lia. lia. }
  rewrite E. f_equal.
  replace (zprod r * i + serial_enc (strides r) idx - zprod r * i) with (serial_enc (strides r) idx) by lia.
  exact IH.
Qed.

Lemma serial_enc_dec shape :
  Forall (fun x => 0 < x) shape -> forall f, 0 <= f < zprod shape ->
  serial_enc (strides shape) (serial_dec (strides shape) f) = f /\ in_box (serial_dec (strides shape) f) shape.
Proof.
  induction 1 as [|a r Ha Hr IH]; intros f Hf.
  - simpl in *. split; [unfold serial_enc; simpl; lia | constructor].
  - cbn [strides serial_dec]. unfold gen_serial_dec_step.
    pose proof (zprod_pos' r Hr) as P. rewrite zprod_cons in Hf.
    assert (R : 0 <= f - zprod r * (f / zprod r) < zprod r).
    { pose proof (Z.mod_pos_bound f (zprod r) P). rewrite Z.mod_eq in H by lia. lia. }
    destruct (IH _ R) as [E B].
    split.
    + rewrite serial_enc_cons', E. lia.
    + constructor; [|exact B].
      split; [apply Z.div_pos; lia | apply Z.div_lt_upper_bound; lia].
Qed.

(* ------------------------------------------------------------------ nest ordering *)
Definition pos_list (l : list Z) : Prop := Forall (fun x => 0 < x) l.

Lemma map2_mul_assoc' (a b c : list Z) :
  map2 Z.mul a (map2 Z.mul b c) = map2 Z.mul (map2 Z.mul a b) c.
Proof.
  revert b c. induction a as [|x a IH]; intros [|y b] [|z c]; simpl; auto.
  f_equal; [lia | apply IH].
Qed.

Lemma map2_mul_comm (a b : list Z) : map2 Z.mul a b = map2 Z.mul b a.
Proof. revert b. induction a as [|x a IH]; intros [|y b]; simpl; auto. f_equal; [lia | apply IH]. Qed.

Lemma map2_mul_ones d (a : list Z) : length a = d -> map2 Z.mul a (repeat 1 d) = a.
Proof.
  revert d. induction a as [|x a IH]; intros [|d] H; simpl in *; try lia; auto.
  f_equal; [lia | apply IH; lia].
Qed.

Lemma fold_map2_mul rows x y :
  fold_left (map2 Z.mul) rows (map2 Z.mul x y) = map2 Z.mul x (fold_left (map2 Z.mul) rows y).
Proof.
  revert y. induction rows as [|r rows IH]; intros y; simpl; auto.
  rewrite <- map2_mul_assoc'. apply IH.
Qed.

(* wgts[n:, ax].prod() = ww[ax] * wgts[n+1:, ax].prod() *)
Lemma colprods_cons d ww rest :
  length ww = d -> colprods d (ww :: rest) = map2 Z.mul ww (colprods d rest).
Proof.
  intros H. unfold colprods. simpl.
  rewrite (map2_mul_comm (repeat 1 d) ww), fold_map2_mul.
  f_equal.
Qed.

Lemma colprods_nil d : colprods d [] = repeat 1 d.
Proof. reflexivity. Qed.

Lemma map2_length {A B C} (f : A -> B -> C) a b : length a = length b -> length (map2 f a b) = length a.
Proof. revert b. induction a as [|x a IH]; intros [|y b] H; simpl in *; try lia; auto. Qed.

Definition wf_rows (d : nat) (wgts : list (list Z)) : Prop :=
  Forall (fun ww => length ww = d /\ pos_list ww) wgts.

Lemma pos_map2_mul a b : pos_list a -> pos_list b -> pos_list (map2 Z.mul a b).
Proof.
  intros Ha. revert b. induction Ha as [|x a Hx Ha IH]; intros b Hb; [constructor|].
  destruct Hb as [|y b Hy Hb]; simpl; constructor; [nia | apply IH; assumption].
Qed.

Lemma pos_repeat d : pos_list (repeat 1 d).
Proof. induction d; simpl; constructor; [lia | assumption]. Qed.

Lemma colprods_wf d wgts : wf_rows d wgts -> length (colprods d wgts) = d /\ pos_list (colprods d wgts).
Proof.
  induction 1 as [|ww rest [L P] Hr [IL IP]].
  - rewrite colprods_nil. split; [apply repeat_length | apply pos_repeat].
  - rewrite colprods_cons by assumption. split.
    + rewrite map2_length; lia.
    + apply pos_map2_mul; assumption.
Qed.

(* the inner loop: j accumulates the digits (index[ax] // P[ax]) % ww[ax] in C order *)
Lemma nest_j_split idx P ww :
  pos_list ww -> length idx = length ww -> length P = length ww ->
  forall j0, nest_j idx P ww j0 = j0 * zprod ww + nest_j idx P ww 0 /\ 0 <= nest_j idx P ww 0 < zprod ww.
Proof.
  intros Hw. revert idx P. induction Hw as [|w ww Hw0 Hw IH]; intros idx P L1 L2 j0.
  - destruct idx; destruct P; simpl in *; try lia. all: rewrite ?zprod_nil; lia.
  - destruct idx as [|i idx]; destruct P as [|p P]; simpl in L1, L2; try lia.
    cbn [nest_j]. unfold gen_nest_j_step.
    destruct (IH idx P ltac:(lia) ltac:(lia) (j0 * w + (i / p) mod w)) as [E1 R].
    destruct (IH idx P ltac:(lia) ltac:(lia) (0 * w + (i / p) mod w)) as [E2 _].
    rewrite E1, E2, zprod_cons.
    pose proof (Z.mod_pos_bound (i / p) w Hw0). split; nia.
Qed.

Lemma digits_rev_snoc l w j :
  pos_list l -> digits_rev (l ++ [w]) j = digits_rev l j ++ [(j / zprod l) mod w].
Proof.
  intros Hl. revert j. induction Hl as [|x l Hx Hl IH]; intros j.
  - cbn [app digits_rev]. rewrite zprod_nil, Z.div_1_r. reflexivity.
  - cbn [app digits_rev]. rewrite IH, zprod_cons. cbn [app]. do 3 f_equal.
    pose proof (zprod_pos' l Hl). rewrite Z.div_div by lia. reflexivity.
Qed.

Lemma pos_rev l : pos_list l -> pos_list (rev l).
Proof. intros H. apply Forall_rev. exact H. Qed.

Lemma digits_cons w ww j :
  pos_list ww -> digits (w :: ww) j = ((j / zprod ww) mod w) :: digits ww j.
Proof.
  intros H. unfold digits. cbn [rev].
  rewrite digits_rev_snoc by (apply pos_rev; assumption).
  rewrite rev_app_distr, zprod_rev. reflexivity.
Qed.

Lemma digits_nil j : digits [] j = [].
Proof. reflexivity. Qed.

Lemma digits_shift ww : pos_list ww -> forall k n, digits ww (k * zprod ww + n) = digits ww n.
Proof.
  induction 1 as [|w ww Hw0 Hw IH]; intros k n; [reflexivity|].
  rewrite !digits_cons by assumption. rewrite zprod_cons.
  pose proof (zprod_pos' ww Hw) as P.
  replace (k * (w * zprod ww) + n) with ((k * w) * zprod ww + n) by lia.
  rewrite IH. f_equal.
  rewrite Z.div_add_l by lia. rewrite Z.add_comm, Z.mod_add by lia. reflexivity.
Qed.

Definition digit_list (idx P ww : list Z) : list Z := map3 (fun i p w => (i / p) mod w) idx P ww.

Lemma digits_nest_j idx P ww :
  pos_list ww -> length idx = length ww -> length P = length ww ->
  digits ww (nest_j idx P ww 0) = digit_list idx P ww.
Proof.
  intros Hw. revert idx P. induction Hw as [|w ww Hw0 Hw IH]; intros idx P L1 L2.
  - destruct idx; destruct P; simpl in *; try lia. reflexivity.
  - destruct idx as [|i idx]; destruct P as [|p P]; simpl in L1, L2; try lia.
    cbn [nest_j]. unfold gen_nest_j_step.
    destruct (nest_j_split idx P ww Hw ltac:(lia) ltac:(lia) (0 * w + (i / p) mod w)) as [E R].
    rewrite E. rewrite digits_cons by assumption.
    unfold digit_list. cbn [map3]. fold (digit_list idx P ww).
    pose proof (zprod_pos' ww Hw) as Pz. pose proof (Z.mod_pos_bound (i / p) w Hw0) as D.
    f_equal.
    + rewrite Z.div_add_l by lia. rewrite (Z.div_small (nest_j idx P ww 0)) by lia.
      rewrite Z.add_0_r. replace (0 * w + (i / p) mod w) with ((i / p) mod w) by lia.
      apply Z.mod_small. lia.
    + rewrite digits_shift by assumption. apply IH; lia.
Qed.

Definition zprod_all (wgts : list (list Z)) : Z := zprod (map zprod wgts).

Lemma nest_enc_split d wgts idx :
  wf_rows d wgts -> length idx = d ->
  forall fid, nest_enc wgts idx fid = fid * zprod_all wgts + nest_enc wgts idx 0 /\
              0 <= nest_enc wgts idx 0 < zprod_all wgts.
Proof.
  intros H L. induction H as [|ww rest [Lw Pw] Hr IH]; intros fid.
  - unfold zprod_all. cbn [map nest_enc]. rewrite zprod_nil. lia.
  - cbn [nest_enc]. unfold zprod_all. cbn [map]. rewrite zprod_cons. fold (zprod_all rest).
    destruct (colprods_wf d rest Hr) as [LP PP]. rewrite Lw.
    destruct (nest_j_split idx (colprods d rest) ww Pw ltac:(lia) ltac:(lia) 0) as [_ RJ].
    destruct (IH (fid * zprod ww + nest_j idx (colprods d rest) ww 0)) as [E1 R].
    destruct (IH (0 * zprod ww + nest_j idx (colprods d rest) ww 0)) as [E2 _].
    rewrite E1, E2. split; nia.
Qed.

Lemma recombine idx P ww :
  length idx = length ww -> length P = length ww -> pos_list P -> pos_list ww ->
  map3 (fun x p dg => x + p * dg) (map2 Z.modulo idx P) P (digit_list idx P ww) =
  map2 Z.modulo idx (map2 Z.mul ww P).
Proof.
  revert P ww. induction idx as [|i idx IH]; intros [|p P] [|w ww] L1 L2 HP Hw; simpl in *; try lia; auto.
  inversion HP; inversion Hw; subst. f_equal.
  - rewrite (Z.mul_comm w p). symmetry. apply Z.rem_mul_r; lia.
  - apply IH; auto.
Qed.

Lemma map2_mod_ones d idx : length idx = d -> map2 Z.modulo idx (repeat 1 d) = repeat 0 d.
Proof.
  revert d. induction idx as [|i idx IH]; intros [|d] H; simpl in *; try lia; auto.
  f_equal; [apply Z.mod_1_r | apply IH; lia].
Qed.

(* decoding an encoded index returns the index modulo the column products (and the carried fid) *)
Lemma nest_dec_enc_gen d wgts idx :
  wf_rows d wgts -> length idx = d ->
  forall fid, 0 <= fid ->
  nest_dec d wgts (nest_enc wgts idx fid) = (fid, map2 Z.modulo idx (colprods d wgts)).
Proof.
  intros H L. induction H as [|ww rest [Lw Pw] Hr IH]; intros fid Hf.
  - simpl. rewrite colprods_nil, map2_mod_ones by assumption. reflexivity.
  - cbn [nest_enc nest_dec]. rewrite Lw.
    destruct (colprods_wf d rest Hr) as [LP PP].
    destruct (nest_j_split idx (colprods d rest) ww Pw ltac:(lia) ltac:(lia) 0) as [_ RJ].
    pose proof (zprod_pos' ww Pw) as Pz.
    rewrite IH by nia.
    assert (E1 : (fid * zprod ww + nest_j idx (colprods d rest) ww 0) mod zprod ww = nest_j idx (colprods d rest) ww 0).
    { rewrite Z.add_comm, Z.mod_add by lia. apply Z.mod_small. lia. }
    assert (E2 : (fid * zprod ww + nest_j idx (colprods d rest) ww 0) / zprod ww = fid).
    { rewrite Z.div_add_l by lia. rewrite Z.div_small by lia. lia. }
    rewrite E1, E2. f_equal.
    rewrite digits_nest_j by (try assumption; lia).
    rewrite recombine by (try assumption; lia).
    rewrite colprods_cons by assumption. reflexivity.
Qed.

Lemma map2_mod_small idx P : in_box idx P -> map2 Z.modulo idx P = idx.
Proof. induction 1; simpl; [reflexivity|]. f_equal; [apply Z.mod_small; lia | assumption]. Qed.

Lemma in_box_length idx P : in_box idx P -> length idx = length P.
Proof. induction 1; simpl; lia. Qed.

Theorem nest_dec_enc d wgts idx :
  wf_rows d wgts -> in_box idx (colprods d wgts) ->
  nest_dec d wgts (nest_enc wgts idx 0) = (0, idx).
Proof.
  intros H B. destruct (colprods_wf d wgts H) as [LP _].
  rewrite (nest_dec_enc_gen d wgts idx H) by (try lia; rewrite (in_box_length _ _ B); exact LP).
  rewrite map2_mod_small by assumption. reflexivity.
Qed.

(* ------------------------------------------------------------------ nest ordering is hierarchical *)
Lemma nest_j_div idx P s ww j0 :
  length idx = length ww -> length P = length ww -> length s = length ww ->
  pos_list P -> pos_list s ->
  nest_j idx (map2 Z.mul P s) ww j0 = nest_j (map2 Z.div idx s) P ww j0.
Proof.
  revert P s ww j0. induction idx as [|i idx IH]; intros [|p P] [|x s] [|w ww] j0 L1 L2 L3 HP Hs;
    simpl in *; try lia; auto.
  inversion HP; inversion Hs; subst.
  unfold gen_nest_j_step.
  replace (i / (p * x)) with (i / x / p) by (rewrite Z.div_div by lia; f_equal; lia).
  apply IH; auto.
Qed.

Lemma map2_div_length (idx s : list Z) : length idx = length s -> length (map2 Z.div idx s) = length idx.
Proof. apply map2_length. Qed.

Lemma colprods_snoc' d rows r : colprods d (rows ++ [r]) = map2 Z.mul (colprods d rows) r.
Proof. unfold colprods. rewrite fold_left_app. reflexivity. Qed.

(* appending one refinement level s:  code_{L+1}(idx) = code_L(idx // s) * prod(s) + C-code(idx % s) *)
Lemma nest_step_gen d wgts s idx :
  wf_rows d wgts -> length s = d -> pos_list s -> length idx = d ->
  forall fid,
  nest_enc (wgts ++ [s]) idx fid =
  nest_enc wgts (map2 Z.div idx s) fid * zprod s + nest_j idx (repeat 1 d) s 0.
Proof.
  intros H Ls Ps L. induction H as [|ww rest [Lw Pw] Hr IH]; intros fid.
  - cbn [app nest_enc]. rewrite colprods_nil, Ls. reflexivity.
  - cbn [app nest_enc]. rewrite IH.
    rewrite Lw, colprods_snoc'.
    destruct (colprods_wf d rest Hr) as [LP PP].
    rewrite nest_j_div by (try assumption; lia). reflexivity.
Qed.

(* ------------------------------------------------------------------ statements on the model's own
   idx2flat / flat2idx (what the correspondence check runs) *)
Theorem flat_serial_dec_enc fl ls idx :
  f_serial fl = true -> py_nth (f_shapes fl) (ls - 2) <> [] ->
  in_box idx (py_nth (f_shapes fl) (ls - 2)) ->
  flat2idx fl ls (idx2flat fl ls idx) = idx.
Proof.
  intros S N B. unfold flat2idx, idx2flat. rewrite S, weights_serial_wser, wser_strides by assumption.
  apply serial_dec_enc. assumption.
Qed.

Theorem flat_serial_enc_dec fl ls f :
  f_serial fl = true -> py_nth (f_shapes fl) (ls - 2) <> [] ->
  pos_list (py_nth (f_shapes fl) (ls - 2)) -> 0 <= f < zprod (py_nth (f_shapes fl) (ls - 2)) ->
  idx2flat fl ls (flat2idx fl ls f) = f /\ in_box (flat2idx fl ls f) (py_nth (f_shapes fl) (ls - 2)).
Proof.
  intros S N P R. unfold flat2idx, idx2flat. rewrite S, weights_serial_wser, wser_strides by assumption.
  apply serial_enc_dec; assumption.
Qed.

Theorem flat_nest_dec_enc fl ls idx :
  f_serial fl = false -> wf_rows (flat_ndim fl) (weights_nest fl ls) ->
  in_box idx (colprods (flat_ndim fl) (weights_nest fl ls)) ->
  flat2idx fl ls (idx2flat fl ls idx) = idx.
Proof.
  intros S W B. unfold flat2idx, idx2flat. rewrite S, nest_dec_enc by assumption. reflexivity.
Qed.

Theorem flat_nest_range fl ls idx :
  f_serial fl = false -> wf_rows (flat_ndim fl) (weights_nest fl ls) -> length idx = flat_ndim fl ->
  0 <= idx2flat fl ls idx < zprod_all (weights_nest fl ls).
Proof.
  intros S W L. unfold idx2flat. rewrite S.
  destruct (nest_enc_split _ _ idx W L 0) as [_ R]. exact R.
Qed.

(* when the level shape is shape0 times the column products of the splits (Grid.at), the leading
   weight row base_shape = shape // prod(bases) is shape0 and the index box is the level shape *)
Lemma div_colprods (s0 P : list Z) : pos_list P -> length s0 = length P ->
  map2 Z.div (map2 Z.mul s0 P) P = s0.
Proof.
  intros HP. revert s0. induction HP as [|p P Hp HP IH]; intros [|x s0] L; simpl in *; try lia; auto.
  f_equal; [apply Z.div_mul; lia | apply IH; lia].
Qed.

(* ------------------------------------------------------------------ nest: encode o decode = id *)
Lemma digits_range ww : pos_list ww -> forall j, Forall2 (fun dg w => 0 <= dg < w) (digits ww j) ww.
Proof.
  induction 1 as [|w ww Hw0 Hw IH]; intros j; [constructor|].
  rewrite digits_cons by assumption. constructor; [apply Z.mod_pos_bound; lia | apply IH].
Qed.

Lemma digits_inj ww : pos_list ww -> forall a b,
  0 <= a < zprod ww -> 0 <= b < zprod ww -> digits ww a = digits ww b -> a = b.
Proof.
  induction 1 as [|w ww Hw0 Hw IH]; intros a b Ha Hb E.
  - rewrite zprod_nil in *. lia.
  - rewrite !digits_cons in E by assumption. rewrite zprod_cons in *.
    pose proof (zprod_pos' ww Hw) as Pz. injection E as E1 E2.
    assert (Qa : 0 <= a / zprod ww < w) by (split; [apply Z.div_pos; lia | apply Z.div_lt_upper_bound; nia]).
    assert (Qb : 0 <= b / zprod ww < w) by (split; [apply Z.div_pos; lia | apply Z.div_lt_upper_bound; nia]).
    rewrite !Z.mod_small in E1 by assumption.
    rewrite (Z.div_mod a (zprod ww)), (Z.div_mod b (zprod ww)) in E2 by lia.
    rewrite (Z.mul_comm (zprod ww) (a / zprod ww)), (Z.mul_comm (zprod ww) (b / zprod ww)) in E2.
    rewrite !digits_shift in E2 by assumption.
    assert (E3 : a mod zprod ww = b mod zprod ww).
    { apply IH; try assumption; apply Z.mod_pos_bound; lia. }
    rewrite (Z.div_mod a (zprod ww)), (Z.div_mod b (zprod ww)) by lia. rewrite E1, E3. reflexivity.
Qed.

(* nest_enc of the later levels sees an index only modulo their column products *)
Lemma nest_j_shift idx P ww M : forall j0,
  length idx = length ww -> length P = length ww -> length M = length ww -> pos_list P -> pos_list ww ->
  nest_j (map2 Z.add idx (map2 Z.mul (map2 Z.mul ww P) M)) P ww j0 = nest_j idx P ww j0.
Proof.
  revert P ww M. induction idx as [|i idx IH]; intros [|p P] [|w ww] [|m M] j0 L1 L2 L3 HP Hw; simpl in *; try lia; auto.
  inversion HP; inversion Hw; subst. unfold gen_nest_j_step.
  replace ((i + w * p * m) / p) with (i / p + w * m) by (replace (w * p * m) with (w * m * p) by ring; rewrite Z.div_add by lia; reflexivity).
  replace ((i / p + w * m) mod w) with ((i / p) mod w) by (rewrite Z.mul_comm, Z.mod_add by lia; reflexivity).
  apply IH; auto.
Qed.

Lemma map2_add_length (a b : list Z) : length a = length b -> length (map2 Z.add a b) = length a.
Proof. apply map2_length. Qed.

Lemma nest_enc_shift d wgts : wf_rows d wgts -> forall idx M fid,
  length idx = d -> length M = d ->
  nest_enc wgts (map2 Z.add idx (map2 Z.mul (colprods d wgts) M)) fid = nest_enc wgts idx fid.
Proof.
  induction 1 as [|ww rest [Lw Pw] Hr IH]; intros idx M fid Li LM; [reflexivity|].
  cbn [nest_enc]. rewrite Lw.
  destruct (colprods_wf d rest Hr) as [LP PP].
  rewrite colprods_cons by assumption.
  rewrite nest_j_shift by (try assumption; lia).
  (* for the remaining levels the shift is P_rest * (ww * M) *)
  replace (map2 Z.mul (map2 Z.mul ww (colprods d rest)) M) with (map2 Z.mul (colprods d rest) (map2 Z.mul ww M)).
  - apply IH; [assumption | rewrite map2_length; lia].
  - rewrite (map2_mul_comm ww (colprods d rest)), <- map2_mul_assoc'. reflexivity.
Qed.

Lemma digit_list_shift idx P ww dgs :
  in_box idx P -> Forall2 (fun dg w => 0 <= dg < w) dgs ww -> length P = length ww ->
  digit_list (map2 Z.add idx (map2 Z.mul P dgs)) P ww = dgs /\
  in_box (map2 Z.add idx (map2 Z.mul P dgs)) (map2 Z.mul ww P).
Proof.
  intros B. revert ww dgs. induction B as [|i p idx P Hi B IH]; intros ww dgs F L.
  - destruct ww; simpl in L; try lia. inversion F; subst. split; constructor.
  - destruct ww as [|w ww]; simpl in L; try lia. inversion F as [|dg ? dgs' ? Hd F']; subst.
    destruct (IH ww dgs' F' ltac:(lia)) as [E Bx]. unfold digit_list in *. simpl. split.
    + f_equal; [|exact E].
      replace ((i + p * dg) / p) with dg by (rewrite Z.mul_comm, Z.div_add, Z.div_small by lia; lia).
      apply Z.mod_small. lia.
    + constructor; [nia | exact Bx].
Qed.

Lemma map3_as_map2 idx P dgs :
  map3 (fun x p dg => x + p * dg) idx P dgs = map2 Z.add idx (map2 Z.mul P dgs).
Proof. revert P dgs. induction idx as [|i idx IH]; intros [|p P] [|g dgs]; simpl; auto. f_equal. apply IH. Qed.

Lemma in_box_zeros d : in_box (repeat 0 d) (repeat 1 d).
Proof. induction d; simpl; constructor; [lia | assumption]. Qed.

Lemma Forall2_length {A B} (R : A -> B -> Prop) l1 l2 : Forall2 R l1 l2 -> length l1 = length l2.
Proof. induction 1; simpl; lia. Qed.

Lemma nest_enc_dec_gen d wgts : wf_rows d wgts -> forall f, 0 <= f ->
  let r := nest_dec d wgts f in
  f = fst r * zprod_all wgts + nest_enc wgts (snd r) 0 /\ in_box (snd r) (colprods d wgts) /\ 0 <= fst r.
Proof.
  induction 1 as [|ww rest [Lw Pw] Hr IH]; intros f Hf.
  - cbn [nest_dec nest_enc fst snd]. unfold zprod_all. cbn [map]. rewrite zprod_nil, colprods_nil.
    split; [lia|]. split; [apply in_box_zeros | assumption].
  - cbn [nest_dec]. destruct (nest_dec d rest f) as [f' ix] eqn:Er.
    specialize (IH f Hf). rewrite Er in IH. cbn [fst snd] in IH. destruct IH as (Ef & Bx & Hf').
    cbn [fst snd].
    destruct (colprods_wf d rest Hr) as [LP PP].
    pose proof (zprod_pos' ww Pw) as Pz.
    set (j := f' mod zprod ww).
    assert (Hj : 0 <= j < zprod ww) by (apply Z.mod_pos_bound; lia).
    pose proof (digits_range ww Pw j) as DR.
    pose proof (Forall2_length _ _ _ DR) as LD.
    pose proof (in_box_length _ _ Bx) as Lix.
    rewrite map3_as_map2.
    destruct (digit_list_shift ix (colprods d rest) ww (digits ww j) Bx DR ltac:(lia)) as [ED BX'].
    set (ix' := map2 Z.add ix (map2 Z.mul (colprods d rest) (digits ww j))) in *.
    assert (Lix' : length ix' = d) by (subst ix'; rewrite map2_length; [lia | rewrite map2_length; lia]).
    split; [|split].
    + cbn [nest_enc]. rewrite Lw.
      destruct (nest_j_split ix' (colprods d rest) ww Pw ltac:(lia) ltac:(lia) 0) as [_ RJ].
      assert (EJ : nest_j ix' (colprods d rest) ww 0 = j).
      { apply (digits_inj ww Pw); try assumption.
        rewrite digits_nest_j by (try assumption; lia). exact ED. }
      rewrite EJ.
      destruct (nest_enc_split d rest ix' Hr Lix' (0 * zprod ww + j)) as [E1 _]. rewrite E1.
      subst ix'. rewrite nest_enc_shift by (try assumption; lia).
      unfold zprod_all. cbn [map]. rewrite zprod_cons. fold (zprod_all rest).
      rewrite Ef at 1. rewrite (Z.div_mod f' (zprod ww)) at 1 by lia. fold j. ring.
    + rewrite colprods_cons by assumption. exact BX'.
    + apply Z.div_pos; lia.
Qed.

Theorem nest_enc_dec d wgts f :
  wf_rows d wgts -> 0 <= f < zprod_all wgts ->
  nest_enc wgts (snd (nest_dec d wgts f)) 0 = f /\ in_box (snd (nest_dec d wgts f)) (colprods d wgts).
Proof.
  intros W Hf. destruct (nest_enc_dec_gen d wgts W f ltac:(lia)) as (E & B & H0).
  split; [|exact B].
  assert (HL : length (snd (nest_dec d wgts f)) = d).
  { rewrite (in_box_length _ _ B). exact (proj1 (colprods_wf d wgts W)). }
  destruct (nest_enc_split d wgts (snd (nest_dec d wgts f)) W HL 0) as [_ R].
  assert (Pz : 0 < zprod_all wgts) by lia.
  assert (fst (nest_dec d wgts f) = 0) by nia. rewrite H in E. lia.
Qed.

Theorem flat_nest_enc_dec fl ls f :
  f_serial fl = false -> wf_rows (flat_ndim fl) (weights_nest fl ls) -> 0 <= f < zprod_all (weights_nest fl ls) ->
  idx2flat fl ls (flat2idx fl ls f) = f /\ in_box (flat2idx fl ls f) (colprods (flat_ndim fl) (weights_nest fl ls)).
Proof. intros S W Hf. unfold flat2idx, idx2flat. rewrite S. apply nest_enc_dec; assumption. Qed.
