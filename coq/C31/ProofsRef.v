(* C31 -- refined_indices() / _is_index_refined: the box returned by refined_indices is exactly the
   set of voxels of the level that _is_index_refined marks. *)
From Coq Require Import ZArith List Bool Lia ZifyBool.
Import ListNotations.
Require Import NV.C31.Prim NV.C31.Gen_Index NV.C31.Model NV.C31.Proofs NV.C31.ProofsND.
Open Scope Z_scope.

Definition pad_nonneg (a : axis) : Prop := forall p, a_pad a = Some p -> 0 <= p.

Lemma zrange_In c s : 0 <= c < s -> In c (zrange s).
Proof.
  intros H. unfold zrange. apply in_map_iff. exists (Z.to_nat c). split; [lia|]. apply in_seq. lia.
Qed.

Lemma ax_refined_range_spec a i : pad_nonneg a -> In i (ax_refined_range a) <-> refined a i.
Proof.
  intros W. unfold ax_refined_range, refined, ax_refined.
  destruct (a_split a); [|split; [intros []|intros [_ H]; discriminate]].
  destruct (a_open a).
  - destruct (a_pad a) as [p|] eqn:Hp; [|split; [intros []|intros [_ H]; discriminate]].
    specialize (W p Hp). split.
    + intros Hin. apply in_map_iff in Hin. destruct Hin as [k [E Hk]]. apply In_zrange in Hk. lia.
    + intros [Hr Hb]. apply in_map_iff. exists (i - p). split; [lia|]. apply zrange_In. lia.
  - split.
    + intros Hin. apply In_zrange in Hin. split; [lia|reflexivity].
    + intros [Hr _]. apply zrange_In. lia.
Qed.

Lemma refined_F2 axes : forall idx, Forall pad_nonneg axes ->
  Forall2 (fun x l => In x l) idx (map ax_refined_range axes) <-> Forall2 refined axes idx.
Proof.
  induction axes as [|a r IH]; intros idx W; split; intro H.
  - cbn in H. inversion H. constructor.
  - inversion H. cbn. constructor.
  - cbn [map] in H. inversion H as [|x l xs ls Hx Hr]; subst. inversion W; subst. constructor.
    + apply ax_refined_range_spec; assumption.
    + apply IH; assumption.
  - inversion H as [|? i ? idx' Hi Hr]; subst. inversion W; subst. cbn [map]. constructor.
    + apply ax_refined_range_spec; assumption.
    + apply IH; assumption.
Qed.

Theorem refined_indices_spec axes idx :
  Forall pad_nonneg axes -> In idx (refined_indices axes) <-> Forall2 refined axes idx.
Proof.
  intros W. unfold refined_indices. split; intro H.
  - apply refined_F2; [assumption|]. apply In_cart. assumption.
  - apply cart_In. apply refined_F2; assumption.
Qed.

Theorem refined_indices_marked axes idx :
  Forall pad_nonneg axes -> In idx (refined_indices axes) -> is_index_refined axes idx = true.
Proof.
  intros W H. apply refined_indices_spec in H; [|assumption]. clear W.
  unfold is_index_refined. induction H as [|a i r idx' [_ Hi] _ IH]; [reflexivity|].
  cbn [map2 map forallb]. rewrite Hi. exact IH.
Qed.
