(* C31 -- executable model of the multi-grid index maps of nifty/re/multi_grid/grid.py
   (no proofs in this file).

   The scalar (per-axis) index formulas are NOT written here: they are generated from the Python
   source by tr/c31_index.py into Gen_Index.v (gen_parse_index, gen_children, gen_neighborhood,
   gen_parent, the open-grid variants, gen_nest_j_step, gen_serial_dec_step, index2coord, coord2index).  This file adds
   what the array code does around them: the broadcasting over axes (every map is axis-separable,
   children / neighbourhoods are C-ordered Cartesian products over the axes), the level recursions
   of Grid.at / OpenGrid.at, product grids (MGrid = concatenation of axes) and the flat (serial /
   nest) encodings of FlatGridAtLevel. *)
From Coq Require Import ZArith QArith Qround Qabs List Bool.
Import ListNotations.
Require Import NV.C31.Prim NV.C31.Gen_Index.
Open Scope Z_scope.

(* ---------------------------------------------------------------- generic list helpers *)
Fixpoint map2 {A B C : Type} (f : A -> B -> C) (l1 : list A) (l2 : list B) : list C :=
  match l1, l2 with
  | a :: l1', b :: l2' => f a b :: map2 f l1' l2'
  | _, _ => []
  end.

Fixpoint map3 {A B C D : Type} (f : A -> B -> C -> D) (l1 : list A) (l2 : list B) (l3 : list C) : list D :=
  match l1, l2, l3 with
  | a :: l1', b :: l2', c :: l3' => f a b c :: map3 f l1' l2' l3'
  | _, _, _ => []
  end.

Definition zprod (l : list Z) : Z := fold_right Z.mul 1 l.      (* np.prod / reduce(operator.mul, ., 1) *)
Definition zsum (l : list Z) : Z := fold_right Z.add 0 l.       (* .sum(axis=0) *)
Definition zrange (n : Z) : list Z := map Z.of_nat (seq 0 (Z.to_nat n)).   (* range(n) / slice(n) *)

(* np.mgrid[...] boxes flattened in C order: first axis slowest *)
Fixpoint cart (ls : list (list Z)) : list (list Z) :=
  match ls with
  | [] => [[]]
  | l :: r => flat_map (fun x => map (cons x) (cart r)) l
  end.

Fixpoint list_eqb {A : Type} (eqb : A -> A -> bool) (l1 l2 : list A) : bool :=
  match l1, l2 with
  | [], [] => true
  | a :: l1', b :: l2' => eqb a b && list_eqb eqb l1' l2'
  | _, _ => false
  end.

Definition opt_eqb {A : Type} (eqb : A -> A -> bool) (a b : option A) : bool :=
  match a, b with
  | None, None => true
  | Some x, Some y => eqb x y
  | _, _ => false
  end.

(* wgts[k:, ax].prod() for every ax / reduce(operator.mul, rows, ones) *)
Definition colprods (d : nat) (rows : list (list Z)) : list Z :=
  fold_left (map2 Z.mul) rows (repeat 1 d).

(* ---------------------------------------------------------------- grid descriptions *)
(* Grid(shape0, splits) / OpenGrid(shape0, splits, padding); HEALPixGrid(nside0, depth) is
   Reg [12*nside0^2] [[4];...] as far as children/parent/flat indices are concerned. *)
Inductive base :=
| Reg (shape0 : list Z) (splits : list (list Z))
| Opn (shape0 : list Z) (splits padding : list (list Z)).

(* one axis of a GridAtLevel / OpenGridAtLevel *)
Record axis := mkAxis {
  a_shape : Z; a_split : option Z; a_psplit : option Z;
  a_open : bool; a_pad : option Z; a_ppad : option Z; a_shift : Z }.

Definition opt_nth (o : option (list Z)) (k : nat) : option Z :=
  match o with Some l => nth_error l k | None => None end.

Definition base_depth (b : base) : nat :=
  match b with Reg _ sp => length sp | Opn _ sp _ => length sp end.

Definition base_ndim (b : base) : nat :=
  match b with Reg s _ => length s | Opn s _ _ => length s end.

(* Grid.at:   fct = [reduce(mul, si) for si in zip( *self.splits[:level])];  shape = shape0 * fct *)
Definition reg_shape (shape0 : list Z) (splits : list (list Z)) (level : nat) : list Z :=
  map2 Z.mul shape0 (colprods (length shape0) (firstn level splits)).

(* OpenGrid.at:  shp = shape0; shifts = zeros
                 for si, pd in zip(self.splits[:level], self.padding[:level]):
                     shp = si * (shp - 2 * pd);  shifts = si * (shifts + pd)        (gen_open_at_step) *)
Fixpoint open_step (st : list (Z * Z)) (si pd : list Z) : list (Z * Z) :=
  match st, si, pd with
  | (a, b) :: st', s :: si', p :: pd' => gen_open_at_step a b s p :: open_step st' si' pd'
  | _, _, _ => []
  end.

Definition open_state (shape0 : list Z) (splits padding : list (list Z)) (level : nat) : list (Z * Z) :=
  fold_left (fun st sp => open_step st (fst sp) (snd sp))
            (combine (firstn level splits) (firstn level padding))
            (map (fun s => (s, 0)) shape0).

(* splits=self.splits[level] if level < depth else None;
   parent_splits=self.splits[level-1] if level >= 1 else None  (same for padding) *)
Definition lvl_get (rows : list (list Z)) (level : nat) : option (list Z) := nth_error rows level.
Definition lvl_prev (rows : list (list Z)) (level : nat) : option (list Z) :=
  match level with O => None | S l => nth_error rows l end.

Definition axes_at (b : base) (level : nat) : list axis :=
  match b with
  | Reg shape0 splits =>
      let shp := reg_shape shape0 splits level in
      map (fun k => mkAxis (nth k shp 0) (opt_nth (lvl_get splits level) k) (opt_nth (lvl_prev splits level) k)
                           false None None 0)
          (seq 0 (length shape0))
  | Opn shape0 splits padding =>
      let st := open_state shape0 splits padding level in
      map (fun k => mkAxis (fst (nth k st (0, 0))) (opt_nth (lvl_get splits level) k) (opt_nth (lvl_prev splits level) k)
                           true (opt_nth (lvl_get padding level) k) (opt_nth (lvl_prev padding level) k)
                           (snd (nth k st (0, 0))))
          (seq 0 (length shape0))
  end.

(* MGrid.at(level) = MGridAtLevel of g.at(level) for g in grids: all maps act grid by grid on
   slices of the index, i.e. on the concatenated axes *)
Definition grid_axes (bs : list base) (level : nat) : list axis :=
  flat_map (fun b => axes_at b level) bs.

Definition grid_depth (bs : list base) : nat :=
  match bs with [] => O | b :: _ => base_depth b end.

(* ---------------------------------------------------------------- structured index maps *)
Definition ax_parse (a : axis) (i : Z) : Z := gen_parse_index i (a_shape a).

(* GridAtLevel.children / OpenGridAtLevel.children for one axis: the child offsets c = 0..split-1 *)
Definition ax_children (a : axis) (i : Z) : list Z :=
  match a_split a with
  | None => []
  | Some s =>
      if a_open a then
        match a_pad a with
        | Some p => map (gen_open_children i (a_shape a) s p) (zrange s)
        | None => []
        end
      else map (gen_children i (a_shape a) s) (zrange s)
  end.

Definition children (axes : list axis) (idx : list Z) : list (list Z) :=
  cart (map2 ax_children axes idx).

Definition ax_parent (a : axis) (i : Z) : Z :=
  match a_psplit a with
  | None => -1
  | Some ps =>
      if a_open a then
        match a_ppad a with Some pp => gen_open_parent i (a_shape a) ps pp | None => -1 end
      else gen_parent i (a_shape a) ps
  end.

Definition parent (axes : list axis) (idx : list Z) : list Z := map2 ax_parent axes idx.

(* c = np.mgrid[tuple(slice(sz) for sz in window_size)] *)
Definition ax_neighborhood (a : axis) (i w : Z) : list Z :=
  if a_open a then map (gen_open_neighborhood i (a_shape a) w) (zrange w)
  else map (gen_neighborhood i (a_shape a) w) (zrange w).

Definition neighborhood (axes : list axis) (idx window : list Z) : list (list Z) :=
  cart (map3 ax_neighborhood axes idx window).

Definition ax_index2coord (a : axis) (i : Z) : Q :=
  if a_open a then gen_open_index2coord (qz i) (qz (a_shape a)) (qz (a_shift a))
  else gen_index2coord (qz i) (qz (a_shape a)).

Definition ax_coord2index (a : axis) (c : Q) : Z :=
  if a_open a then gen_open_coord2index c (qz (a_shape a)) (qz (a_shift a))
  else gen_coord2index c (qz (a_shape a)).

Definition index2coord (axes : list axis) (idx : list Z) : list Q := map2 ax_index2coord axes idx.
Definition coord2index (axes : list axis) (c : list Q) : list Z := map2 ax_coord2index axes c.

(* GridAtLevel.index2volume = 1/size;  OpenGridAtLevel: 1/prod(shape + 2*shifts);
   MGridAtLevel: product over the grids *)
Definition ax_extent (a : axis) : Z := a_shape a + 2 * a_shift a.
Definition volume (axes : list axis) : Q := 1 / qz (zprod (map ax_extent axes)).

(* OpenGridAtLevel._is_index_refined / refined_indices: pp <= ii < sh - pp; regular: all *)
Definition ax_refined (a : axis) (i : Z) : bool :=
  match a_split a with
  | None => false
  | Some _ =>
      if a_open a then
        match a_pad a with Some p => (p <=? i) && (i <? a_shape a - p) | None => false end
      else true
  end.

(* GridAtLevel.refined_indices: np.mgrid[tuple(slice(0, sh) for sh in self.shape)];
   OpenGridAtLevel.refined_indices: np.mgrid[tuple(slice(pp, sh - pp) for sh, pp in zip(self.shape, self.padding))];
   both raise IndexError when self.splits is None (model: no indices).  np.mgrid = C-ordered box;
   MGridAtLevel.refined_indices = outer product of the grids' boxes in grid order = box over the
   concatenated axes. *)
Definition ax_refined_range (a : axis) : list Z :=
  match a_split a with
  | None => []
  | Some _ =>
      if a_open a then
        match a_pad a with Some p => map (fun k => p + k) (zrange (a_shape a - 2 * p)) | None => [] end
      else zrange (a_shape a)
  end.
Definition refined_indices (axes : list axis) : list (list Z) := cart (map ax_refined_range axes).
(* _is_index_refined: reduce(operator.mul, ((ii >= pp) * (ii < sh - pp) ...), 1); regular: ones / zeros
   when splits is None; MGrid: product over the grids *)
Definition is_index_refined (axes : list axis) (idx : list Z) : bool :=
  forallb (fun b => b) (map2 ax_refined axes idx).

(* ---------------------------------------------------------------- flat grids *)
Record flat := mkFlat {
  f_axes : list axis;                  (* grid_at_level *)
  f_shapes : list (list Z);            (* all_shapes: levels 0 .. level+1 ([] where None) *)
  f_splits : list (list Z);            (* all_splits *)
  f_serial : bool }.

(* Python indexing with negative indices / slice stops *)
Definition py_index (n : nat) (k : Z) : option nat :=
  let k' := if k <? 0 then Z.of_nat n + k else k in
  if (k' <? 0) || (Z.of_nat n <=? k') then None else Some (Z.to_nat k').

Definition py_nth (l : list (list Z)) (k : Z) : list Z :=
  match py_index (length l) k with Some i => nth i l [] | None => [] end.

Definition py_upto (l : list (list Z)) (k : Z) : list (list Z) :=
  let k' := if k <? 0 then Z.of_nat (length l) + k else k in
  firstn (Z.to_nat k') l.

(* np.cumprod *)
Fixpoint cumprod_from (acc : Z) (l : list Z) : list Z :=
  match l with [] => [] | x :: r => (acc * x) :: cumprod_from (acc * x) r end.

(* _weights_serial:  shape = self.all_shapes[levelshift - 2]
                     return np.cumprod(np.append(shape[1:], 1)[::-1])[::-1] *)
Definition weights_serial (fl : flat) (levelshift : Z) : list Z :=
  let shape := py_nth (f_shapes fl) (levelshift - 2) in
  rev (cumprod_from 1 (rev (tl shape ++ [1]))).

(* _weights_nest:  bases = self.all_splits[: (len(self.all_splits) - 2 + levelshift)]
                   shape = self.all_shapes[levelshift - 2]
                   base_shape = shape // reduce(operator.mul, bases, np.ones_like(shape))
                   wgts = (base_shape,) + bases *)
Definition weights_nest (fl : flat) (levelshift : Z) : list (list Z) :=
  let bases := py_upto (f_splits fl) (Z.of_nat (length (f_splits fl)) - 2 + levelshift) in
  let shape := py_nth (f_shapes fl) (levelshift - 2) in
  let base_shape := map2 Z.div shape (colprods (length shape) bases) in
  base_shape :: bases.

(* index2flatindex, serial:  res = (wgt * index).sum(axis=0) *)
Definition serial_enc (wgt idx : list Z) : Z := zsum (map2 Z.mul wgt idx).

(* flatindex2index, serial:  for w in wgt: tmfl = tm // w; tm -= w * tmfl; index.append(tmfl) *)
Fixpoint serial_dec (wgt : list Z) (tm : Z) : list Z :=
  match wgt with
  | [] => []
  | w :: r => let '(tm', tmfl) := gen_serial_dec_step tm w in tmfl :: serial_dec r tm'
  end.

(* index2flatindex, nest:
     for n, ww in enumerate(wgts):
         j = 0
         for ax in range(ww.size):
             j *= ww[ax]; j += (index[ax] // wgts[(n + 1):, ax].prod()) % ww[ax]      (gen_nest_j_step)
         fid *= ww.prod(); fid += j *)
Fixpoint nest_j (idx P ww : list Z) (j : Z) : Z :=
  match idx, P, ww with
  | i :: idx', p :: P', w :: ww' => nest_j idx' P' ww' (gen_nest_j_step j i p w)
  | _, _, _ => j
  end.

Fixpoint nest_enc (wgts : list (list Z)) (idx : list Z) (fid : Z) : Z :=
  match wgts with
  | [] => fid
  | ww :: rest => nest_enc rest idx (fid * zprod ww + nest_j idx (colprods (length ww) rest) ww 0)
  end.

(* flatindex2index, nest:
     for n, ww in reversed(list(enumerate(wgts))):
         fct = ww.prod(); j = fid % fct
         for ax in range(ww.size)[::-1]:
             index = index.at[ax].add(wgts[(n + 1):, ax].prod() * (j % ww[ax])); j //= ww[ax]
         fid //= fct *)
Fixpoint digits_rev (ww_rev : list Z) (j : Z) : list Z :=
  match ww_rev with
  | [] => []
  | w :: r => (j mod w) :: digits_rev r (j / w)
  end.

Definition digits (ww : list Z) (j : Z) : list Z := rev (digits_rev (rev ww) j).

Fixpoint nest_dec (d : nat) (wgts : list (list Z)) (fid : Z) : Z * list Z :=
  match wgts with
  | [] => (fid, repeat 0 d)
  | ww :: rest =>
      let '(fid', idx) := nest_dec d rest fid in      (* the later levels are consumed first *)
      let fct := zprod ww in
      let j := fid' mod fct in
      (fid' / fct, map3 (fun x p dg => x + p * dg) idx (colprods d rest) (digits ww j))
  end.

Definition flat_ndim (fl : flat) : nat := length (f_axes fl).
Definition flat_size (fl : flat) : Z := zprod (map a_shape (f_axes fl)).   (* np.prod(grid_at_level.shape) *)

Definition idx2flat (fl : flat) (levelshift : Z) (idx : list Z) : Z :=
  if f_serial fl then serial_enc (weights_serial fl levelshift) idx
  else nest_enc (weights_nest fl levelshift) idx 0.

Definition flat2idx (fl : flat) (levelshift : Z) (f : Z) : list Z :=
  if f_serial fl then serial_dec (weights_serial fl levelshift) f
  else snd (nest_dec (flat_ndim fl) (weights_nest fl levelshift) f).

Definition flat_parse (fl : flat) (f : Z) : Z := gen_parse_index f (flat_size fl).

(* FlatGridAtLevel.children:  index = self._parse_index(index); index = self.flatindex2index(index)
     children = self.grid_at_level.children(index).reshape(index.shape + (-1,))
     return self.index2flatindex(children, +1) *)
Definition flat_children (fl : flat) (f : Z) : list Z :=
  map (idx2flat fl 1) (children (f_axes fl) (flat2idx fl 0 (flat_parse fl f))).

(* FlatGridAtLevel.parent: ... return self.index2flatindex(self.grid_at_level.parent(index), -1) *)
Definition flat_parent (fl : flat) (f : Z) : Z :=
  idx2flat fl (-1) (parent (f_axes fl) (flat2idx fl 0 (flat_parse fl f))).

Definition flat_neighborhood (fl : flat) (f : Z) (window : list Z) : list Z :=
  map (idx2flat fl 0) (neighborhood (f_axes fl) (flat2idx fl 0 (flat_parse fl f)) window).

(* FlatGrid.at(level):  for lvl in range(level + 2): shapes/splits of self.grid.at(lvl) if lvl <= depth else None *)
Definition flat_at (bs : list base) (level : nat) (serial : bool) : flat :=
  let depth := grid_depth bs in
  let lv := seq 0 (level + 2) in
  mkFlat (grid_axes bs level)
         (map (fun l => if Nat.leb l depth then map a_shape (grid_axes bs l) else []) lv)
         (map (fun l => if Nat.ltb l depth
                        then map (fun a => match a_split a with Some s => s | None => 0 end) (grid_axes bs l)
                        else []) lv)
         serial.

(* ---------------------------------------------------------------- comparison helpers for the
   correspondence check (model output vs. what the implementation returned) *)
Definition zl_eqb := list_eqb Z.eqb.
Definition zll_eqb := list_eqb zl_eqb.
Definition zlll_eqb := list_eqb zll_eqb.
Definition oz_eqb := opt_eqb Z.eqb.

Definition axis_eqb (a b : axis) : bool :=
  Z.eqb (a_shape a) (a_shape b) && oz_eqb (a_split a) (a_split b) && oz_eqb (a_psplit a) (a_psplit b)
  && Bool.eqb (a_open a) (a_open b) && oz_eqb (a_pad a) (a_pad b) && oz_eqb (a_ppad a) (a_ppad b)
  && Z.eqb (a_shift a) (a_shift b).

Definition chk_axes (bs : list base) (level : nat) (obs : list axis) : bool :=
  list_eqb axis_eqb (grid_axes bs level) obs.

Definition chk_children (bs : list base) (level : nat) (probes : list (list Z)) (obs : list (list (list Z))) : bool :=
  zlll_eqb (map (children (grid_axes bs level)) probes) obs.

Definition chk_parent (bs : list base) (level : nat) (probes : list (list Z)) (obs : list (list Z)) : bool :=
  zll_eqb (map (parent (grid_axes bs level)) probes) obs.

Definition chk_neighborhood (bs : list base) (level : nat) (window : list Z) (probes : list (list Z))
           (obs : list (list (list Z))) : bool :=
  zlll_eqb (map (fun i => neighborhood (grid_axes bs level) i window) probes) obs.

Definition q_close (tol a b : Q) : bool := Qle_bool (Qabs (a - b)) tol.

(* coordinates (floats of the implementation, as exact dyadic rationals) within tol of the model,
   and coord2index(index2coord(i)) of the MODEL on the model's own exact coordinates = observed
   integer round trip of the implementation *)
Definition chk_coord (bs : list base) (level : nat) (tol : Q) (dprobes : list (list Z))
           (obs : list (list Q)) (probes : list (list Z)) (obs_rt : list (list Z)) : bool :=
  let ax := grid_axes bs level in
  list_eqb (list_eqb (q_close tol)) (map (index2coord ax) dprobes) obs
  && zll_eqb (map (fun i => coord2index ax (index2coord ax i)) probes) obs_rt.

(* coord2index on arbitrary (dyadic) coordinates away from rounding ties *)
Definition chk_coord2index (bs : list base) (level : nat) (coords : list (list Q)) (obs : list (list Z)) : bool :=
  zll_eqb (map (coord2index (grid_axes bs level)) coords) obs.

Definition chk_volume (bs : list base) (level : nat) (tol obs : Q) : bool :=
  q_close tol (volume (grid_axes bs level)) obs.

Definition chk_flat_dec (bs : list base) (level : nat) (serial : bool) (probes : list Z) (obs : list (list Z)) : bool :=
  zll_eqb (map (flat2idx (flat_at bs level serial) 0) probes) obs.

Definition chk_flat_enc (bs : list base) (level : nat) (serial : bool) (ls : Z) (probes : list (list Z)) (obs : list Z) : bool :=
  zl_eqb (map (idx2flat (flat_at bs level serial) ls) probes) obs.

Definition chk_flat_children (bs : list base) (level : nat) (serial : bool) (probes : list Z) (obs : list (list Z)) : bool :=
  zll_eqb (map (flat_children (flat_at bs level serial)) probes) obs.

Definition chk_flat_parent (bs : list base) (level : nat) (serial : bool) (probes : list Z) (obs : list Z) : bool :=
  zl_eqb (map (flat_parent (flat_at bs level serial)) probes) obs.

Definition chk_flat_neighborhood (bs : list base) (level : nat) (serial : bool) (window : list Z) (probes : list Z)
           (obs : list (list Z)) : bool :=
  zll_eqb (map (fun f => flat_neighborhood (flat_at bs level serial) f window) probes) obs.

(* FlatGridAtLevel.coord2index(coord, return_valid=True):
     index = self.grid_at_level.coord2index(coord)
     valid = prod((ii >= 0) * (ii < sh) for ii, sh in zip(index, self.grid_at_level.shape))    # BEFORE parsing
     index = self.grid_at_level._parse_index(index);  index = self.index2flatindex(index)
   a coordinate is valid iff its (un-wrapped) voxel index lies in the level *)
Definition flat_coord2index (fl : flat) (c : list Q) : Z * bool :=
  let raw := coord2index (f_axes fl) c in
  let valid := forallb (fun p => (0 <=? fst p) && (fst p <? a_shape (snd p))) (combine raw (f_axes fl)) in
  (idx2flat fl 0 (map2 (fun a i => ax_parse a i) (f_axes fl) raw), valid).

Definition chk_flat_coord2index (bs : list base) (level : nat) (serial : bool) (coords : list (list Q))
           (obs_flat : list Z) (obs_valid : list bool) : bool :=
  let r := map (flat_coord2index (flat_at bs level serial)) coords in
  zl_eqb (map fst r) obs_flat && list_eqb Bool.eqb (map snd r) obs_valid.

Definition chk_flat_coord2index_plain (bs : list base) (level : nat) (serial : bool) (coords : list (list Q))
           (obs_flat : list Z) : bool :=
  zl_eqb (map (fun c => fst (flat_coord2index (flat_at bs level serial) c)) coords) obs_flat.

(* round 7: _is_index_refined on probes (in and out of range) and, on small levels, the complete
   refined_indices() box in C order *)
Definition chk_is_refined (bs : list base) (level : nat) (probes : list (list Z)) (obs : list bool) : bool :=
  list_eqb Bool.eqb (map (is_index_refined (grid_axes bs level)) probes) obs.
Definition chk_refined_indices (bs : list base) (level : nat) (obs : list (list Z)) : bool :=
  zll_eqb (refined_indices (grid_axes bs level)) obs.
