(* C31 -- lemmas over Q: rounding, index <-> coordinate, volumes. *)
From Coq Require Import ZArith QArith Qround Qabs List Bool Lia Lqa.
Require Import NV.C31.Prim NV.C31.Gen_Index NV.C31.Model NV.C31.Proofs.

Lemma rint_compat (p q : Q) : (p == q)%Q -> rint p = rint q.
Proof.
  intros E. unfold rint. rewrite (Qfloor_comp p q E).
  assert (E2 : (p - inject_Z (Qfloor q) == q - inject_Z (Qfloor q))%Q) by (rewrite E; reflexivity).
  rewrite (Qcompare_comp _ _ E2 (1#2) (1#2) (Qeq_refl _)). reflexivity.
Qed.

Lemma rint_near (q : Q) (i : Z) : (Qabs (q - inject_Z i) < 1 # 2)%Q -> rint q = i.
Proof.
  intros H. apply Qabs_Qlt_condition in H. destruct H as [H1 H2].
  pose proof (Qfloor_le q) as F1. pose proof (Qlt_floor q) as F2.
  rewrite inject_Z_plus in F2. change (inject_Z 1) with 1%Q in F2.
  assert (A1 : (inject_Z i < inject_Z (Qfloor q + 2))%Q) by (rewrite inject_Z_plus; change (inject_Z 2) with 2%Q; lra).
  assert (A2 : (inject_Z (Qfloor q) < inject_Z (i + 1))%Q) by (rewrite inject_Z_plus; change (inject_Z 1) with 1%Q; lra).
  rewrite <- Zlt_Qlt in A1, A2.
  unfold rint.
  destruct (Z.eq_dec (Qfloor q) i) as [E|E].
  - rewrite E in *. destruct (Qcompare_spec (q - inject_Z i) (1 # 2)) as [C|C|C]; try lra. reflexivity.
  - assert (E' : Qfloor q = (i + -1)%Z) by lia. rewrite E' in *.
    rewrite inject_Z_plus in *. change (inject_Z (-1)) with (-1)%Q in *.
    destruct (Qcompare_spec (q - (inject_Z i + -1)) (1 # 2)) as [C|C|C]; try lra; try lia.
Qed.

Lemma rint_Z (i : Z) : rint (inject_Z i) = i.
Proof. apply rint_near. setoid_replace (inject_Z i - inject_Z i)%Q with 0%Q by ring. reflexivity. Qed.

Lemma qz_pos (z : Z) : (0 < z)%Z -> (0 < qz z)%Q.
Proof. intros H. unfold qz. change 0%Q with (inject_Z 0). rewrite <- Zlt_Qlt. exact H. Qed.

Lemma qz_add a b : qz (a + b) = (qz a + qz b)%Q.
Proof. apply inject_Z_plus. Qed.
Lemma qz_mul a b : qz (a * b) = (qz a * qz b)%Q.
Proof. apply inject_Z_mult. Qed.

Lemma qz_opp a : qz (- a) = (- qz a)%Q.
Proof. apply inject_Z_opp. Qed.

(* every coordinate of the open cell of voxel i is mapped back to i *)
Lemma coord2index_cell (c : Q) (sh i : Z) :
  (qz i < c * qz sh /\ c * qz sh < qz i + 1)%Q -> gen_coord2index c (qz sh) = i.
Proof.
  intros [H1 H2]. unfold gen_coord2index. apply rint_near. apply Qabs_Qlt_condition. unfold qz in *. split; lra.
Qed.

Lemma open_coord2index_cell (c : Q) (sh shifts i : Z) :
  (qz i < c * (qz sh + 2 * qz shifts) - qz shifts /\ c * (qz sh + 2 * qz shifts) - qz shifts < qz i + 1)%Q ->
  gen_open_coord2index c (qz sh) (qz shifts) = i.
Proof.
  intros [H1 H2]. unfold gen_open_coord2index. apply rint_near. apply Qabs_Qlt_condition.
  unfold qz in *. change (2 # 1)%Q with 2%Q. split; lra.
Qed.

Lemma coord_roundtrip_reg (sh i : Z) :
  (0 < sh)%Z -> gen_coord2index (gen_index2coord (qz i) (qz sh)) (qz sh) = i.
Proof.
  intros H. apply coord2index_cell. pose proof (qz_pos sh H) as P. unfold gen_index2coord.
  assert (E : ((qz i + (1 # 2)) / qz sh * qz sh == qz i + (1 # 2))%Q) by (field; lra).
  rewrite E. split; lra.
Qed.

Lemma coord_roundtrip_open (sh shifts i : Z) :
  (0 < sh + 2 * shifts)%Z ->
  gen_open_coord2index (gen_open_index2coord (qz i) (qz sh) (qz shifts)) (qz sh) (qz shifts) = i.
Proof.
  intros H. apply open_coord2index_cell. pose proof (qz_pos _ H) as P. rewrite qz_add, qz_mul in P.
  change (qz 2) with 2%Q in P.
  unfold gen_open_index2coord. change (2 # 1)%Q with 2%Q.
  assert (E : ((qz i + qz shifts + (1 # 2)) / (qz sh + 2 * qz shifts) * (qz sh + 2 * qz shifts) - qz shifts == qz i + (1 # 2))%Q) by (field; lra).
  rewrite E. split; lra.
Qed.

(* geometry of the refinement: the coordinate of every child of a refined voxel I lies in the
   cell of I -- with the next level's shape s*(sh-2*pad) and shifts s*(shifts+pad) of OpenGrid.at *)
Lemma child_coord_in_parent_cell (sh shifts s pad I c : Z) :
  (0 < s)%Z -> (0 <= c < s)%Z -> (0 < sh + 2 * shifts)%Z ->
  gen_open_coord2index
    (gen_open_index2coord (qz ((I - pad) * s + c)) (qz (s * (sh - 2 * pad))) (qz (s * (shifts + pad))))
    (qz sh) (qz shifts) = I.
Proof.
  intros Hs Hc He. apply open_coord2index_cell.
  pose proof (qz_pos _ He) as P. pose proof (qz_pos _ Hs) as Ps.
  rewrite qz_add, qz_mul in P. change (qz 2) with 2%Q in P.
  unfold gen_open_index2coord. change (2 # 1)%Q with 2%Q.
  unfold Z.sub. repeat first [rewrite qz_add | rewrite qz_mul | rewrite qz_opp].
  change (qz 2) with 2%Q.
  assert (E : (((qz I + - qz pad) * qz s + qz c + qz s * (qz shifts + qz pad) + (1 # 2)) /
              (qz s * (qz sh + - (2 * qz pad)) + 2 * (qz s * (qz shifts + qz pad))) * (qz sh + 2 * qz shifts) - qz shifts
              == qz I + (qz c + (1 # 2)) / qz s)%Q).
  { field. split; [lra|].
    intros Z0. assert (Z1 : (qz s * (qz sh + 2 * qz shifts) == 0)%Q) by (rewrite <- Z0; ring).
    apply Qmult_integral in Z1. destruct Z1; lra. }
  rewrite E.
  assert (C0 : (0 <= qz c)%Q) by (unfold qz; change 0%Q with (inject_Z 0); rewrite <- Zle_Qle; lia).
  assert (C1 : (qz c + 1 <= qz s)%Q) by (unfold qz; change 1%Q with (inject_Z 1); rewrite <- inject_Z_plus, <- Zle_Qle; lia).
  assert (D0 : (0 < (qz c + (1 # 2)) / qz s)%Q) by (apply Qlt_shift_div_l; lra).
  assert (D1 : ((qz c + (1 # 2)) / qz s < 1)%Q) by (apply Qlt_shift_div_r; lra).
  split; lra.
Qed.

(* ------------------------------------------------------------------ volumes *)
Open Scope Z_scope.

Lemma zprod_map2_mul (a b : list Z) :
  length a = length b -> zprod (map2 Z.mul a b) = zprod a * zprod b.
Proof.
  revert b. induction a as [|x a IH]; intros [|y b] H; simpl in *; try lia.
  rewrite IH by lia. lia.
Qed.

Lemma zprod_pos (l : list Z) : Forall (fun x => 0 < x) l -> 0 < zprod l.
Proof. induction 1; simpl; lia. Qed.

(* one refinement step multiplies the padded extent of every axis by its split, so the
   prod(splits) children of a refined voxel have together exactly the parent's volume *)
Lemma volume_refine (ext spl : list Z) :
  length spl = length ext -> 0 < zprod spl -> 0 < zprod ext ->
  (qz (zprod spl) * (1 / qz (zprod (map2 Z.mul spl ext))) == 1 / qz (zprod ext))%Q.
Proof.
  intros HL Hs He. rewrite zprod_map2_mul by assumption. rewrite qz_mul.
  pose proof (qz_pos _ Hs). pose proof (qz_pos _ He). field. split; lra.
Qed.

(* the modelled fraction of the extent never grows: per axis
   shape'/(shape' + 2 shifts') <= shape/(shape + 2 shifts), cross-multiplied *)
Lemma fraction_step (shp shifts si pd : Z) :
  0 < si -> 0 <= pd -> 0 <= shifts -> 0 < shp ->
  let st := gen_open_at_step shp shifts si pd in
  fst st * (shp + 2 * shifts) <= shp * (fst st + 2 * snd st).
Proof. intros. subst st. rewrite open_at_step_val. cbv [fst snd]. nia. Qed.

(* products of such per-axis inequalities: quadruples (a, b, c, d) with a*d <= c*b *)
Definition q4a (q : Z * Z * Z * Z) : Z := fst (fst (fst q)).
Definition q4b (q : Z * Z * Z * Z) : Z := snd (fst (fst q)).
Definition q4c (q : Z * Z * Z * Z) : Z := snd (fst q).
Definition q4d (q : Z * Z * Z * Z) : Z := snd q.

Lemma prod_fractions (l : list (Z * Z * Z * Z)) :
  Forall (fun q => 0 <= q4a q /\ 0 <= q4b q /\ 0 <= q4c q /\ 0 <= q4d q /\ q4a q * q4d q <= q4c q * q4b q) l ->
  (0 <= zprod (map q4a l) /\ 0 <= zprod (map q4b l) /\ 0 <= zprod (map q4c l) /\ 0 <= zprod (map q4d l)) /\
  zprod (map q4a l) * zprod (map q4d l) <= zprod (map q4c l) * zprod (map q4b l).
Proof.
  induction 1 as [|q l Hq Hl IH]; simpl; [lia|].
  destruct Hq as (Ha & Hb & Hc & Hd & Hq). destruct IH as ((Pa & Pb & Pc & Pd) & IH).
  split; [nia|].
  transitivity ((q4a q * q4d q) * (zprod (map q4c l) * zprod (map q4b l))); nia.
Qed.
