(* C27 -- lemmas about the control-flow model of the classic VI driver *)
From Coq Require Import List Bool Arith Lia.
Import ListNotations.
Require Import NV.C27.Model.

(* ---- projections through the state transformers ---- *)
Lemma if_app : forall (A B : Type) (f : A -> B) (c : bool) (x y : A),
  f (if c then x else y) = if c then f x else f y.
Proof. intros; destruct c; reflexivity. Qed.
Lemma if_same : forall (A : Type) (c : bool) (x : A), (if c then x else x) = x.
Proof. intros; destruct c; reflexivity. Qed.

Lemma depth_write : forall f s, depth (write f s) = depth s. Proof. reflexivity. Qed.
Lemma depth_unlink : forall f s, depth (unlink f s) = depth s. Proof. reflexivity. Qed.
Lemma depth_act : forall a s, depth (act a s) = depth s. Proof. reflexivity. Qed.
Lemma depth_set_sl : forall n r s, depth (set_sl n r s) = depth s. Proof. reflexivity. Qed.
Lemma depth_gwrite : forall o f s, depth (gwrite o f s) = depth s.
Proof. intros; unfold gwrite; destruct (outdir o); reflexivity. Qed.
Lemma depth_write_samples : forall f n s, depth (write_samples f n s) = depth s.
Proof. induction n; intros; cbn; auto. Qed.
Lemma depth_save_sl : forall v f s, depth (save_sl v f s) = depth s.
Proof.
  intros; unfold save_sl. destruct (sl_res s), (fix_mean v); cbn; rewrite depth_write_samples; reflexivity.
Qed.
Lemma depth_push : forall i j s, depth (push i j s) = S (depth s). Proof. reflexivity. Qed.
Lemma depth_pop : forall s, depth (pop s) = pred (depth s). Proof. reflexivity. Qed.

Lemma foreign_write_samples : forall f n s, foreign (write_samples f n s) = foreign s.
Proof. induction n; intros; cbn; auto. Qed.
Lemma foreign_save_sl : forall v f s, foreign (save_sl v f s) = foreign s.
Proof.
  intros; unfold save_sl. destruct (sl_res s), (fix_mean v); cbn; rewrite foreign_write_samples; reflexivity.
Qed.
Lemma sl_write_samples : forall f n s,
  sl_n (write_samples f n s) = sl_n s /\ sl_res (write_samples f n s) = sl_res s.
Proof. induction n; intros; cbn; auto. Qed.
Lemma sl_save_sl : forall v f s, sl_n (save_sl v f s) = sl_n s /\ sl_res (save_sl v f s) = sl_res s.
Proof.
  intros; unfold save_sl. destruct (sl_res s) eqn:E, (fix_mean v); cbn;
    match goal with |- context [write_samples ?a ?b ?c] => destruct (sl_write_samples a b c) as [H1 H2] end;
    rewrite H1, H2; cbn; auto.
Qed.

Lemma iteration_eq : forall v o e i s,
  iteration v o e i s =
  if dry o then Ok (if fix_pop v then pop (enter o i s) else enter o i s, false) else
  if negb (sic o) && negb (nsamp o i =? 0) then Err EOther else
  match report_block v o e i (save_block v o i (minimise o i (enter o i s))) with
  | Err x => Err x
  | Ok s1 => Ok (callbacks v o i s1)
  end.
Proof. reflexivity. Qed.

Lemma depth_enter : forall o i s, depth (enter o i s) = S (depth s).
Proof. intros; unfold enter. rewrite (if_app _ _ depth). cbn. apply if_same. Qed.
Lemma depth_minimise : forall o i s, depth (minimise o i s) = depth s.
Proof. intros; unfold minimise. rewrite (if_app _ _ depth). cbn. apply if_same. Qed.
Lemma depth_save_block : forall v o i s, depth (save_block v o i s) = depth s.
Proof.
  intros; unfold save_block.
  destruct (outdir o); [|reflexivity].
  destruct (plot_e o); [destruct (0 <? i)|]; cbn [depth write]; rewrite ?depth_save_sl;
    destruct (export o), (save_all o); reflexivity.
Qed.
Lemma depth_report_block : forall v o e i s s1, report_block v o e i s = Ok s1 -> depth s1 = depth s.
Proof.
  intros v o e i s s1. unfold report_block.
  destruct (glob_set v o e); [|intros H; injection H as <-; reflexivity].
  destruct (negb (i =? 0) && negb _ && negb _); [discriminate|].
  intros H; injection H as <-.
  rewrite depth_gwrite. destruct (outdir o); cbn [depth write];
    rewrite ?(if_app _ _ depth), ?depth_gwrite, ?if_same, ?depth_gwrite; reflexivity.
Qed.
Lemma depth_callbacks_fixed : forall o i s, depth (fst (callbacks fixed o i s)) = pred (depth s).
Proof.
  intros; unfold callbacks. cbn [fix_pop fixed].
  destruct (term_given o && term o i); cbn [fst]; rewrite depth_pop, (if_app _ _ depth);
    cbn [depth act]; rewrite if_same, (if_app _ _ depth); cbn [depth act]; rewrite if_same; reflexivity.
Qed.

(* ---- RNG stack balance ---- *)
Lemma iteration_depth : forall o e i s s' b,
  iteration fixed o e i s = Ok (s', b) -> depth s' = depth s.
Proof.
  intros o e i s s' b. rewrite iteration_eq. cbn [fix_pop fixed].
  destruct (dry o).
  - intros H; injection H as <- _. rewrite depth_pop, depth_enter. reflexivity.
  - destruct (negb (sic o) && _); [discriminate|].
    destruct (report_block _ _ _ _ _) as [s1|] eqn:Hr; [|discriminate].
    intros H. apply depth_report_block in Hr.
    assert (Hd : depth (fst (callbacks fixed o i s1)) = pred (depth s1)) by apply depth_callbacks_fixed.
    rewrite (surjective_pairing (callbacks fixed o i s1)) in H. injection H as <- _.
    rewrite Hd, Hr, depth_save_block, depth_minimise, depth_enter. reflexivity.
Qed.

Lemma loop_depth : forall o e is s s', loop fixed o e is s = Ok s' -> depth s' = depth s.
Proof.
  intros o e is. induction is as [|i r IH]; intros s s' H; cbn in H.
  - injection H as <-; reflexivity.
  - destruct (iteration fixed o e i s) as [[s1 b]|] eqn:Hi; [|discriminate].
    apply iteration_depth in Hi. destruct b.
    + injection H as <-. exact Hi.
    + apply IH in H. congruence.
Qed.

Lemma run_eq : forall v o e,
  run v o e =
  if negb (outdir o) && resume o then Err EValue else
  if total o <=? init_index o then Err EValue else
  if negb ((inspect_args o =? 0) || (inspect_args o =? 1) || (inspect_args o =? 2)) then Err EValue else
  if sanity o && negb (sic o) && exists_lt (fun i => negb (nsamp o i =? 0)) (total o) then Err EAssert else
  match prepare v o e with
  | Err x => Err x
  | Ok (s, first, loaded, early) =>
    if early then Ok (finish o loaded s) else
    if negb (fresh o 0) then Err EValue else
    match loop v o e (seq first (total o - first)) s with
    | Err x => Err x
    | Ok s' => Ok (finish o loaded s')
    end
  end.
Proof. reflexivity. Qed.

Lemma prepare_depth : forall v o e s first loaded early,
  prepare v o e = Ok (s, first, loaded, early) ->
  depth s = (if loaded then saved_depth e else depth0 e) /\ foreign s = [] /\
  (early = true -> loaded = false).
Proof.
  intros v o e s first loaded early. unfold prepare.
  destruct (outdir o); [|intros H; injection H as <- <- <- <-; cbn; auto].
  destruct (last0 e) as [l|].
  - destruct (resume o).
    + destruct (has (files0 e) (FMean (fn o l))).
      * destruct (S l =? total o); [intros H; injection H as <- <- <- <-; cbn; auto|].
        destruct (has _ FRandomState && _); [|discriminate].
        intros H; injection H as <- <- <- <-; cbn. repeat split; auto; discriminate.
      * destruct (count_samples _ _ _ _ =? 0); [discriminate|].
        destruct (negb _); [discriminate|].
        destruct (S l =? total o); [intros H; injection H as <- <- <- <-; cbn; auto|].
        destruct (has _ FRandomState && _); [|discriminate].
        intros H; injection H as <- <- <- <-; cbn. repeat split; auto; discriminate.
    + destruct (negb (fix_iglobal v) && negb (sanity o)); [discriminate|].
      intros H; injection H as <- <- <- <-; cbn; auto.
  - destruct (negb (fix_iglobal v) && negb (sanity o)); [discriminate|].
    intros H; injection H as <- <- <- <-; cbn; auto.
Qed.

Lemma rng_balanced : forall o e r,
  run fixed o e = Ok r ->
  r_depth r = (if r_state_loaded r then saved_depth e else depth0 e).
Proof.
  intros o e r. rewrite run_eq.
  destruct (negb (outdir o) && resume o); [discriminate|].
  destruct (total o <=? init_index o); [discriminate|].
  destruct (negb _); [discriminate|].
  destruct (sanity o && negb (sic o) && _); [discriminate|].
  destruct (prepare fixed o e) as [[[[s first] loaded] early]|] eqn:Hp; [|discriminate].
  apply prepare_depth in Hp as (Hd & _ & _).
  destruct early.
  - intros H; injection H as <-. cbn. exact Hd.
  - destruct (negb (fresh o 0)); [discriminate|].
    destruct (loop fixed o e _ s) as [s'|] eqn:Hl; [|discriminate].
    intros H; injection H as <-. cbn. apply loop_depth in Hl. congruence.
Qed.

(* ---- nothing is written outside the output directory of the call ---- *)
Lemma files_enter : forall o i s, files (enter o i s) = files s /\ foreign (enter o i s) = foreign s.
Proof. intros; unfold enter; destruct (trans o i); auto. Qed.
Lemma files_minimise : forall o i s, files (minimise o i s) = files s /\ foreign (minimise o i s) = foreign s.
Proof. intros; unfold minimise; destruct (nsamp o i =? 0); auto. Qed.
Lemma files_callbacks : forall v o i s,
  files (fst (callbacks v o i s)) = files s /\ foreign (fst (callbacks v o i s)) = foreign s.
Proof.
  intros; unfold callbacks.
  destruct (inspect_args o =? 0), (term_given o), (term o i), (fix_pop v); cbn; auto.
Qed.
Lemma foreign_save_block : forall v o i s, foreign (save_block v o i s) = foreign s.
Proof.
  intros; unfold save_block. destruct (outdir o); [|reflexivity].
  destruct (plot_e o); [destruct (0 <? i)|]; cbn [foreign write]; rewrite ?foreign_save_sl;
    destruct (export o), (save_all o); reflexivity.
Qed.
Lemma foreign_gwrite_out : forall o f s, outdir o = true -> foreign (gwrite o f s) = foreign s.
Proof. intros o f s H; unfold gwrite; rewrite H; reflexivity. Qed.

Lemma report_block_fixed : forall o e i s s1,
  report_block fixed o e i s = Ok s1 ->
  foreign s1 = foreign s /\ (outdir o = false -> s1 = s).
Proof.
  intros o e i s s1. unfold report_block, glob_set. cbn [fix_global fixed].
  destruct (outdir o) eqn:Ho.
  - destruct (negb (i =? 0) && negb _ && negb _); [discriminate|].
    intros H; injection H as <-. split; [|discriminate].
    rewrite foreign_gwrite_out by assumption.
    destruct (plot_m o); cbn [foreign write]; rewrite ?foreign_gwrite_out by assumption; reflexivity.
  - intros H; injection H as <-. auto.
Qed.

Lemma iteration_files_fixed : forall o e i s s' b,
  iteration fixed o e i s = Ok (s', b) ->
  foreign s' = foreign s /\ (outdir o = false -> files s' = files s).
Proof.
  intros o e i s s' b. rewrite iteration_eq. cbn [fix_pop fixed].
  destruct (dry o).
  - intros H; injection H as <- _. cbn. destruct (files_enter o i s) as [H1 H2]. auto.
  - destruct (negb (sic o) && _); [discriminate|].
    destruct (report_block _ _ _ _ _) as [s1|] eqn:Hr; [|discriminate].
    apply report_block_fixed in Hr as [Hf Hs].
    intros H. rewrite (surjective_pairing (callbacks fixed o i s1)) in H. injection H as <- _.
    destruct (files_callbacks fixed o i s1) as [C1 C2].
    destruct (files_minimise o i (enter o i s)) as [M1 M2].
    destruct (files_enter o i s) as [E1 E2].
    split.
    + rewrite C2, Hf, foreign_save_block, M2, E2. reflexivity.
    + intros Ho. rewrite C1, (Hs Ho). unfold save_block. rewrite Ho. congruence.
Qed.

Lemma loop_files_fixed : forall o e is s s',
  loop fixed o e is s = Ok s' ->
  foreign s' = foreign s /\ (outdir o = false -> files s' = files s).
Proof.
  intros o e is. induction is as [|i r IH]; intros s s' H; cbn in H.
  - injection H as <-; auto.
  - destruct (iteration fixed o e i s) as [[s1 b]|] eqn:Hi; [|discriminate].
    apply iteration_files_fixed in Hi as [H1 H2]. destruct b.
    + injection H as <-. auto.
    + apply IH in H as [H3 H4]. split; [congruence|]. intros Ho. rewrite (H4 Ho). auto.
Qed.

Lemma prepare_files : forall v o e s first loaded early,
  prepare v o e = Ok (s, first, loaded, early) -> outdir o = false -> files s = files0 e.
Proof.
  intros v o e s first loaded early. unfold prepare. intros H Ho. rewrite Ho in H.
  injection H as <- _ _ _. reflexivity.
Qed.

Lemma no_foreign_no_stray : forall o e r,
  run fixed o e = Ok r ->
  r_foreign r = [] /\ (outdir o = false -> r_files r = files0 e).
Proof.
  intros o e r. rewrite run_eq.
  destruct (negb (outdir o) && resume o); [discriminate|].
  destruct (total o <=? init_index o); [discriminate|].
  destruct (negb _); [discriminate|].
  destruct (sanity o && negb (sic o) && _); [discriminate|].
  destruct (prepare fixed o e) as [[[[s first] loaded] early]|] eqn:Hp; [|discriminate].
  pose proof (prepare_files _ _ _ _ _ _ _ Hp) as Hf.
  apply prepare_depth in Hp as (_ & Hfo & _).
  destruct early.
  - intros H; injection H as <-. cbn. auto.
  - destruct (negb (fresh o 0)); [discriminate|].
    destruct (loop fixed o e _ s) as [s'|] eqn:Hl; [|discriminate].
    intros H; injection H as <-. cbn. apply loop_files_fixed in Hl as [H1 H2].
    split; [congruence|]. intros Ho. rewrite (H2 Ho). auto.
Qed.

(* ---- result shape ---- *)
Lemma result_tuple : forall v o e r, run v o e = Ok r -> r_tuple r = ret_pos o.
Proof.
  intros v o e r. rewrite run_eq.
  destruct (negb (outdir o) && resume o); [discriminate|].
  destruct (total o <=? init_index o); [discriminate|].
  destruct (negb _); [discriminate|].
  destruct (sanity o && negb (sic o) && _); [discriminate|].
  destruct (prepare v o e) as [[[[s first] loaded] early]|]; [|discriminate].
  destruct early; [intros H; injection H as <-; reflexivity|].
  destruct (negb (fresh o 0)); [discriminate|].
  destruct (loop v o e _ s) as [s'|]; [|discriminate].
  intros H; injection H as <-; reflexivity.
Qed.

Lemma sl_save_block : forall v o i s,
  sl_n (save_block v o i s) = sl_n s /\ sl_res (save_block v o i s) = sl_res s.
Proof.
  intros; unfold save_block. destruct (outdir o); [|auto].
  destruct (plot_e o); [destruct (0 <? i)|]; cbn [sl_n sl_res write];
    match goal with |- context [save_sl ?w ?f ?x] => destruct (sl_save_sl w f x) as [H1 H2]; rewrite H1, H2 end;
    destruct (export o), (save_all o); auto.
Qed.
Lemma sl_gwrite : forall o f s, sl_n (gwrite o f s) = sl_n s /\ sl_res (gwrite o f s) = sl_res s.
Proof. intros; unfold gwrite; destruct (outdir o); auto. Qed.
Lemma sl_report_block : forall v o e i s s1,
  report_block v o e i s = Ok s1 -> sl_n s1 = sl_n s /\ sl_res s1 = sl_res s.
Proof.
  intros v o e i s s1. unfold report_block.
  destruct (glob_set v o e); [|intros H; injection H as <-; auto].
  destruct (negb (i =? 0) && negb _ && negb _); [discriminate|].
  intros H; injection H as <-.
  destruct (plot_m o); unfold gwrite; destruct (outdir o); cbn; auto.
Qed.
Lemma sl_callbacks : forall v o i s,
  sl_n (fst (callbacks v o i s)) = sl_n s /\ sl_res (fst (callbacks v o i s)) = sl_res s.
Proof.
  intros; unfold callbacks.
  destruct (inspect_args o =? 0), (term_given o), (term o i), (fix_pop v); cbn; auto.
Qed.

(* after an executed iteration the sample list is what the options say: zero samples give a
   one-element plain list, n samples give 2n mirrored residual samples *)
Lemma iteration_result : forall v o e i s s' b,
  iteration v o e i s = Ok (s', b) -> dry o = false ->
  sl_n s' = (if nsamp o i =? 0 then 1 else 2 * nsamp o i) /\ sl_res s' = negb (nsamp o i =? 0).
Proof.
  intros v o e i s s' b. rewrite iteration_eq. intros H Hd. rewrite Hd in H.
  destruct (negb (sic o) && _); [discriminate|].
  destruct (report_block _ _ _ _ _) as [s1|] eqn:Hr; [|discriminate].
  apply sl_report_block in Hr as [R1 R2].
  rewrite (surjective_pairing (callbacks v o i s1)) in H. injection H as <- _.
  destruct (sl_callbacks v o i s1) as [C1 C2].
  destruct (sl_save_block v o i (minimise o i (enter o i s))) as [S1 S2].
  rewrite C1, C2, R1, R2, S1, S2. unfold minimise.
  destruct (nsamp o i =? 0); cbn; auto.
Qed.

Lemma iteration_dry : forall v o e i s s' b,
  iteration v o e i s = Ok (s', b) -> dry o = true ->
  sl_n s' = sl_n s /\ sl_res s' = sl_res s /\ files s' = files s /\ b = false.
Proof.
  intros v o e i s s' b. rewrite iteration_eq. intros H Hd. rewrite Hd in H.
  injection H as <- <-. unfold enter. destruct (fix_pop v), (trans o i); cbn; auto.
Qed.

(* ---- the file-set operations ---- *)
Lemma fname_eqb_eq : forall a b, fname_eqb a b = true <-> a = b.
Proof.
  intros [|i] [|j]; cbn; split; intros H; try discriminate; try reflexivity.
  - apply Nat.eqb_eq in H; congruence.
  - injection H as ->. apply Nat.eqb_refl.
Qed.
Lemma file_eqb_eq : forall a b, file_eqb a b = true <-> a = b.
Proof.
  intros a b; split.
  - destruct a, b; cbn; intros H; try discriminate; try reflexivity;
      try (apply fname_eqb_eq in H; congruence).
    apply andb_true_iff in H as [H1 H2]. apply fname_eqb_eq in H1. apply Nat.eqb_eq in H2. congruence.
  - intros <-. destruct a; cbn; try reflexivity; try (apply fname_eqb_eq; reflexivity).
    apply andb_true_iff; split; [apply fname_eqb_eq; reflexivity|apply Nat.eqb_refl].
Qed.
Lemma has_in : forall fs f, has fs f = true <-> In f fs.
Proof.
  intros fs f; unfold has. rewrite existsb_exists. split.
  - intros (x & Hx & E). apply file_eqb_eq in E. congruence.
  - intros H. exists f. split; [assumption|apply file_eqb_eq; reflexivity].
Qed.
Lemma has_add : forall f g fs, has (add f fs) g = true <-> (g = f \/ has fs g = true).
Proof.
  intros f g fs. unfold add. destruct (has fs f) eqn:E.
  - split; [auto|]. intros [->|H]; assumption.
  - rewrite !has_in. cbn. split; intros [H|H]; auto.
Qed.
Lemma has_del : forall f g fs, has (del f fs) g = true <-> (g <> f /\ has fs g = true).
Proof.
  intros f g fs. unfold del. rewrite !has_in, filter_In. split.
  - intros [H1 H2]. split; [|assumption]. intros ->.
    apply negb_true_iff in H2. assert (file_eqb f f = true) by (apply file_eqb_eq; reflexivity). congruence.
  - intros [H1 H2]. split; [assumption|]. apply negb_true_iff.
    destruct (file_eqb f g) eqn:E; [|reflexivity]. apply file_eqb_eq in E. congruence.
Qed.

Lemma has_write_samples : forall f n s g,
  has (files (write_samples f n s)) g = true <-> ((exists k, k < n /\ g = FSample f k) \/ has (files s) g = true).
Proof.
  induction n; intros s g; cbn [write_samples].
  - split; [auto|]. intros [(k & Hk & _)|H]; [lia|assumption].
  - cbn [files write]. rewrite has_add, IHn. split.
    + intros [->|[(k & Hk & ->)|H]]; [left; exists n; split; [lia|reflexivity]|left; exists k; split; [lia|reflexivity]|auto].
    + intros [(k & Hk & ->)|H]; [|auto].
      destruct (Nat.eq_dec k n) as [->|Hne]; [auto|]. right; left. exists k. split; [lia|reflexivity].
Qed.

(* which files one iteration may create *)
Definition iter_file (o : opts) (i : nat) (g : file) : Prop :=
  g = FLast \/ g = FMinisanityTxt \/ g = FCounting \/
  g = FMean (fn o i) \/ g = FEnergyHist (fn o i) \/ g = FEnergyPlot (fn o i) \/
  g = FEnergyChangePlot (fn o i) \/ g = FMinisanityHist (fn o i) \/ g = FMinisanityPlot (fn o i) \/
  g = FExport (fn o i) \/ exists k, g = FSample (fn o i) k.

Lemma has_save_sl : forall v f s g,
  has (files (save_sl v f s)) g = true ->
  g = FMean f \/ (exists k, g = FSample f k) \/ has (files s) g = true.
Proof.
  intros v f s g. unfold save_sl.
  destruct (sl_res s), (fix_mean v); cbn [negb andb files write]; rewrite ?has_add, has_write_samples;
    cbn [files unlink]; rewrite ?has_del; intros H.
  - destruct H as [->|[(k & _ & ->)|[_ H]]]; eauto.
  - destruct H as [->|[(k & _ & ->)|[_ H]]]; eauto.
  - destruct H as [(k & _ & ->)|[_ [_ H]]]; eauto.
  - destruct H as [(k & _ & ->)|[_ H]]; eauto.
Qed.

Lemma save_sl_keeps : forall v f s g,
  has (files s) g = true -> (forall k, g <> FSample f k) -> g <> FMean f ->
  has (files (save_sl v f s)) g = true.
Proof.
  intros v f s g H Hn Hm. unfold save_sl.
  set (s0 := if negb (sl_res s) && fix_mean v then unlink (FMean f) (unlink (FSample f (sl_n s)) s)
             else unlink (FSample f (sl_n s)) s).
  assert (H0 : has (files s0) g = true).
  { unfold s0. destruct (negb (sl_res s) && fix_mean v); cbn [files unlink]; rewrite ?has_del; auto. }
  assert (H1 : has (files (write_samples f (sl_n s) s0)) g = true) by (apply has_write_samples; auto).
  destruct (sl_res s); [cbn [files write]; apply has_add; auto|assumption].
Qed.

Lemma has_write : forall f s g, has (files (write f s)) g = true <-> (g = f \/ has (files s) g = true).
Proof. intros; cbn [files write]; apply has_add. Qed.

Lemma has_save_block : forall v o i s g,
  has (files (save_block v o i s)) g = true -> iter_file o i g \/ has (files s) g = true.
Proof.
  intros v o i s g. unfold save_block.
  destruct (outdir o); [|auto].
  set (s1 := if export o then write (FExport (fn o i)) s else s).
  assert (H1 : has (files s1) g = true -> g = FExport (fn o i) \/ has (files s) g = true).
  { unfold s1. destruct (export o); [rewrite has_write|]; auto. }
  set (s2 := if save_all o then s1 else unlink FLast s1).
  assert (H1' : has (files s2) g = true -> has (files s1) g = true).
  { unfold s2. destruct (save_all o); [auto|]. cbn [files unlink]. rewrite has_del. tauto. }
  assert (H2 : has (files (save_sl v (fn o i) s2)) g = true -> iter_file o i g \/ has (files s) g = true).
  { intros H. apply has_save_sl in H as [->|[(k & ->)|H]].
    - left; unfold iter_file; auto 20.
    - left; unfold iter_file; eauto 20.
    - apply H1', H1 in H as [->|H]; [left; unfold iter_file; auto 20|auto]. }
  destruct (plot_e o); [destruct (0 <? i)|]; intros H;
    repeat (apply has_write in H; destruct H as [->|H]; [left; unfold iter_file; auto 20|]);
    auto.
Qed.

Lemma save_block_keeps : forall v o i s g,
  has (files s) g = true -> (forall f k, g <> FSample f k) -> (forall f, g <> FMean f) -> g <> FLast ->
  has (files (save_block v o i s)) g = true.
Proof.
  intros v o i s g H Hn Hm Hl. unfold save_block. destruct (outdir o); [|assumption].
  assert (H1 : has (files (if export o then write (FExport (fn o i)) s else s)) g = true).
  { destruct (export o); [cbn; apply has_add; auto|assumption]. }
  assert (H2 : has (files (if save_all o then (if export o then write (FExport (fn o i)) s else s)
                           else unlink FLast (if export o then write (FExport (fn o i)) s else s))) g = true).
  { destruct (save_all o); [assumption|]. cbn [files unlink]. apply has_del. auto. }
  apply (save_sl_keeps v (fn o i)) in H2; [|apply Hn|apply Hm].
  destruct (plot_e o); [destruct (0 <? i)|]; cbn [files write]; rewrite ?has_add; auto 10.
Qed.

Lemma has_gwrite_out : forall o f s g, outdir o = true ->
  (has (files (gwrite o f s)) g = true <-> (g = f \/ has (files s) g = true)).
Proof. intros o f s g Ho. unfold gwrite. rewrite Ho. cbn. apply has_add. Qed.

(* ---- every valid configuration runs to completion ---- *)
Lemma exists_lt_false : forall f n, (forall i, f i = false) -> exists_lt f n = false.
Proof. induction n; intros H; cbn; [reflexivity|]. rewrite H, IHn; auto. Qed.

Lemma report_block_ok : forall o e i s, exists s1, report_block fixed o e i s = Ok s1.
Proof.
  intros o e i s. unfold report_block. cbn [fix_mh fixed negb]. rewrite andb_false_r.
  destruct (glob_set fixed o e); eauto.
Qed.

Lemma iteration_ok : forall o e i s,
  (sic o = false -> forall j, nsamp o j = 0) ->
  exists s' b, iteration fixed o e i s = Ok (s', b).
Proof.
  intros o e i s Hsic. rewrite iteration_eq. destruct (dry o); [eauto|].
  assert (Hc : negb (sic o) && negb (nsamp o i =? 0) = false).
  { destruct (sic o) eqn:E; [reflexivity|]. rewrite (Hsic eq_refl i). reflexivity. }
  rewrite Hc.
  destruct (report_block_ok o e i (save_block fixed o i (minimise o i (enter o i s)))) as (s1 & Hr).
  rewrite Hr. rewrite (surjective_pairing (callbacks fixed o i s1)). eauto.
Qed.

Lemma loop_ok : forall o e is s,
  (sic o = false -> forall j, nsamp o j = 0) -> exists s', loop fixed o e is s = Ok s'.
Proof.
  intros o e is. induction is as [|i r IH]; intros s Hsic; cbn [loop]; [eauto|].
  destruct (iteration_ok o e i s Hsic) as (s' & b & Hi). rewrite Hi. destruct b; eauto.
Qed.

Lemma prepare_ok : forall o e, valid o e ->
  exists s first loaded early, prepare fixed o e = Ok (s, first, loaded, early).
Proof.
  intros o e (Ht & Hres & Hins & Hsic & Hfr & Hd0 & Hdisk). unfold prepare. cbn [fix_iglobal fixed negb andb].
  destruct (outdir o) eqn:Ho; [|eauto 10].
  destruct (last0 e) as [l|] eqn:El; [|eauto 10].
  destruct (resume o) eqn:Er; [|eauto 10].
  destruct (Hdisk eq_refl eq_refl l eq_refl) as (H1 & H2 & H3 & H4).
  rewrite H1, H2. cbn [andb].
  destruct (has (files0 e) (FMean (fn o l))) eqn:Em.
  - destruct (S l =? total o); eauto 10.
  - destruct H4 as [H4|H4]; [discriminate|]. rewrite H4.
    change (1 =? 0) with false. change (negb (1 =? 1)) with false. cbv iota.
    destruct (S l =? total o); eauto 10.
Qed.

Lemma total_ok : forall o e, valid o e -> exists r, run fixed o e = Ok r.
Proof.
  intros o e Hv. pose proof Hv as (Ht & Hres & Hins & Hsic & Hfr & Hd0 & Hdisk).
  rewrite run_eq.
  assert (H1 : negb (outdir o) && resume o = false).
  { destruct (resume o); [rewrite (Hres eq_refl); reflexivity|apply andb_false_r]. }
  rewrite H1.
  assert (H2 : total o <=? init_index o = false) by (apply Nat.leb_gt; lia). rewrite H2.
  assert (H3 : negb ((inspect_args o =? 0) || (inspect_args o =? 1) || (inspect_args o =? 2)) = false).
  { destruct (inspect_args o) as [|[|[|k]]]; try reflexivity. lia. }
  rewrite H3.
  assert (H4 : sanity o && negb (sic o) && exists_lt (fun i => negb (nsamp o i =? 0)) (total o) = false).
  { destruct (sic o) eqn:E; [apply andb_false_iff; left; apply andb_false_r|].
    rewrite exists_lt_false; [apply andb_false_r|]. intros i. rewrite (Hsic eq_refl i). reflexivity. }
  rewrite H4.
  destruct (prepare_ok o e Hv) as (s & first & loaded & early & Hp). rewrite Hp.
  destruct early; [eauto|]. rewrite Hfr. cbn [negb].
  destruct (loop_ok o e (seq first (total o - first)) s Hsic) as (s' & Hl). rewrite Hl. eauto.
Qed.

(* ---- file names follow the save strategy ---- *)
Definition fname_of (g : file) : option fname :=
  match g with
  | FSample f _ | FMean f | FEnergyHist f | FEnergyPlot f | FEnergyChangePlot f
  | FMinisanityHist f | FMinisanityPlot f | FExport f => Some f
  | _ => None
  end.
Definition name_ok (o : opts) (g : file) : Prop :=
  match fname_of g with
  | None => True
  | Some Latest => save_all o = false
  | Some (Iter i) => save_all o = true /\ i < total o
  end.

Lemma iter_file_name_ok : forall o i g, i < total o -> iter_file o i g -> name_ok o g.
Proof.
  intros o i g Hi H. unfold iter_file in H. unfold name_ok.
  assert (Hfn : match fn o i with Latest => save_all o = false | Iter j => save_all o = true /\ j < total o end).
  { unfold fn. destruct (save_all o); auto. }
  repeat (destruct H as [->|H]; [cbn; auto|]). destruct H as (k & ->). cbn. exact Hfn.
Qed.

Definition new_ok (o : opts) (e : env) (s : lstate) : Prop :=
  forall g, has (files s) g = true -> has (files0 e) g = true \/ name_ok o g.

Lemma has_report_block : forall o e i s s1 g,
  report_block fixed o e i s = Ok s1 -> has (files s1) g = true ->
  iter_file o i g \/ has (files s) g = true.
Proof.
  intros o e i s s1 g. unfold report_block, glob_set. cbn [fix_global fixed].
  destruct (outdir o) eqn:Ho; [|intros H; injection H as <-; auto].
  destruct (negb (i =? 0) && negb _ && negb _); [discriminate|].
  intros H; injection H as <-.
  assert (Hg : gfn o e i = fn o i) by (unfold gfn; rewrite Ho; reflexivity). rewrite Hg.
  intros H. apply has_gwrite_out in H; [|assumption]. destruct H as [->|H]; [left; unfold iter_file; auto 20|].
  apply has_write in H. destruct H as [->|H]; [left; unfold iter_file; auto 20|].
  destruct (plot_m o);
    repeat (apply has_gwrite_out in H; [|assumption]; destruct H as [->|H]; [left; unfold iter_file; auto 20|]);
    auto.
Qed.

Lemma iteration_new_ok : forall o e i s s' b,
  i < total o -> iteration fixed o e i s = Ok (s', b) -> new_ok o e s -> new_ok o e s'.
Proof.
  intros o e i s s' b Hi. rewrite iteration_eq. cbn [fix_pop fixed].
  destruct (dry o).
  - intros H Hn; injection H as <- _. intros g Hg. apply Hn.
    cbn in Hg. destruct (files_enter o i s) as [E1 _]. rewrite E1 in Hg. exact Hg.
  - destruct (negb (sic o) && _); [discriminate|].
    destruct (report_block _ _ _ _ _) as [s1|] eqn:Hr; [|discriminate].
    intros H Hn. rewrite (surjective_pairing (callbacks fixed o i s1)) in H. injection H as <- _.
    intros g Hg. destruct (files_callbacks fixed o i s1) as [C1 _]. rewrite C1 in Hg.
    apply (has_report_block _ _ _ _ _ _ Hr) in Hg as [Hg|Hg];
      [right; eapply iter_file_name_ok; eassumption|].
    apply has_save_block in Hg as [Hg|Hg]; [right; eapply iter_file_name_ok; eassumption|].
    destruct (files_minimise o i (enter o i s)) as [M1 _]. destruct (files_enter o i s) as [E1 _].
    rewrite M1, E1 in Hg. apply Hn; assumption.
Qed.

Lemma loop_new_ok : forall o e n i s s',
  i + n <= total o \/ n = 0 -> loop fixed o e (seq i n) s = Ok s' -> new_ok o e s -> new_ok o e s'.
Proof.
  intros o e n. induction n; intros i s s' Hb H Hn; cbn [seq loop] in H.
  - injection H as <-; assumption.
  - destruct (iteration fixed o e i s) as [[s1 b]|] eqn:Hi; [|discriminate].
    assert (Hlt : i < total o) by (destruct Hb; [lia|discriminate]).
    pose proof (iteration_new_ok _ _ _ _ _ _ Hlt Hi Hn) as Hn1.
    destruct b; [injection H as <-; assumption|].
    eapply IHn; [|eassumption|assumption]. left; lia.
Qed.

Lemma prepare_new_ok : forall v o e s first loaded early,
  prepare v o e = Ok (s, first, loaded, early) -> new_ok o e s.
Proof.
  intros v o e s first loaded early. unfold prepare, new_ok.
  destruct (outdir o); [|intros H; injection H as <- _ _ _; cbn; auto].
  destruct (last0 e) as [l|].
  - destruct (resume o).
    + destruct (has (files0 e) (FMean (fn o l))).
      * destruct (S l =? total o); [intros H; injection H as <- _ _ _; cbn; auto|].
        destruct (has _ FRandomState && _); [|discriminate].
        intros H; injection H as <- _ _ _; cbn; auto.
      * destruct (count_samples _ _ _ _ =? 0); [discriminate|].
        destruct (negb _); [discriminate|].
        destruct (S l =? total o); [intros H; injection H as <- _ _ _; cbn; auto|].
        destruct (has _ FRandomState && _); [|discriminate].
        intros H; injection H as <- _ _ _; cbn; auto.
    + destruct (negb (fix_iglobal v) && negb (sanity o)); [discriminate|].
      intros H; injection H as <- _ _ _. intros g Hg. apply has_write in Hg as [->|Hg]; [right; exact I|auto].
  - destruct (negb (fix_iglobal v) && negb (sanity o)); [discriminate|].
    intros H; injection H as <- _ _ _. intros g Hg. apply has_write in Hg as [->|Hg]; [right; exact I|auto].
Qed.

Lemma files_follow_strategy : forall o e r g,
  run fixed o e = Ok r -> has (r_files r) g = true -> has (files0 e) g = true \/ name_ok o g.
Proof.
  intros o e r g. rewrite run_eq.
  destruct (negb (outdir o) && resume o); [discriminate|].
  destruct (total o <=? init_index o); [discriminate|].
  destruct (negb _); [discriminate|].
  destruct (sanity o && negb (sic o) && _); [discriminate|].
  destruct (prepare fixed o e) as [[[[s first] loaded] early]|] eqn:Hp; [|discriminate].
  apply prepare_new_ok in Hp.
  destruct early; [intros H; injection H as <-; cbn; apply Hp|].
  destruct (negb (fresh o 0)); [discriminate|].
  destruct (loop fixed o e _ s) as [s'|] eqn:Hl; [|discriminate].
  intros H; injection H as <-. cbn.
  apply (loop_new_ok o e (total o - first) first s s'); [lia|assumption|assumption].
Qed.

(* ---- the pinned control flow violates the property (witnesses, by computation) ---- *)
Definition o_base : opts :=
  mkOpts 3 (fun _ => 2) true false false false false false true false (fun _ => true) false (fun _ => false)
         2 (fun _ => false) true false 0.
Definition e_base : env := mkEnv 1 [] None 1 false false.

Lemma valid_concrete : forall o e,
  init_index o = 0 -> 1 <= total o -> resume o = false -> inspect_args o <= 2 -> sic o = true -> fresh o 0 = true ->
  1 <= depth0 e -> valid o e.
Proof.
  intros o e H0 H1 H2 H3 H4 H5 H6. unfold valid. repeat split; auto; try congruence; try lia.
Qed.

Lemma each_fix_needed :
  (exists o e r, valid o e /\ run (mkVar false true true true true) o e = Ok r /\ r_depth r <> depth0 e /\ r_state_loaded r = false) /\
  (exists o e, valid o e /\ run (mkVar true false true true true) o e = Err EUnbound) /\
  (exists o e r, valid o e /\ outdir o = false /\ run (mkVar true true false true true) o e = Ok r /\ r_foreign r <> []).
Proof.
  split; [|split].
  - exists (mkOpts 3 (fun _ => 2) true false false false false false true true (fun _ => true) false
                   (fun _ => false) 2 (fun _ => false) true false 0), e_base.
    eexists. split; [apply valid_concrete; cbn; auto|].
    split; [vm_compute; reflexivity|]. cbn. split; [discriminate|reflexivity].
  - exists (mkOpts 2 (fun _ => 2) true true false false false false false false (fun _ => true) false
                   (fun _ => false) 2 (fun _ => false) true false 0), e_base.
    split; [apply valid_concrete; cbn; auto|vm_compute; reflexivity].
  - exists (mkOpts 1 (fun _ => 2) true false false false false false true false (fun _ => true) false
                   (fun _ => false) 2 (fun _ => false) true false 0), (mkEnv 1 [] None 1 true false).
    eexists. split; [apply valid_concrete; cbn; auto|].
    split; [reflexivity|]. split; [vm_compute; reflexivity|]. cbn. discriminate.
Qed.

(* ---- the mean file on disk tells the kind of the saved sample list (fix C27-4) ---- *)
Lemma has_add_other : forall f g fs, g <> f -> has (add f fs) g = has fs g.
Proof.
  intros f g fs Hn. destruct (has fs g) eqn:E.
  - apply has_add; auto.
  - destruct (has (add f fs) g) eqn:E2; [|reflexivity].
    apply has_add in E2 as [->|E2]; congruence.
Qed.
Lemma has_write_other : forall f s g, g <> f -> has (files (write f s)) g = has (files s) g.
Proof. intros; cbn [files write]; apply has_add_other; assumption. Qed.
Lemma has_gwrite_other : forall o f s g, g <> f -> has (files (gwrite o f s)) g = has (files s) g.
Proof. intros o f s g H; unfold gwrite; destruct (outdir o); cbn; [apply has_add_other; assumption|reflexivity]. Qed.

Lemma save_sl_mean : forall f s, has (files (save_sl fixed f s)) (FMean f) = sl_res s.
Proof.
  intros f s. unfold save_sl. cbn [fix_mean fixed]. rewrite andb_true_r.
  destruct (sl_res s); cbn [negb].
  - apply has_write. auto.
  - destruct (has (files _) (FMean f)) eqn:E; [|reflexivity].
    apply has_write_samples in E as [(k & _ & Hk)|E]; [discriminate|].
    cbn [files unlink] in E. apply has_del in E as [E _]. congruence.
Qed.

Lemma save_block_mean : forall o i s, outdir o = true ->
  has (files (save_block fixed o i s)) (FMean (fn o i)) = sl_res s.
Proof.
  intros o i s Ho. unfold save_block. rewrite Ho.
  set (s2 := if save_all o then (if export o then write (FExport (fn o i)) s else s)
             else unlink FLast (if export o then write (FExport (fn o i)) s else s)).
  assert (Hs : has (files (save_sl fixed (fn o i) s2)) (FMean (fn o i)) = sl_res s).
  { rewrite save_sl_mean. unfold s2. destruct (export o), (save_all o); reflexivity. }
  destruct (plot_e o); [destruct (0 <? i)|]; rewrite ?has_write_other by discriminate; exact Hs.
Qed.

Lemma mean_file_iff_residual : forall o e i s s' b,
  iteration fixed o e i s = Ok (s', b) -> dry o = false -> outdir o = true ->
  has (files s') (FMean (fn o i)) = sl_res s'.
Proof.
  intros o e i s s' b. rewrite iteration_eq. intros H Hd Ho. rewrite Hd in H.
  destruct (negb (sic o) && _); [discriminate|].
  destruct (report_block _ _ _ _ _) as [s1|] eqn:Hr; [|discriminate].
  rewrite (surjective_pairing (callbacks fixed o i s1)) in H. injection H as <- _.
  destruct (files_callbacks fixed o i s1) as [C1 _]. destruct (sl_callbacks fixed o i s1) as [_ C2].
  rewrite C1, C2.
  pose proof (sl_report_block _ _ _ _ _ _ Hr) as [_ R2]. rewrite R2.
  destruct (sl_save_block fixed o i (minimise o i (enter o i s))) as [_ S2]. rewrite S2.
  rewrite <- (save_block_mean o i (minimise o i (enter o i s)) Ho).
  revert Hr. unfold report_block, glob_set. cbn [fix_global fixed]. rewrite Ho.
  destruct (negb (i =? 0) && negb _ && negb _); [discriminate|].
  intros H; injection H as <-.
  rewrite has_gwrite_other, has_write_other by discriminate.
  destruct (plot_m o); rewrite ?has_gwrite_other by discriminate; reflexivity.
Qed.

Lemma orig_stale_mean :
  exists o e r, valid o e /\ run orig o e = Ok r /\ r_res r = false /\ has (r_files r) (FMean Latest) = true.
Proof.
  exists (mkOpts 2 (fun i => if i =? 0 then 2 else 0) true true false false false false true false (fun _ => true) false
                 (fun _ => false) 2 (fun _ => false) true false 0), e_base.
  eexists. split; [apply valid_concrete; cbn; auto|].
  split; [vm_compute; reflexivity|]. cbn. auto.
Qed.

(* ---- which seed sequence an iteration pushes ---- *)
Lemma src_of_le : forall f i, src_of f i <= i.
Proof. induction i; cbn; [lia|]. destruct (f (S i)); lia. Qed.
Lemma src_of_fresh : forall f i, f 0 = true -> f (src_of f i) = true.
Proof. intros f i H0. induction i; cbn; [assumption|]. destruct (f (S i)) eqn:E; assumption. Qed.
Lemma src_of_id : forall f i, f i = true -> src_of f i = i.
Proof. intros f [|i] H; cbn; [reflexivity|]. rewrite H. reflexivity. Qed.
Lemma src_of_stale : forall f i, f (S i) = false -> src_of f (S i) = src_of f i.
Proof. intros f i H; cbn. rewrite H. reflexivity. Qed.

Lemma acts_write_samples : forall f n s, acts (write_samples f n s) = acts s.
Proof. induction n; intros; cbn; auto. Qed.
Lemma acts_save_sl : forall v f s, acts (save_sl v f s) = acts s.
Proof.
  intros; unfold save_sl. destruct (sl_res s), (fix_mean v); cbn; rewrite acts_write_samples; reflexivity.
Qed.
Lemma acts_save_block : forall v o i s, acts (save_block v o i s) = acts s.
Proof.
  intros; unfold save_block. destruct (outdir o); [|reflexivity].
  destruct (plot_e o); [destruct (0 <? i)|]; cbn [acts write]; rewrite ?acts_save_sl;
    destruct (export o), (save_all o); reflexivity.
Qed.
Lemma acts_gwrite : forall o f s, acts (gwrite o f s) = acts s.
Proof. intros; unfold gwrite; destruct (outdir o); reflexivity. Qed.
Lemma acts_report_block : forall v o e i s s1, report_block v o e i s = Ok s1 -> acts s1 = acts s.
Proof.
  intros v o e i s s1. unfold report_block.
  destruct (glob_set v o e); [|intros H; injection H as <-; reflexivity].
  destruct (negb (i =? 0) && negb _ && negb _); [discriminate|].
  intros H; injection H as <-. rewrite acts_gwrite.
  destruct (outdir o), (plot_m o); cbn [acts write]; rewrite ?acts_gwrite; reflexivity.
Qed.

Lemma iteration_pushes_src : forall v o e i s s' b,
  iteration v o e i s = Ok (s', b) -> In (APush i (src_of (fresh o) i)) (acts s').
Proof.
  intros v o e i s s' b. rewrite iteration_eq.
  assert (He : In (APush i (src_of (fresh o) i)) (acts (enter o i s))).
  { unfold enter. destruct (trans o i); cbn; auto. }
  destruct (dry o).
  - intros H; injection H as <- _. destruct (fix_pop v); cbn; auto.
  - destruct (negb (sic o) && _); [discriminate|].
    destruct (report_block _ _ _ _ _) as [s1|] eqn:Hr; [|discriminate].
    intros H. rewrite (surjective_pairing (callbacks v o i s1)) in H. injection H as <- _.
    apply acts_report_block in Hr. rewrite acts_save_block in Hr.
    assert (Hm : In (APush i (src_of (fresh o) i)) (acts s1)).
    { rewrite Hr. unfold minimise. destruct (nsamp o i =? 0); cbn; auto. }
    unfold callbacks.
    destruct (inspect_args o =? 0), (term_given o), (term o i), (fix_pop v); cbn; auto 10.
Qed.

Lemma orig_fresh_dir :
  exists o e, valid o e /\ init_index o = 1 /\ outdir o = true /\
              run (mkVar true true true true false) o e = Err ENotFound /\
              exists r, run fixed o e = Ok r.
Proof.
  exists (mkOpts 3 (fun _ => 2) true true false false false false true false (fun _ => true) false
                 (fun _ => false) 2 (fun _ => false) true false 1), e_base.
  split; [unfold valid; cbn; repeat split; auto; try lia; discriminate|].
  split; [reflexivity|]. split; [reflexivity|]. split; [vm_compute; reflexivity|].
  eexists. vm_compute. reflexivity.
Qed.

(* ---- round 7: the resume marker names an iteration of this run ---- *)
Lemma marker_step_bound : forall o i m bound,
  i < bound -> (forall x, m = Some x -> x < bound) ->
  forall x, marker_step o i m = Some x -> x < bound.
Proof.
  intros o i m bound Hi Hm x. unfold marker_step.
  destruct (dry o); [apply Hm|]. destruct (outdir o); [|apply Hm].
  intro H; inversion H; subst; exact Hi.
Qed.

Lemma marker_loop_bound : forall v o e is s m bound,
  (forall i, In i is -> i < bound) -> (forall x, m = Some x -> x < bound) ->
  forall x, marker_loop v o e is s m = Some x -> x < bound.
Proof.
  intros v o e is. induction is as [|i r IH]; intros s m bound Hin Hm x; simpl.
  - apply Hm.
  - destruct (iteration v o e i s) as [[s' b]|er].
    + destruct b.
      * apply marker_step_bound; [apply Hin; left; reflexivity|exact Hm].
      * apply IH; [intros j Hj; apply Hin; right; exact Hj|].
        apply marker_step_bound; [apply Hin; left; reflexivity|exact Hm].
    + apply Hm.
Qed.

Lemma marker_below_total : forall v o e x,
  (forall l, last0 e = Some l -> l < total o) ->
  marker_after v o e = Some x -> x < total o.
Proof.
  intros v o e x H0. unfold marker_after.
  destruct (prepare v o e) as [[[[s first] loaded] early]|er]; [|apply H0].
  destruct early; [apply H0|].
  apply marker_loop_bound; [|exact H0].
  intros i Hi. apply in_seq in Hi. lia.
Qed.

Lemma marker_dry_unchanged : forall v o e,
  dry o = true -> marker_after v o e = last0 e.
Proof.
  intros v o e Hd. unfold marker_after.
  destruct (prepare v o e) as [[[[s first] loaded] early]|er]; [|reflexivity].
  destruct early; [reflexivity|].
  generalize (seq first (total o - first)) as is. intro is. revert s.
  induction is as [|i r IH]; intro s; simpl; [reflexivity|].
  unfold marker_step at 1 2. rewrite Hd.
  destruct (iteration v o e i s) as [[s' b]|er]; [|reflexivity].
  destruct b; [reflexivity|]. apply IH.
Qed.
