(* C27 -- executable model of the control flow of nifty.cl.minimization.optimize_kl (no proofs here).

   The model follows nifty/cl/minimization/optimize_kl.py statement by statement for everything
   that decides (a) which exception, if any, leaves the function for a configuration, (b) the
   pushes and pops on the global RNG stack, (c) which callbacks / minimiser calls happen in which
   order, (d) which files exist afterwards, (e) the shape of the returned value.  Numerical
   content (what the minimiser computes) is abstract.

   The model has four switches (record [variant]) for the four defects found in the pinned tree;
   [fixed] is the code with fixes/C27-1..4.patch applied (= /repo HEAD since round 2), [orig] the pinned code:

     fix_pop     (C27-1)   if dry_run: ...; pop_sseq(); continue
                           if _handle_terminate_callback(...): pop_sseq(); break
                 orig:     continue / break without pop_sseq()
     fix_iglobal (C27-2)   check_MPI_synced_random_state(comm(initial_index))
                 orig:     ... comm(iglobal)  -- `iglobal` is only bound by the loop inside
                           `if sanity_checks:` => UnboundLocalError when sanity_checks=False
     fix_global  (C27-3)   _output_directory = output_directory; _save_strategy = save_strategy
                           unconditionally
                 orig:     only inside `if output_directory is not None:` => a call with
                           output_directory=None keeps writing into the directory of an earlier call
     fix_mean    (C27-4)   SampleList.save(.., overwrite=True) removes a stale "<base>.mean.pickle"
                 orig:     the mean file of an earlier ResidualSampleList with the same name stays;
                           on resume the files are taken for a ResidualSampleList (the real loader
                           then raises KeyError; the [orig] model only records the stale file)

     fix_mh      (C27-5)   _minisanity: mh = {...} if iglobal == 0 or not _pickle_values_exist(iglobal - 1, ..)
                 orig:     mh = {...} only if iglobal == 0, otherwise _pickle_load_values(iglobal - 1, ..)
                           => initial_index > 0 with a fresh output directory raises FileNotFoundError
                           (which of the two forms the CURRENT source has is read from the source on
                           every run: tr/c27_variant.py -> Gen_Variant.v : head_variant)

   Source lines are quoted next to the definitions. *)
From Coq Require Import List Bool Arith Lia.
Import ListNotations.

Record variant := mkVar { fix_pop : bool; fix_iglobal : bool; fix_global : bool; fix_mean : bool; fix_mh : bool }.
Definition fixed : variant := mkVar true true true true true.
Definition orig : variant := mkVar false false false false false.

(* ---- files (relative to the output directory) ---- *)
Inductive fname := Latest | Iter (i : nat).          (* _file_name_by_strategy *)
Inductive file :=
| FRandomState                    (* pickle/nifty_random_state *)
| FSample (f : fname) (k : nat)   (* pickle/<f>.<k>.pickle *)
| FMean (f : fname)               (* pickle/<f>.mean.pickle *)
| FLast                           (* last_finished_iteration *)
| FEnergyHist (f : fname)         (* pickle/energy_history_<f> *)
| FEnergyPlot (f : fname)         (* energy_history/energy_history_<f>.png *)
| FEnergyChangePlot (f : fname)   (* energy_history/energy_change_history_<f>.png *)
| FMinisanityTxt                  (* minisanity.txt *)
| FMinisanityHist (f : fname)     (* pickle/minisanity_history_<f> *)
| FMinisanityPlot (f : fname)     (* minisanity_history/minisanity_history_<f>.png *)
| FCounting                       (* counting_report.txt *)
| FExport (f : fname).            (* <name>/<f>.hdf5 *)

Definition fname_eqb (a b : fname) : bool :=
  match a, b with Latest, Latest => true | Iter i, Iter j => Nat.eqb i j | _, _ => false end.
Definition file_eqb (a b : file) : bool :=
  match a, b with
  | FRandomState, FRandomState | FLast, FLast | FMinisanityTxt, FMinisanityTxt | FCounting, FCounting => true
  | FSample f k, FSample g l => fname_eqb f g && Nat.eqb k l
  | FMean f, FMean g | FEnergyHist f, FEnergyHist g | FEnergyPlot f, FEnergyPlot g
  | FEnergyChangePlot f, FEnergyChangePlot g | FMinisanityHist f, FMinisanityHist g
  | FMinisanityPlot f, FMinisanityPlot g | FExport f, FExport g => fname_eqb f g
  | _, _ => false
  end.
Definition has (fs : list file) (f : file) : bool := existsb (file_eqb f) fs.
Definition add (f : file) (fs : list file) : list file := if has fs f then fs else f :: fs.
Definition del (f : file) (fs : list file) : list file := filter (fun g => negb (file_eqb f g)) fs.

(* ---- configuration ---- *)
Record opts := mkOpts {
  total : nat;               (* total_iterations *)
  nsamp : nat -> nat;        (* n_samples(iglobal) *)
  sic : bool;                (* sampling_iteration_controller is not None *)
  outdir : bool;             (* output_directory is not None *)
  save_all : bool;           (* save_strategy == "all" *)
  plot_e : bool;             (* plot_energy_history *)
  plot_m : bool;             (* plot_minisanity_history *)
  resume : bool;
  sanity : bool;             (* sanity_checks *)
  dry : bool;                (* dry_run *)
  fresh : nat -> bool;       (* fresh_stochasticity(iglobal) *)
  term_given : bool;         (* terminate_callback is not None *)
  term : nat -> bool;        (* terminate_callback(iglobal)   (None: lambda x: False) *)
  inspect_args : nat;        (* number of parameters of inspect_callback; 0 stands for None
                                (_make_callable(None) = lambda x: None: one parameter, nothing observable) *)
  trans : nat -> bool;       (* transitions(iglobal) is not None *)
  ret_pos : bool;            (* return_final_position *)
  export : bool;             (* export_operator_outputs has one (matching) entry *)
  init_index : nat           (* initial_index *)
}.

(* what the function finds when it is called *)
Record env := mkEnv {
  depth0 : nat;              (* len(nifty.cl.random._sseq) at entry *)
  files0 : list file;        (* content of output_directory *)
  last0 : option nat;        (* content of last_finished_iteration, if the file exists *)
  saved_depth : nat;         (* depth of the stack pickled in pickle/nifty_random_state *)
  stale : bool;              (* module global _output_directory is not None (left by an earlier call) *)
  stale_all : bool           (* module global _save_strategy == "all" (left by an earlier call) *)
}.

Inductive error := EValue | EAssert | EUnbound | ENotFound | EOther.

Inductive action :=
| APush (i src : nat) | APop        (* push_sseq(sseqs[i]); sseqs[i] is child number src of spawn_sseq(total) *)
| ATransition (i : nat)                 (* t(sl) applied *)
| AMinimise (i n : nat)                 (* minimizer(e) with n = 0 (EnergyAdapter) or n_samples (SampledKLEnergy) *)
| AInspect (i depth : nat)              (* inspect_callback called; RNG stack depth at that moment *)
| ATerminate (i : nat) (b : bool).

Record lstate := mkL {
  depth : nat;               (* len(_sseq) *)
  acts : list action;        (* newest first *)
  files : list file;         (* output_directory *)
  foreign : list file;       (* written into the directory of an EARLIER call (stale global) *)
  sl_n : nat;                (* sl.n_samples *)
  sl_res : bool              (* sl is a ResidualSampleList *)
}.

Inductive outcome (A : Type) := Ok (a : A) | Err (e : error).
Arguments Ok {A}. Arguments Err {A}.

Definition fn (o : opts) (i : nat) : fname := if save_all o then Iter i else Latest.

(* is the module global _output_directory set during this call? *)
Definition glob_set (v : variant) (o : opts) (e : env) : bool :=
  if fix_global v then outdir o else outdir o || stale e.

(* file name through the module global _save_strategy *)
Definition gfn (o : opts) (e : env) (i : nat) : fname :=
  if outdir o then fn o i else if stale_all e then Iter i else Latest.

(* write a file through the module global: into the current directory if this call has one,
   otherwise (orig only) into the stale one *)
Definition gwrite (o : opts) (f : file) (s : lstate) : lstate :=
  if outdir o then mkL (depth s) (acts s) (add f (files s)) (foreign s) (sl_n s) (sl_res s)
  else mkL (depth s) (acts s) (files s) (add f (foreign s)) (sl_n s) (sl_res s).
Definition write (f : file) (s : lstate) : lstate :=
  mkL (depth s) (acts s) (add f (files s)) (foreign s) (sl_n s) (sl_res s).
Definition unlink (f : file) (s : lstate) : lstate :=
  mkL (depth s) (acts s) (del f (files s)) (foreign s) (sl_n s) (sl_res s).
Definition act (a : action) (s : lstate) : lstate :=
  mkL (depth s) (a :: acts s) (files s) (foreign s) (sl_n s) (sl_res s).
Definition set_depth (d : nat) (s : lstate) : lstate :=
  mkL d (acts s) (files s) (foreign s) (sl_n s) (sl_res s).
Definition set_sl (n : nat) (r : bool) (s : lstate) : lstate :=
  mkL (depth s) (acts s) (files s) (foreign s) n r.

(* sseqs = spawn_sseq(total_iterations)
   for iglobal in range(total_iterations):
       if not fresh_stochasticity(iglobal): ... sseqs[iglobal] = <copy of sseqs[iglobal-1]>
   (the loop starts at 0 whatever initial_index / the resume point is): sseqs[i] is the child of the
   last iteration <= i with fresh stochasticity *)
Fixpoint src_of (f : nat -> bool) (i : nat) : nat :=
  match i with
  | O => O
  | S k => if f (S k) then S k else src_of f k
  end.

Definition push (i j : nat) (s : lstate) : lstate := act (APush i j) (set_depth (S (depth s)) s).
Definition pop (s : lstate) : lstate := act APop (set_depth (pred (depth s)) s).

Fixpoint write_samples (f : fname) (n : nat) (s : lstate) : lstate :=
  match n with O => s | S k => write (FSample f k) (write_samples f k s) end.

(*  sl.save(join(output_directory, "pickle/") + _file_name_by_strategy(iglobal), overwrite=True)
      _ensure_proper_sample_list_ending(_sample_file_name(base, self.n_samples), overwrite, comm)
          -> unlink(missing_ok=True) of the "next" sample
      SampleList only, [fix_mean]: pathlib.Path(base + ".mean.pickle").unlink(missing_ok=True)
      for isample in local_indices: _save_to_disk(_sample_file_name(base, isample), ...)
      ResidualSampleList only: _save_to_disk(base + ".mean.pickle", ...)                       *)
Definition save_sl (v : variant) (f : fname) (s : lstate) : lstate :=
  let s0 := unlink (FSample f (sl_n s)) s in
  let s0 := if negb (sl_res s) && fix_mean v then unlink (FMean f) s0 else s0 in
  let s1 := write_samples f (sl_n s) s0 in
  if sl_res s then write (FMean f) s1 else s1.

(* ---- one pass through the body of `for iglobal in range(initial_index, total_iterations):` ---- *)

(* push_sseq(sseqs[iglobal]);  t = transitions(iglobal); mean = mean if t is None else t(sl) *)
Definition enter (o : opts) (i : nat) (s : lstate) : lstate :=
  let s := push i (src_of (fresh o) i) s in if trans o i then act (ATransition i) s else s.

(* if n_samples(iglobal) == 0: e = EnergyAdapter(...); e, _ = minimizer(e); sl = SampleList([mean])
   else: e = SampledKLEnergy(...); e, _ = minimizer(e); sl = e.samples.at(mean)     [2 n mirrored samples] *)
Definition minimise (o : opts) (i : nat) (s : lstate) : lstate :=
  let s := act (AMinimise i (nsamp o i)) s in
  if nsamp o i =? 0 then set_sl 1 false s else set_sl (2 * nsamp o i) true s.

(* if output_directory is not None:
       _export_operators(...)
       if save_strategy == "latest": _remove_last_finished_index()      [marker invalidated while the
                                                                         files are overwritten in place]
       sl.save(...)
       _pickle_save_values(iglobal, 'energy_history', ...)
       if plot_energy_history: _plot_energy_history(iglobal, ...)   [second plot only `if index > 0`] *)
Definition save_block (v : variant) (o : opts) (i : nat) (s : lstate) : lstate :=
  if outdir o then
    let s := if export o then write (FExport (fn o i)) s else s in
    let s := if save_all o then s else unlink FLast s in
    let s := save_sl v (fn o i) s in
    let s := write (FEnergyHist (fn o i)) s in
    if plot_e o then
      let s := write (FEnergyPlot (fn o i)) s in
      if 0 <? i then write (FEnergyChangePlot (fn o i)) s else s
    else s
  else s.

(* _minisanity(lh, iglobal, sl, comm, plot_minisanity_history):
     _report_to_logger_and_file(s, "minisanity.txt", ...)   [file only if _output_directory is not None]
     if _MPI_master(..) and _output_directory is not None:
         mh = {...} if iglobal == 0 [or not _pickle_values_exist(iglobal - 1, ..)]
              else _pickle_load_values(iglobal - 1, 'minisanity_history')
         ...; _pickle_save_values(iglobal, 'minisanity_history', mh)
         if plot_minisanity_history: _plot_minisanity_history(iglobal, mh)
   if output_directory is not None and _MPI_master(..): _save_last_finished_index(iglobal)
                                                             [marker last, written to .tmp and os.replace'd]
   _counting_report(count, iglobal, comm)                    [file only if _output_directory is not None] *)
Definition report_block (v : variant) (o : opts) (e : env) (i : nat) (s : lstate) : outcome lstate :=
  if glob_set v o e then
    let s := gwrite o FMinisanityTxt s in
    (* (orig only) the content of a stale directory is unknown: assumed present *)
    let present := if outdir o then has (files s) (FMinisanityHist (fn o (pred i))) else true in
    if negb (i =? 0) && negb present && negb (fix_mh v) then Err ENotFound else
    let s := gwrite o (FMinisanityHist (gfn o e i)) s in
    let s := if plot_m o then gwrite o (FMinisanityPlot (gfn o e i)) s else s in
    let s := if outdir o then write FLast s else s in
    Ok (gwrite o FCounting s)
  else Ok s.

(* _handle_inspect_callback(inspect_callback, sl, iglobal)
   if _handle_terminate_callback(terminate_callback, iglobal, comm): [pop_sseq()]; break
   lh = None; pop_sseq()                                                                       *)
Definition callbacks (v : variant) (o : opts) (i : nat) (s : lstate) : lstate * bool :=
  let s := if inspect_args o =? 0 then s else act (AInspect i (depth s)) s in
  let s := if term_given o then act (ATerminate i (term o i)) s else s in
  if term_given o && term o i then (if fix_pop v then pop s else s, true) else (pop s, false).

(* result: new state and whether the loop was left by `break` *)
Definition iteration (v : variant) (o : opts) (e : env) (i : nat) (s : lstate)
  : outcome (lstate * bool) :=
  (* if dry_run: logger.info(...); [pop_sseq()]; continue *)
  if dry o then Ok (if fix_pop v then pop (enter o i s) else enter o i s, false) else
  (* without a sampling_iteration_controller samples cannot be drawn *)
  if negb (sic o) && negb (nsamp o i =? 0) then Err EOther else
  match report_block v o e i (save_block v o i (minimise o i (enter o i s))) with
  | Err x => Err x
  | Ok s1 => Ok (callbacks v o i s1)
  end.

Fixpoint loop (v : variant) (o : opts) (e : env) (is : list nat) (s : lstate)
  : outcome lstate :=
  match is with
  | [] => Ok s
  | i :: r =>
    match iteration v o e i s with
    | Err x => Err x
    | Ok (s', true) => Ok s'
    | Ok (s', false) => loop v o e r s'
    end
  end.

(* number of consecutive sample files <f>.0.pickle, <f>.1.pickle, ... (SampleListBase._list_local_sample_files) *)
Fixpoint count_samples (fs : list file) (f : fname) (k fuel : nat) : nat :=
  match fuel with
  | O => k
  | S fuel' => if has fs (FSample f k) then count_samples fs f (S k) fuel' else k
  end.

Record result := mkR {
  r_tuple : bool;            (* a pair (sl, mean) is returned *)
  r_n : nat;                 (* sl.n_samples *)
  r_res : bool;              (* isinstance(sl, ResidualSampleList) *)
  r_depth : nat;             (* len(_sseq) at return *)
  r_state_loaded : bool;     (* _load_random_state() was executed *)
  r_acts : list action;      (* oldest first *)
  r_files : list file;
  r_foreign : list file
}.

Definition finish (o : opts) (loaded : bool) (s : lstate) : result :=
  mkR (ret_pos o) (sl_n s) (sl_res s) (depth s) loaded (rev (acts s)) (files s) (foreign s).

Fixpoint first_false (f : nat -> bool) (n : nat) : option nat :=   (* smallest i < n with f i = false *)
  match n with
  | O => None
  | S k => match first_false f k with Some i => Some i | None => if f k then None else Some k end
  end.
Fixpoint exists_lt (f : nat -> bool) (n : nat) : bool :=
  match n with O => false | S k => f k || exists_lt f k end.

(* if output_directory is not None: makedirs...;
      if resume and isfile(lfile):
          initial_index = last_finished_index + 1; fname = _file_name_by_strategy(last_finished_index)
          if isfile(fname + ".mean.pickle"): ResidualSampleList.load ...
          else: sl = SampleList.load(fname); myassert(sl.n_samples == 1)
          if initial_index == total_iterations: return ...
          _load_random_state(); energy_history = _pickle_load_values(last_finished_index, 'energy_history')
      else: check_MPI_synced_random_state(comm(iglobal | initial_index)); _save_random_state()
   result: state, initial_index, whether the pickled RNG state was loaded, whether the function returns at once *)
Definition prepare (v : variant) (o : opts) (e : env) : outcome (lstate * nat * bool * bool) :=
  (* sl = _single_value_sample_list(mean, ...) *)
  let s0 := mkL (depth0 e) [] (files0 e) [] 1 false in
  if outdir o then
    match last0 e with
    | Some l =>
      if resume o then
        let f := fn o l in
        let n := count_samples (files0 e) f 0 (length (files0 e)) in
        if has (files0 e) (FMean f) then
          if S l =? total o then Ok (set_sl n true s0, S l, false, true)
          else if has (files0 e) FRandomState && has (files0 e) (FEnergyHist f)
               then Ok (set_depth (saved_depth e) (set_sl n true s0), S l, true, false)
               else Err ENotFound
        else if n =? 0 then Err ENotFound
        else if negb (n =? 1) then Err EAssert
        else if S l =? total o then Ok (set_sl 1 false s0, S l, false, true)
        else if has (files0 e) FRandomState && has (files0 e) (FEnergyHist f)
             then Ok (set_depth (saved_depth e) (set_sl 1 false s0), S l, true, false)
             else Err ENotFound
      else if negb (fix_iglobal v) && negb (sanity o) then Err EUnbound
      else Ok (write FRandomState s0, init_index o, false, false)
    | None =>
      if negb (fix_iglobal v) && negb (sanity o) then Err EUnbound
      else Ok (write FRandomState s0, init_index o, false, false)
    end
  else Ok (s0, init_index o, false, false).

Definition run (v : variant) (o : opts) (e : env) : outcome result :=
  (* if output_directory is None and resume: raise ValueError *)
  if negb (outdir o) && resume o then Err EValue else
  (* if initial_index >= total_iterations: raise ValueError *)
  if total o <=? init_index o then Err EValue else
  (* if _number_of_arguments(inspect_callback) not in [1, 2]: raise ValueError *)
  if negb ((inspect_args o =? 0) || (inspect_args o =? 1) || (inspect_args o =? 2)) then Err EValue else
  (* if sanity_checks: for iglobal in range(...):
         if sampling_iteration_controller(iglobal) is None: myassert(n_samples(iglobal) == 0) *)
  if sanity o && negb (sic o) && exists_lt (fun i => negb (nsamp o i =? 0)) (total o) then Err EAssert else
  match prepare v o e with
  | Err x => Err x
  | Ok (s, first, loaded, early) =>
    (* if initial_index == total_iterations: return (sl, mean) if return_final_position else sl *)
    if early then Ok (finish o loaded s) else
    (* for iglobal in range(total_iterations): if not fresh_stochasticity(iglobal): if iglobal == 0: raise ValueError *)
    if negb (fresh o 0) then Err EValue else
    match loop v o e (seq first (total o - first)) s with
    | Err x => Err x
    | Ok s' => Ok (finish o loaded s')
    end
  end.

(* ---- round 7: CONTENT of the resume marker `last_finished_iteration` after the call ----
   _remove_last_finished_index()  (save_strategy "latest", before the in-place overwrite) and
   _save_last_finished_index(iglobal)  (after _minisanity: f.write(str(index)); os.replace) are the only
   statements touching it; both sit behind `if output_directory is not None` and behind the `continue` of
   a dry run; the `break` of the terminate callback comes after the marker has been written. *)
Definition marker_step (o : opts) (i : nat) (m : option nat) : option nat :=
  if dry o then m else if outdir o then Some i else m.
Fixpoint marker_loop (v : variant) (o : opts) (e : env) (is : list nat) (s : lstate) (m : option nat)
  : option nat :=
  match is with
  | [] => m
  | i :: r =>
    match iteration v o e i s with
    | Err _ => m
    | Ok (_, true) => marker_step o i m
    | Ok (s', false) => marker_loop v o e r s' (marker_step o i m)
    end
  end.
(* what a later call with resume=True reads from the file (None: no file) *)
Definition marker_after (v : variant) (o : opts) (e : env) : option nat :=
  match prepare v o e with
  | Err _ => last0 e
  | Ok (s, first, _, early) =>
    if early then last0 e else marker_loop v o e (seq first (total o - first)) s (last0 e)
  end.
Definition optnat_eqb (a b : option nat) : bool :=
  match a, b with Some x, Some y => Nat.eqb x y | None, None => true | _, _ => false end.
(* compared only for calls that returned normally *)
Definition marker_ok (v : variant) (o : opts) (e : env) (code : nat) (m : option nat) : bool :=
  if Nat.eqb code 0 then optnat_eqb (marker_after v o e) m else true.

(* ---- documented preconditions on a configuration and on what is found on disk ---- *)
Definition valid (o : opts) (e : env) : Prop :=
  init_index o < total o /\
  (resume o = true -> outdir o = true) /\
  inspect_args o <= 2 /\
  (sic o = false -> forall i, nsamp o i = 0) /\
  fresh o 0 = true /\
  1 <= depth0 e /\
  (* a directory to be resumed from has been left by a completed iteration `l` of a run with the
     same save strategy: marker, samples (plain: exactly one), energy and minisanity history,
     random state *)
  (outdir o = true -> resume o = true -> forall l, last0 e = Some l ->
     has (files0 e) FRandomState = true /\ has (files0 e) (FEnergyHist (fn o l)) = true /\
     has (files0 e) (FMinisanityHist (fn o l)) = true /\
     (has (files0 e) (FMean (fn o l)) = true \/
      count_samples (files0 e) (fn o l) 0 (length (files0 e)) = 1)).

(* ---- observation helpers for the correspondence ---- *)
Definition action_eqb (a b : action) : bool :=
  match a, b with
  | ATransition i, ATransition j => Nat.eqb i j
  | APush i n, APush j m => Nat.eqb i j && Nat.eqb n m
  | APop, APop => true
  | AMinimise i n, AMinimise j m | AInspect i n, AInspect j m => Nat.eqb i j && Nat.eqb n m
  | ATerminate i b1, ATerminate j b2 => Nat.eqb i j && Bool.eqb b1 b2
  | _, _ => false
  end.
Fixpoint list_eqb {A} (f : A -> A -> bool) (a b : list A) : bool :=
  match a, b with
  | [], [] => true
  | x :: a', y :: b' => f x y && list_eqb f a' b'
  | _, _ => false
  end.
Definition subset (a b : list file) : bool := forallb (has b) a.
Definition same_files (a b : list file) : bool := subset a b && subset b a.

Definition err_code (x : error) : nat :=
  match x with EValue => 1 | EAssert => 2 | EUnbound => 3 | ENotFound => 4 | EOther => 5 end.

(* expected observation: error code, or (tuple?, n, residual?, depth at return, actions, files, foreign files) *)
Definition observed := (nat * (bool * nat * bool * nat) * list action * list file * list file)%type.
Definition run_ok (v : variant) (o : opts) (e : env) (x : observed) : bool :=
  let '(code, (tup, n, rs, d), al, fl, fo) := x in
  match run v o e with
  | Err er => Nat.eqb code (err_code er)
  | Ok r => Nat.eqb code 0 && Bool.eqb tup (r_tuple r) && Nat.eqb n (r_n r) && Bool.eqb rs (r_res r) &&
            Nat.eqb d (r_depth r) && list_eqb action_eqb al (r_acts r) &&
            same_files fl (r_files r) && same_files fo (r_foreign r)
  end.

(* finite tables as functions *)
Definition tabn (l : list nat) (i : nat) : nat := nth i l (last l 0).
Definition tabb (l : list bool) (i : nat) : bool := nth i l (last l false).
