(* C27 -- property theorems only.  [fixed] is the control flow of nifty.cl.minimization.optimize_kl
   with fixes/C27-1..5.patch applied, [orig] the pinned control flow (see Model.v). *)
From Coq Require Import List Bool Arith Lia.
Import ListNotations.
Require Import NV.C27.Model NV.C27.Proofs.

(* Every configuration that meets the documented preconditions -- initial_index < total_iterations
   (also on a fresh output directory: fix C27-5), resume
   only with an output directory, an inspect callback of one or two parameters (or none), no
   samples without a sampling controller, fresh stochasticity in iteration 0, and, when resuming,
   a directory left by a completed iteration -- runs to completion: for every number of
   iterations, every per-iteration number of samples, every combination of output directory, save
   strategy, plotting, export, sanity checks, dry run, transitions, callbacks, terminate pattern,
   fresh-stochasticity pattern, return_final_position.  No branch raises. *)
Theorem C27_total : forall (o : opts) (e : env), valid o e -> exists r : result, run fixed o e = Ok r.
Proof. exact total_ok. Qed.

(* The global RNG stack is balanced: at return its depth is the depth at entry -- or, when a
   resumed run has loaded the pickled random state (setState), the depth of that pickled stack --
   for EVERY option record (valid or not: whenever the function returns), including dry_run,
   termination by the callback and resume with nothing left to do. *)
Theorem C27_rng_balanced : forall (o : opts) (e : env) (r : result),
  run fixed o e = Ok r ->
  r_depth r = (if r_state_loaded r then saved_depth e else depth0 e).
Proof. exact rng_balanced. Qed.

(* ... already per iteration, whichever way the loop body is left (continue / break / end) *)
Theorem C27_iteration_balanced : forall (o : opts) (e : env) (i : nat) (s s' : lstate) (b : bool),
  iteration fixed o e i s = Ok (s', b) -> depth s' = depth s.
Proof. exact iteration_depth. Qed.

(* Result shape: a pair is returned iff return_final_position; after an executed iteration the
   sample list is a one-element plain list for zero samples and 2n mirrored residual samples
   otherwise; a dry run leaves sample list and files alone and never breaks. *)
Theorem C27_result_tuple : forall (v : variant) (o : opts) (e : env) (r : result),
  run v o e = Ok r -> r_tuple r = ret_pos o.
Proof. exact result_tuple. Qed.

Theorem C27_result_shape : forall (v : variant) (o : opts) (e : env) (i : nat) (s s' : lstate) (b : bool),
  iteration v o e i s = Ok (s', b) -> dry o = false ->
  sl_n s' = (if nsamp o i =? 0 then 1 else 2 * nsamp o i) /\ sl_res s' = negb (nsamp o i =? 0).
Proof. exact iteration_result. Qed.

Theorem C27_dry_run : forall (v : variant) (o : opts) (e : env) (i : nat) (s s' : lstate) (b : bool),
  iteration v o e i s = Ok (s', b) -> dry o = true ->
  sl_n s' = sl_n s /\ sl_res s' = sl_res s /\ files s' = files s /\ b = false.
Proof. exact iteration_dry. Qed.

(* Files: nothing is ever written into the directory of an earlier call, and with
   output_directory=None nothing is written at all; every new file carries the name the save
   strategy prescribes ("latest", or "iteration_i" with i < total_iterations). *)
Theorem C27_files_only_in_outdir : forall (o : opts) (e : env) (r : result),
  run fixed o e = Ok r ->
  r_foreign r = [] /\ (outdir o = false -> r_files r = files0 e).
Proof. exact no_foreign_no_stray. Qed.

Theorem C27_files_follow_strategy : forall (o : opts) (e : env) (r : result) (g : file),
  run fixed o e = Ok r -> has (r_files r) g = true -> has (files0 e) g = true \/ name_ok o g.
Proof. exact files_follow_strategy. Qed.

(* The mean file tells the kind of the saved list: after every executed iteration with an output
   directory, "<name>.mean.pickle" exists iff the saved list is a ResidualSampleList (so a later
   resume loads what was saved, also under save_strategy="latest" when zero-sample and sampled
   iterations alternate). *)
Theorem C27_mean_file_iff_residual : forall (o : opts) (e : env) (i : nat) (s s' : lstate) (b : bool),
  iteration fixed o e i s = Ok (s', b) -> dry o = false -> outdir o = true ->
  has (files s') (FMean (fn o i)) = sl_res s'.
Proof. exact mean_file_iff_residual. Qed.

(* Which randomness an iteration uses: iteration i pushes child number src_of fresh i of
   spawn_sseq(total_iterations) -- the child of the last iteration <= i with fresh stochasticity --
   whatever the first iteration of THIS call is (initial_index, resume point): a run split into
   segments pushes exactly what the uninterrupted run pushes. *)
Theorem C27_push_source : forall (v : variant) (o : opts) (e : env) (i : nat) (s s' : lstate) (b : bool),
  iteration v o e i s = Ok (s', b) -> In (APush i (src_of (fresh o) i)) (acts s').
Proof. exact iteration_pushes_src. Qed.

Theorem C27_push_source_spec : forall (f : nat -> bool) (i : nat),
  src_of f i <= i /\ (f 0 = true -> f (src_of f i) = true) /\ (f i = true -> src_of f i = i) /\
  (f (S i) = false -> src_of f (S i) = src_of f i).
Proof.
  intros f i. split; [apply src_of_le|]. split; [apply src_of_fresh|]. split; [apply src_of_id|apply src_of_stale].
Qed.

(* ---- the pinned control flow is refuted on five counts (each witness is replayed on the
        implementation by the check: corpus/C27) ---- *)

(* F8: dry_run leaves total_iterations entries on the RNG stack, a terminate callback one *)
Theorem C27_orig_rng_leak_refuted :
  exists (o : opts) (e : env) (r : result),
    valid o e /\ run orig o e = Ok r /\ r_depth r <> depth0 e /\ r_state_loaded r = false.
Proof.
  exists (mkOpts 3 (fun _ => 2) true false false false false false true true (fun _ => true) false
                 (fun _ => false) 2 (fun _ => false) true false 0), e_base.
  eexists. split; [apply valid_concrete; cbn; auto|].
  split; [vm_compute; reflexivity|]. cbn. split; [discriminate|reflexivity].
Qed.

Theorem C27_orig_rng_leak_terminate_refuted :
  exists (o : opts) (e : env) (r : result),
    valid o e /\ run orig o e = Ok r /\ r_depth r <> depth0 e /\ r_state_loaded r = false.
Proof.
  exists (mkOpts 3 (fun _ => 2) true false false false false false true false (fun _ => true) true
                 (fun i => i =? 1) 2 (fun _ => false) true false 0), e_base.
  eexists. split; [apply valid_concrete; cbn; auto|].
  split; [vm_compute; reflexivity|]. cbn. split; [discriminate|reflexivity].
Qed.

(* sanity_checks=False with an output directory raises UnboundLocalError *)
Theorem C27_orig_unbound_refuted :
  exists (o : opts) (e : env), valid o e /\ run orig o e = Err EUnbound.
Proof.
  exists (mkOpts 2 (fun _ => 2) true true false false false false false false (fun _ => true) false
                 (fun _ => false) 2 (fun _ => false) true false 0), e_base.
  split; [apply valid_concrete; cbn; auto|vm_compute; reflexivity].
Qed.

(* output_directory=None after a call with a directory writes into that directory *)
Theorem C27_orig_stale_directory_refuted :
  exists (o : opts) (e : env) (r : result),
    valid o e /\ outdir o = false /\ run orig o e = Ok r /\ r_foreign r <> [].
Proof.
  exists (mkOpts 1 (fun _ => 2) true false false false false false true false (fun _ => true) false
                 (fun _ => false) 2 (fun _ => false) true false 0), (mkEnv 1 [] None 1 true false).
  eexists. split; [apply valid_concrete; cbn; auto|].
  split; [reflexivity|]. split; [vm_compute; reflexivity|]. cbn. discriminate.
Qed.

(* a zero-sample iteration after a sampled one under "latest" leaves the stale mean file next to
   the single plain sample (the real loader then takes it for a ResidualSampleList and raises) *)
Theorem C27_orig_stale_mean_refuted :
  exists (o : opts) (e : env) (r : result),
    valid o e /\ run orig o e = Ok r /\ r_res r = false /\ has (r_files r) (FMean Latest) = true.
Proof. exact orig_stale_mean. Qed.

(* initial_index = 1 with a fresh output directory: FileNotFoundError without fix C27-5, fine with it *)
Theorem C27_orig_fresh_dir_refuted :
  exists (o : opts) (e : env), valid o e /\ init_index o = 1 /\ outdir o = true /\
    run (mkVar true true true true false) o e = Err ENotFound /\ exists r, run fixed o e = Ok r.
Proof. exact orig_fresh_dir. Qed.

(* each fix is needed on its own: with only the other two applied the witness still fails *)
Theorem C27_each_fix_needed :
  (exists o e r, valid o e /\ run (mkVar false true true true true) o e = Ok r /\ r_depth r <> depth0 e /\ r_state_loaded r = false) /\
  (exists o e, valid o e /\ run (mkVar true false true true true) o e = Err EUnbound) /\
  (exists o e r, valid o e /\ outdir o = false /\ run (mkVar true true false true true) o e = Ok r /\ r_foreign r <> []).
Proof. exact each_fix_needed. Qed.

(* ---- non-vacuity: a valid configuration with output directory, resume from a directory left by
        iteration 0 of a two-sample run, termination by callback; the model returns, balanced ---- *)
(* a second call that continues the numbering of an earlier one (initial_index = 2 of 4, strategy
   "all", directory filled up to iteration 1): valid, returns, balanced, writes iteration_2/3 files *)
Example C27_initial_index_example :
  let o := mkOpts 4 (fun _ => 1) true true true false false false true false (fun _ => true) false
                  (fun _ => false) 2 (fun _ => false) false false 2 in
  let e := mkEnv 1 [FRandomState; FLast; FSample (Iter 1) 0; FSample (Iter 1) 1; FMean (Iter 1);
                    FEnergyHist (Iter 1); FMinisanityHist (Iter 1); FMinisanityTxt; FCounting] (Some 1) 1 false false in
  valid o e /\
  match run fixed o e with
  | Ok r => r_depth r = 1 /\ r_n r = 2 /\ has (r_files r) (FSample (Iter 3) 1) = true /\
            has (r_files r) (FMinisanityHist (Iter 2)) = true /\
            r_acts r = [APush 2 2; AMinimise 2 1; AInspect 2 2; APop; APush 3 3; AMinimise 3 1; AInspect 3 2; APop]
  | Err _ => False
  end.
Proof.
  split; [|vm_compute; auto 10].
  unfold valid; cbn. repeat split; auto; try lia; try discriminate.
Qed.

Example C27_valid_resume_example :
  let o := mkOpts 3 (fun _ => 2) true true false true true true true false (fun i => negb (i =? 1)) true
                  (fun i => i =? 1) 1 (fun i => i =? 1) true true 0 in
  let e := mkEnv 2 [FRandomState; FLast; FSample Latest 0; FSample Latest 1; FSample Latest 2; FSample Latest 3;
                    FMean Latest; FEnergyHist Latest; FMinisanityHist Latest; FMinisanityTxt; FCounting]
                 (Some 0) 2 false false in
  match run fixed o e with
  | Ok r => r_depth r = 2 /\ r_state_loaded r = true /\ r_n r = 4 /\ r_res r = true /\
            r_acts r = [APush 1 0; ATransition 1; AMinimise 1 2; AInspect 1 3; ATerminate 1 true; APop]
  | Err _ => False
  end.
Proof. vm_compute. auto. Qed.

(* Round 7 -- the CONTENT of the resume marker `last_finished_iteration` (what a later call with
   resume=True continues from).  For every variant, option record and environment: if the marker found
   at entry (if any) names an iteration below total_iterations, so does the marker left behind -- a
   resumed call therefore never starts beyond total_iterations; and a dry run leaves the marker alone. *)
Theorem C27_marker_below_total : forall (v : variant) (o : opts) (e : env) (x : nat),
  (forall l, last0 e = Some l -> l < total o) ->
  marker_after v o e = Some x -> x < total o.
Proof. exact marker_below_total. Qed.

Theorem C27_marker_dry_run : forall (v : variant) (o : opts) (e : env),
  dry o = true -> marker_after v o e = last0 e.
Proof. exact marker_dry_unchanged. Qed.
