From Coq Require Import List Bool Arith.
Import ListNotations.
Require Import NV.C27.Model.
Example placeholder : fix_pop fixed = true. Proof. reflexivity. Qed.
