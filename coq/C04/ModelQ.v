(* C04 -- the rational instance executed by the correspondence check.  No proofs. *)
From Coq Require Import List Arith Bool ZArith QArith Qcanon.
Import ListNotations.
Require Import NV.C03.Model NV.C03.ModelQ NV.C04.Model.

Definition qpowm2 (x : Qc) : Qc := lift (fun v => Qpower v (-2)) x.
Definition qcen := cen Qc qname.
Definition csq (l : list bool) : nat -> bool := fun k => nth k l false.

Definition qsimplify (dims : list nat) := simplify Qc (q 0 1) Qcplus Qcmult Qcminus qname qtab (dimsq dims).
Definition qkeys := keys Qc qname.
Definition qevalC (dims : list nat) := evalC Qc (q 0 1) (q 1 1) qhalf Qcplus Qcmult Qcminus qname qtab QNlog (dimsq dims).
Definition qlinC (dims : list nat) := linC Qc (q 0 1) (q 1 1) qhalf Qcplus Qcmult Qcminus qnonneg qpowm2 qname qtab QNlog QNsqrt (dimsq dims).
Definition qsimplifyC (dims : list nat) := simplifyC Qc (q 0 1) (q 1 1) qhalf Qcplus Qcmult Qcminus qname qtab QNlog (dimsq dims).
Definition qekeys := ekeys Qc qname.
Definition qoffset (dims : list nat) := offset Qc (q 0 1) qhalf Qcplus Qcmult qname (dimsq dims).

Definition nonconst (cs : nat -> bool) (l : list nat) : bool := forallb (fun k => negb (cs k)) l.

(* the specialised operator: plain value, Linearization value, dense Jacobian (TIMES / ADJOINT) over ALL
   keys (columns of constant keys must vanish), and its domain has no constant key *)
Definition check_simpl_expr (dims : list nat) (m : nat) (e : qexpr) (r : list (list Qc)) (cs : list bool)
           (plain linval : list Qc) (jt ja : list (list (list Qc))) : bool :=
  let e0 := qsimplify dims (csq cs) (envq r) e in
  check_expr true dims m e0 r plain linval jt ja && nonconst (csq cs) (qkeys e0).

(* the original operator on Linearization.make_partial_var(x, constants) *)
Definition check_partial_expr (dims : list nat) (m : nat) (e : qexpr) (r : list (list Qc)) (cs : list bool)
           (linval : list Qc) (jt ja : list (list (list Qc))) : bool :=
  let K := length dims in
  let (v, J) := qlin true e (envq r) in
  eq1 (tolist Qc m v) linval &&
  eq3 (qdense_times K (dimsq dims) m (JMask (csq cs) J)) jt &&
  eq3 (qdense_adj K (dimsq dims) m (JMask (csq cs) J)) ja.

Definition check_lin_energy (cmpval cmpmet : bool) (dims : list nat) (x : Qc * jop Qc * option (mop Qc))
           (linval : Qc) (jt ja : list (list (list Qc))) (met : option (list (list (list (list Qc))))) : bool :=
  let K := length dims in
  let '(v, J, M) := x in
  (negb cmpval || Qc_eq_bool v linval) &&
  eq3 (qdense_times K (dimsq dims) 1 J) jt &&
  eq3 (qdense_adj K (dimsq dims) 1 J) ja &&
  match M, met with
  | None, None => true
  | Some M, Some dm => negb cmpmet || eq4 (qdense_metric K (dimsq dims) M) dm
  | _, _ => false
  end.

Definition check_simpl_energy (cmpval cmpmet wm : bool) (dims : list nat) (h : qcen) (r : list (list Qc)) (cs : list bool)
           (plain linval : Qc) (jt ja : list (list (list Qc))) (met : option (list (list (list (list Qc))))) : bool :=
  let h0 := qsimplifyC dims (csq cs) (envq r) h in
  (negb cmpval || Qc_eq_bool (qevalC dims h0 (envq r)) plain) &&
  check_lin_energy cmpval cmpmet dims (qlinC dims wm h0 (envq r)) linval jt ja met &&
  nonconst (csq cs) (qekeys h0).

Definition check_partial_energy (cmpval cmpmet wm : bool) (dims : list nat) (h : qcen) (r : list (list Qc)) (cs : list bool)
           (linval : Qc) (jt ja : list (list (list Qc))) (met : option (list (list (list (list Qc))))) : bool :=
  let '(v, J, M) := qlinC dims wm h (envq r) in
  check_lin_energy cmpval cmpmet dims (v, JMask (csq cs) J, option_map (MMask (csq cs)) M) linval jt ja met.

Definition check_orig_energy (cmpval cmpmet wm : bool) (dims : list nat) (h : qcen) (r : list (list Qc))
           (plain linval : Qc) (jt ja : list (list (list Qc))) (met : option (list (list (list (list Qc))))) : bool :=
  (negb cmpval || Qc_eq_bool (qevalC dims h (envq r)) plain) &&
  check_lin_energy cmpval cmpmet dims (qlinC dims wm h (envq r)) linval jt ja met.
