(* C04 -- lemmas about simplify_for_constant_input over an arbitrary commutative ring. *)
From Coq Require Import List Arith Bool Lia Ring Setoid FunctionalExtensionality.
Import ListNotations.
Require Import NV.C03.Model NV.C03.Proofs NV.C04.Model.

Section Proofs.
  Variable A : Type.
  Variables (a0 a1 ahalf : A) (aadd amul asub : A -> A -> A) (aopp : A -> A).
  Variable anonneg : A -> bool.
  Variable apowm2 : A -> A.
  Variable Rth : ring_theory a0 a1 aadd amul asub aopp (@eq A).
  Add Ring Aring : Rth.
  Variable P : Type.
  Variable ptab : P -> ptw_entry A.
  Variables (plog psqrt : P).
  Variable dims : nat -> nat.
  Hypothesis Hpure : forall p x, pf (ptab p) x = phf (ptab p) x.

  Notation vec := (vec A).
  Notation env := (env A).
  Notation expr := (expr A P).
  Notation sumn := (sumn A a0 aadd).
  Notation eval := (eval A a0 aadd amul asub P ptab).
  Notation lin := (lin A a0 a1 aadd amul asub P ptab).
  Notation evalD := (evalD A a0 a1 aadd amul asub P ptab).
  Notation times := (times A a0 aadd amul).
  Notation adj := (adj A a0 aadd amul).
  Notation dotn := (dotn A a0 aadd amul).
  Notation dotE := (dotE A a0 aadd amul).
  Notation simplify := (simplify A a0 aadd amul asub P ptab dims).
  Notation keys := (keys A P).
  Notation esize := (esize A P dims).
  Notation mask := (mask A a0).
  Notation basis := (basis A a0 a1).
  Infix "+" := aadd. Infix "*" := amul. Infix "-" := asub.

  Definition agree (cs : nat -> bool) (rc r : env) : Prop := forall k, cs k = true -> forall i, r k i = rc k i.

  Let sumn_ext := sumn_ext A a0 aadd.
  Let sumn_zero := sumn_zero A a0 a1 aadd amul asub aopp Rth.

  Lemma allc_all cs l : allc cs l = true -> forall k, In k l -> cs k = true.
  Proof. destruct l; simpl; [discriminate|]. intros H k Hk. apply andb_prop in H as [H1 H2].
    destruct Hk as [<-|Hk]; [exact H1|]. rewrite forallb_forall in H2. now apply H2. Qed.

  Lemma simplify_eq cs rc e :
    simplify cs rc e =
    if allc cs (keys e) then Const (esize e) (eval e rc)
    else match e with
         | Var k => Var k
         | Const m c => Const m c
         | AddC neg c e => AddC neg c (simplify cs rc e)
         | MulC c e => MulC c (simplify cs rc e)
         | Scale c e => Scale c (simplify cs rc e)
         | Ptw p e => Ptw p (simplify cs rc e)
         | Mul e1 e2 => Mul (simplify cs rc e1) (simplify cs rc e2)
         | Add e1 e2 => Add (simplify cs rc e1) (simplify cs rc e2)
         | Sum n e => Sum n (simplify cs rc e)
         | Vdot n e1 e2 => Vdot n (simplify cs rc e1) (simplify cs rc e2)
         | Sq2 n e => Sq2 n (simplify cs rc e)
         end.
  Proof. destruct e; reflexivity. Qed.

  (* plain evaluation reads only the keys of the expression *)
  Lemma eval_keys e r r' : (forall k, In k (keys e) -> forall i, r k i = r' k i) -> forall i, eval e r i = eval e r' i.
  Proof.
    induction e; simpl; intros H i; try reflexivity.
    - apply H; now left.
    - now rewrite (IHe H).
    - now rewrite (IHe H).
    - now rewrite (IHe H).
    - now rewrite (IHe H).
    - rewrite (IHe1 (fun k Hk => H k (in_or_app _ _ _ (or_introl Hk)))).
      now rewrite (IHe2 (fun k Hk => H k (in_or_app _ _ _ (or_intror Hk)))).
    - rewrite (IHe1 (fun k Hk => H k (in_or_app _ _ _ (or_introl Hk)))).
      now rewrite (IHe2 (fun k Hk => H k (in_or_app _ _ _ (or_intror Hk)))).
    - apply sumn_ext; intros j. now apply IHe.
    - apply sumn_ext; intros j.
      rewrite (IHe1 (fun k Hk => H k (in_or_app _ _ _ (or_introl Hk)))).
      now rewrite (IHe2 (fun k Hk => H k (in_or_app _ _ _ (or_intror Hk)))).
    - apply sumn_ext; intros j. now rewrite (IHe H).
  Qed.

  (* C04_value for operators *)
  Lemma simplify_value cs rc r e : agree cs rc r -> forall i, eval (simplify cs rc e) r i = eval e r i.
  Proof.
    intros Ha. induction e; intros i; rewrite simplify_eq;
      match goal with |- context [allc cs ?l] => destruct (allc cs l) eqn:Hall end;
      try (match goal with |- eval (Const _ (eval ?e' rc)) r ?i' = _ => change (eval e' rc i' = eval e' r i') end;
           symmetry; apply eval_keys; intros k' Hk j; apply Ha; eapply allc_all; eauto; fail);
      simpl; try reflexivity; rewrite ?IHe, ?IHe1, ?IHe2; try reflexivity.
    - apply sumn_ext; intros; apply IHe.
    - apply sumn_ext; intros; now rewrite IHe1, IHe2.
    - apply sumn_ext; intros; now rewrite IHe.
  Qed.

  (* the tangent of a constant sub-expression vanishes once the constant keys are masked *)
  Lemma dual_zero cs e r d : (forall k, In k (keys e) -> cs k = true) -> forall i, snd (evalD e r (mask cs d) i) = a0.
  Proof.
    induction e; simpl; intros H i.
    - unfold Model.mask. rewrite (H k) by now left. reflexivity.
    - reflexivity.
    - specialize (IHe H i). destruct (evalD e r (mask cs d) i); simpl in *. exact IHe.
    - specialize (IHe H i). destruct (evalD e r (mask cs d) i); simpl in *. rewrite IHe. ring.
    - specialize (IHe H i). destruct (evalD e r (mask cs d) i); simpl in *. rewrite IHe. ring.
    - specialize (IHe H i). destruct (evalD e r (mask cs d) i); simpl in *. rewrite IHe. ring.
    - specialize (IHe1 (fun k Hk => H k (in_or_app _ _ _ (or_introl Hk))) i).
      specialize (IHe2 (fun k Hk => H k (in_or_app _ _ _ (or_intror Hk))) i).
      destruct (evalD e1 r (mask cs d) i); destruct (evalD e2 r (mask cs d) i); simpl in *. rewrite IHe1, IHe2. ring.
    - specialize (IHe1 (fun k Hk => H k (in_or_app _ _ _ (or_introl Hk))) i).
      specialize (IHe2 (fun k Hk => H k (in_or_app _ _ _ (or_intror Hk))) i).
      destruct (evalD e1 r (mask cs d) i); destruct (evalD e2 r (mask cs d) i); simpl in *. rewrite IHe1, IHe2. ring.
    - rewrite (sumn_ext n _ (fun _ => a0)); [apply sumn_zero | intros j; now apply IHe].
    - rewrite (sumn_ext n _ (fun _ => a0)); [apply sumn_zero |].
      intros j. rewrite (IHe1 (fun k Hk => H k (in_or_app _ _ _ (or_introl Hk)))).
      rewrite (IHe2 (fun k Hk => H k (in_or_app _ _ _ (or_intror Hk)))). ring.
    - rewrite (sumn_ext n _ (fun _ => a0)); [apply sumn_zero |].
      intros j. rewrite (IHe H). ring.
  Qed.

  Lemma fstD e r d i : fst (evalD e r d i) = eval e r i.
  Proof. apply (dual_value A a0 a1 aadd amul asub P ptab). Qed.

  (* tangent of the specialised operator = tangent of the original along the masked direction *)
  Lemma simplify_dual cs rc r d e : agree cs rc r ->
    forall i, snd (evalD (simplify cs rc e) r d i) = snd (evalD e r (mask cs d) i).
  Proof.
    intros Ha.
    assert (V : forall e i, fst (evalD (simplify cs rc e) r d i) = fst (evalD e r (mask cs d) i)).
    { intros e' i. rewrite !fstD. now apply simplify_value. }
    induction e; intros i; rewrite simplify_eq;
      match goal with |- context [allc cs ?l] => destruct (allc cs l) eqn:Hall end;
      try (rewrite (dual_zero cs _ r d (fun k' Hk => allc_all cs _ Hall k' Hk)); reflexivity).
    - simpl in Hall. simpl. unfold Model.mask. rewrite andb_true_r in Hall. now rewrite Hall.
    - reflexivity.
    - simpl. specialize (IHe i). destruct (evalD (simplify cs rc e) r d i); destruct (evalD e r (mask cs d) i); simpl in *. exact IHe.
    - simpl. specialize (IHe i). destruct (evalD (simplify cs rc e) r d i); destruct (evalD e r (mask cs d) i); simpl in *. now rewrite IHe.
    - simpl. specialize (IHe i). destruct (evalD (simplify cs rc e) r d i); destruct (evalD e r (mask cs d) i); simpl in *. now rewrite IHe.
    - simpl. specialize (IHe i). pose proof (V e i) as Hv.
      destruct (evalD (simplify cs rc e) r d i); destruct (evalD e r (mask cs d) i); simpl in *. now rewrite IHe, Hv.
    - simpl. specialize (IHe1 i). specialize (IHe2 i). pose proof (V e1 i) as Hv1. pose proof (V e2 i) as Hv2.
      destruct (evalD (simplify cs rc e1) r d i); destruct (evalD e1 r (mask cs d) i);
      destruct (evalD (simplify cs rc e2) r d i); destruct (evalD e2 r (mask cs d) i); simpl in *.
      now rewrite IHe1, IHe2, Hv1, Hv2.
    - simpl. specialize (IHe1 i). specialize (IHe2 i).
      destruct (evalD (simplify cs rc e1) r d i); destruct (evalD e1 r (mask cs d) i);
      destruct (evalD (simplify cs rc e2) r d i); destruct (evalD e2 r (mask cs d) i); simpl in *.
      now rewrite IHe1, IHe2.
    - simpl. apply sumn_ext; intros j. apply IHe.
    - simpl. apply sumn_ext; intros j. now rewrite IHe1, IHe2, (V e1 j), (V e2 j).
    - simpl. apply sumn_ext; intros j. now rewrite IHe, (V e j).
  Qed.

  (* C04_jac (TIMES): Jacobian of the specialised operator = original Jacobian after zeroing the
     constant-key components of the tangent (the Jacobian of make_partial_var) *)
  Lemma simplify_times om cs rc r d e : agree cs rc r ->
    forall i, times (snd (lin om (simplify cs rc e) r)) d i = times (snd (lin om e r)) (mask cs d) i.
  Proof.
    intros Ha i.
    rewrite !(jac_dual A a0 a1 aadd amul asub aopp Rth P ptab Hpure).
    now apply simplify_dual.
  Qed.

  (* C04_domain: the specialised operator has exactly the variable keys of the original *)
  Lemma keys_simplify cs rc e : keys (simplify cs rc e) = filter (fun k => negb (cs k)) (keys e).
  Proof.
    assert (F : forall l, (forall k, In k l -> cs k = true) -> filter (fun k => negb (cs k)) l = []).
    { induction l; simpl; intros H; [reflexivity|]. rewrite (H a) by now left. simpl. apply IHl. intros; apply H; now right. }
    induction e; rewrite simplify_eq;
      match goal with |- context [allc cs ?l] => destruct (allc cs l) eqn:Hall end;
      try (simpl (keys (Const _ _)); symmetry; apply F; intros k Hk; eapply allc_all; eauto; fail);
      simpl; rewrite ?filter_app, ?IHe, ?IHe1, ?IHe2; try reflexivity.
    all: try (simpl in Hall; rewrite andb_true_r in Hall; now rewrite Hall).
  Qed.

  (* ---- adjoint version, through adjointness and basis vectors ---------------------------------- *)
  Lemma esize_eshape K e m : eshape A P K dims e = Some m -> esize e = m.
  Proof.
    revert m; induction e; simpl; intros mm H; try (now apply IHe).
    - destruct (k <? K); now inversion H.
    - now inversion H.
    - destruct (eshape A P K dims e1) as [m1|]; [|discriminate]. destruct (eshape A P K dims e2) as [m2|]; [|discriminate].
      destruct (m1 =? m2); [|discriminate]. inversion H; subst. now apply IHe1.
    - destruct (eshape A P K dims e1) as [m1|]; [|discriminate]. destruct (eshape A P K dims e2) as [m2|]; [|discriminate].
      destruct (m1 =? m2); [|discriminate]. inversion H; subst. now apply IHe1.
    - destruct (eshape A P K dims e) as [m1|]; [|discriminate]. destruct (n =? m1); now inversion H.
    - destruct (eshape A P K dims e1) as [m1|]; [|discriminate]. destruct (eshape A P K dims e2) as [m2|]; [|discriminate].
      destruct ((n =? m1) && (n =? m2)); now inversion H.
    - destruct (eshape A P K dims e) as [m1|]; [|discriminate]. destruct (n =? m1); now inversion H.
  Qed.

  Lemma eshape_simplify K cs rc e m : eshape A P K dims e = Some m -> eshape A P K dims (simplify cs rc e) = Some m.
  Proof.
    revert m; induction e; intros mm H; rewrite simplify_eq;
      match goal with |- context [allc cs ?l] => destruct (allc cs l) eqn:Hall end;
      try (cbn [eshape]; f_equal; exact (esize_eshape K _ _ H)); simpl in *;
      repeat match goal with
             | H : context [match eshape A P K dims ?x with _ => _ end] |- _ =>
                 destruct (eshape A P K dims x) eqn:?; [|discriminate]
             end;
      repeat match goal with
             | IH : forall m, Some ?a = Some m -> _ |- _ => specialize (IH _ eq_refl)
             end;
      repeat match goal with
             | IH : eshape A P K dims (simplify cs rc ?x) = Some _ |- _ => rewrite IH; clear IH
             end; auto.
  Qed.

  Let sumn_pick := sumn_pick A a0 a1 aadd amul asub aopp Rth.

  Lemma dotn_basis n (x : vec) j : j < n -> dotn n x (fun i => if i =? j then a1 else a0) = x j.
  Proof.
    intros H. unfold Model.dotn.
    rewrite (sumn_ext n _ (fun i => if i =? j then x i else a0)); [now apply sumn_pick|].
    intros i. destruct (i =? j); ring.
  Qed.

  Lemma dotE_basis K (x : env) k j : k < K -> j < dims k -> dotE K dims x (basis k j) = x k j.
  Proof.
    intros Hk Hj. unfold Model.dotE.
    rewrite (sumn_ext K _ (fun k' => if k' =? k then dotn (dims k') (x k') (basis k j k') else a0)).
    - rewrite sumn_pick by assumption.
      rewrite <- (dotn_basis (dims k) (x k) j Hj). unfold Model.dotn. apply sumn_ext; intros i.
      unfold Model.basis. now rewrite Nat.eqb_refl.
    - intros k'. destruct (Nat.eqb_spec k' k); [reflexivity|].
      unfold Model.dotn. rewrite (sumn_ext _ _ (fun _ => a0)); [apply sumn_zero|].
      intros i. unfold Model.basis. destruct (Nat.eqb_spec k' k); [contradiction|]. simpl. ring.
  Qed.

  Lemma times_ext J : forall d d' : env, (forall k i, d k i = d' k i) -> forall i, times J d i = times J d' i.
  Proof.
    induction J; simpl; intros d d' H i.
    - apply H.
    - reflexivity.
    - destruct a; simpl.
      + now rewrite (IHJ d d' H).
      + now rewrite (IHJ d d' H).
      + apply sumn_ext; intros j; now apply IHJ.
      + apply sumn_ext; intros j; now rewrite (IHJ d d' H).
    - now rewrite (IHJ1 d d' H), (IHJ2 d d' H).
    - apply IHJ. intros k' i'. destruct (cs k'); [reflexivity | apply H].
  Qed.

  Lemma times_zero J : forall i, times J (fun _ _ => a0) i = a0.
  Proof.
    induction J; simpl; intros i; try reflexivity.
    - destruct a; simpl; rewrite ?IHJ; try ring.
      + rewrite (sumn_ext n _ (fun _ => a0)); [apply sumn_zero | intros; apply IHJ].
      + rewrite (sumn_ext n _ (fun _ => a0)); [apply sumn_zero | intros; rewrite IHJ; ring].
    - rewrite IHJ1, IHJ2; ring.
    - rewrite <- (IHJ i) at 2. apply times_ext. intros k' i'. now destruct (cs k').
  Qed.

  Lemma dotn_ext n (x y y' : vec) : (forall i, y i = y' i) -> dotn n x y = dotn n x y'.
  Proof. intros H. unfold Model.dotn. apply sumn_ext; intros; now rewrite H. Qed.

  Lemma dotn_zero_r n (x : vec) : dotn n x (fun _ => a0) = a0.
  Proof. unfold Model.dotn. rewrite (sumn_ext n _ (fun _ => a0)); [apply sumn_zero | intros; ring]. Qed.

  (* C04_jac (ADJOINT): the gradient-like quantities of the specialised operator have no constant-key
     components and agree with the original on the variable keys *)
  Lemma simplify_adj K om cs rc r e m (y : vec) k j :
    agree cs rc r -> eshape A P K dims e = Some m -> k < K -> j < dims k ->
    adj (snd (lin om (simplify cs rc e) r)) y k j = if cs k then a0 else adj (snd (lin om e r)) y k j.
  Proof.
    intros Ha Hs Hk Hj.
    pose proof (lin_shape A a0 a1 aadd amul asub P ptab K dims om _ r m (eshape_simplify K cs rc e m Hs)) as S0.
    pose proof (lin_shape A a0 a1 aadd amul asub P ptab K dims om e r m Hs) as S1.
    rewrite <- (dotE_basis K (adj (snd (lin om (simplify cs rc e) r)) y) k j Hk Hj).
    rewrite (adj_ok A a0 a1 aadd amul asub aopp Rth K dims _ m y (basis k j) S0).
    rewrite (dotn_ext m y _ (times (snd (lin om e r)) (mask cs (basis k j)))) by (intros; now apply simplify_times).
    destruct (cs k) eqn:Hc.
    - rewrite (dotn_ext m y _ (fun _ => a0)); [apply dotn_zero_r|].
      intros i. rewrite (times_ext _ _ (fun _ _ => a0)).
      + apply times_zero.
      + intros k' i'. unfold Model.mask, Model.basis. destruct (cs k') eqn:E; [reflexivity|].
        destruct (Nat.eqb_spec k' k); [subst; congruence | reflexivity].
    - rewrite <- (adj_ok A a0 a1 aadd amul asub aopp Rth K dims _ m y _ S1).
      rewrite <- (dotE_basis K (adj (snd (lin om e r)) y) k j Hk Hj).
      unfold Model.dotE. apply sumn_ext; intros k'. apply dotn_ext; intros i.
      unfold Model.mask, Model.basis. destruct (cs k') eqn:E; [|reflexivity].
      destruct (Nat.eqb_spec k' k); [subst; congruence | reflexivity].
  Qed.
End Proofs.
