(* C04 -- refutation witnesses (vm_compute over Qc) for the two places where the faithful model does
   NOT satisfy the property, and the instance facts. *)
From Coq Require Import List Arith ZArith QArith Qcanon Bool Lia.
Import ListNotations.
Require Import NV.C03.Model NV.C03.ModelQ NV.C04.Model NV.C04.ModelQ NV.C04.Proofs.
Open Scope nat_scope.

Definition qmetapp (dims : list nat) :=
  metapp Qc (q 0 1) (q 1 1) qhalf Qcplus Qcmult Qcminus qnonneg qpowm2 qname qtab QNlog QNsqrt (dimsq dims).
Definition qcshape (dims : list nat) := cshape Qc qname (dimsq dims).

(* VariableCovarianceGaussianEnergy(use_full_fisher=False) on keys (residual 0, inverse covariance 1),
   residual constant = 1, inverse covariance 1/4:
   specialised metric (exact Fisher of _SpecialGammaEnergy) = 0.5/i^2 = 8,
   original metric restricted to the variable key      = r^2/(4 i) + 0.25/i^2 = 5. *)
Definition w_vcg : qcen := CVCG 1 false 0 1.
Definition w_r := envq [[q 1 1]; [q 1 4]].
Definition w_cs := csq [true; false].
Definition w_d := basis Qc (q 0 1) (q 1 1) 1 0.

Lemma w_agree r : agree Qc w_cs r r.
Proof. intros k _ i. reflexivity. Qed.

Lemma metric_refuted :
  exists (h : qcen) (cs : nat -> bool) (r d : env Qc) (k j : nat),
    agree Qc cs r r /\ anyc cs (qekeys h) = true /\ allc cs (qekeys h) = false /\
    qcshape [1; 1] 2 h = true /\ k < 2 /\ j < 1 /\
    qmetapp [1; 1] true (qsimplifyC [1; 1] cs r h) r d k j
    <> (if cs k then q 0 1 else qmetapp [1; 1] true h r (mask Qc (q 0 1) cs d) k j).
Proof.
  exists w_vcg, w_cs, w_r, w_d, 1, 0. repeat split; try (apply w_agree); try reflexivity; try lia.
  intros H. apply (f_equal this) in H. vm_compute in H. discriminate.
Qed.

(* StandardHamiltonian(GaussianEnergy @ (a*b)) at a = 2 (constant), b = 3:
   original value 0.5*36 + 0.5*(4+9) = 24.5, specialised value 0.5*36 + 0.5*9 = 22.5. *)
Definition w_ham : qcen := CHam (CGauss 1 None None (Mul (Var 0) (Var 1))).
Definition w_r2 := envq [[q 2 1]; [q 3 1]].

Lemma value_refuted :
  exists (h : qcen) (cs : nat -> bool) (r : env Qc),
    agree Qc cs r r /\ anyc cs (qekeys h) = true /\ allc cs (qekeys h) = false /\ qcshape [1; 1] 2 h = true /\
    qevalC [1; 1] (qsimplifyC [1; 1] cs r h) r <> qevalC [1; 1] h r.
Proof.
  exists w_ham, w_cs, w_r2. repeat split; try (apply w_agree); try reflexivity.
  intros H. apply (f_equal this) in H. vm_compute in H. discriminate.
Qed.

(* non-vacuity of the positive theorems: a Gaussian chain over two keys with one constant *)
Definition w_g : qcen := CScale (q 4 1) (CGauss 1 (Some (vq [q 1 1])) (Some (vq [q 2 1])) (Mul (Ptw (QNpower 2) (Var 0)) (Var 1))).
Lemma hyps_satisfiable :
  gchain Qc qname w_g = true /\ ham_free Qc qname w_g = true /\ qcshape [1; 1] 2 w_g = true /\
  anyc w_cs (qekeys w_g) = true /\ allc w_cs (qekeys w_g) = false /\ agree Qc w_cs w_r2 w_r2.
Proof. repeat split; try reflexivity; try apply w_agree. Qed.

(* non-vacuity of the family metric theorem: a StandardHamiltonian over a sum of two Gaussian likelihoods *)
Definition w_fam : qcen :=
  CHam (CAddL (CScale (q 4 1) (CGauss 1 None None (Mul (Var 0) (Var 1)))) (CGauss 1 (Some (vq [q 1 1])) (Some (vq [q 2 1])) (Var 1))).
Lemma fam_satisfiable :
  mfam Qc qname w_fam = true /\ qcshape [1; 1] 2 w_fam = true /\
  anyc w_cs (qekeys w_fam) = true /\ allc w_cs (qekeys w_fam) = false.
Proof. repeat split; reflexivity. Qed.
