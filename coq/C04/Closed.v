(* C04 -- the statements of Props.v with all section variables generalised. *)
From Coq Require Import List Arith Bool Ring.
Import ListNotations.
Require Import NV.C03.Model NV.C04.Model NV.C04.Proofs NV.C04.ProofsE NV.C04.ProofsM NV.C04.ProofsM2.

Section Closed.
  Variable A : Type.
  Variables (a0 a1 ahalf : A) (aadd amul asub : A -> A -> A) (aopp : A -> A).
  Variable anonneg : A -> bool.
  Variable apowm2 : A -> A.
  Variable Rth : ring_theory a0 a1 aadd amul asub aopp (@eq A).
  Variable P : Type.
  Variable ptab : P -> ptw_entry A.
  Variables (plog psqrt : P).
  Variable dims : nat -> nat.
  Hypothesis Hpure : forall p x, pf (ptab p) x = phf (ptab p) x.
  Hypothesis Hhalf : amul ahalf (two A a1 aadd) = a1.

  Notation eval := (eval A a0 aadd amul asub P ptab).
  Notation lin := (lin A a0 a1 aadd amul asub P ptab).
  Notation times := (times A a0 aadd amul).
  Notation adj := (adj A a0 aadd amul).
  Notation simplify := (simplify A a0 aadd amul asub P ptab dims).
  Notation mask := (mask A a0).
  Notation evalC := (evalC A a0 a1 ahalf aadd amul asub P ptab plog dims).
  Notation linC := (linC A a0 a1 ahalf aadd amul asub anonneg apowm2 P ptab plog psqrt dims).
  Notation simplifyC := (simplifyC A a0 a1 ahalf aadd amul asub P ptab plog dims).
  Notation offset := (offset A a0 ahalf aadd amul P dims).
  Notation metapp := (metapp A a0 a1 ahalf aadd amul asub anonneg apowm2 P ptab plog psqrt dims).
  Notation has_met := (has_met A a0 a1 ahalf aadd amul asub anonneg apowm2 P ptab plog psqrt dims).

  Lemma c_value cs rc r (e : expr A P) i : agree A cs rc r -> eval (simplify cs rc e) r i = eval e r i.
  Proof. intros; now apply simplify_value. Qed.

  Lemma c_jac om cs rc r d (e : expr A P) i : agree A cs rc r ->
    times (snd (lin om (simplify cs rc e) r)) d i = times (snd (lin om e r)) (mask cs d) i.
  Proof. intros; eapply simplify_times; eauto. Qed.

  Lemma c_jac_adjoint K om cs rc r (e : expr A P) m y k j :
    agree A cs rc r -> eshape A P K dims e = Some m -> k < K -> j < dims k ->
    adj (snd (lin om (simplify cs rc e) r)) y k j = if cs k then a0 else adj (snd (lin om e r)) y k j.
  Proof. intros; eapply simplify_adj; eauto. Qed.

  Lemma c_domain cs rc (e : expr A P) :
    keys A P (simplify cs rc e) = filter (fun k => negb (cs k)) (keys A P e).
  Proof. apply keys_simplify. Qed.

  Lemma c_energy_value cs rc r (h : cen A P) : agree A cs rc r ->
    aadd (evalC (simplifyC cs rc h) r) (offset cs rc h) = evalC h r
    /\ (ham_free A P h = true -> evalC (simplifyC cs rc h) r = evalC h r).
  Proof. intros Ha; split; [eapply simplifyC_value; eauto | intros; eapply simplifyC_value_free; eauto]. Qed.

  Lemma c_energy_jac wm cs rc r d (h : cen A P) : agree A cs rc r ->
    times (snd (fst (linC wm (simplifyC cs rc h) r))) d 0 = times (snd (fst (linC wm h r))) (mask cs d) 0.
  Proof. intros Ha. eapply (simplifyC_times A a0 a1 ahalf aadd amul asub aopp anonneg apowm2 Rth P ptab plog psqrt dims Hpure Hhalf); eauto. Qed.

  Lemma c_energy_domain cs rc (h : cen A P) :
    ekeys A P (simplifyC cs rc h) = filter (fun k => negb (cs k)) (ekeys A P h).
  Proof. eapply ekeys_simplifyC; eauto. Qed.

  Lemma c_metric K cs rc r (h : cen A P) : agree A cs rc r -> mfam A P h = true -> cshape A P dims K h = true ->
    (forall d k j, k < K -> j < dims k ->
       metapp true (simplifyC cs rc h) r d k j = if cs k then a0 else metapp true h r (mask cs d) k j)
    /\ (allc cs (ekeys A P h) = false -> has_met true (simplifyC cs rc h) r = has_met true h r).
  Proof.
    intros Ha Hg Hs. split.
    - intros; eapply fam_metric; eauto.
    - intros; eapply fam_has_met; eauto.
  Qed.

  Lemma c_history cs rc (h : cen A P) (pre post : list (bool * env A)) (c : bool * env A) dflt :
    nth (length pre)
        (call_seq A a0 a1 ahalf aadd amul asub anonneg apowm2 P ptab plog psqrt dims (simplifyC cs rc h) (pre ++ c :: post)) dflt
    = linC (fst c) (simplifyC cs rc h) (snd c).
  Proof. eapply call_seq_pure; eauto. Qed.
End Closed.
