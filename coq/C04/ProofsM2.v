(* C04 -- the metric theorem for the whole family without the variable-covariance Gaussian: Gaussian chains,
   scalings, likelihood sums (InsertionOperator fall-back), StandardHamiltonian, constants, insertions. *)
From Coq Require Import List Arith Bool Lia Ring Setoid.
Import ListNotations.
Require Import NV.C03.Model NV.C03.Proofs NV.C04.Model NV.C04.Proofs NV.C04.ProofsE NV.C04.ProofsM.

Section ProofsM2.
  Variable A : Type.
  Variables (a0 a1 ahalf : A) (aadd amul asub : A -> A -> A) (aopp : A -> A).
  Variable anonneg : A -> bool.
  Variable apowm2 : A -> A.
  Variable Rth : ring_theory a0 a1 aadd amul asub aopp (@eq A).
  Add Ring Aring : Rth.
  Variable P : Type.
  Variable ptab : P -> ptw_entry A.
  Variables (plog psqrt : P).
  Variable dims : nat -> nat.
  Hypothesis Hpure : forall p x, pf (ptab p) x = phf (ptab p) x.

  Notation vec := (vec A).
  Notation env := (env A).
  Notation cen := (cen A P).
  Notation sumn := (sumn A a0 aadd).
  Notation lin := (lin A a0 a1 aadd amul asub P ptab).
  Notation evalD := (evalD A a0 a1 aadd amul asub P ptab).
  Notation times := (times A a0 aadd amul).
  Notation times1 := (times1 A a0 aadd amul).
  Notation dotn := (dotn A a0 aadd amul).
  Notation mapply := (mapply A a0 aadd amul).
  Notation keys := (keys A P).
  Notation ekeys := (ekeys A P).
  Notation ukeys := (ukeys A P).
  Notation mask := (mask A a0).
  Notation merge := (merge A).
  Notation basis := (basis A a0 a1).
  Notation agree := (agree A).
  Notation linC := (linC A a0 a1 ahalf aadd amul asub anonneg apowm2 P ptab plog psqrt dims).
  Notation simplifyC := (simplifyC A a0 a1 ahalf aadd amul asub P ptab plog dims).
  Notation evalC := (evalC A a0 a1 ahalf aadd amul asub P ptab plog dims).
  Notation metapp := (metapp A a0 a1 ahalf aadd amul asub anonneg apowm2 P ptab plog psqrt dims).
  Notation has_met := (has_met A a0 a1 ahalf aadd amul asub anonneg apowm2 P ptab plog psqrt dims).
  Notation mfam := (mfam A P).
  Notation cshape := (cshape A P dims).
  Notation prior_met := (prior_met A a1).
  Infix "+" := aadd. Infix "*" := amul. Infix "-" := asub.

  Let sumn_ext := sumn_ext A a0 aadd.
  Let sumn_zero := sumn_zero A a0 a1 aadd amul asub aopp Rth.

  (* ---- equations for metapp / has_met ---------------------------------------------------------------- *)
  Lemma metapp_CAddL h1 h2 r d k j :
    metapp true (CAddL h1 h2) r d k j =
    if has_met true h1 r && has_met true h2 r then metapp true h1 r d k j + metapp true h2 r d k j else a0.
  Proof.
    unfold Model.metapp, Model.has_met. simpl.
    destruct (linC true h1 r) as [[v1 J1] m1]; destruct (linC true h2 r) as [[v2 J2] m2]. simpl.
    destruct m1; destruct m2; reflexivity.
  Qed.
  Lemma has_met_CAddL h1 h2 r : has_met true (CAddL h1 h2) r = has_met true h1 r && has_met true h2 r.
  Proof.
    unfold Model.has_met. simpl.
    destruct (linC true h1 r) as [[v1 J1] m1]; destruct (linC true h2 r) as [[v2 J2] m2]. simpl.
    destruct m1; destruct m2; reflexivity.
  Qed.
  Lemma metapp_CHam h r d k j :
    metapp true (CHam h) r d k j =
    if has_met true h r then metapp true h r d k j + mapply (prior_met (ukeys h)) d k j else a0.
  Proof.
    unfold Model.metapp, Model.has_met. simpl. destruct (linC true h r) as [[v J] m]. simpl.
    destruct m; reflexivity.
  Qed.
  Lemma has_met_CHam h r : has_met true (CHam h) r = has_met true h r.
  Proof. unfold Model.has_met. simpl. destruct (linC true h r) as [[v J] m]. simpl. destruct m; reflexivity. Qed.
  Lemma metapp_CIns cs rc h r d k j :
    metapp true (CIns cs rc h) r d k j = if cs k then a0 else metapp true h (merge cs rc r) (mask cs d) k j.
  Proof.
    unfold Model.metapp. simpl. destruct (linC true h (merge cs rc r)) as [[v J] m]. simpl.
    destruct m; simpl; destruct (cs k); reflexivity.
  Qed.
  Lemma has_met_CIns cs rc h r : has_met true (CIns cs rc h) r = has_met true h (merge cs rc r).
  Proof. unfold Model.has_met. simpl. destruct (linC true h (merge cs rc r)) as [[v J] m]. simpl. destruct m; reflexivity. Qed.
  Lemma metapp_CConst c r d k j : metapp true (CConst c) r d k j = a0.
  Proof. reflexivity. Qed.

  (* ---- the prior metric: identity on the keys of the Hamiltonian --------------------------------------- *)
  Lemma prior_met_apply l d k j : NoDup l ->
    mapply (prior_met l) d k j = if existsb (Nat.eqb k) l then a1 * d k j else a0.
  Proof.
    induction l as [|k' l IH]; intros ND; simpl; [reflexivity|].
    inversion ND as [|? ? Hn ND']; subst. specialize (IH ND'). unfold eadd. rewrite IH.
    destruct (Nat.eqb_spec k k') as [->|Hne]; simpl.
    - assert (E : existsb (Nat.eqb k') l = false).
      { destruct (existsb (Nat.eqb k') l) eqn:X; [|reflexivity]. exfalso. apply existsb_exists in X as [x [Hx Hx']].
        apply Nat.eqb_eq in Hx'. subst. contradiction. }
      rewrite E. ring.
    - destruct (existsb (Nat.eqb k) l); ring.
  Qed.

  Lemma existsb_filter (f : nat -> bool) k l : existsb (Nat.eqb k) (filter f l) = f k && existsb (Nat.eqb k) l.
  Proof.
    induction l as [|x l IH]; simpl; [now rewrite andb_false_r|].
    destruct (f x) eqn:Fx; simpl; rewrite IH.
    - destruct (Nat.eqb_spec k x) as [->|]; simpl; [now rewrite Fx | reflexivity].
    - destruct (Nat.eqb_spec k x) as [->|]; simpl; [now rewrite Fx | reflexivity].
  Qed.

  Lemma existsb_In k l : existsb (Nat.eqb k) l = true <-> In k l.
  Proof.
    rewrite existsb_exists. split.
    - intros [x [Hx E]]. apply Nat.eqb_eq in E. now subst.
    - intros H. exists k. split; [exact H | apply Nat.eqb_refl].
  Qed.

  (* ---- K / Z / S: the metric reads only the energy's keys, is linear at 0, and is supported on the keys - *)
  Lemma l_times_keys e r (d d' : env) : (forall k, In k (keys e) -> forall i, d k i = d' k i) ->
    forall i, times (snd (lin true e r)) d i = times (snd (lin true e r)) d' i.
  Proof.
    intros H i. rewrite !(l_jac_dual A a0 a1 aadd amul asub aopp Rth P ptab Hpure). now apply l_dual_keys.
  Qed.

  Definition gN (icov : option vec) : lop1 A := match icov with Some N => D N | None => Sc a1 end.

  Lemma gauss_entry K n data icov e r d k j :
    cshape K (CGauss n data icov e) = true -> k < K -> j < dims k ->
    metapp true (CGauss n data icov e) r d k j
    = dotn n (times1 (gN icov) (times (snd (lin true e r)) d)) (times (snd (lin true e r)) (basis k j)).
  Proof.
    intros Hs Hk Hj. simpl in Hs. destruct (eshape A P K dims e) as [m|] eqn:Es; [|discriminate].
    apply Nat.eqb_eq in Hs. subst m.
    pose proof (l_lin_shape A a0 a1 aadd amul asub P ptab dims K true e r n Es) as S.
    unfold Model.metapp. cbn [Model.linC Model.linE]. destruct (lin true e r) as [v J] eqn:El. simpl in S.
    destruct icov; cbn [snd gN]; apply (sand_entry A a0 a1 aadd amul asub aopp Rth dims K J n _ d k j S Hk Hj).
  Qed.

  Lemma l_dotn_ext2 n (x x' y y' : vec) : (forall i, x i = x' i) -> (forall i, y i = y' i) -> dotn n x y = dotn n x' y'.
  Proof. intros H H'. unfold Model.dotn. apply sumn_ext; intros; now rewrite H, H'. Qed.

  Lemma times_basis_off e r k j : ~ In k (keys e) -> forall i, times (snd (lin true e r)) (basis k j) i = a0.
  Proof.
    intros Hn i. rewrite (l_times_keys e r (basis k j) (fun _ _ => a0)).
    - apply (l_times_zero A a0 a1 aadd amul asub aopp Rth).
    - intros k' Hk' i'. unfold Model.basis. destruct (Nat.eqb_spec k' k); [subst; contradiction | reflexivity].
  Qed.

  (* K: the metric reads the direction only at the energy's keys *)
  Lemma metK K h : forall r (d d' : env) k j, mfam h = true -> cshape K h = true -> k < K -> j < dims k ->
    (forall k', In k' (ekeys h) -> forall i, d k' i = d' k' i) ->
    metapp true h r d k j = metapp true h r d' k j.
  Proof.
    induction h; intros x d d' k j Hf Hs Hk Hj H; try discriminate.
    - rewrite !(gauss_entry K) by assumption. apply l_dotn_ext2; [|reflexivity].
      apply (times1_ext A a0 aadd amul). now apply l_times_keys.
    - rewrite !(metapp_CScale A a0 a1 ahalf aadd amul asub aopp anonneg apowm2 Rth P ptab plog psqrt dims).
      simpl in *. now rewrite (IHh x d d' k j Hf Hs Hk Hj H).
    - rewrite !metapp_CAddL. simpl in *. apply andb_prop in Hf as [F1 F2]. apply andb_prop in Hs as [S1 S2].
      rewrite (IHh1 x d d' k j F1 S1 Hk Hj), (IHh2 x d d' k j F2 S2 Hk Hj); auto; intros; apply H; apply in_or_app; tauto.
    - rewrite !metapp_CHam. simpl in *. rewrite (IHh x d d' k j Hf Hs Hk Hj H).
      rewrite !prior_met_apply by (apply NoDup_nodup).
      destruct (existsb (Nat.eqb k) (ukeys h)) eqn:E; [|reflexivity].
      apply existsb_In in E. unfold Model.ukeys in E. apply nodup_In in E. now rewrite (H k E j).
    - reflexivity.
    - rewrite !metapp_CIns. destruct (cs k) eqn:Ek; [reflexivity|]. simpl in *.
      apply IHh; try assumption. intros k' Hk' i. unfold Model.mask. destruct (cs k') eqn:E; [reflexivity|].
      apply H. apply filter_In. split; [exact Hk' | now rewrite E].
  Qed.

  (* Z: the metric applied to the zero direction vanishes *)
  Lemma metZ K h : forall r k j, mfam h = true -> cshape K h = true -> k < K -> j < dims k ->
    metapp true h r (fun _ _ => a0) k j = a0.
  Proof.
    induction h; intros x k j Hf Hs Hk Hj; try discriminate.
    - rewrite (gauss_entry K) by assumption.
      rewrite (dotn_ext_l A a0 aadd amul _ _ (fun _ => a0)); [apply (dotn_zero_l A a0 a1 aadd amul asub aopp Rth)|].
      intros i. rewrite (times1_ext A a0 aadd amul _ _ (fun _ => a0)) by (intros; apply (l_times_zero A a0 a1 aadd amul asub aopp Rth)).
      destruct icov; simpl; try ring. 
    - rewrite (metapp_CScale A a0 a1 ahalf aadd amul asub aopp anonneg apowm2 Rth P ptab plog psqrt dims).
      simpl in *. rewrite (IHh x k j Hf Hs Hk Hj). destruct (anonneg c); [ring | reflexivity].
    - rewrite metapp_CAddL. simpl in *. apply andb_prop in Hf as [F1 F2]. apply andb_prop in Hs as [S1 S2].
      rewrite (IHh1 x k j F1 S1 Hk Hj), (IHh2 x k j F2 S2 Hk Hj). destruct (_ && _); [ring | reflexivity].
    - rewrite metapp_CHam. simpl in *. rewrite (IHh x k j Hf Hs Hk Hj).
      rewrite prior_met_apply by (apply NoDup_nodup).
      destruct (has_met true h x); [|reflexivity]. destruct (existsb _ _); ring.
    - reflexivity.
    - rewrite metapp_CIns. destruct (cs k); [reflexivity|]. simpl in *.
      rewrite (metK K h _ _ (fun _ _ => a0) k j Hf Hs Hk Hj); [now apply IHh|].
      intros k' _ i. unfold Model.mask. now destruct (cs k').
  Qed.

  (* S: no component outside the energy's keys *)
  Lemma metS K h : forall r d k j, mfam h = true -> cshape K h = true -> k < K -> j < dims k ->
    ~ In k (ekeys h) -> metapp true h r d k j = a0.
  Proof.
    induction h; intros x d k j Hf Hs Hk Hj Hn; try discriminate.
    - rewrite (gauss_entry K) by assumption.
      rewrite (l_dotn_ext A a0 aadd amul _ _ _ (fun _ => a0)); [apply (l_dotn_zero_r A a0 a1 aadd amul asub aopp Rth)|].
      now apply times_basis_off.
    - rewrite (metapp_CScale A a0 a1 ahalf aadd amul asub aopp anonneg apowm2 Rth P ptab plog psqrt dims).
      simpl in *. rewrite (IHh x d k j Hf Hs Hk Hj Hn). destruct (anonneg c); [ring | reflexivity].
    - rewrite metapp_CAddL. simpl in *. apply andb_prop in Hf as [F1 F2]. apply andb_prop in Hs as [S1 S2].
      rewrite (IHh1 x d k j F1 S1 Hk Hj), (IHh2 x d k j F2 S2 Hk Hj); try (intros X; apply Hn; apply in_or_app; tauto).
      destruct (_ && _); [ring | reflexivity].
    - rewrite metapp_CHam. simpl in *. rewrite (IHh x d k j Hf Hs Hk Hj Hn).
      rewrite prior_met_apply by (apply NoDup_nodup).
      destruct (existsb (Nat.eqb k) (ukeys h)) eqn:E.
      + exfalso. apply existsb_In in E. unfold Model.ukeys in E. apply nodup_In in E. contradiction.
      + destruct (has_met true h x); [ring | reflexivity].
    - reflexivity.
    - rewrite metapp_CIns. destruct (cs k) eqn:Ek; [reflexivity|]. simpl in *.
      apply IHh; try assumption. intros X. apply Hn. apply filter_In. split; [exact X | now rewrite Ek].
  Qed.

  Lemma l_simplifyC_eq2 cs rc h :
    simplifyC cs rc h =
    if negb (anyc cs (ekeys h)) then h
    else if allc cs (ekeys h) then CConst (evalC h rc)
    else match h with
         | CGauss n data icov e => CGauss n data icov (simplify A a0 aadd amul asub P ptab dims cs rc e)
         | CScale c h => CScale c (simplifyC cs rc h)
         | CAddL h1 h2 => CIns cs rc (CAddL h1 h2)
         | CVCG n uff kr ki =>
             if cs kr then CAddL (CGamma n (rc kr) ki) (CConst a0)
             else CAddL (CAddL (CGauss n None (Some (rc ki)) (Var kr))
                               (CConst (amul (am1 A a0 a1 asub) (amul ahalf (sumn n (fun j => pf (ptab plog) (rc ki j)))))))
                        (CConst a0)
         | CHam h => CHam (simplifyC cs rc h)
         | CConst c => CConst c
         | CIns cs' rc' h => CIns cs rc (CIns cs' rc' h)
         | CGamma n rr ki => CIns cs rc (CGamma n rr ki)
         end.
  Proof. apply simplifyC_eq. Qed.

  Lemma l_merge_agree cs rc r : agree cs rc r -> merge cs rc r = r.
  Proof. apply merge_agree. Qed.

  Lemma l_ukeys_simplifyC cs rc h : ukeys (simplifyC cs rc h) = filter (nc cs) (ukeys h).
  Proof. eapply ukeys_simplifyC; eauto. Qed.

  (* presence of the metric is preserved (a proper part of the keys constant) *)
  Lemma fam_has_met cs rc r h : agree cs rc r -> mfam h = true -> allc cs (ekeys h) = false ->
    has_met true (simplifyC cs rc h) r = has_met true h r.
  Proof.
    intros Ha. induction h; intros Hf Hall; try discriminate; rewrite l_simplifyC_eq2; rewrite Hall;
      destruct (anyc cs (ekeys _)) eqn:Hany; simpl negb; cbv iota; try reflexivity.
    - unfold Model.has_met; cbn [Model.linC Model.linE];
        repeat match goal with |- context [lin true ?x r] => destruct (lin true x r) end; now destruct icov.
    - simpl in *. rewrite !(has_met_CScale A a0 a1 ahalf aadd amul asub anonneg apowm2 P ptab plog psqrt dims).
      now rewrite IHh.
    - rewrite has_met_CIns. now rewrite (l_merge_agree cs rc r Ha).
    - simpl in *. rewrite !has_met_CHam. now apply IHh.
    - rewrite (has_met_CIns cs rc). now rewrite (l_merge_agree cs rc r Ha).
  Qed.

  (* C04_metric for the family *)
  Lemma fam_metric K cs rc r h : agree cs rc r -> mfam h = true -> cshape K h = true ->
    forall d k j, k < K -> j < dims k ->
    metapp true (simplifyC cs rc h) r d k j = if cs k then a0 else metapp true h r (mask cs d) k j.
  Proof.
    intros Ha. induction h; intros Hf Hs d k j Hk Hj; try discriminate;
      try (now apply (gauss_metric A a0 a1 ahalf aadd amul asub aopp anonneg apowm2 Rth P ptab plog psqrt dims Hpure K));
      rewrite l_simplifyC_eq2;
      match goal with |- context [anyc cs (ekeys ?H)] => destruct (anyc cs (ekeys H)) eqn:Hany end; simpl negb; cbv iota;
      (* the "no key constant" and "every key constant" cases are generic *)
      try match goal with
      | Hany : anyc cs (ekeys ?H) = false |- metapp true ?H r d k j = _ =>
          destruct (cs k) eqn:Ek;
          [ apply (metS K H r d k j Hf Hs Hk Hj); intros X;
            assert (Y : anyc cs (ekeys H) = true) by (apply existsb_exists; exists k; split; assumption); congruence
          | apply (metK K H r d (mask cs d) k j Hf Hs Hk Hj); intros k' Hk' i; symmetry;
            now apply (anyc_false_mask A a0 cs (ekeys H)) ]
      end;
      match goal with |- context [allc cs (ekeys ?H)] => destruct (allc cs (ekeys H)) eqn:Hall end;
      try match goal with
      | Hall : allc cs (ekeys ?H) = true |- metapp true (CConst _) r d k j = _ =>
          rewrite metapp_CConst; destruct (cs k); [reflexivity|]; symmetry;
          rewrite (metK K H r (mask cs d) (fun _ _ => a0) k j Hf Hs Hk Hj);
          [ apply (metZ K H r k j Hf Hs Hk Hj)
          | intros k' Hk' i; unfold Model.mask; now rewrite (allc_all cs _ Hall k' Hk') ]
      end.
    - (* CScale *)
      simpl in Hf, Hs. rewrite !(metapp_CScale A a0 a1 ahalf aadd amul asub aopp anonneg apowm2 Rth P ptab plog psqrt dims).
      rewrite (IHh Hf Hs d k j Hk Hj). destruct (cs k); destruct (anonneg c); try reflexivity; ring.
    - (* CAddL: InsertionOperator *)
      rewrite metapp_CIns. now rewrite (l_merge_agree cs rc r Ha).
    - (* CHam *)
      simpl in Hf, Hs. rewrite !metapp_CHam.
      rewrite (fam_has_met cs rc r h Ha Hf Hall). rewrite (IHh Hf Hs d k j Hk Hj).
      rewrite l_ukeys_simplifyC. rewrite !prior_met_apply by (try apply NoDup_nodup; apply NoDup_filter, NoDup_nodup).
      rewrite existsb_filter. unfold nc, Model.mask.
      destruct (cs k) eqn:Ek; simpl; destruct (has_met true h r); destruct (existsb (Nat.eqb k) (ukeys h)); try reflexivity; ring.
    - (* CConst: no keys *)
      unfold Model.anyc in Hany; simpl in Hany; discriminate.
    - (* CIns *)
      rewrite (metapp_CIns cs rc). now rewrite (l_merge_agree cs rc r Ha).
  Qed.
End ProofsM2.
