(* C04 -- property theorems only.  Each is closed by [exact] of a lemma from Closed.v / ProofsQ.v. *)
From Coq Require Import List Arith Bool Ring ZArith QArith Qcanon.
Import ListNotations.
Require Import NV.C03.Model NV.C03.ModelQ NV.C04.Model NV.C04.ModelQ NV.C04.Proofs NV.C04.ProofsE NV.C04.ProofsM NV.C04.ProofsM2
               NV.C04.Closed NV.C04.ProofsQ.

(* Operators: the specialised operator, evaluated at any point that carries the constants on the constant keys,
   returns the value of the original (every tree, every set of constant keys, any commutative ring). *)
Theorem C04_value :
  forall (A : Type) (a0 : A) (aadd amul asub : A -> A -> A) 
           (P : Type) (ptab : P -> ptw_entry A) (dims : nat -> nat)
           (cs : nat -> bool) (rc r : env A) (e : expr A P) 
           (i : nat),
         Proofs.agree A cs rc r ->
         eval A a0 aadd amul asub P ptab
           (simplify A a0 aadd amul asub P ptab dims cs rc e) r i =
         eval A a0 aadd amul asub P ptab e r i.
Proof. exact c_value. Qed.

(* Operators: the Jacobian of the specialised operator applied to a tangent = the original Jacobian applied to the
   tangent with its constant-key components zeroed (= the Jacobian under Linearization.make_partial_var). *)
Theorem C04_jac :
  forall (A : Type) (a0 a1 : A) (aadd amul asub : A -> A -> A)
           (aopp : A -> A),
         Ring_theory.ring_theory a0 a1 aadd amul asub aopp eq ->
         forall (P : Type) (ptab : P -> ptw_entry A) (dims : nat -> nat),
         (forall (p : P) (x : A), pf (ptab p) x = phf (ptab p) x) ->
         forall (om : bool) (cs : nat -> bool) (rc r d : env A) 
           (e : expr A P) (i : nat),
         Proofs.agree A cs rc r ->
         times A a0 aadd amul
           (snd
              (lin A a0 a1 aadd amul asub P ptab om
                 (simplify A a0 aadd amul asub P ptab dims cs rc e) r)) d i =
         times A a0 aadd amul (snd (lin A a0 a1 aadd amul asub P ptab om e r))
           (mask A a0 cs d) i.
Proof. exact c_jac. Qed.

(* ... and in ADJOINT mode: no constant-key components, the original's components on the variable keys. *)
Theorem C04_jac_adjoint :
  forall (A : Type) (a0 a1 : A) (aadd amul asub : A -> A -> A)
           (aopp : A -> A),
         Ring_theory.ring_theory a0 a1 aadd amul asub aopp eq ->
         forall (P : Type) (ptab : P -> ptw_entry A) (dims : nat -> nat),
         (forall (p : P) (x : A), pf (ptab p) x = phf (ptab p) x) ->
         forall (K : nat) (om : bool) (cs : nat -> bool) 
           (rc r : env A) (e : expr A P) (m : nat) (y : vec A) 
           (k j : nat),
         Proofs.agree A cs rc r ->
         eshape A P K dims e = Some m ->
         k < K ->
         j < dims k ->
         adj A a0 aadd amul
           (snd
              (lin A a0 a1 aadd amul asub P ptab om
                 (simplify A a0 aadd amul asub P ptab dims cs rc e) r)) y k j =
         (if cs k
          then a0
          else
           adj A a0 aadd amul (snd (lin A a0 a1 aadd amul asub P ptab om e r))
             y k j).
Proof. exact c_jac_adjoint. Qed.

(* The specialised operator depends on exactly the variable keys of the original. *)
Theorem C04_domain :
  forall (A : Type) (a0 : A) (aadd amul asub : A -> A -> A) 
           (P : Type) (ptab : P -> ptw_entry A) (dims : nat -> nat)
           (cs : nat -> bool) (rc : env A) (e : expr A P),
         keys A P (simplify A a0 aadd amul asub P ptab dims cs rc e) =
         List.filter (fun k : nat => negb (cs k)) (keys A P e).
Proof. exact c_domain. Qed.

(* Energies: specialised value + offset = original value, where the offset is 0 for every energy that contains no
   StandardHamiltonian (second conjunct) and otherwise the prior energy of the constant keys (see C04_value_refuted). *)
Theorem C04_energy_value :
  forall (A : Type) (a0 a1 ahalf : A) (aadd amul asub : A -> A -> A)
           (aopp : A -> A),
         (A -> bool) ->
         (A -> A) ->
         Ring_theory.ring_theory a0 a1 aadd amul asub aopp eq ->
         forall (P : Type) (ptab : P -> ptw_entry A) 
           (plog : P) (dims : nat -> nat) (cs : nat -> bool) 
           (rc r : env A) (h : cen A P),
         Proofs.agree A cs rc r ->
         aadd
           (evalC A a0 a1 ahalf aadd amul asub P ptab plog dims
              (simplifyC A a0 a1 ahalf aadd amul asub P ptab plog dims cs rc h)
              r) (offset A a0 ahalf aadd amul P dims cs rc h) =
         evalC A a0 a1 ahalf aadd amul asub P ptab plog dims h r /\
         (ham_free A P h = true ->
          evalC A a0 a1 ahalf aadd amul asub P ptab plog dims
            (simplifyC A a0 a1 ahalf aadd amul asub P ptab plog dims cs rc h) r =
          evalC A a0 a1 ahalf aadd amul asub P ptab plog dims h r).
Proof. exact c_energy_value. Qed.

(* Energies (Gaussian chains, scaled, likelihood sums via InsertionOperator, variable-covariance Gaussian,
   StandardHamiltonian): directional derivative of the specialised energy = original along the masked direction;
   in particular directions supported on constant keys are never seen. *)
Theorem C04_energy_jacobian :
  forall (A : Type) (a0 a1 ahalf : A) (aadd amul asub : A -> A -> A)
           (aopp : A -> A) (anonneg : A -> bool) (apowm2 : A -> A),
         Ring_theory.ring_theory a0 a1 aadd amul asub aopp eq ->
         forall (P : Type) (ptab : P -> ptw_entry A) 
           (plog psqrt : P) (dims : nat -> nat),
         (forall (p : P) (x : A), pf (ptab p) x = phf (ptab p) x) ->
         amul ahalf (two A a1 aadd) = a1 ->
         forall (wm : bool) (cs : nat -> bool) (rc r d : env A) (h : cen A P),
         Proofs.agree A cs rc r ->
         times A a0 aadd amul
           (snd
              (fst
                 (linC A a0 a1 ahalf aadd amul asub anonneg apowm2 P ptab plog
                    psqrt dims wm
                    (simplifyC A a0 a1 ahalf aadd amul asub P ptab plog dims cs
                       rc h) r))) d 0 =
         times A a0 aadd amul
           (snd
              (fst
                 (linC A a0 a1 ahalf aadd amul asub anonneg apowm2 P ptab plog
                    psqrt dims wm h r))) (mask A a0 cs d) 0.
Proof. exact c_energy_jac. Qed.

(* The specialised energy depends on exactly the variable keys. *)
Theorem C04_energy_domain :
  forall (A : Type) (a0 a1 ahalf : A) (aadd amul asub : A -> A -> A)
           (P : Type) (ptab : P -> ptw_entry A) (plog : P) 
           (dims : nat -> nat) (cs : nat -> bool) (rc : env A) 
           (h : cen A P),
         ekeys A P
           (simplifyC A a0 a1 ahalf aadd amul asub P ptab plog dims cs rc h) =
         List.filter (fun k : nat => negb (cs k)) (ekeys A P h).
Proof. exact c_energy_domain. Qed.

(* PARTIAL only with respect to the variable-covariance Gaussian.  For every energy built from Gaussian likelihood
   chains, scalings, likelihood sums (specialised through the InsertionOperator fall-back), StandardHamiltonian,
   constants and insertions ([mfam]): the metric of the specialised energy is the variable-key block of the original
   metric, and it is present iff the original's is.  Not proved: VariableCovarianceGaussianEnergy with
   use_full_fisher=True (covered by the exact correspondence and the direct oracle); REFUTED for use_full_fisher=False. *)
Theorem C04_metric_partial :
  forall (A : Type) (a0 a1 ahalf : A) (aadd amul asub : A -> A -> A)
           (aopp : A -> A) (anonneg : A -> bool) (apowm2 : A -> A),
         Ring_theory.ring_theory a0 a1 aadd amul asub aopp eq ->
         forall (P : Type) (ptab : P -> ptw_entry A) 
           (plog psqrt : P) (dims : nat -> nat),
         (forall (p : P) (x : A), pf (ptab p) x = phf (ptab p) x) ->
         forall (K : nat) (cs : nat -> bool) (rc r : env A) (h : cen A P),
         Proofs.agree A cs rc r ->
         mfam A P h = true ->
         cshape A P dims K h = true ->
         (forall (d : env A) (k j : nat),
          k < K ->
          j < dims k ->
          metapp A a0 a1 ahalf aadd amul asub anonneg apowm2 P ptab plog psqrt
            dims true
            (simplifyC A a0 a1 ahalf aadd amul asub P ptab plog dims cs rc h) r
            d k j =
          (if cs k
           then a0
           else
            metapp A a0 a1 ahalf aadd amul asub anonneg apowm2 P ptab plog
              psqrt dims true h r (mask A a0 cs d) k j)) /\
         (allc cs (ekeys A P h) = false ->
          has_met A a0 a1 ahalf aadd amul asub anonneg apowm2 P ptab plog psqrt
            dims true
            (simplifyC A a0 a1 ahalf aadd amul asub P ptab plog dims cs rc h) r =
          has_met A a0 a1 ahalf aadd amul asub anonneg apowm2 P ptab plog psqrt
            dims true h r).
Proof. exact c_metric. Qed.

(* No call-history dependence: on ONE specialised energy, the answer (value, Jacobian, metric) to the k-th
   linearized call of any sequence of (want_metric, point) calls is the answer to that call alone.  The check
   observes the implementation's specialised operator after earlier want_metric=False/True calls on the same
   object and compares with this model, so a history-dependent implementation is a correspondence disagreement. *)
Theorem C04_history_independent :
  forall (A : Type) (a0 a1 ahalf : A) (aadd amul asub : A -> A -> A)
           (anonneg : A -> bool) (apowm2 : A -> A) (P : Type)
           (ptab : P -> ptw_entry A) (plog psqrt : P) 
           (dims : nat -> nat) (cs : nat -> bool) (rc : env A) 
           (h : cen A P) (pre post : list (bool * env A)) 
           (c : bool * env A) (dflt : A * jop A * option (mop A)),
         List.nth (length pre)
           (call_seq A a0 a1 ahalf aadd amul asub anonneg apowm2 P ptab plog
              psqrt dims
              (simplifyC A a0 a1 ahalf aadd amul asub P ptab plog dims cs rc h)
              (pre ++ c :: post)) dflt =
         linC A a0 a1 ahalf aadd amul asub anonneg apowm2 P ptab plog psqrt
           dims (fst c)
           (simplifyC A a0 a1 ahalf aadd amul asub P ptab plog dims cs rc h)
           (snd c).
Proof. exact c_history. Qed.

(* The faithful model REFUTES the property in two places (witnesses computed in Qc; both are replayed on the
   implementation by the direct oracle and recorded as open findings):
   1. VariableCovarianceGaussianEnergy(use_full_fisher=False) with the residual key constant: the specialised
      energy (_SpecialGammaEnergy) carries the exact Fisher metric 0.5/i^2, the original the approximation
      r^2/(4i) + 0.25/i^2. *)
Theorem C04_metric_refuted :
  exists (h : qcen) (cs : nat -> bool) (r d : env Qc) (k j : nat),
    agree Qc cs r r /\ anyc cs (qekeys h) = true /\ allc cs (qekeys h) = false /\
    qcshape [1; 1] 2 h = true /\ k < 2 /\ j < 1 /\
    qmetapp [1; 1] true (qsimplifyC [1; 1] cs r h) r d k j
    <> (if cs k then q 0 1 else qmetapp [1; 1] true h r (mask Qc (q 0 1) cs d) k j).
Proof. exact metric_refuted. Qed.

(* 2. StandardHamiltonian: the specialised Hamiltonian's prior covers the variable keys only, so its value lacks
      0.5*|c|^2 of the constant keys (exactly the offset of C04_energy_value). *)
Theorem C04_value_refuted :
  exists (h : qcen) (cs : nat -> bool) (r : env Qc),
    agree Qc cs r r /\ anyc cs (qekeys h) = true /\ allc cs (qekeys h) = false /\ qcshape [1; 1] 2 h = true /\
    qevalC [1; 1] (qsimplifyC [1; 1] cs r h) r <> qevalC [1; 1] h r.
Proof. exact value_refuted. Qed.

(* Non-vacuity: a scaled Gaussian chain over two keys with one of them constant meets every hypothesis. *)
Example C04_hyps_satisfiable :
  gchain Qc qname w_g = true /\ ham_free Qc qname w_g = true /\ qcshape [1; 1] 2 w_g = true /\
  anyc w_cs (qekeys w_g) = true /\ allc w_cs (qekeys w_g) = false /\ agree Qc w_cs w_r2 w_r2.
Proof. exact hyps_satisfiable. Qed.

Example C04_family_satisfiable :
  mfam Qc qname w_fam = true /\ qcshape [1; 1] 2 w_fam = true /\
  anyc w_cs (qekeys w_fam) = true /\ allc w_cs (qekeys w_fam) = false.
Proof. exact fam_satisfiable. Qed.
