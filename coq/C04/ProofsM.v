(* C04 -- the metric of a specialised Gaussian likelihood chain  c_1*...*c_k*(GaussianEnergy @ op)  is the
   variable-key block of the original metric. *)
From Coq Require Import List Arith Bool Lia Ring Setoid.
Import ListNotations.
Require Import NV.C03.Model NV.C03.Proofs NV.C04.Model NV.C04.Proofs NV.C04.ProofsE.

Section ProofsM.
  Variable A : Type.
  Variables (a0 a1 ahalf : A) (aadd amul asub : A -> A -> A) (aopp : A -> A).
  Variable anonneg : A -> bool.
  Variable apowm2 : A -> A.
  Variable Rth : ring_theory a0 a1 aadd amul asub aopp (@eq A).
  Add Ring Aring : Rth.
  Variable P : Type.
  Variable ptab : P -> ptw_entry A.
  Variables (plog psqrt : P).
  Variable dims : nat -> nat.
  Hypothesis Hpure : forall p x, pf (ptab p) x = phf (ptab p) x.

  Notation vec := (vec A).
  Notation env := (env A).
  Notation expr := (expr A P).
  Notation cen := (cen A P).
  Notation sumn := (sumn A a0 aadd).
  Notation eval := (eval A a0 aadd amul asub P ptab).
  Notation lin := (lin A a0 a1 aadd amul asub P ptab).
  Notation evalD := (evalD A a0 a1 aadd amul asub P ptab).
  Notation times := (times A a0 aadd amul).
  Notation times1 := (times1 A a0 aadd amul).
  Notation adj := (adj A a0 aadd amul).
  Notation dotn := (dotn A a0 aadd amul).
  Notation dotE := (dotE A a0 aadd amul).
  Notation mapply := (mapply A a0 aadd amul).
  Notation simplify := (simplify A a0 aadd amul asub P ptab dims).
  Notation keys := (keys A P).
  Notation ekeys := (ekeys A P).
  Notation mask := (mask A a0).
  Notation basis := (basis A a0 a1).
  Notation agree := (agree A).
  Notation linC := (linC A a0 a1 ahalf aadd amul asub anonneg apowm2 P ptab plog psqrt dims).
  Notation simplifyC := (simplifyC A a0 a1 ahalf aadd amul asub P ptab plog dims).
  Notation metapp := (metapp A a0 a1 ahalf aadd amul asub anonneg apowm2 P ptab plog psqrt dims).
  Notation has_met := (has_met A a0 a1 ahalf aadd amul asub anonneg apowm2 P ptab plog psqrt dims).
  Notation gchain := (gchain A P).
  Notation cshape := (cshape A P dims).
  Infix "+" := aadd. Infix "*" := amul. Infix "-" := asub.

  Let sumn_ext := sumn_ext A a0 aadd.
  Let sumn_zero := sumn_zero A a0 a1 aadd amul asub aopp Rth.

  (* local restatements (section variables of the imported lemmas fixed by unification) *)
  Lemma l_dotn_ext n (x y y' : vec) : (forall i, y i = y' i) -> dotn n x y = dotn n x y'.
  Proof. intros H. unfold Model.dotn. apply sumn_ext; intros; now rewrite H. Qed.
  Lemma l_dotn_zero_r n (x : vec) : dotn n x (fun _ => a0) = a0.
  Proof. unfold Model.dotn. rewrite (sumn_ext n _ (fun _ => a0)); [apply sumn_zero | intros; ring]. Qed.
  Lemma l_times_ext J (d d' : env) : (forall k i, d k i = d' k i) -> forall i, times J d i = times J d' i.
  Proof. apply times_ext. Qed.
  Lemma l_times_zero J i : times J (fun _ _ => a0) i = a0.
  Proof. eapply times_zero; eauto. Qed.
  Lemma l_dotE_basis K (x : env) k j : k < K -> j < dims k -> dotE K dims x (basis k j) = x k j.
  Proof. eapply dotE_basis; eauto. Qed.
  Lemma l_adj_ok K J m y d : jshape A K dims J = Some m -> dotE K dims (adj J y) d = dotn m y (times J d).
  Proof. eapply adj_ok; eauto. Qed.
  Lemma l_lin_shape K om e r m : eshape A P K dims e = Some m -> jshape A K dims (snd (lin om e r)) = Some m.
  Proof. apply lin_shape. Qed.
  Lemma l_jac_dual om e r d i : times (snd (lin om e r)) d i = snd (evalD e r d i).
  Proof. eapply jac_dual; eauto. Qed.
  Lemma l_dual_keys e r (d d' : env) : (forall k, In k (keys e) -> forall i, d k i = d' k i) ->
    forall i, snd (evalD e r d i) = snd (evalD e r d' i).
  Proof. apply dual_keys. Qed.
  Lemma l_dual_zero cs e r d : (forall k, In k (keys e) -> cs k = true) -> forall i, snd (evalD e r (mask cs d) i) = a0.
  Proof. eapply dual_zero; eauto. Qed.
  Lemma l_eshape_simplify K cs rc e m : eshape A P K dims e = Some m -> eshape A P K dims (simplify cs rc e) = Some m.
  Proof. apply eshape_simplify. Qed.
  Lemma l_simplify_times om cs rc r d e : agree cs rc r ->
    forall i, times (snd (lin om (simplify cs rc e) r)) d i = times (snd (lin om e r)) (mask cs d) i.
  Proof. eapply simplify_times; eauto. Qed.
  Lemma l_simplifyC_eq cs rc n data icov e :
    simplifyC cs rc (CGauss n data icov e) =
    if negb (anyc cs (keys e)) then CGauss n data icov e
    else if allc cs (keys e) then CConst (evalC A a0 a1 ahalf aadd amul asub P ptab plog dims (CGauss n data icov e) rc)
    else CGauss n data icov (simplify cs rc e).
  Proof. reflexivity. Qed.

  Lemma times1_ext N (y y' : vec) : (forall i, y i = y' i) -> forall i, times1 N y i = times1 N y' i.
  Proof. intros H i. destruct N; simpl; rewrite ?H; try reflexivity; apply sumn_ext; intros; now rewrite H. Qed.

  Lemma dotn_ext_l n (x x' y : vec) : (forall i, x i = x' i) -> dotn n x y = dotn n x' y.
  Proof. intros H. unfold Model.dotn. apply sumn_ext; intros; now rewrite H. Qed.

  Lemma dotn_zero_l n (y : vec) : dotn n (fun _ => a0) y = a0.
  Proof. unfold Model.dotn. rewrite (sumn_ext n _ (fun _ => a0)); [apply sumn_zero | intros; ring]. Qed.

  (* the (k,j) entry of a sandwich applied to d, through adjointness *)
  Lemma sand_entry K J m N d k j : jshape A K dims J = Some m -> k < K -> j < dims k ->
    mapply (MSand J N) d k j = dotn m (times1 N (times J d)) (times J (basis k j)).
  Proof.
    intros S Hk Hj. simpl.
    rewrite <- (l_dotE_basis K (adj J (times1 N (times J d))) k j Hk Hj).
    now rewrite (l_adj_ok K J m _ (basis k j) S).
  Qed.

  Lemma sand_rel K cs J0 J m N d k j :
    jshape A K dims J0 = Some m -> jshape A K dims J = Some m ->
    (forall x i, times J0 x i = times J (mask cs x) i) -> k < K -> j < dims k ->
    mapply (MSand J0 N) d k j = if cs k then a0 else mapply (MSand J N) (mask cs d) k j.
  Proof.
    intros S0 S R Hk Hj.
    rewrite (sand_entry K J0 m N d k j S0 Hk Hj).
    assert (Y : forall i, times1 N (times J0 d) i = times1 N (times J (mask cs d)) i) by (apply times1_ext; apply R).
    rewrite (dotn_ext_l m _ _ _ Y).
    rewrite (l_dotn_ext m _ _ (times J (mask cs (basis k j)))) by (apply R).
    destruct (cs k) eqn:Ek.
    - rewrite (l_dotn_ext m _ _ (fun _ => a0)); [apply l_dotn_zero_r|].
      intros i. rewrite (l_times_ext J _ (fun _ _ => a0)); [apply l_times_zero|].
      intros k' i'. unfold Model.mask, Model.basis. destruct (cs k') eqn:E; [reflexivity|].
      destruct (Nat.eqb_spec k' k); [subst; congruence | reflexivity].
    - rewrite (sand_entry K J m N (mask cs d) k j S Hk Hj).
      transitivity (dotn m (times1 N (times J (mask cs d))) (times J (basis k j))).
      + apply l_dotn_ext. intros i. apply l_times_ext. intros k' i'.
        unfold Model.mask, Model.basis. destruct (cs k') eqn:E; [|reflexivity].
        destruct (Nat.eqb_spec k' k); [subst; congruence | reflexivity].
      + apply dotn_ext_l. apply times1_ext. intros i. apply l_times_ext. intros k' i'.
        unfold Model.mask. now destruct (cs k').
  Qed.

  Lemma metapp_CScale c h r d k j :
    metapp true (CScale c h) r d k j = if anonneg c then c * metapp true h r d k j else a0.
  Proof.
    unfold Model.metapp. simpl. destruct (linC true h r) as [[v J] m]. simpl.
    destruct (anonneg c); [|reflexivity]. destruct m; simpl; [reflexivity | ring].
  Qed.

  Lemma has_met_CScale c h r : has_met true (CScale c h) r = anonneg c && has_met true h r.
  Proof.
    unfold Model.has_met. simpl. destruct (linC true h r) as [[v J] m]. simpl.
    destruct (anonneg c); [|reflexivity]. now destruct m.
  Qed.

  Lemma anyc_false_mask cs (l : list nat) (x : env) :
    anyc cs l = false -> forall k, In k l -> forall i, mask cs x k i = x k i.
  Proof.
    intros H k Hk i. unfold Model.mask. destruct (cs k) eqn:E; [|reflexivity]. exfalso.
    assert (X : anyc cs l = true) by (apply existsb_exists; exists k; split; assumption). congruence.
  Qed.

  Lemma gauss_metric K cs rc r n data icov e d k j :
    agree cs rc r -> cshape K (CGauss n data icov e) = true -> k < K -> j < dims k ->
    metapp true (simplifyC cs rc (CGauss n data icov e)) r d k j
    = if cs k then a0 else metapp true (CGauss n data icov e) r (mask cs d) k j.
  Proof.
    intros Ha Hs Hk Hj. simpl in Hs.
    destruct (eshape A P K dims e) as [m|] eqn:Es; [|discriminate]. apply Nat.eqb_eq in Hs. subst m.
    pose proof (l_lin_shape K true e r n Es) as S.
    rewrite l_simplifyC_eq.
    destruct (anyc cs (keys e)) eqn:Hany; simpl negb; cbv iota.
    2:{ (* no key constant: the operator is returned unchanged *)
      unfold Model.metapp. cbn [Model.linC Model.linE].
      destruct (lin true e r) as [v J] eqn:El. simpl in S.
      destruct icov; simpl snd; cbv iota;
        (apply (sand_rel K cs J J n _ d k j S S); [|assumption|assumption];
         intros x i; pose proof (l_jac_dual true e r) as JD;
         rewrite El in JD; simpl in JD; rewrite !JD; apply l_dual_keys;
         intros k' Hk' i'; symmetry; now apply (anyc_false_mask cs (keys e))). }
    destruct (allc cs (keys e)) eqn:Hall.
    - (* every key constant: ConstantLikelihoodEnergyOperator, NullOperator metric *)
      unfold Model.metapp at 1. cbn [Model.linC]. simpl snd. cbv iota. simpl.
      destruct (cs k); [reflexivity|].
      unfold Model.metapp. cbn [Model.linC Model.linE].
      destruct (lin true e r) as [v J] eqn:El. simpl in S.
      assert (Z : forall i, times J (mask cs d) i = a0).
      { intros i. pose proof (l_jac_dual true e r) as JD.
        rewrite El in JD; simpl in JD. rewrite JD. apply l_dual_zero.
        apply allc_all. exact Hall. }
      destruct icov; cbn [snd]; unfold Model.ezero;
        rewrite (sand_entry K J n _ _ k j S Hk Hj); symmetry;
        (rewrite (dotn_ext_l n _ (fun _ => a0)); [apply dotn_zero_l|]);
        intros i; simpl; rewrite ?Z; try ring.
    - (* proper part constant *)
      unfold Model.metapp. cbn [Model.linC Model.linE].
      pose proof (l_lin_shape K true _ r n (l_eshape_simplify K cs rc e n Es)) as S0.
      pose proof (fun x e => l_simplify_times true cs rc r x e) as ST.
      destruct (lin true (simplify cs rc e) r) as [v0 J0] eqn:El0. destruct (lin true e r) as [v J] eqn:El.
      simpl in S, S0.
      assert (R : forall x i, times J0 x i = times J (mask cs x) i).
      { intros x i. specialize (ST x e Ha i). rewrite El0, El in ST. exact ST. }
      destruct icov; simpl snd; cbv iota; now apply (sand_rel K cs J0 J n _ d k j S0 S R).
  Qed.

  Lemma l_simplifyC_scale cs rc c h :
    simplifyC cs rc (CScale c h) =
    if negb (anyc cs (ekeys h)) then CScale c h
    else if allc cs (ekeys h) then CConst (evalC A a0 a1 ahalf aadd amul asub P ptab plog dims (CScale c h) rc)
    else CScale c (simplifyC cs rc h).
  Proof. reflexivity. Qed.

  Lemma l_simplifyC_cases cs rc h :
    simplifyC cs rc h = h \/ (exists c, simplifyC cs rc h = CConst c) \/
    (anyc cs (ekeys h) = true /\ allc cs (ekeys h) = false).
  Proof.
    rewrite (simplifyC_eq A a0 a1 ahalf aadd amul asub P ptab plog dims).
    destruct (anyc cs (ekeys h)); simpl; [|now left].
    destruct (allc cs (ekeys h)); [right; left; eexists; reflexivity | right; right; split; reflexivity].
  Qed.

  (* C04_metric for Gaussian likelihood chains *)
  Lemma gchain_metric K cs rc r h : agree cs rc r -> gchain h = true -> cshape K h = true ->
    forall d k j, k < K -> j < dims k ->
    metapp true (simplifyC cs rc h) r d k j = if cs k then a0 else metapp true h r (mask cs d) k j.
  Proof.
    intros Ha. induction h; intros Hg Hs d k j Hk Hj; try discriminate.
    - now apply (gauss_metric K).
    - simpl in Hg, Hs. specialize (IHh Hg Hs d k j Hk Hj).
      rewrite l_simplifyC_scale.
      destruct (anyc cs (ekeys h)) eqn:Hany; simpl negb; cbv iota.
      + destruct (allc cs (ekeys h)) eqn:Hall.
        * (* everything constant *)
          assert (E : simplifyC cs rc h = CConst (evalC A a0 a1 ahalf aadd amul asub P ptab plog dims h rc))
            by (rewrite (simplifyC_eq A a0 a1 ahalf aadd amul asub P ptab plog dims), Hany, Hall; reflexivity).
          rewrite E in IHh.
          unfold Model.metapp at 1. cbn [Model.linC snd]. simpl.
          unfold Model.metapp at 1 in IHh. cbn [Model.linC snd] in IHh. simpl in IHh.
          destruct (cs k); [reflexivity|]. rewrite metapp_CScale. rewrite <- IHh.
          unfold Model.ezero. destruct (anonneg c); [ring | reflexivity].
        * rewrite !metapp_CScale. rewrite IHh. destruct (cs k); destruct (anonneg c); try reflexivity; ring.
      + assert (E : simplifyC cs rc h = h)
          by (rewrite (simplifyC_eq A a0 a1 ahalf aadd amul asub P ptab plog dims), Hany; reflexivity).
        rewrite E in IHh.
        rewrite !metapp_CScale. rewrite IHh. destruct (cs k); destruct (anonneg c); try reflexivity; ring.
  Qed.

  Lemma gchain_has_met cs rc r h : gchain h = true -> allc cs (ekeys h) = false ->
    has_met true (simplifyC cs rc h) r = has_met true h r.
  Proof.
    induction h; intros Hg Hall; try discriminate.
    - rewrite l_simplifyC_eq. simpl in Hall. rewrite Hall.
      destruct (anyc cs (keys e)); simpl negb; cbv iota; unfold Model.has_met; cbn [Model.linC Model.linE];
        repeat match goal with |- context [lin true ?x r] => destruct (lin true x r) end; now destruct icov.
    - simpl in Hg, Hall. rewrite l_simplifyC_scale. rewrite Hall.
      destruct (anyc cs (ekeys h)); simpl negb; cbv iota; [|reflexivity].
      rewrite !has_met_CScale. now rewrite IHh.
  Qed.
End ProofsM.
