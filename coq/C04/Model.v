(* C04 -- executable model of Operator.simplify_for_constant_input and the per-class
   _simplify_for_constant_input_nontrivial (operator.py, energy_operators.py, simplify_for_const.py),
   over the expression language of C03.  NO proofs in this file.

   [cs : nat -> bool] says which keys are constant, [rc : env] holds their values (read only at
   constant keys).  Operator.simplify_for_constant_input (operator.py:393-435):
       c_inp empty (no key of the operator is constant)            -> (None, self)
       dom is self.domain (every key of the operator is constant)   -> Constant*Operator(self(c_inp))
       otherwise                                                    -> _simplify_for_constant_input_nontrivial *)
From Coq Require Import List Arith Bool.
Import ListNotations.
Require Import NV.C03.Model.

Section Simp.
  Variable A : Type.
  Variables (a0 a1 ahalf : A) (aadd amul asub : A -> A -> A).
  Variable anonneg : A -> bool.
  Variable apowm2 : A -> A.               (* v ** (-2)   (Field.__pow__ in VariableCovarianceGaussianEnergy.apply) *)
  Variable P : Type.
  Variable ptab : P -> ptw_entry A.
  Variables (plog psqrt : P).             (* the entries "log" and "sqrt" of ptw_dict *)
  Variable dims : nat -> nat.             (* pixels of each key's field *)

  Notation vec := (vec A).
  Notation env := (env A).
  Notation expr := (expr A P).
  Notation sumn := (sumn A a0 aadd).
  Notation eval := (eval A a0 aadd amul asub P ptab).
  Notation lin := (lin A a0 a1 aadd amul asub P ptab).
  Notation two := (two A a1 aadd).

  Definition am1 : A := asub a0 a1.

  (* ---- operators ------------------------------------------------------------------------------ *)
  Fixpoint keys (e : expr) : list nat :=
    match e with
    | Var k => [k]
    | Const _ _ => []
    | AddC _ _ e | MulC _ e | Scale _ e | Ptw _ e | Sum _ e | Sq2 _ e => keys e
    | Mul e1 e2 | Add e1 e2 | Vdot _ e1 e2 => keys e1 ++ keys e2
    end.

  (* "dom is self.domain" for a non-empty c_inp restricted to the operator's keys *)
  Definition allc (cs : nat -> bool) (l : list nat) : bool :=
    match l with [] => false | _ => forallb cs l end.

  Fixpoint esize (e : expr) : nat :=
    match e with
    | Var k => dims k
    | Const m _ => m
    | AddC _ _ e | MulC _ e | Scale _ e | Ptw _ e => esize e
    | Mul e1 _ | Add e1 _ => esize e1
    | Sum _ _ | Vdot _ _ _ | Sq2 _ _ => 1
    end.

  (* _OpChain: walk from the innermost operator, keep the outer ones (`op(newop)`);
     _OpProd / _OpSum: simplify both factors with c_inp.extract_part(op.domain);
     every level first goes through Operator.simplify_for_constant_input. *)
  Fixpoint simplify (cs : nat -> bool) (rc : env) (e : expr) : expr :=
    if allc cs (keys e) then Const (esize e) (eval e rc)      (* ConstantOperator(self(c_inp)) *)
    else match e with
         | Var k => Var k
         | Const m c => Const m c
         | AddC neg c e => AddC neg c (simplify cs rc e)
         | MulC c e => MulC c (simplify cs rc e)
         | Scale c e => Scale c (simplify cs rc e)
         | Ptw p e => Ptw p (simplify cs rc e)
         | Mul e1 e2 => Mul (simplify cs rc e1) (simplify cs rc e2)
         | Add e1 e2 => Add (simplify cs rc e1) (simplify cs rc e2)
         | Sum n e => Sum n (simplify cs rc e)
         | Vdot n e1 e2 => Vdot n (simplify cs rc e1) (simplify cs rc e2)
         | Sq2 n e => Sq2 n (simplify cs rc e)
         end.

  Definition mask (cs : nat -> bool) (d : env) : env := fun k => if cs k then fun _ => a0 else d k.
  Definition merge (cs : nat -> bool) (rc r : env) : env := fun k => if cs k then rc k else r k.

  (* ---- energies --------------------------------------------------------------------------------- *)
  Inductive cen :=
  | CGauss (n : nat) (data icov : option vec) (e : expr)   (* GaussianEnergy(data, makeOp(icov)) @ e   (_LikelihoodChain) *)
  | CScale (c : A) (h : cen)                               (* c * h                                    (_LikelihoodChain(Scaling, h)) *)
  | CAddL (h1 h2 : cen)                                    (* h1 + h2                                  (_LikelihoodSum) *)
  | CVCG (n : nat) (uff : bool) (kr ki : nat)              (* VariableCovarianceGaussianEnergy(dom, kr, ki, float64, use_full_fisher) *)
  | CHam (h : cen)                                         (* StandardHamiltonian(h), ic_samp = None *)
  | CConst (c : A)                                         (* Constant(Likelihood)EnergyOperator(c) *)
  | CIns (cs : nat -> bool) (rc : env) (h : cen)           (* h @ InsertionOperator(h.domain, c_inp)   (default fall-back) *)
  | CGamma (n : nat) (r : vec) (ki : nat).                 (* _SpecialGammaEnergy(r).ducktape(ki) *)

  Fixpoint ekeys (h : cen) : list nat :=
    match h with
    | CGauss _ _ _ e => keys e
    | CScale _ h | CHam h => ekeys h
    | CAddL h1 h2 => ekeys h1 ++ ekeys h2
    | CVCG _ _ kr ki => [kr; ki]
    | CConst _ => []
    | CIns cs _ h => filter (fun k => negb (cs k)) (ekeys h)
    | CGamma _ _ ki => [ki]
    end.

  Definition ukeys (h : cen) : list nat := nodup Nat.eq_dec (ekeys h).

  (* VariableCovarianceGaussianEnergy.apply (real case):
        r, i = x[self._kr], x[self._ki]
        res = 0.5*(r.vdot(r*i) - i.log().sum())                                   *)
  Definition vcg_expr (n kr ki : nat) : expr :=
    Scale ahalf (Add (Vdot n (Var kr) (Mul (Var kr) (Var ki))) (Scale am1 (Sum n (Ptw plog (Var ki))))).
  (* get_transformation:  f = r.adjoint @ (ivar.sqrt()*r) + ivar.adjoint @ (sc*ivar.log()),  sc = 0.5 *)
  Definition vcg_tr_r (kr ki : nat) : expr := Mul (Ptw psqrt (Var ki)) (Var kr).
  Definition vcg_tr_i (ki : nat) : expr := Scale ahalf (Ptw plog (Var ki)).

  (* GaussianEnergy(domain = h.domain): 0.5 * sum over the keys of |x_k|^2 *)
  Definition prior_val (l : list nat) (r : env) : A :=
    amul ahalf (fold_right (fun k acc => aadd (sumn (dims k) (fun j => amul (r k j) (r k j))) acc) a0 l).
  Definition prior_jac (l : list nat) (r : env) : jop A :=
    JCh (Sc ahalf) (fold_right (fun k acc => JAd (JCh (Vd (dims k) (fun j => amul two (r k j))) (JX k)) acc) (JNull 1) l).
  Definition mzero : mop A := MSand (JNull 1) (Sc a1).
  Definition prior_met (l : list nat) : mop A :=
    fold_right (fun k acc => MAdd (MSand (JX k) (Sc a1)) acc) mzero l.

  Definition gamma_val (n : nat) (rr : vec) (x : vec) : A :=
    (* 0.5*((r*x).vdot(r) - x.log().sum()) *)
    amul ahalf (aadd (sumn n (fun j => amul (amul (rr j) (x j)) (rr j)))
                     (amul am1 (sumn n (fun j => pf (ptab plog) (x j))))).

  Fixpoint evalC (h : cen) (r : env) : A :=
    match h with
    | CGauss n data icov e => evalE A a0 ahalf aadd amul asub P ptab (EGauss n data icov e) r
    | CScale c h => amul c (evalC h r)
    | CAddL h1 h2 => aadd (evalC h1 r) (evalC h2 r)
    | CVCG n _ kr ki => eval (vcg_expr n kr ki) r 0
    | CHam h => aadd (evalC h r) (prior_val (ukeys h) r)          (* lhx + prx *)
    | CConst c => c
    | CIns cs rc h => evalC h (merge cs rc r)
    | CGamma n rr ki => gamma_val n rr (r ki)
    end.

  Fixpoint linC (wm : bool) (h : cen) (r : env) : A * jop A * option (mop A) :=
    match h with
    | CGauss n data icov e => linE A a0 a1 ahalf aadd amul asub anonneg P ptab true wm (EGauss n data icov e) r
    | CScale c h =>
        let '(v, J, m) := linC wm h r in
        (amul c v, JCh (Sc c) J, if anonneg c then option_map (MScale c) m else None)
    | CAddL h1 h2 =>
        let '(v1, J1, m1) := linC wm h1 r in
        let '(v2, J2, m2) := linC wm h2 r in
        (aadd v1 v2, JAd J1 J2, match m1, m2 with Some x, Some y => Some (MAdd x y) | _, _ => None end)
    | CVCG n uff kr ki =>
        let (v, J) := lin false (vcg_expr n kr ki) r in       (* Linearization methods on x[kr], x[ki] *)
        (v 0, J,
         if wm then
           if uff
           then (* met = {kr: i.val, ki: fct*i.val**(-2)};  makeOp(met)            (fct = 0.5) *)
                Some (MAdd (MSand (JX kr) (D (r ki)))
                           (MSand (JX ki) (D (fun j => amul ahalf (apowm2 (r ki j))))))
           else (* res.add_metric(self.get_metric_at(x.val)):
                   bun = f(Linearization.make_var(x)).jac;  SandwichOperator.make(bun)   *)
                Some (MAdd (MSand (snd (lin true (vcg_tr_r kr ki) r)) (Sc a1))
                           (MSand (snd (lin true (vcg_tr_i ki) r)) (Sc a1)))
         else None)
    | CHam h =>
        let '(v, J, m) := linC wm h r in
        (aadd v (prior_val (ukeys h) r), JAd J (prior_jac (ukeys h) r),
         match m with
         | Some x => if wm then Some (MAdd x (prior_met (ukeys h))) else None
         | None => None end)
    | CConst c => (c, JNull 1, if wm then Some mzero else None)
        (* ConstantEnergyOperator.apply: NullOperator jac, NullOperator metric if want_metric *)
    | CIns cs rc h =>
        let '(v, J, m) := linC wm h (merge cs rc r) in
        (v, JMask cs J, option_map (MMask cs) m)
    | CGamma n rr ki =>
        let x := r ki in
        (gamma_val n rr x,
         JCh (Sc ahalf) (JAd (JCh (Vd n rr) (JCh (D rr) (JX ki)))
                             (JCh (Sc am1) (JCh (Contract n) (JCh (D (fun j => phd (ptab plog) (x j))) (JX ki))))),
         if wm then
           (* get_transformation: identity.log().scale(sqrt(0.5));  metric = J^T J = 0.5 * (1/x)^2 *)
           Some (MScale ahalf (MSand (JCh (D (fun j => phd (ptab plog) (x j))) (JX ki)) (Sc a1)))
         else None)
    end.

  (* ---- simplification of energies ----------------------------------------------------------------- *)
  Definition anyc (cs : nat -> bool) (l : list nat) : bool := existsb cs l.

  Fixpoint simplifyC (cs : nat -> bool) (rc : env) (h : cen) : cen :=
    if negb (anyc cs (ekeys h)) then h                       (* c_inp empty -> (None, self) *)
    else if allc cs (ekeys h) then CConst (evalC h rc)       (* Constant(Likelihood)EnergyOperator(self(c_inp)) *)
    else match h with
         | CGauss n data icov e => CGauss n data icov (simplify cs rc e)
             (* _LikelihoodChain -> _OpChain._simplify...: innermost simplified, GaussianEnergy kept *)
         | CScale c h => CScale c (simplifyC cs rc h)
         | CAddL h1 h2 => CIns cs rc (CAddL h1 h2)
             (* _LikelihoodSum has no special method: Operator._simplify_for_constant_input_nontrivial *)
         | CVCG n uff kr ki =>
             if cs kr
             then (* res = _SpecialGammaEnergy(cst).ducktape(self._ki); res = res + Constant...(0.) *)
                  CAddL (CGamma n (rc kr) ki) (CConst a0)
             else (* icov = makeOp(cst); res = GaussianEnergy(None, icov).ducktape(kr)
                     trlog = cst.log().sum() / 2;  res = res + Constant...(-trlog);  res + Constant...(0.) *)
                  CAddL (CAddL (CGauss n None (Some (rc ki)) (Var kr))
                               (CConst (amul am1 (amul ahalf (sumn n (fun j => pf (ptab plog) (rc ki j)))))))
                        (CConst a0)
         | CHam h => CHam (simplifyC cs rc h)
             (* out, lh1 = self._lh.simplify_for_constant_input(c_inp); StandardHamiltonian(lh1, ...) *)
         | CConst c => CConst c
         | CIns cs' rc' h => CIns cs rc (CIns cs' rc' h)
         | CGamma n rr ki => CIns cs rc (CGamma n rr ki)
         end.

  (* what the value of a specialised StandardHamiltonian lacks: the prior energy of the constant keys *)
  Fixpoint offset (cs : nat -> bool) (rc : env) (h : cen) : A :=
    if negb (anyc cs (ekeys h)) then a0
    else if allc cs (ekeys h) then a0
    else match h with
         | CScale c h => amul c (offset cs rc h)
         | CHam h => aadd (offset cs rc h) (prior_val (filter cs (ukeys h)) rc)
         | _ => a0
         end.

  Fixpoint ham_free (h : cen) : bool :=
    match h with
    | CHam _ => false
    | CScale _ h => ham_free h
    | _ => true      (* sums / insertions evaluate the original operator: nothing is lost *)
    end.

  (* the specialised metric is claimed (and proved) equal to the restricted original metric for: *)
  Fixpoint metric_ok (cs : nat -> bool) (h : cen) : bool :=
    match h with
    | CGauss _ _ _ _ | CConst _ => true
    | CScale _ h | CHam h => metric_ok cs h
    | CAddL _ _ | CIns _ _ _ | CGamma _ _ _ => true
    | CVCG _ uff kr ki => uff       (* use_full_fisher = False: see C04_metric_refuted *)
    end.

  (* c_1 * ... * c_k * (GaussianEnergy @ op): the family for which the metric theorem is proved *)
  Fixpoint gchain (h : cen) : bool :=
    match h with CGauss _ _ _ _ => true | CScale _ h => gchain h | _ => false end.

  (* Gaussian chains, scaled, summed (InsertionOperator fall-back), StandardHamiltonian, constants: the family
     for which the general metric theorem is proved (everything except the variable-covariance Gaussian) *)
  Fixpoint mfam (h : cen) : bool :=
    match h with
    | CGauss _ _ _ _ | CConst _ => true
    | CScale _ h | CHam h | CIns _ _ h => mfam h
    | CAddL h1 h2 => mfam h1 && mfam h2
    | CVCG _ _ _ _ | CGamma _ _ _ => false
    end.

  (* metric of a Linearization applied to a direction (a0 when there is no metric), and its presence *)
  Definition metapp (wm : bool) (h : cen) (r d : env) : env :=
    match snd (linC wm h r) with Some M => mapply A a0 aadd amul M d | None => fun _ _ => a0 end.
  Definition has_met (wm : bool) (h : cen) (r : env) : bool :=
    match snd (linC wm h r) with Some _ => true | None => false end.

  (* A sequence of linearized calls (want_metric flag, point) on ONE specialised energy.  In the model the
     specialised energy is a value and every call is a function application: what a call returns cannot depend on
     the calls made before it.  The check applies the implementation's specialised operator in several orders of
     want_metric = False/True calls and compares each observation with this model; an implementation whose
     answers depend on the call history therefore disagrees with the model. *)
  Definition call_seq (wmh : cen) (calls : list (bool * env)) : list (A * jop A * option (mop A)) :=
    map (fun c => linC (fst c) wmh (snd c)) calls.

  Fixpoint cshape (K : nat) (h : cen) : bool :=
    match h with
    | CGauss n _ _ e => match eshape A P K dims e with Some m => m =? n | None => false end
    | CScale _ h | CHam h | CIns _ _ h => cshape K h
    | CAddL h1 h2 => cshape K h1 && cshape K h2
    | CVCG n _ kr ki => (kr <? K) && (ki <? K) && (dims kr =? n) && (dims ki =? n) && negb (kr =? ki)
    | CConst _ => true
    | CGamma n _ ki => (ki <? K) && (dims ki =? n)
    end.
End Simp.

Arguments CGauss {A P}. Arguments CScale {A P}. Arguments CAddL {A P}. Arguments CVCG {A P}.
Arguments CHam {A P}. Arguments CConst {A P}. Arguments CIns {A P}. Arguments CGamma {A P}.
