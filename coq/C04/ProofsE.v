(* C04 -- energies: value (with the StandardHamiltonian offset), Jacobian and domain of the
   specialised energy, over an arbitrary commutative ring. *)
From Coq Require Import List Arith Bool Lia Ring Setoid FunctionalExtensionality.
Import ListNotations.
Require Import NV.C03.Model NV.C03.Proofs NV.C04.Model NV.C04.Proofs.

Section ProofsE.
  Variable A : Type.
  Variables (a0 a1 ahalf : A) (aadd amul asub : A -> A -> A) (aopp : A -> A).
  Variable anonneg : A -> bool.
  Variable apowm2 : A -> A.
  Variable Rth : ring_theory a0 a1 aadd amul asub aopp (@eq A).
  Add Ring Aring : Rth.
  Variable P : Type.
  Variable ptab : P -> ptw_entry A.
  Variables (plog psqrt : P).
  Variable dims : nat -> nat.
  Hypothesis Hpure : forall p x, pf (ptab p) x = phf (ptab p) x.
  Hypothesis Hhalf : amul ahalf (two A a1 aadd) = a1.

  Notation vec := (vec A).
  Notation env := (env A).
  Notation expr := (expr A P).
  Notation cen := (cen A P).
  Notation sumn := (sumn A a0 aadd).
  Notation eval := (eval A a0 aadd amul asub P ptab).
  Notation lin := (lin A a0 a1 aadd amul asub P ptab).
  Notation evalD := (evalD A a0 a1 aadd amul asub P ptab).
  Notation times := (times A a0 aadd amul).
  Notation adj := (adj A a0 aadd amul).
  Notation simplify := (simplify A a0 aadd amul asub P ptab dims).
  Notation keys := (keys A P).
  Notation ekeys := (ekeys A P).
  Notation ukeys := (ukeys A P).
  Notation mask := (mask A a0).
  Notation merge := (merge A).
  Notation agree := (agree A).
  Notation evalC := (evalC A a0 a1 ahalf aadd amul asub P ptab plog dims).
  Notation linC := (linC A a0 a1 ahalf aadd amul asub anonneg apowm2 P ptab plog psqrt dims).
  Notation simplifyC := (simplifyC A a0 a1 ahalf aadd amul asub P ptab plog dims).
  Notation offset := (offset A a0 ahalf aadd amul P dims).
  Notation prior_val := (prior_val A a0 ahalf aadd amul dims).
  Notation prior_jac := (prior_jac A a1 ahalf aadd amul dims).
  Notation vcg_expr := (vcg_expr A a0 a1 ahalf asub P plog).
  Notation am1 := (am1 A a0 a1 asub).
  Notation two := (two A a1 aadd).
  Infix "+" := aadd. Infix "*" := amul. Infix "-" := asub.

  Let sumn_ext := sumn_ext A a0 aadd.
  Let sumn_zero := sumn_zero A a0 a1 aadd amul asub aopp Rth.
  Let sumn_add := sumn_add A a0 a1 aadd amul asub aopp Rth.
  Let sumn_scal := sumn_scal A a0 a1 aadd amul asub aopp Rth.

  Definition nc (cs : nat -> bool) := fun k : nat => negb (cs k).

  (* ---- lists of keys ----------------------------------------------------------------------------- *)
  Lemma filter_none cs l : anyc cs l = false -> filter (nc cs) l = l.
  Proof.
    unfold anyc, nc. induction l; simpl; intros H; [reflexivity|].
    apply orb_false_elim in H as [H1 H2]. rewrite H1. simpl. now rewrite IHl.
  Qed.

  Lemma filter_all cs l : (forall k, In k l -> cs k = true) -> filter (nc cs) l = [].
  Proof.
    unfold nc. induction l; simpl; intros H; [reflexivity|]. rewrite (H a) by now left. simpl.
    apply IHl. intros; apply H; now right.
  Qed.

  Lemma nodup_filter (f : nat -> bool) l : nodup Nat.eq_dec (filter f l) = filter f (nodup Nat.eq_dec l).
  Proof.
    induction l; simpl; [reflexivity|].
    destruct (f a) eqn:Fa; simpl.
    - destruct (in_dec Nat.eq_dec a (filter f l)) as [i|n]; destruct (in_dec Nat.eq_dec a l) as [i'|n']; simpl; rewrite ?Fa.
      + exact IHl.
      + exfalso. apply filter_In in i. tauto.
      + exfalso. apply n. apply filter_In. tauto.
      + now rewrite IHl.
    - destruct (in_dec Nat.eq_dec a l); simpl; rewrite ?Fa; exact IHl.
  Qed.

  Lemma simplifyC_eq cs rc h :
    simplifyC cs rc h =
    if negb (anyc cs (ekeys h)) then h
    else if allc cs (ekeys h) then CConst (evalC h rc)
    else match h with
         | CGauss n data icov e => CGauss n data icov (simplify cs rc e)
         | CScale c h => CScale c (simplifyC cs rc h)
         | CAddL h1 h2 => CIns cs rc (CAddL h1 h2)
         | CVCG n uff kr ki =>
             if cs kr then CAddL (CGamma n (rc kr) ki) (CConst a0)
             else CAddL (CAddL (CGauss n None (Some (rc ki)) (Var kr))
                               (CConst (amul am1 (amul ahalf (sumn n (fun j => pf (ptab plog) (rc ki j)))))))
                        (CConst a0)
         | CHam h => CHam (simplifyC cs rc h)
         | CConst c => CConst c
         | CIns cs' rc' h => CIns cs rc (CIns cs' rc' h)
         | CGamma n rr ki => CIns cs rc (CGamma n rr ki)
         end.
  Proof. destruct h; reflexivity. Qed.

  (* C04_domain for energies *)
  Lemma ekeys_simplifyC cs rc h : ekeys (simplifyC cs rc h) = filter (nc cs) (ekeys h).
  Proof.
    induction h; rewrite simplifyC_eq;
      match goal with |- context [anyc cs ?l] => destruct (anyc cs l) eqn:Hany end; simpl negb; cbv iota;
      try (symmetry; now apply filter_none);
      match goal with |- context [allc cs ?l] => destruct (allc cs l) eqn:Hall end;
      try (simpl (ekeys (CConst _)); symmetry; apply filter_all; now apply allc_all);
      try reflexivity.
    - simpl. apply keys_simplify.
    - simpl. exact IHh.
    - simpl in *. unfold nc. destruct (cs kr) eqn:Ekr; destruct (cs ki) eqn:Eki; simpl in *; try reflexivity; discriminate.
    - simpl. exact IHh.
  Qed.

  Lemma merge_agree cs rc r : agree cs rc r -> merge cs rc r = r.
  Proof.
    intros H. unfold Model.merge. apply functional_extensionality; intros k.
    destruct (cs k) eqn:E; [|reflexivity]. apply functional_extensionality; intros i. symmetry. now apply H.
  Qed.

  (* ---- folds over key lists ------------------------------------------------------------------------ *)
  Definition ksum (g : nat -> A) (l : list nat) : A := fold_right (fun k acc => g k + acc) a0 l.

  Lemma ksum_filter (f : nat -> bool) g l : ksum g (filter f l) = ksum (fun k => if f k then g k else a0) l.
  Proof. induction l; simpl; [reflexivity|]. destruct (f a); simpl; rewrite IHl; [reflexivity | ring]. Qed.

  Lemma ksum_ext g g' l : (forall k, In k l -> g k = g' k) -> ksum g l = ksum g' l.
  Proof. induction l; simpl; intros H; [reflexivity|]. rewrite (H a) by now left. rewrite IHl; [reflexivity|]. intros; apply H; now right. Qed.

  Lemma ksum_add g g' l : ksum (fun k => g k + g' k) l = ksum g l + ksum g' l.
  Proof. induction l; simpl; [ring | rewrite IHl; ring]. Qed.

  Lemma prior_val_ksum l r : prior_val l r = ahalf * ksum (fun k => sumn (dims k) (fun j => r k j * r k j)) l.
  Proof. reflexivity. Qed.

  Lemma prior_split cs rc r l : agree cs rc r ->
    prior_val (filter (nc cs) l) r + prior_val (filter cs l) rc = prior_val l r.
  Proof.
    intros Ha. rewrite !prior_val_ksum, !ksum_filter.
    rewrite (ksum_ext (fun k => if cs k then sumn (dims k) (fun j => rc k j * rc k j) else a0)
                      (fun k => if cs k then sumn (dims k) (fun j => r k j * r k j) else a0)).
    - transitivity (ahalf * (ksum (fun k => if nc cs k then sumn (dims k) (fun j => r k j * r k j) else a0) l +
                             ksum (fun k => if cs k then sumn (dims k) (fun j => r k j * r k j) else a0) l)); [ring|].
      rewrite <- ksum_add. f_equal. apply ksum_ext. intros k _. unfold nc. destruct (cs k); simpl; ring.
    - intros k _. destruct (cs k) eqn:E; [|reflexivity]. apply sumn_ext; intros j. now rewrite (Ha k E j).
  Qed.

  (* ---- energies read only their keys ------------------------------------------------------------------ *)
  Lemma evalC_keys h : forall x x' : env, (forall k, In k (ekeys h) -> forall i, x k i = x' k i) -> evalC h x = evalC h x'.
  Proof.
    induction h; intros x x' H.
    - simpl in *. assert (E : forall i, eval e x i = eval e x' i) by (apply eval_keys; exact H).
      destruct icov; f_equal; apply sumn_ext; intros j; destruct data; simpl; now rewrite !E.
    - simpl in *. now rewrite (IHh x x' H).
    - simpl in *. rewrite (IHh1 x x'), (IHh2 x x'); auto; intros; apply H; apply in_or_app; tauto.
    - change (eval (vcg_expr n kr ki) x 0 = eval (vcg_expr n kr ki) x' 0). apply eval_keys.
      intros k Hk. apply H. simpl in *. tauto.
    - simpl in *. rewrite (IHh x x' H). f_equal. rewrite !prior_val_ksum. f_equal. apply ksum_ext. intros k Hk.
      apply sumn_ext; intros j. unfold Model.ukeys in Hk. apply nodup_In in Hk. now rewrite (H k Hk j).
    - reflexivity.
    - simpl in *. apply IHh. intros k Hk i. unfold Model.merge. destruct (cs k) eqn:E; [reflexivity|].
      apply H. apply filter_In. split; [exact Hk | now rewrite E].
    - simpl in *. unfold Model.gamma_val. f_equal. f_equal.
      + apply sumn_ext; intros j. now rewrite (H ki) by tauto.
      + f_equal. apply sumn_ext; intros j. now rewrite (H ki) by tauto.
  Qed.

  (* ---- C04_value for energies: specialised value + offset = original value ------------------------------ *)
  Lemma offset_eq cs rc h :
    offset cs rc h =
    if negb (anyc cs (ekeys h)) then a0
    else if allc cs (ekeys h) then a0
    else match h with
         | CScale c h => c * offset cs rc h
         | CHam h => offset cs rc h + prior_val (filter cs (ukeys h)) rc
         | _ => a0
         end.
  Proof. destruct h; reflexivity. Qed.

  Lemma ukeys_simplifyC cs rc h : ukeys (simplifyC cs rc h) = filter (nc cs) (ukeys h).
  Proof. unfold Model.ukeys. now rewrite ekeys_simplifyC, nodup_filter. Qed.

  Lemma simplifyC_value cs rc r h : agree cs rc r -> evalC (simplifyC cs rc h) r + offset cs rc h = evalC h r.
  Proof.
    intros Ha.
    assert (ALL : forall h, allc cs (ekeys h) = true -> evalC h rc = evalC h r).
    { intros h' Hall. apply evalC_keys. intros k Hk i. symmetry. apply Ha. eapply allc_all; eauto. }
    induction h; rewrite simplifyC_eq, offset_eq;
      match goal with |- context [anyc cs ?l] => destruct (anyc cs l) eqn:Hany end; simpl negb; cbv iota;
      try ring;
      match goal with |- context [allc cs ?l] => destruct (allc cs l) eqn:Hall end;
      try (match goal with |- evalC (CConst (evalC ?H rc)) r + a0 = _ =>
             change (evalC H rc + a0 = evalC H r); rewrite (ALL H Hall); ring end).
    - (* CGauss *)
      assert (E : forall i, eval (simplify cs rc e) r i = eval e r i) by (intros; now apply simplify_value).
      simpl.
      destruct icov; simpl;
      match goal with |- ?x + a0 = ?y => assert (X : x = y); [|rewrite X; ring] end;
      f_equal; apply sumn_ext; intros j; destruct data; simpl; now rewrite !E.
    - (* CScale *)
      simpl. rewrite <- IHh. ring.
    - (* CAddL -> insertion *)
      simpl. rewrite (merge_agree cs rc r Ha). ring.
    - (* CVCG *)
      simpl in Hany, Hall. destruct (cs kr) eqn:Ekr.
      + destruct (cs ki) eqn:Eki; [simpl in Hall; discriminate|].
        simpl. unfold Model.gamma_val.
        match goal with |- ?x + a0 + a0 = ?y => assert (X : x = y); [|rewrite X; ring] end.
        f_equal. f_equal. apply sumn_ext; intros j. rewrite (Ha kr Ekr j). ring.
      + destruct (cs ki) eqn:Eki; [|simpl in Hany; discriminate].
        simpl.
        match goal with |- ?x + a0 = ?y => assert (X : x = y); [|rewrite X; ring] end.
        rewrite (sumn_ext n (fun j => r kr j * (rc ki j * r kr j)) (fun j => r kr j * (r kr j * r ki j)))
          by (intros j; rewrite (Ha ki Eki j); ring).
        rewrite (sumn_ext n (fun j => pf (ptab plog) (rc ki j)) (fun j => pf (ptab plog) (r ki j)))
          by (intros j; now rewrite (Ha ki Eki j)).
        ring.
    - (* CHam *)
      simpl. rewrite ukeys_simplifyC. rewrite <- (prior_split cs rc r (ukeys h) Ha). rewrite <- IHh. ring.
    - (* CConst *) simpl in Hany. discriminate.
    - (* CIns *) simpl. rewrite (merge_agree cs rc r Ha). ring.
    - (* CGamma *) simpl. rewrite (merge_agree cs rc r Ha). ring.
  Qed.

  (* ---- Jacobians ------------------------------------------------------------------------------------- *)
  Notation evalED := (evalED A a0 a1 ahalf aadd amul asub P ptab).
  Definition jacC (wm : bool) (h : cen) (r : env) : jop A := snd (fst (linC wm h r)).

  Lemma jac_CScale wm c h r : jacC wm (CScale c h) r = JCh (Sc c) (jacC wm h r).
  Proof. unfold jacC; simpl. destruct (linC wm h r) as [[v J] m]. reflexivity. Qed.
  Lemma jac_CAddL wm h1 h2 r : jacC wm (CAddL h1 h2) r = JAd (jacC wm h1 r) (jacC wm h2 r).
  Proof. unfold jacC; simpl. destruct (linC wm h1 r) as [[v1 J1] m1]; destruct (linC wm h2 r) as [[v2 J2] m2]. reflexivity. Qed.
  Lemma jac_CHam wm h r : jacC wm (CHam h) r = JAd (jacC wm h r) (prior_jac (ukeys h) r).
  Proof. unfold jacC; simpl. destruct (linC wm h r) as [[v J] m]. reflexivity. Qed.
  Lemma jac_CIns wm cs rc h r : jacC wm (CIns cs rc h) r = JMask cs (jacC wm h (merge cs rc r)).
  Proof. unfold jacC; simpl. destruct (linC wm h (merge cs rc r)) as [[v J] m]. reflexivity. Qed.
  Lemma jac_CGauss wm n data icov e r d :
    times (jacC wm (CGauss n data icov e) r) d 0 = snd (evalED (EGauss n data icov e) r d).
  Proof. unfold jacC. cbn [Model.linC]. apply (linE_jac_dual A a0 a1 ahalf aadd amul asub aopp anonneg Rth P ptab Hpure Hhalf). Qed.
  Lemma jac_CVCG wm n uff kr ki r d :
    times (jacC wm (CVCG n uff kr ki) r) d 0 = snd (evalD (vcg_expr n kr ki) r d 0).
  Proof.
    unfold jacC. cbn [Model.linC].
    rewrite <- (jac_dual A a0 a1 aadd amul asub aopp Rth P ptab Hpure false (vcg_expr n kr ki) r d 0).
    destruct (lin false (vcg_expr n kr ki) r). reflexivity.
  Qed.

  Lemma dual_keys e r : forall d d' : env, (forall k, In k (keys e) -> forall i, d k i = d' k i) ->
    forall i, snd (evalD e r d i) = snd (evalD e r d' i).
  Proof.
    assert (F : forall e d d' i, fst (evalD e r d i) = fst (evalD e r d' i)).
    { intros. now rewrite !(dual_value A a0 a1 aadd amul asub P ptab). }
    induction e; simpl; intros d d' H i.
    - apply H; now left.
    - reflexivity.
    - specialize (IHe d d' H i). destruct (evalD e r d i); destruct (evalD e r d' i); simpl in *. exact IHe.
    - specialize (IHe d d' H i). destruct (evalD e r d i); destruct (evalD e r d' i); simpl in *. now rewrite IHe.
    - specialize (IHe d d' H i). destruct (evalD e r d i); destruct (evalD e r d' i); simpl in *. now rewrite IHe.
    - specialize (IHe d d' H i). pose proof (F e d d' i) as Hf.
      destruct (evalD e r d i); destruct (evalD e r d' i); simpl in *. now rewrite IHe, Hf.
    - specialize (IHe1 d d' (fun k Hk => H k (in_or_app _ _ _ (or_introl Hk))) i).
      specialize (IHe2 d d' (fun k Hk => H k (in_or_app _ _ _ (or_intror Hk))) i).
      pose proof (F e1 d d' i) as Hf1. pose proof (F e2 d d' i) as Hf2.
      destruct (evalD e1 r d i); destruct (evalD e1 r d' i); destruct (evalD e2 r d i); destruct (evalD e2 r d' i); simpl in *.
      now rewrite IHe1, IHe2, Hf1, Hf2.
    - specialize (IHe1 d d' (fun k Hk => H k (in_or_app _ _ _ (or_introl Hk))) i).
      specialize (IHe2 d d' (fun k Hk => H k (in_or_app _ _ _ (or_intror Hk))) i).
      destruct (evalD e1 r d i); destruct (evalD e1 r d' i); destruct (evalD e2 r d i); destruct (evalD e2 r d' i); simpl in *.
      now rewrite IHe1, IHe2.
    - apply sumn_ext; intros j. now apply IHe.
    - apply sumn_ext; intros j.
      rewrite (IHe1 d d' (fun k Hk => H k (in_or_app _ _ _ (or_introl Hk)))).
      rewrite (IHe2 d d' (fun k Hk => H k (in_or_app _ _ _ (or_intror Hk)))).
      now rewrite (F e1 d d' j), (F e2 d d' j).
    - apply sumn_ext; intros j. now rewrite (IHe d d' H), (F e d d' j).
  Qed.

  Lemma evalED_gauss_ext n data icov e e' r d d' :
    (forall i, fst (evalD e r d i) = fst (evalD e' r d' i)) ->
    (forall i, snd (evalD e r d i) = snd (evalD e' r d' i)) ->
    snd (evalED (EGauss n data icov e) r d) = snd (evalED (EGauss n data icov e') r d').
  Proof.
    intros Hf Hs. simpl. destruct icov; simpl; f_equal; apply sumn_ext; intros j; destruct data; now rewrite ?Hf, ?Hs.
  Qed.

  Lemma prior_jac_times l r d :
    times (prior_jac l r) d 0 = ahalf * ksum (fun k => sumn (dims k) (fun j => (two * r k j) * d k j)) l.
  Proof.
    unfold Model.prior_jac. simpl. f_equal. induction l; simpl; [reflexivity|]. now rewrite IHl.
  Qed.

  Lemma jacC_keys wm h : forall (r d d' : env), (forall k, In k (ekeys h) -> forall i, d k i = d' k i) ->
    times (jacC wm h r) d 0 = times (jacC wm h r) d' 0.
  Proof.
    induction h; intros x d d' H.
    - rewrite !jac_CGauss. apply evalED_gauss_ext; intros i.
      + now rewrite !(dual_value A a0 a1 aadd amul asub P ptab).
      + apply dual_keys. exact H.
    - rewrite jac_CScale. simpl. now rewrite (IHh x d d' H).
    - rewrite jac_CAddL. simpl in *. rewrite (IHh1 x d d'), (IHh2 x d d'); auto; intros; apply H; apply in_or_app; tauto.
    - rewrite !jac_CVCG. apply dual_keys. intros k Hk. apply H. simpl in *. tauto.
    - rewrite jac_CHam. cbn [Model.times]. rewrite (IHh x d d' H). f_equal.
      rewrite !prior_jac_times. f_equal. apply ksum_ext. intros k Hk. apply sumn_ext; intros j.
      unfold Model.ukeys in Hk. apply nodup_In in Hk. now rewrite (H k Hk j).
    - reflexivity.
    - rewrite jac_CIns. simpl. apply IHh. intros k Hk i. destruct (cs k) eqn:E; [reflexivity|].
      apply H. simpl. apply filter_In. split; [exact Hk | now rewrite E].
    - unfold jacC. simpl in *. f_equal. f_equal.
      + apply sumn_ext; intros j. now rewrite (H ki) by tauto.
      + f_equal. apply sumn_ext; intros j. now rewrite (H ki) by tauto.
  Qed.

  Lemma times_zero_env J : times J (fun _ _ => a0) 0 = a0.
  Proof. apply (times_zero A a0 a1 aadd amul asub aopp Rth). Qed.

  (* C04_jac for energies *)
  Lemma simplifyC_times wm cs rc r d h : agree cs rc r ->
    times (jacC wm (simplifyC cs rc h) r) d 0 = times (jacC wm h r) (mask cs d) 0.
  Proof.
    intros Ha.
    induction h; rewrite simplifyC_eq;
      match goal with |- context [anyc cs ?l] => destruct (anyc cs l) eqn:Hany end; simpl negb; cbv iota;
      try (apply jacC_keys; intros k Hk i; unfold Model.mask;
           assert (Ek : cs k = false) by
             (destruct (cs k) eqn:E; [|reflexivity]; exfalso;
              assert (X : anyc cs _ = true) by (apply existsb_exists; exists k; split; [exact Hk | exact E]);
              rewrite X in Hany; discriminate);
           now rewrite Ek);
      match goal with |- context [allc cs ?l] => destruct (allc cs l) eqn:Hall end;
      try (match goal with |- times (jacC wm (CConst _) r) d 0 = times (jacC wm ?H r) _ 0 =>
             rewrite (jacC_keys wm H r (mask cs d) (fun _ _ => a0));
             [ now rewrite times_zero_env
             | intros k Hk i; unfold Model.mask; now rewrite (allc_all cs _ Hall k Hk) ] end).
    - (* CGauss *)
      rewrite !jac_CGauss. apply evalED_gauss_ext; intros i.
      + rewrite !(dual_value A a0 a1 aadd amul asub P ptab). now apply simplify_value.
      + apply simplify_dual with (aopp := aopp); auto.
    - (* CScale *)
      rewrite !jac_CScale. simpl. now rewrite IHh.
    - (* CAddL -> insertion *)
      rewrite jac_CIns. rewrite (merge_agree cs rc r Ha). reflexivity.
    - (* CVCG *)
      rewrite jac_CVCG.
      simpl in Hany, Hall. destruct (cs kr) eqn:Ekr.
      + destruct (cs ki) eqn:Eki; [simpl in Hall; discriminate|].
        assert (Hne : kr <> ki) by (intros ->; congruence).
        unfold jacC. simpl. unfold Model.mask. rewrite Ekr, Eki.
        match goal with |- ?x + a0 = ?y => assert (X : x = y); [|rewrite X; ring] end.
        f_equal. f_equal. apply sumn_ext; intros j. rewrite (Ha kr Ekr j). ring.
      + destruct (cs ki) eqn:Eki; [|simpl in Hany; discriminate].
        assert (Hne : kr <> ki) by (intros ->; congruence).
        unfold jacC. simpl. unfold Model.mask. rewrite Ekr, Eki.
        match goal with |- ?x + a0 + a0 = ?y => assert (X : x = y); [|rewrite X; ring] end.
        rewrite (sumn_ext n (fun j => phd (ptab plog) (r ki j) * a0) (fun _ => a0)) by (intros; ring).
        rewrite sumn_zero.
        rewrite (sumn_ext n (fun j => r kr j * (r kr j * a0 + r ki j * d kr j) + r kr j * r ki j * d kr j)
                          (fun j => two * (rc ki j * r kr j * d kr j)))
          by (intros j; rewrite (Ha ki Eki j); unfold Model.two; ring).
        rewrite sumn_scal.
        transitivity ((ahalf * two) * sumn n (fun j => rc ki j * r kr j * d kr j)); [rewrite Hhalf; ring | ring].
    - (* CHam *)
      rewrite !jac_CHam. cbn [Model.times]. rewrite IHh. f_equal.
      rewrite !prior_jac_times, ukeys_simplifyC, ksum_filter. f_equal. apply ksum_ext. intros k _.
      unfold nc, Model.mask. destruct (cs k); simpl.
      * rewrite (sumn_ext _ _ (fun _ => a0)) by (intros; ring). now rewrite sumn_zero.
      * reflexivity.
    - (* CIns *) rewrite (jac_CIns wm cs rc). rewrite (merge_agree cs rc r Ha). reflexivity.
    - (* CGamma *) rewrite (jac_CIns wm cs rc). rewrite (merge_agree cs rc r Ha). reflexivity.
  Qed.

  Lemma ham_free_offset cs rc h : ham_free A P h = true -> offset cs rc h = a0.
  Proof.
    induction h; intros Hf; rewrite offset_eq;
      match goal with |- context [anyc cs ?l] => destruct (anyc cs l) end; simpl negb; cbv iota; try reflexivity;
      match goal with |- context [allc cs ?l] => destruct (allc cs l) end; try reflexivity; try discriminate.
    simpl in Hf. rewrite (IHh Hf). ring.
  Qed.

  (* EnergyAdapter(position, op, constants): value, gradient = adjoint Jacobian applied to 1 *)
  Lemma simplifyC_value_free cs rc r h : agree cs rc r -> ham_free A P h = true ->
    evalC (simplifyC cs rc h) r = evalC h r.
  Proof.
    intros Ha Hf. rewrite <- (simplifyC_value cs rc r h Ha). rewrite (ham_free_offset cs rc h Hf). ring.
  Qed.

  (* no call-history dependence: the k-th answer of any call sequence on the specialised energy is the answer
     of that call alone *)
  Lemma call_seq_pure cs rc h (pre post : list (bool * env)) (c : bool * env) dflt :
    nth (length pre)
        (call_seq A a0 a1 ahalf aadd amul asub anonneg apowm2 P ptab plog psqrt dims (simplifyC cs rc h) (pre ++ c :: post)) dflt
    = linC (fst c) (simplifyC cs rc h) (snd c).
  Proof.
    unfold Model.call_seq. rewrite map_app. rewrite app_nth2 by (rewrite map_length; apply Nat.le_refl).
    rewrite map_length, Nat.sub_diag. reflexivity.
  Qed.
End ProofsE.
