(* C24 -- executable model of the persistence protocol of nifty.re.optimize_kl.optimize_kl
   (no proofs in this file).

   Source mirrored (nifty/re/optimize_kl.py, optimize_kl, after fix C24-1; the lines marked OLD are
   what the unfixed code did and are modelled separately as [iter_ops_old]):

       last_fn   = os.path.join(odir, "last.pkl")
       resume_fn = last_fn                                   (resume is True)
       sanity_fn = os.path.join(odir, "minisanity.txt")
       samples = Samples(pos=position_or_samples, ...)
       opt_vi_st = None
       if resume and os.path.isfile(resume_fn):                                      [start]
           with open(resume_fn, "rb") as f:
               samples, opt_vi_st = pickle.load(f)
       opt_vi_st_init = opt_vi.init_state(key, ...)
       opt_vi_st = opt_vi_st_init if opt_vi_st is None else opt_vi_st
       if len(opt_vi_st.config) == 0: opt_vi_st = opt_vi_st._replace(config=opt_vi_st_init.config)
       if odir: makedirs(odir, exist_ok=True)                                        [prelude]
       if not resume and sanity_fn is not None:
           with open(sanity_fn, "w"): pass
       for i in range(opt_vi_st.nit, opt_vi.n_total_iterations):                     [loop]
           samples, opt_vi_st = opt_vi.update(samples, opt_vi_st)                    [step]
           msg = opt_vi.get_status_message(samples, opt_vi_st, name=nm)
           if sanity_fn is not None:
               with open(sanity_fn, "a") as f: f.write("\n" + msg)                   [iter_ops]
           if last_fn is not None:
               tmp_fn = last_fn + ".tmp"
               with open(tmp_fn, "wb") as f:                 (OLD: with open(last_fn, "wb") as f:)
                   pickle.dump((samples, opt_vi_st._replace(config={})), f)
               os.replace(tmp_fn, last_fn)                   (OLD: absent)
           if callback is not None: callback(samples, opt_vi_st)
       return samples, opt_vi_st

   Abstractions.  [St] is the pair (samples, state with the config stripped) -- exactly what is
   pickled; [step] is opt_vi.update with the config re-derived from the (unchanged) arguments;
   [nit] reads state.nit; [extra s] is the number of write calls pickle.dump needs for s beyond
   the last one (arbitrary).  A state file on disk is [Valid s] (a complete pickle of s),
   [Buffered s] (everything was handed to the file object, which is still open: the bytes may sit
   in Python's buffer) or [Torn] (anything else: empty, or a strict prefix of a pickle -- both make
   pickle.load raise).  A crash is a process kill after a prefix of the operations. *)
From Coq Require Import List Arith Bool.
Import ListNotations.

(* last.pkl | last.pkl.tmp | minisanity.txt | the file a string-valued `resume` points to (outside
   the output directory; the driver only reads it) *)
Inductive fname := Last | Tmp | Log | Ext.

Definition fname_eqb (a b : fname) : bool :=
  match a, b with Last, Last | Tmp, Tmp | Log, Log | Ext, Ext => true | _, _ => false end.

Section Driver.
Variable St : Type.
Variable step : St -> St.
Variable init : St.
Variable nit : St -> nat.
Variable extra : St -> nat.

Inductive content := Torn | Buffered (s : St) | Valid (s : St).

(* the output directory: the two state files, and the number of messages in the log *)
Record disk := mkDisk { d_last : option content; d_tmp : option content; d_log : option nat }.

Definition empty_disk : disk := mkDisk None None None.

Inductive op :=
| Makedirs                                        (* makedirs(odir, exist_ok=True) *)
| OpenW (f : fname)                               (* open(f, "w" / "wb"): create or truncate *)
| OpenA (f : fname)                               (* open(f, "a") *)
| OpenR (f : fname)                               (* open(f, "rb") *)
| WriteMsg (f : fname)                            (* f.write("\n" + msg) *)
| WriteState (f : fname) (s : St) (final : bool)  (* one write call issued by pickle.dump *)
| Close (f : fname)                               (* close of a file opened for writing *)
| CloseR (f : fname)                              (* close of a file opened for reading *)
| Replace (src dst : fname).                      (* os.replace(src, dst) *)

Definition fget (f : fname) (d : disk) : option content :=
  match f with Last => d_last d | Tmp => d_tmp d | Log | Ext => None end.

Definition fset (f : fname) (c : option content) (d : disk) : disk :=
  match f with
  | Last => mkDisk c (d_tmp d) (d_log d)
  | Tmp => mkDisk (d_last d) c (d_log d)
  | Log | Ext => d
  end.

Definition set_log (l : option nat) (d : disk) : disk := mkDisk (d_last d) (d_tmp d) l.

Definition exec (d : disk) (o : op) : disk :=
  match o with
  | Makedirs => d
  | OpenR _ => d
  | CloseR _ => d
  | OpenW Log => set_log (Some 0) d
  | OpenW f => fset f (Some Torn) d                        (* empty file: pickle.load -> EOFError *)
  | OpenA Log => set_log (Some (match d_log d with Some m => m | None => 0 end)) d
  | OpenA f => match fget f d with None => fset f (Some Torn) d | Some _ => d end
  | WriteMsg Log => set_log (match d_log d with Some m => Some (S m) | None => None end) d
  | WriteMsg f => fset f (Some Torn) d
  | WriteState Log _ _ => d
  | WriteState f s false => fset f (Some Torn) d           (* a strict prefix of the pickle *)
  | WriteState f s true => fset f (Some (Buffered s)) d    (* all bytes handed to the file object *)
  | Close Log => d
  | Close f => match fget f d with Some (Buffered s) => fset f (Some (Valid s)) d | _ => d end
  | Replace Log _ | Replace _ Log => d
  | Replace a b => match fget a d with None => d | Some c => fset b (Some c) (fset a None d) end
  end.

Definition run_ops (ops : list op) (d : disk) : disk := fold_left exec ops d.

(* What a process kill makes of the files that are still open.  lost = true: the buffered bytes
   did not (all) reach the disk; lost = false: everything handed over so far did. *)
Definition settle1 (lost : bool) (c : option content) : option content :=
  match c with Some (Buffered s) => Some (if lost then Torn else Valid s) | _ => c end.
Definition settle (lost : bool) (d : disk) : disk :=
  mkDisk (settle1 lost (d_last d)) (settle1 lost (d_tmp d)) (d_log d).

(* the operation in flight when the process dies, if it had a partial effect *)
Definition tear (o : op) (d : disk) : disk :=
  match o with
  | WriteState Log _ _ => d
  | WriteState f _ _ => fset f (Some Torn) d
  | _ => d
  end.

(* kill the process after the first k operations (of a possibly shorter list) *)
Fixpoint crash_raw (k : nat) (lost : bool) (ops : list op) (d : disk) {struct ops} : disk :=
  match ops with
  | [] => d
  | o :: r => match k with
              | O => if lost then tear o d else d
              | S k' => crash_raw k' lost r (exec d o)
              end
  end.
Definition crash (k : nat) (lost : bool) (ops : list op) (d : disk) : disk :=
  settle lost (crash_raw k lost ops d).

(* ---- the driver ---- *)
Definition log_ops : list op := [OpenA Log; WriteMsg Log; Close Log].

Definition dump_ops (f : fname) (s : St) : list op :=
  OpenW f :: repeat (WriteState f s false) (extra s) ++ [WriteState f s true; Close f].

(* the body of one iteration after [update] returned s' *)
Definition iter_ops (s' : St) : list op := log_ops ++ dump_ops Tmp s' ++ [Replace Tmp Last].
(* OLD protocol (before fix C24-1): dump straight into last.pkl *)
Definition iter_ops_old (s' : St) : list op := log_ops ++ dump_ops Last s'.

Inductive outcome := Stuck | Ok (s : St).

Section Protocol.
Variable body : St -> list op.

(* `for i in range(opt_vi_st.nit, n_total_iterations)`, fuel = n - nit *)
Fixpoint loop (fuel : nat) (s : St) : list op * St :=
  match fuel with
  | O => ([], s)
  | S f => let s' := step s in
           let r := loop f s' in (body s' ++ fst r, snd r)
  end.

Definition isfile (f : fname) (d : disk) : bool :=
  match fget f d with Some _ => true | None => false end.

(* The `resume` argument: False | True | a string.  For a string,
       resume_fn = resume if isinstance(resume, str) and os.path.isfile(resume) else last_fn
   so [RPath (Some s)] = a path naming an existing file that holds a complete pickle of s (it lies
   outside the output directory and is never written by the driver: its content is a constant of
   the scenario), [RPath None] = a string that names no existing file (falls back to last.pkl). *)
Inductive rmode := RNo | RYes | RPath (p : option St).

Definition is_res (r : rmode) : bool := match r with RNo => false | _ => true end.

(* the resume branch: None = pickle.load raised *)
Definition start (r : rmode) (d : disk) : option St :=
  match r with
  | RPath (Some s) => Some s                          (* `if resume and os.path.isfile(resume_fn)`: load it *)
  | _ =>
      if is_res r && isfile Last d
      then match d_last d with Some (Valid s) => Some s | _ => None end
      else Some init
  end.

Definition prelude (r : rmode) (d : disk) : list op :=
  (match r with
   | RPath (Some _) => [OpenR Ext; CloseR Ext]
   | _ => if is_res r && isfile Last d then [OpenR Last; CloseR Last] else []
   end)
  ++ [Makedirs] ++ (if is_res r then [] else [OpenW Log; Close Log]).

(* operations and outcome of one run of the driver started on disk d *)
Definition run (r : rmode) (n : nat) (d : disk) : list op * outcome :=
  match start r d with
  | None => ([OpenR Last; CloseR Last], Stuck)
  | Some s => let l := loop (n - nit s) s in (prelude r d ++ fst l, Ok (snd l))
  end.

(* the disk after the run was killed at crash point (k, lost) *)
Definition crashed (r : rmode) (n : nat) (d : disk) (k : nat) (lost : bool) : disk :=
  crash k lost (fst (run r n d)) d.

(* the restart: resume=True, or the same string again *)
Definition restart (r0 : rmode) : rmode := match r0 with RPath p => RPath p | _ => RYes end.

(* a first run (resume = r0) killed, then restarted with resume enabled and killed again, ... *)
Fixpoint chain (n : nat) (r0 : rmode) (cps : list (nat * bool)) (d : disk) : disk :=
  match cps with
  | [] => d
  | (k, lost) :: t => chain n (restart r0) t (crashed r0 n d k lost)
  end.
End Protocol.
End Driver.

Arguments Torn {St}.
Arguments Buffered {St}.
Arguments Valid {St}.
Arguments Stuck {St}.
Arguments Ok {St}.
Arguments Makedirs {St}.
Arguments OpenW {St}.
Arguments OpenA {St}.
Arguments OpenR {St}.
Arguments WriteMsg {St}.
Arguments WriteState {St}.
Arguments Close {St}.
Arguments CloseR {St}.
Arguments Replace {St}.
Arguments RNo {St}.
Arguments RYes {St}.
Arguments RPath {St}.

(* ---- the instance the correspondence check runs: states are iteration counters ---- *)
Inductive tok :=
| TMakedirs | TOpenW (f : fname) | TOpenA (f : fname) | TOpenR (f : fname)
| TWrite (f : fname) | TClose (f : fname) | TReplace (a b : fname).

Definition tok_of {St} (o : op St) : tok :=
  match o with
  | Makedirs => TMakedirs | OpenW f => TOpenW f | OpenA f => TOpenA f | OpenR f => TOpenR f
  | WriteMsg f => TWrite f | WriteState f _ _ => TWrite f | Close f => TClose f | CloseR f => TClose f
  | Replace a b => TReplace a b
  end.

Definition tok_eqb (a b : tok) : bool :=
  match a, b with
  | TMakedirs, TMakedirs => true
  | TOpenW f, TOpenW g | TOpenA f, TOpenA g | TOpenR f, TOpenR g
  | TWrite f, TWrite g | TClose f, TClose g => fname_eqb f g
  | TReplace a1 b1, TReplace a2 b2 => fname_eqb a1 a2 && fname_eqb b1 b2
  | _, _ => false
  end.

Fixpoint toks_eqb (a b : list tok) : bool :=
  match a, b with
  | [], [] => true
  | x :: a', y :: b' => tok_eqb x y && toks_eqb a' b'
  | _, _ => false
  end.

(* observation of last.pkl: absent | unloadable | loads and has state.nit = j *)
Inductive lastobs := LAbsent | LTorn | LValid (j : nat).

Definition lastobs_eqb (a b : lastobs) : bool :=
  match a, b with
  | LAbsent, LAbsent | LTorn, LTorn => true
  | LValid i, LValid j => Nat.eqb i j
  | _, _ => false
  end.

Definition obs_last (d : disk nat) : lastobs :=
  match d_last nat d with
  | None => LAbsent
  | Some (Valid j) => LValid j
  | Some _ => LTorn
  end.

Definition present {A} (o : option A) : bool := match o with Some _ => true | None => false end.

Section Instance.
Variable old : bool.               (* which protocol: false = the code as it is (fixed) *)
Variable extras : list nat.        (* observed: write calls of pickle.dump in iteration j, minus 1 *)

Definition xtra (s : nat) : nat := nth (s - 1) extras 0.
Definition body (s : nat) : list (op nat) :=
  if old then iter_ops_old nat xtra s else iter_ops nat xtra s.
Definition irun := run nat S 0 (fun s => s) body.
Definition ichain := chain nat S 0 (fun s => s) body.

(* the operation sequence of a run started on the disk left by the crash chain *)
Definition trace_ok (n : nat) (r0 : rmode nat) (cps : list (nat * bool)) (resume : rmode nat) (observed : list tok) : bool :=
  toks_eqb (map tok_of (fst (irun resume n (ichain n r0 cps (empty_disk nat))))) observed.

(* a run that was killed before its operation number k performed exactly the first k operations *)
Definition killed_trace_ok (n : nat) (r0 : rmode nat) (cps : list (nat * bool)) (resume : rmode nat) (k : nat) (observed : list tok) : bool :=
  toks_eqb (firstn k (map tok_of (fst (irun resume n (ichain n r0 cps (empty_disk nat)))))) observed.

(* what is on disk after the crash chain *)
Definition disk_ok (n : nat) (r0 : rmode nat) (cps : list (nat * bool))
           (last : lastobs) (tmp_present log_present : bool) : bool :=
  let d := ichain n r0 cps (empty_disk nat) in
  lastobs_eqb (obs_last d) last && Bool.eqb (present (d_tmp nat d)) tmp_present
  && Bool.eqb (present (d_log nat d)) log_present.

(* outcome of the final resumed run: None = raised, Some j = returned a state with nit = j *)
Definition outcome_ok (n : nat) (r0 : rmode nat) (cps : list (nat * bool)) (resume : rmode nat) (observed : option nat) : bool :=
  match snd (irun resume n (ichain n r0 cps (empty_disk nat))), observed with
  | Stuck, None => true
  | Ok j, Some i => Nat.eqb i j
  | _, _ => false
  end.

Definition n_ops (n : nat) (r0 : rmode nat) (cps : list (nat * bool)) (resume : rmode nat) : nat :=
  length (fst (irun resume n (ichain n r0 cps (empty_disk nat)))).
End Instance.
