(* C24 -- property theorems only.  Each is closed by [exact] of a lemma from Proofs.v.

   Reading guide.  St = what is pickled: (samples, state without config).  step = opt_vi.update,
   an ARBITRARY function; init = the start of a fresh run; nit = state.nit; extra s = number of
   additional write calls pickle.dump issues for s (arbitrary).  [iter_ops] is the per-iteration
   persistence protocol of the code as it is (after fix C24-1: temporary file + os.replace);
   [iter_ops_old] is the protocol of the unfixed code (truncate last.pkl, then write).
   The `resume` argument is RNo (False), RYes (True) or RPath p (a string: p = Some s if it names
   an existing file holding a complete pickle of s, None if it names no existing file -- then the
   driver falls back to last.pkl).  [chain n r0 cps d0] is the directory after: a first run
   (resume = r0) on d0 killed at crash point cps[0], a restart with resume enabled ([restart r0]:
   True, or the same string again) killed at cps[1], ...   A crash point (k, lost) kills the
   process after its first k file-system operations (k beyond the end = not killed); lost = true:
   bytes still in Python's buffers, and the write in flight, reach the disk only partially;
   lost = false: everything handed over so far reached the disk. *)
From Coq Require Import List Arith Bool.
Import ListNotations.
Require Import NV.C24.Model NV.C24.Proofs.

(* Resume equivalence, for every update function, every number of iterations, every initial
   directory without a last.pkl (stale temporary files and logs allowed), first run with
   resume=False or resume=True, and EVERY finite sequence of crash points (so also a crash during
   the resumed run, repeatedly): the final restart with resume=True does not raise and returns
   the state of n applications of step to init ... *)
Theorem C24_resume_equiv :
  forall (St : Type) (step : St -> St) (init : St) (nit extra : St -> nat),
    nit init = 0 -> (forall s, nit (step s) = S (nit s)) ->
    forall (n : nat) (r0 : rmode St) (cps : list (nat * bool)) (d0 : disk St),
      not_path St r0 -> d_last St d0 = None ->
      snd (run St step init nit (iter_ops St extra) (restart St r0) n
             (chain St step init nit (iter_ops St extra) n r0 cps d0))
      = Ok (Nat.iter n step init).
Proof. exact resume_equiv. Qed.

(* ... which is what the uninterrupted run returns. *)
Theorem C24_uninterrupted :
  forall (St : Type) (step : St -> St) (init : St) (nit extra : St -> nat),
    nit init = 0 -> (forall s, nit (step s) = S (nit s)) ->
    forall (n : nat) (r : rmode St) (d0 : disk St),
      not_path St r -> d_last St d0 = None ->
      snd (run St step init nit (iter_ops St extra) r n d0) = Ok (Nat.iter n step init).
Proof. exact uninterrupted. Qed.

(* A crash never leaves a directory from which resuming is impossible: after any sequence of
   crashes last.pkl is absent or a complete pickle of the state of a COMPLETED iteration j <= n
   (never torn, never a mixture). *)
Theorem C24_disk_invariant :
  forall (St : Type) (step : St -> St) (init : St) (nit extra : St -> nat),
    nit init = 0 -> (forall s, nit (step s) = S (nit s)) ->
    forall (n : nat) (r0 : rmode St) (cps : list (nat * bool)) (d0 : disk St),
      not_path St r0 -> d_last St d0 = None ->
      let d := chain St step init nit (iter_ops St extra) n r0 cps d0 in
      d_last St d = None \/ exists j, j <= n /\ d_last St d = Some (Valid (Nat.iter j step init)).
Proof. exact disk_invariant. Qed.

(* The result of a run depends on the directory only through last.pkl: minisanity.txt (append-only
   log) and a left-over temporary file never influence it.  Holds for every protocol body. *)
Theorem C24_minisanity_benign :
  forall (St : Type) (step : St -> St) (init : St) (nit : St -> nat) (body : St -> list (op St))
         (r : rmode St) (n : nat) (d d' : disk St),
    d_last St d = d_last St d' ->
    snd (run St step init nit body r n d) = snd (run St step init nit body r n d').
Proof. exact log_benign. Qed.

(* resume = "<path>" naming an existing file with a complete pickle of sP (a checkpoint outside the
   output directory, which the driver never writes): for every protocol body, every directory and
   every crash chain, the restart with the same argument starts from sP again and returns what
   the uninterrupted run with that argument returns, n - nit sP applications of step to sP; the
   progress recorded in last.pkl is ignored, never harmful.  ([not_path] in the theorems above
   covers resume=False, True, and a string that names no existing file.) *)
Theorem C24_resume_path_equiv :
  forall (St : Type) (step : St -> St) (init : St) (nit : St -> nat) (body : St -> list (op St))
         (n : nat) (sP : St) (cps : list (nat * bool)) (d0 : disk St),
    snd (run St step init nit body (RPath (Some sP)) n
           (chain St step init nit body n (RPath (Some sP)) cps d0))
    = Ok (Nat.iter (n - nit sP) step sP)
    /\ snd (run St step init nit body (RPath (Some sP)) n d0) = Ok (Nat.iter (n - nit sP) step sP).
Proof. exact resume_path_equiv. Qed.

(* About the OLD protocol only (documentation of defect F11 / fix C24-1): with the unfixed
   truncate-then-write code, killing the very first run right after `open(last_fn, "wb")`
   (7 operations in) leaves a directory from which resume=True raises -- for every update function. *)
Theorem C24_old_protocol_refuted :
  forall (St : Type) (step : St -> St) (init : St) (nit extra : St -> nat),
    nit init = 0 ->
    snd (run St step init nit (iter_ops_old St extra) RYes 1
           (crashed St step init nit (iter_ops_old St extra) RNo 1 (empty_disk St) 7 true)) = Stuck.
Proof. exact old_protocol_stuck. Qed.

(* Non-vacuity on the instance the correspondence check runs (states = iteration counters):
   the hypotheses are satisfiable, a mid-run crash really leaves a stale temporary file and an
   older state on disk, and the OLD protocol also loses the state of iteration 1 when killed
   inside iteration 2. *)
Example C24_instance_fixed :
  ichain false [0; 0; 0] 3 RNo [(16, true)] (empty_disk nat)
  = mkDisk nat (Some (Valid 1)) (Some (Valid 2)) (Some 2)
  /\ snd (irun false [0; 0; 0] RYes 3 (ichain false [0; 0; 0] 3 RNo [(16, true)] (empty_disk nat))) = Ok 3.
Proof. split; reflexivity. Qed.

Example C24_instance_old :
  obs_last (ichain true [0; 0; 0] 3 RNo [(14, true)] (empty_disk nat)) = LTorn
  /\ snd (irun true [0; 0; 0] RYes 3 (ichain true [0; 0; 0] 3 RNo [(14, true)] (empty_disk nat))) = Stuck.
Proof. split; reflexivity. Qed.
