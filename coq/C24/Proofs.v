(* C24 -- lemmas about the crash/resume model. *)
From Coq Require Import List Arith Bool Lia.
Import ListNotations.
Require Import NV.C24.Model.

Section Proofs.
Variable St : Type.
Variable step : St -> St.
Variable init : St.
Variable nit : St -> nat.
Variable extra : St -> nat.
Hypothesis nit_init : nit init = 0.                         (* init_state(...).nit == 0 *)
Hypothesis nit_step : forall s, nit (step s) = S (nit s).   (* update: nit=nit + 1 *)

Notation disk := (disk St).
Notation op := (op St).
Notation exec := (exec St).
Notation st j := (Nat.iter j step init).

Lemma iter_plus : forall a b (x : St), Nat.iter a step (Nat.iter b step x) = Nat.iter (a + b) step x.
Proof. induction a; simpl; intros; [reflexivity | now rewrite IHa]. Qed.

Lemma nit_st : forall j, nit (st j) = j.
Proof. induction j; simpl; [exact nit_init | now rewrite nit_step, IHj]. Qed.

(* ---- operations that cannot change last.pkl ---- *)
Definition touches_last (o : op) : bool :=
  match o with
  | OpenW Last | OpenA Last | WriteMsg Last | WriteState Last _ _ | Close Last
  | Replace _ Last | Replace Last _ => true
  | _ => false
  end.

Ltac destr_match :=
  repeat match goal with
         | |- context [match ?x with _ => _ end] => destruct x
         end.

Lemma exec_untouched : forall o d, touches_last o = false -> d_last St (exec d o) = d_last St d.
Proof.
  intros o d H.
  destruct o as [ | f | f | f | f | f s b | f | f | a b ];
    try destruct f; try destruct a; try destruct b; simpl in *; try discriminate;
    try reflexivity; destr_match; reflexivity.
Qed.

Lemma tear_untouched : forall o d, touches_last o = false -> d_last St (tear St o d) = d_last St d.
Proof.
  intros o d H. destruct o as [ | f | f | f | f | f s b | f | f | a b ]; simpl in *; try reflexivity.
  destruct f; try discriminate; reflexivity.
Qed.

Lemma fold_untouched : forall l d, forallb (fun o => negb (touches_last o)) l = true ->
  d_last St (fold_left exec l d) = d_last St d.
Proof.
  induction l as [ | o l IH]; simpl; intros d H; [reflexivity | ].
  apply andb_true_iff in H. destruct H as [Ho Hl]. apply negb_true_iff in Ho.
  rewrite IH by exact Hl. now apply exec_untouched.
Qed.

Lemma crash_raw_untouched : forall l k lost d, forallb (fun o => negb (touches_last o)) l = true ->
  d_last St (crash_raw St k lost l d) = d_last St d.
Proof.
  induction l as [ | o l IH]; simpl; intros k lost d H; [reflexivity | ].
  apply andb_true_iff in H. destruct H as [Ho Hl]. apply negb_true_iff in Ho.
  destruct k.
  - destruct lost; [now apply tear_untouched | reflexivity].
  - rewrite IH by exact Hl. now apply exec_untouched.
Qed.

Lemma crash_raw_app : forall l1 l2 k lost d,
  crash_raw St k lost (l1 ++ l2) d =
  if k <? length l1 then crash_raw St k lost l1 d
  else crash_raw St (k - length l1) lost l2 (fold_left exec l1 d).
Proof.
  induction l1 as [ | o l1 IH]; simpl; intros l2 k lost d.
  - now rewrite Nat.sub_0_r.
  - destruct k; [reflexivity | ]. rewrite IH. reflexivity.
Qed.

Lemma crash_raw_all : forall l k lost d, length l <= k -> crash_raw St k lost l d = fold_left exec l d.
Proof.
  induction l as [ | o l IH]; simpl; intros k lost d H; [reflexivity | ].
  destruct k; [lia | ]. apply IH. lia.
Qed.

(* ---- one iteration of the (fixed) protocol ---- *)
Definition iter_pre (s' : St) : list op := log_ops St ++ dump_ops St extra Tmp s'.

Lemma iter_ops_split : forall s', iter_ops St extra s' = iter_pre s' ++ [Replace Tmp Last].
Proof. intros. unfold iter_ops, iter_pre. now rewrite app_assoc. Qed.

Lemma forallb_repeat : forall (A : Type) (p : A -> bool) x n, p x = true -> forallb p (repeat x n) = true.
Proof. induction n; simpl; intros; [reflexivity | rewrite H; auto]. Qed.

Lemma iter_pre_untouched : forall s', forallb (fun o => negb (touches_last o)) (iter_pre s') = true.
Proof.
  intros. unfold iter_pre, log_ops, dump_ops. simpl.
  rewrite forallb_app, forallb_repeat by reflexivity. reflexivity.
Qed.

Lemma fold_repeat_torn : forall s' n d, d_tmp St d = Some Torn ->
  d_tmp St (fold_left exec (repeat (WriteState Tmp s' false) n) d) = Some Torn.
Proof. induction n; simpl; intros d H; [exact H | apply IHn; reflexivity]. Qed.

Lemma iter_pre_tmp : forall s' d, d_tmp St (fold_left exec (iter_pre s') d) = Some (Valid s').
Proof.
  intros. unfold iter_pre, log_ops, dump_ops.
  rewrite fold_left_app. cbn [app]. cbn [fold_left]. rewrite fold_left_app.
  cbn [fold_left]. reflexivity.
Qed.

Lemma iter_ops_last : forall s' d, d_last St (fold_left exec (iter_ops St extra s') d) = Some (Valid s').
Proof.
  intros. rewrite iter_ops_split, fold_left_app. cbn [fold_left].
  pose proof (iter_pre_tmp s' d) as H. set (D := fold_left exec (iter_pre s') d) in *.
  cbn [Model.exec fget]. rewrite H. reflexivity.
Qed.

(* ---- the invariant: last.pkl is absent or holds the state of a completed iteration ---- *)
Definition good (n : nat) (c : option (content St)) : Prop :=
  c = None \/ exists j, j <= n /\ c = Some (Valid (st j)).

Lemma good_settle : forall n lost c, good n c -> settle1 St lost c = c.
Proof. intros n lost c [-> | (j & _ & ->)]; reflexivity. Qed.

Notation loopF := (loop St step (iter_ops St extra)).

Lemma loop_snd : forall body fuel s, snd (loop St step body fuel s) = Nat.iter fuel step s.
Proof.
  induction fuel; simpl; intros; [reflexivity | ].
  rewrite IHfuel. clear. induction fuel; simpl; [reflexivity | now rewrite IHfuel].
Qed.

Lemma loop_crash_good : forall n fuel j d k lost,
  j + fuel <= n -> good n (d_last St d) ->
  good n (d_last St (crash_raw St k lost (fst (loopF fuel (st j))) d)).
Proof.
  intros n. induction fuel as [ | fuel IH]; intros j d k lost Hj Hd.
  - simpl. exact Hd.
  - cbn [loop fst snd]. rewrite crash_raw_app.
    destruct (k <? length (iter_ops St extra (step (st j)))) eqn:Hk.
    + rewrite iter_ops_split, crash_raw_app.
      rewrite iter_ops_split, app_length in Hk. cbn [length] in Hk.
      destruct (k <? length (iter_pre (step (st j)))) eqn:Hk2.
      * rewrite crash_raw_untouched by apply iter_pre_untouched. exact Hd.
      * apply Nat.ltb_lt in Hk. apply Nat.ltb_ge in Hk2.
        replace (k - length (iter_pre (step (st j)))) with 0 by lia.
        cbn [crash_raw]. assert (Hu : d_last St (fold_left exec (iter_pre (step (st j))) d) = d_last St d)
          by (apply fold_untouched, iter_pre_untouched).
        destruct lost; cbn [tear]; rewrite Hu; exact Hd.
    + change (step (st j)) with (st (S j)). apply IH; [lia | ].
      right. exists (S j). split; [lia | ]. apply iter_ops_last.
Qed.

Lemma prelude_untouched : forall r d,
  forallb (fun o => negb (touches_last o)) (prelude St r d) = true.
Proof.
  intros. unfold prelude.
  destruct r as [ | | [sP | ]]; simpl; try reflexivity;
    destruct (isfile St Last d); reflexivity.
Qed.

(* resume is False, True, or a string that names no existing file *)
Definition not_path (r : rmode St) : Prop := match r with RPath (Some _) => False | _ => True end.

Lemma not_path_restart : forall r, not_path r -> not_path (restart St r).
Proof. intros [ | | [sP | ]] H; simpl in *; auto. Qed.

Lemma start_good : forall n r d, not_path r -> good n (d_last St d) ->
  exists j, j <= n /\ start St init r d = Some (st j).
Proof.
  intros n r d Hr [H | (j & Hj & H)]; destruct r as [ | | [sP | ]]; try contradiction;
    unfold start, isfile; cbn [fget is_res andb]; try rewrite H;
    first [ exists 0; split; [lia | reflexivity] | exists j; split; [exact Hj | reflexivity] ].
Qed.

Lemma crashed_good : forall n r d k lost, not_path r -> good n (d_last St d) ->
  good n (d_last St (crashed St step init nit (iter_ops St extra) r n d k lost)).
Proof.
  intros n r d k lost Hr Hd. unfold crashed, run, crash.
  destruct (start_good n r d Hr Hd) as (j & Hj & ->). rewrite nit_st.
  cbn [fst]. unfold settle. cbn [d_last].
  assert (G : good n (d_last St (crash_raw St k lost
                (prelude St r d ++ fst (loopF (n - j) (st j))) d))).
  { rewrite crash_raw_app. destruct (k <? length (prelude St r d)).
    - rewrite crash_raw_untouched by apply prelude_untouched. exact Hd.
    - apply loop_crash_good; [lia | ].
      rewrite fold_untouched by apply prelude_untouched. exact Hd. }
  rewrite (good_settle n lost _ G). exact G.
Qed.

Lemma chain_good : forall n cps r0 d, not_path r0 -> good n (d_last St d) ->
  good n (d_last St (chain St step init nit (iter_ops St extra) n r0 cps d)).
Proof.
  intros n. induction cps as [ | [k lost] t IH]; intros r0 d Hr Hd; simpl; [exact Hd | ].
  apply IH; [now apply not_path_restart | now apply crashed_good].
Qed.

Lemma run_good : forall n r d, not_path r -> good n (d_last St d) ->
  snd (run St step init nit (iter_ops St extra) r n d) = Ok (st n).
Proof.
  intros n r d Hr Hd. unfold run. destruct (start_good n r d Hr Hd) as (j & Hj & ->).
  rewrite nit_st. cbn [snd]. rewrite loop_snd, iter_plus. f_equal. f_equal. lia.
Qed.

(* ---- the theorems ---- *)
Theorem resume_equiv : forall n r0 cps d0, not_path r0 -> d_last St d0 = None ->
  snd (run St step init nit (iter_ops St extra) (restart St r0) n
         (chain St step init nit (iter_ops St extra) n r0 cps d0)) = Ok (st n).
Proof. intros. apply run_good; [now apply not_path_restart | ]. apply chain_good; [assumption | now left]. Qed.

Theorem uninterrupted : forall n r d0, not_path r -> d_last St d0 = None ->
  snd (run St step init nit (iter_ops St extra) r n d0) = Ok (st n).
Proof. intros. apply run_good; [assumption | now left]. Qed.

Theorem disk_invariant : forall n r0 cps d0, not_path r0 -> d_last St d0 = None ->
  let d := chain St step init nit (iter_ops St extra) n r0 cps d0 in
  d_last St d = None \/ exists j, j <= n /\ d_last St d = Some (Valid (st j)).
Proof. intros. apply chain_good; [assumption | now left]. Qed.

(* resume = <path of an existing file holding a complete pickle of sP>: every run -- the first one,
   and every restart with the same argument after any crash chain, on ANY directory -- starts from
   sP (the file is outside the output directory and never written) and returns the same state *)
Theorem resume_path_equiv : forall body n sP cps d0,
  snd (run St step init nit body (RPath (Some sP)) n
         (chain St step init nit body n (RPath (Some sP)) cps d0))
  = Ok (Nat.iter (n - nit sP) step sP)
  /\ snd (run St step init nit body (RPath (Some sP)) n d0) = Ok (Nat.iter (n - nit sP) step sP).
Proof. intros. unfold run. cbn [start snd]. rewrite !loop_snd. split; reflexivity. Qed.

(* the result of a run depends on the directory only through last.pkl: the log and any stale
   temporary file never influence it *)
Theorem log_benign : forall body r n d d', d_last St d = d_last St d' ->
  snd (run St step init nit body r n d) = snd (run St step init nit body r n d').
Proof.
  intros body r n d d' H. unfold run, start, isfile. cbn [fget]. rewrite H.
  destruct r as [ | | [sP | ]]; cbn [is_res andb]; try reflexivity;
    destruct (d_last St d') as [[ | s | s] | ]; reflexivity.
Qed.

(* OLD protocol (truncate last.pkl, then write): a kill right after the truncation of the very
   first iteration leaves a directory from which resume raises *)
Lemma old_protocol_torn :
  d_last St (crashed St step init nit (iter_ops_old St extra) RNo 1 (empty_disk St) 7 true) = Some Torn.
Proof.
  unfold crashed, run, start. cbn [is_res andb]. rewrite nit_init. cbn [Nat.sub loop fst snd].
  unfold prelude. cbn [is_res andb app]. unfold iter_ops_old, log_ops, dump_ops. cbn [app].
  unfold crash. destruct (extra (step init)); reflexivity.
Qed.

Theorem old_protocol_stuck :
  snd (run St step init nit (iter_ops_old St extra) RYes 1
         (crashed St step init nit (iter_ops_old St extra) RNo 1 (empty_disk St) 7 true)) = Stuck.
Proof.
  pose proof old_protocol_torn as H.
  set (D := crashed St step init nit (iter_ops_old St extra) RNo 1 (empty_disk St) 7 true) in *.
  unfold run, start, isfile. cbn [fget is_res andb]. rewrite H. reflexivity.
Qed.
End Proofs.
