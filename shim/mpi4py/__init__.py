# Shim used only by the /verif checks: the sandbox has the mpi4py package but no libmpi, so
# `from mpi4py import MPI` raises RuntimeError, which nifty.cl's own guards do not catch.
# Raising ImportError instead lets nifty.cl fall back to its single-task code path without any
# change to the repository.  Fake communicators are passed through the public `comm=` arguments.
raise ImportError("mpi4py disabled by /verif/shim (no libmpi in this sandbox)")
