#!/bin/bash
# Build the framework from files on disk only (offline): regenerate translator output from /repo,
# then one full .vo build of the whole Coq development.
set -e
cd "$(dirname "${BASH_SOURCE[0]}")"
export VERIF_HOME="$PWD" VERIF_REPO="${VERIF_REPO:-/repo}"
export PYTHONPATH="$PWD/shim:$VERIF_REPO:$PWD" PYTHONHASHSEED=0 JAX_PLATFORMS=cpu PYTHONDONTWRITEBYTECODE=1
mkdir -p run replays evidence
/venv/bin/python -m harness.setup
