"""C25 -- subprocess driver: one (possibly killed) run of nifty.cl.optimize_kl with every
file-system operation under the output directory traced and counted (tracer: c24_driver.Tracer).

Usage:  /venv/bin/python /verif/harness/c25_driver.py spec.json
spec = {"odir":..., "out":..., "resume": bool, "crash_at": int (-1 = never), "mode": "kill"|"flush"|"torn",
        "frac": float, "case": {...}}                      (crash semantics: see c24_driver.py)"""
import hashlib
import json
import os
import sys

sys.path.insert(0, os.path.dirname(os.path.abspath(__file__)))
from c24_driver import Tracer      # noqa: E402


LOGS = ("minisanity.txt", "counting_report.txt")


def point_variants(kind, name, open_names, level):
    """Crash-point variants at one traced operation: [(mode, frac)].  kill: plain kill before the
    operation.  light: + one torn variant of every write to a non-log file.  medium: + buffers
    flushed wherever a non-log file is open.  full: flush wherever any file is open, three torn
    fractions (one for log files)."""
    out = [("kill", 0.0)]
    if level == "kill":
        return out
    state = any(f not in LOGS for f in open_names)
    if open_names and ((level == "medium" and state) or level == "full"):
        out.append(("flush", 0.0))
    if kind == "write":
        if name not in LOGS:
            out += [("torn", fr) for fr in ([0.03, 0.5, 0.97] if level == "full" else [0.5])]
        elif level == "full":
            out.append(("torn", 0.5))
    return out


def snap_name(k, mode, frac):
    return "k%d_%s_%d" % (k, mode, int(round(frac * 100)))


def build(case):
    import numpy as np
    import nifty.cl as ift
    n = len(case["data"])
    d = ift.RGSpace(n)
    a = ift.ScalingOperator(d, float(case["amp"])).ducktape("a")
    b = ift.ScalingOperator(d, 1.).ducktape("b")
    op = a.exp() * b if case.get("model", "expmul") == "expmul" else (a + b).exp()
    data = ift.Field.from_raw(d, np.array(case["data"], dtype=np.float64))
    lh0 = ift.GaussianEnergy(data, ift.ScalingOperator(d, float(case["icov"]), np.float64))
    lh = lh0 @ op
    if case.get("grow_at") is not None:
        # domain expansion: the latent key "b" (and, with "grow2_at", a third key "c") enters the
        # likelihood at a later iteration; its start values are drawn by _normal_initialize then
        k1 = int(case["grow_at"])
        k2 = case.get("grow2_at")
        small = lh0 @ a.exp()
        big = lh
        c = ift.ScalingOperator(d, 0.5).ducktape("c")
        bigger = lh0 @ (op + c.tanh())
        lh = (lambda i, k1=k1, k2=k2: small if i < k1 else (big if (k2 is None or i < int(k2)) else bigger))
    cgl = case.get("cg_limit", 3)
    nwl = case.get("newton_limit", 3)
    # the sampling controller and the KL minimiser may change from iteration to iteration
    ic = (lambda i: ift.AbsDeltaEnergyController(0.1, iteration_limit=int(cgl[min(i, len(cgl) - 1)]))) if isinstance(cgl, list) \
        else ift.AbsDeltaEnergyController(0.1, iteration_limit=int(cgl))
    mini = (lambda i: ift.NewtonCG(ift.AbsDeltaEnergyController(0.1, iteration_limit=int(nwl[min(i, len(nwl) - 1)])))) if isinstance(nwl, list) \
        else ift.NewtonCG(ift.AbsDeltaEnergyController(0.1, iteration_limit=int(nwl)))
    nl = None
    if case.get("geovi", False):
        nl = ift.NewtonCG(ift.AbsDeltaEnergyController(0.1, iteration_limit=2))
    pos0 = ift.MultiField.from_dict({"a": ift.full(d, float(case["pos_a"])), "b": ift.full(d, float(case["pos_b"]))})
    ns = case["n_samples"]
    fresh = case.get("fresh", True)
    if case.get("init_none", False):
        pos0 = None                      # start values of every latent key are drawn in iteration 0
    elif case.get("grow_at") is not None:
        pos0 = ift.MultiField.from_dict({"a": ift.full(d, float(case["pos_a"]))})
    kw = dict(nonlinear_sampling_minimizer=nl, initial_position=pos0, save_strategy=case["strategy"],
              return_final_position=True, plot_energy_history=False, plot_minisanity_history=False,
              fresh_stochasticity=(lambda i: fresh[min(i, len(fresh) - 1)]) if isinstance(fresh, list) else fresh)
    if case.get("point_estimates"):
        kw["point_estimates"] = list(case["point_estimates"])
    if case.get("transition", False):
        # the start of iteration i depends on EVERY sample of the previous iteration (weights
        # 1, 2, 3, ...), so that a sample list mixed from two iterations changes the result
        def combine(sl):
            items = [sl.local_item(k) for k in range(sl.n_local_samples)]
            tot = None
            for k, x in enumerate(items):
                y = x * float(k + 1)
                tot = y if tot is None else tot + y
            return tot * (1.0 / sum(range(1, len(items) + 1)))
        kw["transitions"] = lambda i: (combine if i > 0 else None)
    n_samples = (lambda i: ns[min(i, len(ns) - 1)]) if isinstance(ns, list) else int(ns)
    return lh, int(case["n_iter"]), n_samples, mini, ic, kw, int(case["seed"])


def canon(sl, mean):
    """Bit-exact canonical form of the returned (samples, mean)."""
    import numpy as np
    h = hashlib.sha256()

    def feed(mf):
        x = mf.asnumpy()
        x = x if isinstance(x, dict) else {"": x}
        for k in sorted(x):
            a = np.asarray(x[k])
            h.update(("%s|%s|%s|" % (k, a.dtype, a.shape)).encode())
            h.update(a.tobytes())
    feed(mean)
    n = 0
    for s in sl.iterator():
        feed(s)
        n += 1
    m = mean.asnumpy()
    return {"hash": h.hexdigest(), "n_samples": n, "type": type(sl).__name__,
            "mean": [float(v) for k in sorted(m) for v in np.asarray(m[k]).ravel()][:8]}


def classify(odir, strategy):
    """What a restart will find (read-only, before the tracer is installed)."""
    import pickle
    pre = {"files": [], "marker": "absent"}
    if os.path.isdir(odir):
        pre["files"] = sorted(os.path.relpath(os.path.join(d, f), odir) for d, _, fs in os.walk(odir) for f in fs)
    for key, fn in (("marker", "last_finished_iteration"), ("marker_tmp", "last_finished_iteration.tmp")):
        lf = os.path.join(odir, fn)
        if os.path.isfile(lf):
            txt = open(lf).read()
            try:
                pre[key] = int(txt)
            except ValueError:
                pre[key] = "torn"
    loadable = {}
    for f in pre["files"]:
        if f.startswith("pickle" + os.sep):
            try:
                with open(os.path.join(odir, f), "rb") as fh:
                    pickle.load(fh)
                loadable[f] = True
            except Exception:
                loadable[f] = False
    pre["loadable"] = loadable
    return pre


def batch(path):
    """Zygote: import everything once.  jobs = [[spec, spec, ...], ...]: the specs of one chain run
    one after the other.  A spec with "fork": true runs in a forked child (nifty.cl is
    single-threaded and does not import jax, so fork is safe) -- a killed child is a really killed
    process (os._exit); the others run inside this process, one after the other, with the tracer
    uninstalled and NIFTy's random-number stack restored after each."""
    import time
    jobs = json.load(open(path))
    import logging
    logging.disable(logging.CRITICAL)
    import warnings
    warnings.filterwarnings("ignore")
    import pickle, datetime                      # noqa: F401
    import nifty.cl as ift                       # noqa: F401
    from nifty.cl.extra import minisanity        # noqa: F401
    try:
        import h5py                              # noqa: F401
    except ImportError:
        pass
    if len(os.listdir("/proc/self/task")) != 1 or "jax" in sys.modules:
        print("zygote is not single-threaded", flush=True)
        os._exit(3)
    rcs = []
    for chain in jobs:
        row = []
        for spec in chain:
            if not spec.get("fork", True):
                try:
                    run_one(spec, in_process=True)
                    row.append(0)
                except BaseException as e:                  # noqa
                    print("in-process run failed: %r" % (e,), flush=True)
                    row.append(1)
                continue
            sys.stdout.flush()
            pid = os.fork()
            if pid == 0:
                try:
                    run_one(spec)
                finally:
                    os._exit(1)
            t0 = time.time()
            while True:
                p, st = os.waitpid(pid, os.WNOHANG)
                if p:
                    row.append(os.waitstatus_to_exitcode(st))
                    break
                if time.time() - t0 > 300:
                    os.kill(pid, 9)
                    os.waitpid(pid, 0)
                    row.append(124)
                    break
                time.sleep(0.01)
        rcs.append(row)
    with open(path + ".rcs", "w") as f:
        json.dump(rcs, f)
    sys.stdout.flush()
    os._exit(0)


def main():
    if sys.argv[1] == "--batch":
        batch(sys.argv[2])
    run_one(json.load(open(sys.argv[1])))


def dir_sha(odir):
    """Content hash of the directory a restart finds: every file byte for byte, except the two
    append-only logs (they contain wall-clock time stamps) and the random state file, which is
    hashed by its meaning (pickle.dumps of the same generator state is not byte-stable)."""
    import pickle
    h = hashlib.sha256()
    if not os.path.isdir(odir):
        return "no-directory"
    for d, ds, fs in sorted(os.walk(odir)):
        for f in sorted(fs):
            p = os.path.join(d, f)
            rel = os.path.relpath(p, odir)
            h.update(rel.encode() + b"\0")
            if rel in LOGS:
                continue
            with open(p, "rb") as fh:
                raw = fh.read()
            if rel == os.path.join("pickle", "nifty_random_state"):
                try:
                    sseq, rng = pickle.loads(raw)
                    raw = json.dumps([[str(x.entropy), list(x.spawn_key), x.pool_size, x.n_children_spawned] for x in sseq]
                                     + [r.bit_generator.state for r in rng], sort_keys=True, default=str).encode()
                except Exception:
                    raw = b"<unloadable random state>"     # a torn prefix; its bytes are not stable either
            h.update(raw)
            h.update(b"\0")
    return h.hexdigest()


def run_one(spec, in_process=False):
    import logging
    logging.disable(logging.CRITICAL)
    import warnings
    warnings.filterwarnings("ignore")
    import nifty
    import nifty.cl as ift
    odir = spec["odir"]
    case = spec["case"]
    lh, n_iter, n_samples, mini, ic, kw, seed = build(case)
    pre = classify(odir, case["strategy"])
    pre["dir_sha"] = dir_sha(odir)
    header = {"resume": spec["resume"], "crash_at": spec["crash_at"], "nifty_file": nifty.__file__, "pre": pre}
    tr = Tracer(odir, int(spec["crash_at"]), spec.get("mode", "kill"), float(spec.get("frac", 0.5)), spec["out"])
    tr.header = header
    for sn in spec.get("snapshots", []):
        tr.snaps.setdefault(int(sn["k"]), []).append(sn)
    rule = spec.get("snap_rule")
    if rule:
        def snap_cb(k, kind, name, open_names):
            return [{"mode": m, "frac": fr, "dest": os.path.join(rule["dir"], snap_name(k, m, fr), "odir")}
                    for m, fr in point_variants(kind, name, open_names, rule["level"])]
        tr.snap_cb = snap_cb
    iters = {}
    header["iters"] = iters

    def inspect(sl, iglobal):
        iters[str(int(iglobal))] = canon(sl, sl.mean if hasattr(sl, "mean") else sl.local_item(0))["hash"]

    state0 = ift.random.getState()
    ift.random.push_sseq_from_seed(seed)
    tr.install(modules=("nifty.cl.minimization.optimize_kl", "nifty.cl.minimization.sample_list"))
    try:
        sl, mean = ift.optimize_kl(lh, n_iter, n_samples, mini, ic, output_directory=odir,
                                   resume=bool(spec["resume"]), inspect_callback=inspect, **kw)
        out = {"outcome": "ok", "final": canon(sl, mean)}
    except BaseException as e:                                    # noqa: resume impossible etc.
        out = {"outcome": "raised", "error": type(e).__name__, "detail": str(e).replace(os.path.realpath(odir), "<odir>").replace(odir, "<odir>")[:200]}
    for t in list(tr.open_files):                                 # files left open by an exception
        try:
            t.f.close()
        except Exception:
            pass
    if out["outcome"] == "ok":
        for k, sns in tr.snaps.items():                           # "killed after the last operation"
            if k >= len(tr.ops):
                for sn in sns:
                    tr.snapshot(sn, None, None, None)
        if rule:
            tr.snapshot({"mode": "kill", "frac": 0.0,
                         "dest": os.path.join(rule["dir"], snap_name(len(tr.ops), "kill", 0.0), "odir")}, None, None, None)
    out["snaps_taken"] = tr.snaps_taken
    out["shadow_mismatch"] = tr.shadow_mismatch() if out["outcome"] == "ok" else []
    tr.uninstall()
    ift.random.setState(state0)
    tr.dump(out)
    sys.stdout.flush()
    if not in_process:
        os._exit(0)


if __name__ == "__main__":
    main()
