"""C25 -- subprocess driver: one (possibly killed) run of nifty.cl.optimize_kl with every
file-system operation under the output directory traced and counted (tracer: c24_driver.Tracer).

Usage:  /venv/bin/python /verif/harness/c25_driver.py spec.json
spec = {"odir":..., "out":..., "resume": bool, "crash_at": int (-1 = never), "mode": "kill"|"flush"|"torn",
        "frac": float, "case": {...}}                      (crash semantics: see c24_driver.py)"""
import hashlib
import json
import os
import sys

sys.path.insert(0, os.path.dirname(os.path.abspath(__file__)))
from c24_driver import Tracer      # noqa: E402


def build(case):
    import numpy as np
    import nifty.cl as ift
    n = len(case["data"])
    d = ift.RGSpace(n)
    a = ift.ScalingOperator(d, float(case["amp"])).ducktape("a")
    b = ift.ScalingOperator(d, 1.).ducktape("b")
    op = a.exp() * b if case.get("model", "expmul") == "expmul" else (a + b).exp()
    data = ift.Field.from_raw(d, np.array(case["data"], dtype=np.float64))
    lh = ift.GaussianEnergy(data, ift.ScalingOperator(d, float(case["icov"]), np.float64)) @ op
    ic = ift.AbsDeltaEnergyController(0.1, iteration_limit=int(case.get("cg_limit", 3)))
    mini = ift.NewtonCG(ift.AbsDeltaEnergyController(0.1, iteration_limit=int(case.get("newton_limit", 3))))
    nl = None
    if case.get("geovi", False):
        nl = ift.NewtonCG(ift.AbsDeltaEnergyController(0.1, iteration_limit=2))
    pos0 = ift.MultiField.from_dict({"a": ift.full(d, float(case["pos_a"])), "b": ift.full(d, float(case["pos_b"]))})
    ns = case["n_samples"]
    fresh = case.get("fresh", True)
    kw = dict(nonlinear_sampling_minimizer=nl, initial_position=pos0, save_strategy=case["strategy"],
              return_final_position=True, plot_energy_history=False, plot_minisanity_history=False,
              fresh_stochasticity=(lambda i: fresh[min(i, len(fresh) - 1)]) if isinstance(fresh, list) else fresh)
    if case.get("point_estimates"):
        kw["point_estimates"] = list(case["point_estimates"])
    n_samples = (lambda i: ns[min(i, len(ns) - 1)]) if isinstance(ns, list) else int(ns)
    return lh, int(case["n_iter"]), n_samples, mini, ic, kw, int(case["seed"])


def canon(sl, mean):
    """Bit-exact canonical form of the returned (samples, mean)."""
    import numpy as np
    h = hashlib.sha256()

    def feed(mf):
        x = mf.asnumpy()
        x = x if isinstance(x, dict) else {"": x}
        for k in sorted(x):
            a = np.asarray(x[k])
            h.update(("%s|%s|%s|" % (k, a.dtype, a.shape)).encode())
            h.update(a.tobytes())
    feed(mean)
    n = 0
    for s in sl.iterator():
        feed(s)
        n += 1
    m = mean.asnumpy()
    return {"hash": h.hexdigest(), "n_samples": n, "type": type(sl).__name__,
            "mean": [float(v) for k in sorted(m) for v in np.asarray(m[k]).ravel()][:8]}


def classify(odir, strategy):
    """What a restart will find (read-only, before the tracer is installed)."""
    import pickle
    pre = {"files": [], "marker": "absent"}
    if os.path.isdir(odir):
        pre["files"] = sorted(os.path.relpath(os.path.join(d, f), odir) for d, _, fs in os.walk(odir) for f in fs)
    lf = os.path.join(odir, "last_finished_iteration")
    if os.path.isfile(lf):
        txt = open(lf).read()
        try:
            pre["marker"] = int(txt)
        except ValueError:
            pre["marker"] = "torn"
    loadable = {}
    for f in pre["files"]:
        if f.startswith("pickle" + os.sep) and "random_state" not in f:
            try:
                with open(os.path.join(odir, f), "rb") as fh:
                    pickle.load(fh)
                loadable[f] = True
            except Exception:
                loadable[f] = False
    pre["loadable"] = loadable
    return pre


def main():
    spec = json.load(open(sys.argv[1]))
    import logging
    logging.disable(logging.CRITICAL)
    import warnings
    warnings.filterwarnings("ignore")
    import nifty
    import nifty.cl as ift
    odir = spec["odir"]
    case = spec["case"]
    lh, n_iter, n_samples, mini, ic, kw, seed = build(case)
    header = {"resume": spec["resume"], "crash_at": spec["crash_at"], "nifty_file": nifty.__file__,
              "pre": classify(odir, case["strategy"])}
    tr = Tracer(odir, int(spec["crash_at"]), spec.get("mode", "kill"), float(spec.get("frac", 0.5)), spec["out"])
    tr.header = header
    iters = {}
    header["iters"] = iters
    state = {"mean": None}

    def inspect(sl, iglobal):
        iters[str(int(iglobal))] = canon(sl, sl.mean if hasattr(sl, "mean") else sl.local_item(0))["hash"]

    ift.random.push_sseq_from_seed(seed)
    tr.install(modules=("nifty.cl.minimization.optimize_kl", "nifty.cl.minimization.sample_list"))
    try:
        sl, mean = ift.optimize_kl(lh, n_iter, n_samples, mini, ic, output_directory=odir,
                                   resume=bool(spec["resume"]), inspect_callback=inspect, **kw)
        out = {"outcome": "ok", "final": canon(sl, mean)}
    except BaseException as e:                                    # noqa: resume impossible etc.
        out = {"outcome": "raised", "error": type(e).__name__, "detail": str(e)[:200]}
    out["shadow_mismatch"] = tr.shadow_mismatch() if out["outcome"] == "ok" else []
    tr.dump(out)
    sys.stdout.flush()
    os._exit(0)


if __name__ == "__main__":
    main()
