"""Run every registered check once (not itself a registered check).

    /venv/bin/python -m harness.runall [--tier quick|thorough] [--jobs N] [--only C01,C02] [--seed S]

Prints one line per property (exit code, wall time, the OK / VIOLATION / KNOWN-FINDING lines) and a
summary; the evidence files are rewritten by the checks themselves."""
import json
import os
import subprocess
import sys
import time
from concurrent.futures import ThreadPoolExecutor

HOME = os.path.dirname(os.path.dirname(os.path.abspath(__file__)))


def run(pid, tier, seed):
    t0 = time.time()
    env = dict(os.environ, VERIF_SEED=str(seed))
    p = subprocess.run([os.path.join(HOME, "check"), pid, "--tier", tier], cwd=HOME, env=env,
                       stdout=subprocess.PIPE, stderr=subprocess.STDOUT, text=True)
    lines = [l for l in p.stdout.split("\n") if l.startswith(("OK ", "VIOLATION", "KNOWN-FINDING", "MACHINERY"))]
    return pid, p.returncode, round(time.time() - t0, 1), lines, p.stdout


def main():
    a = sys.argv[1:]
    tier = a[a.index("--tier") + 1] if "--tier" in a else "quick"
    jobs = int(a[a.index("--jobs") + 1]) if "--jobs" in a else 2
    seed = int(a[a.index("--seed") + 1]) if "--seed" in a else 0
    m = json.load(open(os.path.join(HOME, "MANIFEST.json")))
    pids = [c["property_id"] for c in m["checks"]]
    if "--only" in a:
        want = a[a.index("--only") + 1].split(",")
        pids = [p for p in pids if p in want]
    os.makedirs(os.path.join(HOME, "run", "runall"), exist_ok=True)
    bad = []
    with ThreadPoolExecutor(jobs) as ex:
        for pid, rc, wall, lines, out in ex.map(lambda p: run(p, tier, seed), pids):
            open(os.path.join(HOME, "run", "runall", "%s.%s.log" % (pid, tier)), "w").write(out)
            print("%s rc=%d %6.1fs  %s" % (pid, rc, wall, " | ".join(l[:140] for l in lines)), flush=True)
            if rc != 0:
                bad.append(pid)
    print("SUMMARY tier=%s checks=%d failing=%s" % (tier, len(pids), bad))
    sys.exit(1 if bad else 0)


if __name__ == "__main__":
    main()
