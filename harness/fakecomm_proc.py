import multiprocessing as mp, pickle, numpy as np, traceback, sys
class Comm:
    """Process-based fake communicator with rendezvous point-to-point sends."""
    def __init__(self, rank, size, pipes):
        self.rank, self.size, self.pipes = rank, size, pipes   # pipes[(a,b)] = connection end at a towards b
    def Get_rank(self): return self.rank
    def Get_size(self): return self.size
    def _c(self, other): return self.pipes[other]
    def send(self, obj, dest):
        c = self._c(dest); c.send(("msg", obj)); tag, _ = c.recv(); assert tag == "ack"
    def recv(self, source):
        c = self._c(source); tag, obj = c.recv(); assert tag == "msg", tag; c.send(("ack", None)); return obj
    def Send(self, arr, dest): self.send(np.ascontiguousarray(arr).copy(), dest)
    def Recv(self, buf, source):
        a = self.recv(source); buf[...] = a
    def bcast(self, obj, root=0):
        if self.rank == root:
            for r in range(self.size):
                if r != root: self.send(obj, r)
            return obj
        return self.recv(root)
    def Bcast(self, buf, root=0):
        if self.rank == root:
            for r in range(self.size):
                if r != root: self.send(np.array(buf, copy=True), r)
        else:
            buf[...] = self.recv(root)
    def gather0(self, obj):
        if self.rank == 0:
            out=[obj]+[self.recv(r) for r in range(1,self.size)]
            return out
        self.send(obj, 0); return None
    def allgather(self, obj):
        g = self.gather0(obj); return self.bcast(g, 0)
    def allreduce(self, obj):
        g = self.allgather(obj); out = g[0]
        for y in g[1:]: out = out + y
        return out
    def Barrier(self): self.allgather(None)
def _worker(rank, size, pipes, fn, args, q):
    try:
        comm = Comm(rank, size, pipes) if size > 1 else None
        q.put((rank, "ok", fn(comm, *args)))
    except Exception as e:
        q.put((rank, "exc", traceback.format_exc()))
def run(size, fn, *args, timeout=120):
    ctx = mp.get_context("fork")
    ends = {r: {} for r in range(size)}
    for a in range(size):
        for b in range(a+1, size):
            ca, cb = ctx.Pipe(); ends[a][b] = ca; ends[b][a] = cb
    q = ctx.Queue(); ps = [ctx.Process(target=_worker, args=(r, size, ends[r], fn, args, q)) for r in range(size)]
    [p.start() for p in ps]
    res = {}
    import queue as _q
    try:
        for _ in range(size):
            r, st, val = q.get(timeout=timeout); res[r] = (st, val)
            if st != "ok": break
    except _q.Empty:
        pass
    for p in ps:
        p.join(timeout=2 if len(res)==size else 0.1)
        if p.is_alive(): p.terminate()
    return [res.get(r, ("exc", "no result (blocked or killed)")) for r in range(size)]
