"""Self-validation against independently written property-breaking changes (not a registered check).

    /venv/bin/python -m harness.seedtest seeded/<id> [--tier quick]

For seeded/<id>/{patch.diff, demo.py, meta.json}: in a scratch worktree of /repo HEAD (never /repo
itself, so concurrently running checks are not disturbed) run the demonstration on the clean tree
(must pass), apply the patch, run the demonstration again (must fail), run the property's check
against the patched tree with VERIF_REPO (a VIOLATION is expected), record the outcome under
"verification" in meta.json, and remove the worktree."""
import json
import os
import subprocess
import sys
import time

HOME = os.path.dirname(os.path.dirname(os.path.abspath(__file__)))


def sh(cmd, env=None, cwd=None, timeout=3000):
    p = subprocess.run(cmd, shell=True, env=env, cwd=cwd, stdout=subprocess.PIPE, stderr=subprocess.STDOUT,
                       text=True, timeout=timeout)
    return p.returncode, p.stdout


def main():
    d = os.path.abspath(sys.argv[1])
    tier = "quick"
    if "--tier" in sys.argv:
        tier = sys.argv[sys.argv.index("--tier") + 1]
    meta = json.load(open(os.path.join(d, "meta.json")))
    prop = meta["property"]
    wt = "/tmp/seedrun-%s-%d" % (os.path.basename(d), os.getpid())
    sh("git -C /repo worktree add -q %s HEAD" % wt)
    env = dict(os.environ, PYTHONPATH="%s/shim:%s" % (HOME, wt), JAX_PLATFORMS="cpu", JAX_ENABLE_X64="1",
               PYTHONHASHSEED="0", OMP_NUM_THREADS="2")
    out = {"repo_head": sh("git -C /repo rev-parse --short HEAD")[1].strip(), "time": time.strftime("%Y-%m-%d %H:%M")}
    try:
        rc0, o0 = sh("/venv/bin/python %s/demo.py" % d, env=env, cwd=wt, timeout=600)
        out["demo_clean_rc"] = rc0
        rc, o = sh("git -C %s apply %s/patch.diff" % (wt, d))
        if rc != 0:
            out["error"] = "patch does not apply: " + o[-300:]
        else:
            rc1, o1 = sh("/venv/bin/python %s/demo.py" % d, env=env, cwd=wt, timeout=600)
            out["demo_mutated_rc"] = rc1
            out["demo_mutated_tail"] = o1.strip().split("\n")[-1][:300]
            env2 = dict(os.environ, VERIF_REPO=wt)
            t0 = time.time()
            rc2, o2 = sh("%s/check %s --tier %s" % (HOME, prop, tier), env=env2, cwd=HOME, timeout=3000)
            lines = [l for l in o2.split("\n") if l.startswith(("VIOLATION", "OK ", "KNOWN-FINDING", "MACHINERY", "  what", "  broken"))]
            out["check_rc"] = rc2
            out["check_lines"] = lines[:6]
            out["check_wall_s"] = round(time.time() - t0, 1)
            out["caught"] = (rc2 == 1 and any(l.startswith("VIOLATION") for l in lines))
    finally:
        sh("git -C /repo worktree remove --force %s" % wt)
    meta["verification"] = out
    json.dump(meta, open(os.path.join(d, "meta.json"), "w"), indent=1)
    print(json.dumps(out, indent=1))


if __name__ == "__main__":
    main()
