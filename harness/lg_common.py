"""Shared helpers of the C18 / C19 / C20 checks: small linear(ised) Gaussian models with exactly
representable (small rational) entries, their construction on both NIFTy APIs, and deterministic
noise injection (basis vectors instead of white noise) to extract the exact sampling factor T.

Nothing here touches /repo; patches are applied to module attributes inside `with` blocks and are
always undone."""
import contextlib
import os
from fractions import Fraction as Fr

import numpy as np

# --------------------------------------------------------------------------------------------------
# case generation (everything small integers / dyadic rationals => exact in float64 and cheap in Q)
# --------------------------------------------------------------------------------------------------

DIMS = [(2, 3), (3, 3), (4, 3), (3, 4), (3, 2), (2, 2)]
RKINDS = ["full", "dup_row", "dup_col", "zero_row", "zero_col", "rank1", "zero"]
SIGMAS = [Fr(1, 2), Fr(1), Fr(2)]


def _unimodular_spd(rng, m):
    """W = U U^T (U unit lower triangular integer): symmetric positive definite, det 1, so W and
    W^-1 are integer matrices."""
    U = np.eye(m, dtype=int)
    for i in range(m):
        for j in range(i):
            U[i, j] = int(rng.integers(-1, 2))
    W = U @ U.T
    Ui = np.rint(np.linalg.inv(U)).astype(int)
    assert (Ui @ U == np.eye(m, dtype=int)).all()
    Wi = Ui.T @ Ui
    assert (W @ Wi == np.eye(m, dtype=int)).all()
    return W, Wi


def gen_lg_case(rng, idx, rkind=None, noise=None, dims=None, cplx=False):
    """One linear Gaussian model d = R s + n; returns a JSON-able dict of ints / 'p/q' strings.
    cplx: complex-valued response and data (real signal, real diagonal noise variances): keys Ri, di."""
    if cplx:
        noise = "diag"
    m, n = dims if dims is not None else DIMS[int(rng.integers(len(DIMS)))]
    rkind = rkind or RKINDS[int(rng.integers(len(RKINDS)))]
    R = rng.integers(-2, 3, size=(m, n))
    if rkind == "full":
        while np.linalg.matrix_rank(R) < min(m, n):
            R = rng.integers(-2, 3, size=(m, n))
    elif rkind == "dup_row" and m > 1:
        R[m - 1] = R[0]
    elif rkind == "dup_col" and n > 1:
        R[:, n - 1] = -R[:, 0]
    elif rkind == "zero_row":
        R[int(rng.integers(m))] = 0
    elif rkind == "zero_col":
        R[:, int(rng.integers(n))] = 0
    elif rkind == "rank1":
        R = np.outer(rng.integers(-2, 3, size=m), rng.integers(-1, 2, size=n))
    elif rkind == "zero":
        R = np.zeros((m, n), dtype=int)
    noise = noise or ("diag" if rng.random() < 0.7 else "dense")
    if noise == "diag":
        sig = [SIGMAS[int(rng.integers(len(SIGMAS)))] for _ in range(m)]
        W = [[(1 / sig[i]) if i == j else Fr(0) for j in range(m)] for i in range(m)]      # N^-1/2
        Wi = [[sig[i] if i == j else Fr(0) for j in range(m)] for i in range(m)]
    else:
        Wn, Win = _unimodular_spd(rng, m)
        W = [[Fr(int(x)) for x in r] for r in Wn]
        Wi = [[Fr(int(x)) for x in r] for r in Win]
    d = rng.integers(-3, 4, size=m)
    Qm = rng.integers(-1, 2, size=(m, n)) * (rng.random(size=(m, n)) < 0.5)
    c = rng.integers(-1, 2, size=m)
    p = rng.integers(-1, 2, size=n)
    s0 = rng.integers(-2, 3, size=n)
    sinv = [[Fr(1, 4), Fr(1), Fr(4)][int(rng.integers(3))] for _ in range(n)]
    extra = {}
    if cplx:
        Ri = rng.integers(-2, 3, size=(m, n))
        if rkind == "dup_row" and m > 1:
            Ri[m - 1] = Ri[0]
        elif rkind == "dup_col" and n > 1:
            Ri[:, n - 1] = -Ri[:, 0]
        elif rkind == "zero":
            Ri = np.zeros((m, n), dtype=int)
            Ri[0, 0] = 1
        if not Ri.any():
            Ri[0, 0] = 1
        extra = {"Ri": [[int(x) for x in r] for r in Ri], "di": [int(x) for x in rng.integers(-3, 4, size=m)]}
        R_rank = np.vstack([R, Ri])
    else:
        R_rank = R
    return {**extra, "idx": int(idx), "m": int(m), "n": int(n), "rkind": rkind, "noise": noise,
            "rank": int(np.linalg.matrix_rank(R_rank)),
            "R": [[int(x) for x in r] for r in R], "W": [[str(x) for x in r] for r in W],
            "Wi": [[str(x) for x in r] for r in Wi], "d": [int(x) for x in d],
            "Q": [[int(x) for x in r] for r in Qm], "c": [int(x) for x in c], "p": [int(x) for x in p],
            "s0": [int(x) for x in s0], "sinv": [str(x) for x in sinv]}


def gen_identity_case(rng, idx):
    """Pure de-noising: identity response (handed to the classic API as ScalingOperator(domain, 1.)),
    diagonal noise as DiagonalOperator, unit prior as ScalingOperator: the operator-simplification paths
    (SandwichOperator.make short-cut, SumOperator.simplify -> DiagonalOperator._add) are taken."""
    k = int(rng.integers(2, 5))
    case = gen_lg_case(rng, idx, rkind="full", noise="diag", dims=(k, k))
    case["R"] = [[1 if i == j else 0 for j in range(k)] for i in range(k)]
    case["rkind"], case["rank"], case["scaling_response"] = "identity_scaling", k, True
    case["sinv"] = ["1"] * k
    return case


def gen_illcond_cg_case(rng, idx, n=30):
    """30 distinct, moderately spread curvature eigenvalues 1 + 16 (k+1)^2: the classic ConjugateGradient
    needs more than its reset interval of 20 iterations (entries are multiples of 1/8 => exact)."""
    case = gen_illcond_case(rng, idx, n=n)
    perm = rng.permutation(n)
    sgn = rng.choice([-1, 1], size=n)
    R = [[Fr(0)] * n for _ in range(n)]
    for i in range(n):
        R[i][int(perm[i])] = Fr(i + 1, 8) * int(sgn[i])
    case["R"] = [[str(x) for x in r] for r in R]
    case["rkind"] = "illcond_cg"
    return case


def gen_illcond_case(rng, idx, n=12):
    """Ill-conditioned linear model: R = signed permutation of diag(4, 2, 1, 1/2, ...), sigma = 1/32,
    so that R^T N^-1 R + 1 has eigenvalues spread over seven decades (all entries dyadic => exact)."""
    perm = rng.permutation(n)
    sgn = rng.choice([-1, 1], size=n)
    vals = [Fr(4) / Fr(2) ** k for k in range(n)]
    R = [[Fr(0)] * n for _ in range(n)]
    for i in range(n):
        R[i][int(perm[i])] = vals[i] * int(sgn[i])
    W = [[Fr(32) if i == j else Fr(0) for j in range(n)] for i in range(n)]
    Wi = [[Fr(1, 32) if i == j else Fr(0) for j in range(n)] for i in range(n)]
    zero = [[0] * n for _ in range(n)]
    return {"idx": int(idx), "m": n, "n": n, "rkind": "illcond", "noise": "diag", "rank": n,
            "R": [[str(x) for x in r] for r in R], "W": [[str(x) for x in r] for r in W],
            "Wi": [[str(x) for x in r] for r in Wi], "d": [int(x) for x in rng.integers(-3, 4, size=n)],
            "Q": zero, "c": [0] * n, "p": [0] * n, "s0": [int(x) for x in rng.integers(-2, 3, size=n)],
            "sinv": ["1"] * n}


def frmat(a):
    return [[Fr(x) for x in r] for r in a]


def fmul(A, B):
    return [[sum((A[i][k] * B[k][j] for k in range(len(B))), Fr(0)) for j in range(len(B[0]))] for i in range(len(A))]


def ftr(A):
    return [list(r) for r in zip(*A)]


class LG:
    """Exact (Fraction) and float64 views of a case."""

    def __init__(self, case):
        self.case = case
        self.m, self.n = case["m"], case["n"]
        self.R = frmat(case["R"])
        self.W = frmat(case["W"])           # symmetric N^-1/2
        self.Wi = frmat(case["Wi"])         # symmetric N^1/2
        self.Ninv = fmul(self.W, self.W)
        self.N = fmul(self.Wi, self.Wi)
        self.d = [Fr(x) for x in case["d"]]
        self.Q = frmat(case["Q"])
        self.c = [Fr(x) for x in case["c"]]
        self.p = [Fr(x) for x in case["p"]]
        self.s0 = [Fr(x) for x in case["s0"]]
        self.sinv = [Fr(x) for x in case["sinv"]]
        self.is_complex = "Ri" in case
        self.m_impl = self.m
        if self.is_complex:
            # 1/2 (R s - d)^H N^-1 (R s - d) with real s is the REAL model with stacked response
            # [Re R; Im R], data [Re d; Im d] and noise diag(N, N): all exact quantities below are
            # those of the stacked model, the implementation gets the complex arrays (`impl`).
            m = self.m
            z = [[Fr(0)] * m for _ in range(m)]
            self._Rc = (np.array(case["R"], dtype=np.float64) + 1j * np.array(case["Ri"], dtype=np.float64))
            self._dc = (np.array(case["d"], dtype=np.float64) + 1j * np.array(case["di"], dtype=np.float64))
            self._impl = {k: self.f(k) for k in ("W", "Wi", "Ninv", "N", "Q", "c")}
            self.R = self.R + frmat(case["Ri"])
            self.d = self.d + [Fr(x) for x in case["di"]]

            def bd(A):
                return [r + z0 for r, z0 in zip(A, z)] + [z0 + r for r, z0 in zip(A, z)]
            self.W, self.Wi, self.Ninv, self.N = bd(self.W), bd(self.Wi), bd(self.Ninv), bd(self.N)
            self.Q = self.Q + [[Fr(0)] * self.n for _ in range(m)]
            self.c = self.c + [Fr(0)] * m
            self.m = 2 * m

    def impl(self, name):
        """what the implementation is given: complex R / d for complex cases, otherwise f(name)"""
        if self.is_complex:
            if name == "R":
                return self._Rc
            if name == "d":
                return self._dc
            if name in self._impl:
                return self._impl[name]
        return self.f(name)

    def f(self, name):
        return np.array(getattr(self, name), dtype=object).astype(np.float64)

    # float64 closed forms (direct oracle; numpy.linalg)
    def np_mean(self, R=None, d=None):
        R = self.f("R") if R is None else R
        d = self.f("d") if d is None else d
        Ninv = self.f("Ninv")
        A = R.T @ Ninv @ R + np.eye(self.n)
        return np.linalg.solve(A, R.T @ Ninv @ d)

    def np_cov(self, R=None):
        R = self.f("R") if R is None else R
        return np.linalg.inv(R.T @ self.f("Ninv") @ R + np.eye(self.n))

    def np_lin(self):
        """Jacobian and effective data of the linearisation at p of f(x) = R x + Q x^2 + c."""
        R, Q, c, p, d = self.f("R"), self.f("Q"), self.f("c"), self.f("p"), self.f("d")
        J = R + 2 * Q * p[None, :]
        return J, d - (R @ p + Q @ (p * p) + c) + J @ p


# --------------------------------------------------------------------------------------------------
# JAX side
# --------------------------------------------------------------------------------------------------

CG_TIGHT = dict(resnorm=1e-13, absdelta=None, miniter=0, maxiter=400)


def jax_likelihood(lg, nonlinear=False):
    import jax.numpy as jnp
    import nifty.re as jft
    R, Ninv, W, d = (jnp.asarray(lg.impl(k)) for k in ("R", "Ninv", "W", "d"))
    if nonlinear:
        Q, c = jnp.asarray(lg.impl("Q")), jnp.asarray(lg.impl("c"))

        def fwd(x):
            return R @ x + Q @ (x * x) + c
    else:
        def fwd(x):
            return R @ x
    lh = jft.Gaussian(d, noise_cov_inv=lambda x: Ninv @ x, noise_std_inv=lambda x: W @ x)
    return lh.amend(fwd, domain=jft.ShapeWithDtype((lg.n,), jnp.float64))


@contextlib.contextmanager
def jax_feed(vectors):
    """Patch nifty.re.evi.random_like: the k-th call returns vectors[k] reshaped like the requested
    structure (flattened leaves in tree order); calls beyond the list raise."""
    import jax
    import jax.numpy as jnp
    from nifty.re import evi
    from nifty.re.tree_math import ShapeWithDtype
    orig = evi.random_like
    calls = []

    def fake(key, primals=None, *a, **k):
        if primals is None:
            primals = a[0]
        idx = len(calls)
        v = np.asarray(vectors[idx], dtype=np.float64)
        leaves, treedef = jax.tree_util.tree_flatten(
            primals, is_leaf=lambda x: isinstance(x, ShapeWithDtype))
        out, off = [], 0
        for l in leaves:
            shp = tuple(l.shape)
            sz = int(np.prod(shp)) if shp else 1
            out.append(jnp.asarray(v[off:off + sz].reshape(shp)))
            off += sz
        if off != v.size:
            raise RuntimeError("feeder: vector of size %d for structure of size %d" % (v.size, off))
        calls.append(off)
        return jax.tree_util.tree_unflatten(treedef, out)

    evi.random_like = fake
    try:
        yield calls
    finally:
        evi.random_like = orig


def jax_T(lh, pos, sizes, draw_kwargs=None, point_estimates=()):
    """Exact factor of draw_linear_residual at `pos`: column (which, i) = residual obtained when the
    `which`-th white vector is the i-th basis vector and the other one is zero.  sizes = (size of the
    likelihood excitation, size of the prior excitation).  Returns a list of flat residual trees."""
    import jax
    from nifty.re import evi
    kw = dict(cg_kwargs=dict(CG_TIGHT))
    kw.update(draw_kwargs or {})
    cols = []
    for which, sz in enumerate(sizes):
        for i in range(sz):
            vecs = [np.zeros(s) for s in sizes]
            vecs[which][i] = 1.0
            with jax_feed(vecs):
                smpl, info = evi.draw_linear_residual(lh, pos, jax.random.PRNGKey(0),
                                                      point_estimates=point_estimates, **kw)
            cols.append(smpl)
    return cols


# --------------------------------------------------------------------------------------------------
# classic side
# --------------------------------------------------------------------------------------------------

def dense_op(domain, target, mat, real_domain=True, inv=None):
    """Rectangular dense matrix as a classic LinearOperator (MatrixProductOperator is square-only).
    A complex matrix on a real domain is the real-linear map x -> M x; its adjoint is Re(M^H y)."""
    import nifty.cl as ift

    class DenseOp(ift.LinearOperator):
        def __init__(self, domain, target, mat):
            self._domain = ift.DomainTuple.make(domain)
            self._target = ift.DomainTuple.make(target)
            self._mat = np.asarray(mat)
            self._inv = None if inv is None else np.asarray(inv)
            self._capability = self.TIMES | self.ADJOINT_TIMES
            if inv is not None:       # square, explicitly invertible (exact inverse supplied)
                self._capability |= self.INVERSE_TIMES | self.ADJOINT_INVERSE_TIMES

        def apply(self, x, mode):
            self._check_input(x, mode)
            v = x.asnumpy() if hasattr(x, "asnumpy") else x.val
            if mode == self.TIMES:
                return ift.makeField(self._target, self._mat @ v)
            if mode == self.INVERSE_TIMES:
                return ift.makeField(self._domain, self._inv @ v)
            if mode == self.ADJOINT_INVERSE_TIMES:
                return ift.makeField(self._target, self._inv.conj().T @ v)
            out = self._mat.conj().T @ v
            if real_domain and np.iscomplexobj(out):
                out = out.real.copy()
            return ift.makeField(self._domain, out)

    return DenseOp(domain, target, mat)


def classic_ops(lg, nonlinear=False):
    """Operators of the classic API for a case (UnstructuredDomains)."""
    import nifty.cl as ift
    dom = ift.UnstructuredDomain(lg.n)
    tgt = ift.UnstructuredDomain(lg.m_impl)
    if lg.case.get("scaling_response"):
        tgt = dom
        Rop = ift.ScalingOperator(dom, 1.)
    else:
        Rop = dense_op(dom, tgt, lg.impl("R"))
    if lg.is_complex:     # real diagonal noise, complex sampling dtype (real and imaginary part have variance N each)
        Ninv = ift.DiagonalOperator(ift.makeField(tgt, np.diag(lg.impl("Ninv")).copy()), sampling_dtype=np.complex128)
        Wop = None
        Nop = ift.DiagonalOperator(ift.makeField(tgt, np.diag(lg.impl("N")).copy()), sampling_dtype=np.complex128)
    elif lg.case["noise"] == "dense":
        # correlated noise given as a sandwich N = Wi^T 1 Wi with an invertible, non-unitary bun (for
        # WienerFilterCurvature: samples of N.inverse come from SandwichOperator.draw_sample(from_inverse=True));
        # GaussianEnergy needs an EndomorphicOperator, it gets the sandwich W^T W = N^-1
        Nop = ift.SandwichOperator.make(dense_op(tgt, tgt, lg.f("Wi"), inv=lg.f("W")), None, np.float64)
        Wop = dense_op(tgt, tgt, lg.f("W"))
        Ninv = ift.SandwichOperator.make(Wop, None, np.float64)
    else:
        Wop = dense_op(tgt, tgt, lg.f("W"))
        Ninv = ift.SandwichOperator.make(Wop, None, np.float64)      # W^T W, can draw samples
        Nop = ift.DiagonalOperator(ift.makeField(tgt, np.diag(lg.f("N")).copy()), sampling_dtype=np.float64)
    if lg.case.get("scaling_response"):      # lazily inverted DiagonalOperator as inverse covariance
        Ninv = Nop.inverse
    d = ift.makeField(tgt, lg.impl("d"))
    if nonlinear:
        Qop = dense_op(dom, tgt, lg.impl("Q"))
        c = ift.makeField(tgt, lg.impl("c"))
        sig = ift.Adder(c) @ (Rop + Qop @ (ift.ScalingOperator(dom, 1.).ptw("power", 2)))
    else:
        sig = Rop
    return {"dom": dom, "tgt": tgt, "R": Rop, "W": Wop, "Ninv": Ninv, "N": Nop, "d": d, "signal": sig}


@contextlib.contextmanager
def classic_feed(vectors):
    """Patch nifty.cl.random.Random.normal: the k-th call returns vectors[k] (reshaped); further
    calls raise.  Yields the list of (dtype, shape) requests."""
    import nifty.cl as ift
    from nifty.cl import random as nrandom
    orig = nrandom.Random.normal
    calls = []

    def fake(dtype, shape, mean=0., std=1.):
        idx = len(calls)
        if idx >= len(vectors):
            raise RuntimeError("feeder exhausted at call %d (shape %r)" % (idx, shape))
        v = np.asarray(vectors[idx], dtype=np.float64)
        calls.append((str(np.dtype(dtype)), tuple(shape) if hasattr(shape, "__len__") else (int(shape),)))
        return (v.reshape(shape) * std + mean).astype(dtype)

    nrandom.Random.normal = staticmethod(fake)
    try:
        yield calls
    finally:
        nrandom.Random.normal = orig


def scratch(ctx):
    d = os.path.join(ctx.run_dir(), "w%d" % os.getpid())
    os.makedirs(d, exist_ok=True)
    return d


# --------------------------------------------------------------------------------------------------
# flat feeders: the concatenation of ALL white-noise requests of one sampling call is treated as one
# white vector xi; feeding basis vectors of that space gives the columns of the sampling factor T
# --------------------------------------------------------------------------------------------------

@contextlib.contextmanager
def classic_feed_flat(white=None, skip=0, skip_seed=0):
    """Patch nifty.cl.random.Random.normal.  The first `skip` calls get seeded pseudo-random normals
    (preconditioner probes); afterwards consecutive slices of `white` are handed out (zeros if
    `white` is None: dry run).  Yields the list of requested sizes (after the skipped calls)."""
    from nifty.cl import random as nrandom
    orig = nrandom.Random.normal
    rng = np.random.default_rng([77, skip_seed])
    state = {"calls": 0, "off": 0}
    sizes = []

    def fake(dtype, shape, mean=0., std=1.):
        shp = tuple(shape) if hasattr(shape, "__len__") else (int(shape),)
        sz = int(np.prod(shp)) if shp else 1
        cplx = np.issubdtype(dtype, np.complexfloating)
        state["calls"] += 1
        if state["calls"] <= skip:
            x = rng.normal(size=shp)
            if cplx:
                x = x + 1j * rng.normal(size=shp)
            return (x * std + mean).astype(dtype)
        need = 2 * sz if cplx else sz            # random.py: real and imaginary part are drawn with std each
        sizes.append(need)
        if white is None:
            v = np.zeros(need)
        else:
            v = np.asarray(white[state["off"]:state["off"] + need], dtype=np.float64)
            if v.size != need:
                raise RuntimeError("flat feeder exhausted: need %d more entries" % need)
        state["off"] += need
        if cplx:
            v = v[:sz] + 1j * v[sz:]
        return (v.reshape(shp) * std + mean).astype(dtype)

    nrandom.Random.normal = staticmethod(fake)
    try:
        yield sizes
    finally:
        nrandom.Random.normal = orig


@contextlib.contextmanager
def jax_feed_flat(white=None):
    """Patch nifty.re.evi.random_like: consecutive slices of `white` (zeros if None).  Yields a
    dict with the requested sizes and the PRNG keys the implementation passed."""
    import jax
    import jax.numpy as jnp
    from nifty.re import evi
    from nifty.re.tree_math import ShapeWithDtype
    orig = evi.random_like
    info = {"sizes": [], "keys": [], "off": 0}

    def fake(key, primals=None, *a, **k):
        if primals is None:
            primals = a[0]
        info["keys"].append(np.asarray(jax.random.key_data(key)).tolist()
                            if hasattr(jax.random, "key_data") else np.asarray(key).tolist())
        leaves, treedef = jax.tree_util.tree_flatten(primals, is_leaf=lambda x: isinstance(x, ShapeWithDtype))
        out, tot = [], 0
        for l in leaves:
            shp = tuple(l.shape)
            sz = int(np.prod(shp)) if shp else 1
            cplx = np.issubdtype(np.dtype(l.dtype), np.complexfloating)
            need = 2 * sz if cplx else sz
            if white is None:
                v = np.zeros(need)
            else:
                v = np.asarray(white[info["off"]:info["off"] + need], dtype=np.float64)
                if v.size != need:
                    raise RuntimeError("flat feeder exhausted")
            info["off"] += need
            tot += need
            if cplx:
                # jax.random.normal(dtype=complex): real and imaginary part have variance 1/2 each
                v = (v[:sz] + 1j * v[sz:]) / np.sqrt(2.0)
            out.append(jnp.asarray(v.reshape(shp)))
        info["sizes"].append(tot)
        return jax.tree_util.tree_unflatten(treedef, out)

    evi.random_like = fake
    try:
        yield info
    finally:
        evi.random_like = orig


def eval_cases_pid(C, prop, header, checks, shard):
    """common.eval_cases with per-process file names (concurrent runs of the same check, e.g. a
    seedtest next to a registered run, must not overwrite each other's cases files); the files of
    this process are removed afterwards."""
    import glob
    name = "corr_p%d" % os.getpid()
    try:
        return C.eval_cases(prop, name, header, checks, shard=shard)
    finally:
        for f in glob.glob(os.path.join(C.run_dir(prop), "cases_%s_*" % name)) + \
                glob.glob(os.path.join(C.run_dir(prop), ".cases_%s_*" % name)):
            try:
                os.remove(f)
            except OSError:
                pass
