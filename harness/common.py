"""Shared machinery of the /verif checks (see DESIGN.md section 2).

One check run = translate (optional) -> build Coq (full .vo) -> audit -> Print Assumptions ->
correspondence (model inside coqc by vm_compute vs. implementation) -> direct oracle on the
implementation -> verdict + evidence.  Nothing here knows about a particular property.
"""
import fcntl
import hashlib
import json
import os
import re
import shutil
import subprocess
import sys
import time
import traceback
from fractions import Fraction

HOME = os.environ.get("VERIF_HOME", os.path.dirname(os.path.dirname(os.path.abspath(__file__))))
REPO = os.environ.get("VERIF_REPO", "/repo")
COQ = os.path.join(HOME, "coq")
RUN = os.path.join(HOME, "run")
REPLAYS = os.path.join(HOME, "replays")
EVIDENCE = os.path.join(HOME, "evidence")
CORPUS = os.path.join(HOME, "corpus")
KNOWN = os.path.join(HOME, "known_findings.json")

# Axioms that may appear under Print Assumptions: all are declared by Coq's standard library
# (DESIGN.md 6.2).  Anything else aborts the check as a defect of the machinery (exit 2).
ALLOWED_AXIOMS = {
    "ClassicalDedekindReals.sig_forall_dec",
    "ClassicalDedekindReals.sig_not_dec",
    "FunctionalExtensionality.functional_extensionality_dep",
    "functional_extensionality_dep",
    "Classical_Prop.classic",
    "classic",
    "ProofIrrelevance.proof_irrelevance",
    "proof_irrelevance",
    "ClassicalEpsilon.constructive_indefinite_description",
    "constructive_indefinite_description",
    "Eqdep.Eq_rect_eq.eq_rect_eq",
    "Eq_rect_eq.eq_rect_eq",
    "eq_rect_eq",
    "JMeq.JMeq_eq",
    "JMeq_eq",
    "sig_forall_dec",
    "sig_not_dec",
    "PropExtensionality.propositional_extensionality",
    "propositional_extensionality",
    "ClassicalFacts.prop_extensionality",
}

FORBIDDEN = re.compile(
    r"\b(Admitted|admit|Axiom|Axioms|Parameter|Parameters|Conjecture|Conjectures|Admit Obligations|"
    r"Unset Guard Checking|Unset Positivity Checking|Unset Universe Checking|bypass_check|"
    r"type-in-type|impredicative-set|native_compute)\b")


class MachineryError(Exception):
    """A defect of the verification machinery itself (never reported as a violation)."""


class TranslationError(Exception):
    """The fail-closed translator met source it does not understand."""


def sh(cmd, timeout=600, cwd=None, env=None, input=None):
    """Run a shell command; returns (rc, combined output)."""
    try:
        p = subprocess.run(cmd, shell=isinstance(cmd, str), cwd=cwd, env=env, input=input,
                           stdout=subprocess.PIPE, stderr=subprocess.STDOUT, timeout=timeout, text=True)
        return p.returncode, p.stdout
    except subprocess.TimeoutExpired as e:
        out = e.stdout if isinstance(e.stdout, str) else (e.stdout or b"").decode(errors="replace")
        return 124, out + "\n[timeout after %ss]" % timeout


# --------------------------------------------------------------------------------------------------
# Coq side
# --------------------------------------------------------------------------------------------------

class CoqLock:
    def __enter__(self):
        os.makedirs(COQ, exist_ok=True)
        self.f = open(os.path.join(COQ, ".lock"), "w")
        fcntl.flock(self.f, fcntl.LOCK_EX)
        return self

    def __exit__(self, *a):
        fcntl.flock(self.f, fcntl.LOCK_UN)
        self.f.close()


def coq_project_files():
    out = []
    for d, _, fs in os.walk(COQ):
        for f in fs:
            if f.endswith(".v") and not f.startswith("."):
                out.append(os.path.relpath(os.path.join(d, f), COQ))
    return sorted(out)


def coq_makefile():
    """(Re)generate coq/_CoqProject and coq/Makefile from the .v files present."""
    files = coq_project_files()
    proj = "-R . NV\n-arg -w -arg -notation-overridden,-deprecated-hint-without-locality,-deprecated-instance-without-locality,-ambiguous-paths,-deprecated-syntactic-definition\n" + "\n".join(files) + "\n"
    pf = os.path.join(COQ, "_CoqProject")
    old = open(pf).read() if os.path.exists(pf) else None
    if old != proj or not os.path.exists(os.path.join(COQ, "Makefile")):
        with open(pf, "w") as f:
            f.write(proj)
        rc, out = sh("coq_makefile -f _CoqProject -o Makefile", cwd=COQ, timeout=120)
        if rc != 0:
            raise MachineryError("coq_makefile failed: " + out)


def coq_build(targets, timeout=1500, jobs=8):
    """Full .vo build (never -vos) of the given targets (paths relative to coq/, '.vo').
    Returns (ok, log).  Each coqc is additionally limited by TIMEOUT inside the Makefile."""
    with CoqLock():
        coq_makefile()
        cmd = "make -j%d TIMED= %s" % (jobs, " ".join(targets))
        rc, out = sh("timeout %d %s" % (timeout, cmd), cwd=COQ, timeout=timeout + 30)
    return rc == 0, out


def first_coq_error(log):
    """Extract file / line / message of the first coqc error in a make log."""
    m = re.search(r'File "([^"]+)", line (\d+), characters [\d-]+:\s*\nError:(.*?)(?:\n\n|\nmake|\Z)', log, re.S)
    if m:
        return {"file": m.group(1), "line": int(m.group(2)), "message": " ".join(m.group(3).split())[:600]}
    return {"file": None, "line": None, "message": log[-800:]}


def enclosing_theorem(vfile, line):
    """Name of the Theorem/Lemma whose proof contains the given line."""
    try:
        src = open(vfile if os.path.isabs(vfile) else os.path.join(COQ, vfile)).read().split("\n")
    except OSError:
        return None
    name = None
    for i, l in enumerate(src[:line], 1):
        m = re.match(r"\s*(?:Local |Global |#\[[^\]]*\]\s*)?(Theorem|Lemma|Corollary|Example|Fact|Proposition|Definition|Fixpoint|Instance|Program Fixpoint|Function)\s+([A-Za-z0-9_']+)", l)
        if m:
            name = m.group(2)
    return name


def audit_sources(paths):
    """Forbidden vernacular anywhere in the given .v files -> MachineryError."""
    bad = []
    for p in paths:
        txt = open(p).read()
        txt_nc = strip_coq_comments(txt)
        for i, l in enumerate(txt_nc.split("\n"), 1):
            if FORBIDDEN.search(l):
                bad.append("%s:%d: %s" % (p, i, l.strip()))
        # Variable / Hypothesis / Context outside sections
        depth = 0
        for i, l in enumerate(txt_nc.split("\n"), 1):
            s = l.strip()
            if re.match(r"(Section|Module Type)\s", s):
                depth += 1
            elif re.match(r"End\s", s) and depth > 0:
                depth -= 1
            elif depth == 0 and re.match(r"(Variable|Variables|Hypothesis|Hypotheses|Context)\b", s):
                bad.append("%s:%d: %s (outside a section)" % (p, i, s))
    if bad:
        raise MachineryError("forbidden vernacular in the development:\n" + "\n".join(bad))


def strip_coq_comments(txt):
    out = []
    depth = 0
    i = 0
    n = len(txt)
    instr = False
    while i < n:
        if not instr and txt.startswith("(*", i):
            depth += 1
            i += 2
            continue
        if not instr and depth > 0 and txt.startswith("*)", i):
            depth -= 1
            i += 2
            continue
        c = txt[i]
        if depth == 0:
            if c == '"':
                instr = not instr
            out.append(c)
        elif c == "\n":
            out.append(c)
        i += 1
    return "".join(out)


def props_theorems(prop_dir):
    """Names of the Theorems stated in coq/<dir>/Props.v (the property theorems)."""
    p = os.path.join(COQ, prop_dir, "Props.v")
    txt = strip_coq_comments(open(p).read())
    return re.findall(r"^\s*Theorem\s+([A-Za-z0-9_']+)", txt, re.M)


def coqc_file(path, timeout=600, cwd=None):
    """Compile one .v file outside the Makefile (cases files, assumption queries)."""
    cmd = "timeout %d coqc -R %s NV -w -notation-overridden,-deprecated-hint-without-locality,-deprecated-instance-without-locality,-ambiguous-paths,-deprecated-syntactic-definition %s" % (timeout, COQ, path)
    return sh(cmd, cwd=cwd or os.path.dirname(path), timeout=timeout + 30)


def run_dir(prop):
    d = os.path.join(RUN, prop)
    os.makedirs(d, exist_ok=True)
    return d


def print_assumptions(prop, prop_dir, theorems):
    """Ask Coq for the axioms each property theorem depends on.  Returns {theorem: [axioms]}."""
    d = run_dir(prop)
    path = os.path.join(d, "Assumptions_%s_p%d.v" % (prop, os.getpid()))
    with open(path, "w") as f:
        f.write("Require Import NV.%s.Props.\n" % prop_dir.replace("/", "."))
        for t in theorems:
            f.write('Goal True. idtac "@@BEGIN %s". Abort.\nPrint Assumptions %s.\nGoal True. idtac "@@END %s". Abort.\n' % (t, t, t))
    rc, out = coqc_file(path, timeout=600)
    if rc != 0:
        raise MachineryError("Print Assumptions run failed:\n" + out[-2000:])
    res = {}
    for t in theorems:
        m = re.search(r"@@BEGIN %s\n(.*?)@@END %s" % (re.escape(t), re.escape(t)), out, re.S)
        if not m:
            raise MachineryError("no Print Assumptions output for " + t)
        body = m.group(1)
        if "Closed under the global context" in body:
            res[t] = []
            continue
        axs = []
        for l in body.split("\n"):
            mm = re.match(r"^([A-Za-z_][A-Za-z0-9_.']*)\s*:", l)
            if mm and mm.group(1) != "Axioms":
                axs.append(mm.group(1))
        res[t] = axs
    return res


def coqchk_props(prop_dir, timeout=3000):
    """coqchk -o on the .vo closure of coq/<dir>/Props.vo: the independent checker re-checks every
    compiled file the property theorems depend on and prints the axioms of the whole context
    (all loaded libraries, so this list can be longer than Print Assumptions of the theorems)."""
    t0 = time.time()
    rc, out = sh("timeout %d coqchk -silent -o -R . NV NV.%s.Props" % (timeout, prop_dir.replace("/", ".")),
                 cwd=COQ, timeout=timeout + 60)
    if rc != 0:
        raise MachineryError("coqchk failed on NV.%s.Props:\n%s" % (prop_dir, out[-1500:]))
    m = re.search(r"\* Axioms:(.*?)\n\s*\n\* Constants/Inductives relying on type-in-type:(.*?)\n\s*\n"
                  r"\* Constants/Inductives relying on unsafe \(co\)fixpoints:(.*?)\n\s*\n"
                  r"\* Inductives whose positivity is assumed:(.*?)(?:\n\s*\n|\Z)", out, re.S)
    if not m:
        raise MachineryError("cannot parse coqchk summary:\n" + out[-1500:])
    axioms = [a.strip() for a in m.group(1).split("\n") if a.strip() and a.strip() != "<none>"]
    for i, what in ((2, "type-in-type"), (3, "unsafe fixpoints"), (4, "assumed positivity")):
        if m.group(i).strip() != "<none>":
            raise MachineryError("coqchk reports %s: %s" % (what, m.group(i).strip()[:300]))
    # every axiom of the context must be one that the standard library itself declares
    bad = [a for a in axioms if not a.startswith("Coq.")]
    # (informational: the strict per-theorem gate is Print Assumptions + check_axioms; this list
    # covers every library loaded by the closure, whether or not a property theorem uses it)
    return {"ok": True, "axioms_of_context": axioms, "axioms_outside_stdlib_in_context": bad,
            "wall_s": round(time.time() - t0, 1)}


PRIMITIVE_PREFIXES = ("PrimFloat.", "Uint63.", "PrimInt63.", "Sint63.", "PArray.", "FloatOps.", "PrimFloat", "Uint63")


def check_axioms(assumptions):
    bad = {}
    for t, axs in assumptions.items():
        for a in axs:
            if a in ALLOWED_AXIOMS or a.split(".")[-1] in ALLOWED_AXIOMS:
                continue
            if a.startswith(PRIMITIVE_PREFIXES):
                continue
            bad.setdefault(t, []).append(a)
    if bad:
        raise MachineryError("property theorems depend on axioms outside the allow-list: %r" % bad)


# ---- literals ------------------------------------------------------------------------------------

def cz(n):
    n = int(n)
    return "(%d)%%Z" % n


def cnat(n):
    n = int(n)
    assert 0 <= n < 5000, "nat literal too large"
    return "%d%%nat" % n


def cbool(b):
    return "true" if b else "false"


def cq(x):
    """Exact rational literal (Q) from int / Fraction / float (floats are dyadic rationals)."""
    fr = Fraction(x)
    return "(%d # %d)%%Q" % (fr.numerator, fr.denominator)


def clist(items):
    return "[" + "; ".join(items) + "]"


def cfloat(x):
    """PrimFloat literal with the exact bits of a Python float (via hex)."""
    import math
    if math.isnan(x):
        return "PrimFloat.nan"
    if math.isinf(x):
        return "PrimFloat.infinity" if x > 0 else "PrimFloat.neg_infinity"
    return "(%s)%%float" % float(x).hex()


def copt(x, f):
    return "None" if x is None else "(Some %s)" % f(x)


def eval_cases(prop, name, header, checks, timeout=900, shard=400, jobs=8):
    """Evaluate boolean checks inside coqc by vm_compute.

    `checks` is a list of Coq terms of type bool (the model applied to a case's inputs, compared
    with what the implementation returned).  Returns the list of indices whose check is not `true`
    (False or stuck), by writing sharded cases files and compiling them in parallel.  Nothing of
    Coq's pretty-printer is parsed apart from `idtac` lines we print ourselves."""
    d = run_dir(prop)
    files = []
    for s in range(0, len(checks), shard):
        path = os.path.join(d, "cases_%s_%d.v" % (name, s // shard))
        with open(path, "w") as f:
            f.write(header + "\n")
            for i, c in enumerate(checks[s:s + shard]):
                idx = s + i
                f.write("Goal True. let b := eval vm_compute in (%s) in\n  match b with true => idtac | _ => idtac \"@@BAD %d\" end. Abort.\n" % (c, idx))
            f.write('Goal True. idtac "@@DONE %d". Abort.\n' % (s // shard))
        files.append(path)
    procs = []
    bad = []
    outs = []
    pending = list(files)
    running = []
    while pending or running:
        while pending and len(running) < jobs:
            p = pending.pop(0)
            cmd = ["timeout", str(timeout), "coqc", "-R", COQ, "NV", "-w", "none", p]
            running.append((p, subprocess.Popen(cmd, cwd=d, stdout=subprocess.PIPE, stderr=subprocess.STDOUT, text=True)))
        p, pr = running.pop(0)
        out, _ = pr.communicate()
        outs.append(out)
        if pr.returncode != 0 or "@@DONE" not in out:
            raise MachineryError("cases file %s failed to evaluate:\n%s" % (p, out[-3000:]))
        bad += [int(x) for x in re.findall(r"@@BAD (\d+)", out)]
    return sorted(bad)


def eval_terms(prop, name, header, terms, timeout=600):
    """Evaluate Coq terms by vm_compute and return their printed forms (for diagnostics/replays)."""
    d = run_dir(prop)
    path = os.path.join(d, "eval_%s.v" % name)
    with open(path, "w") as f:
        f.write(header + "\nSet Printing Width 1000000.\nSet Printing Depth 1000000.\n")
        for i, t in enumerate(terms):
            f.write('Goal True. idtac "@@T %d". Abort.\nEval vm_compute in (%s).\n' % (i, t))
        f.write('Goal True. idtac "@@T end". Abort.\n')
    rc, out = sh(["timeout", str(timeout), "coqc", "-R", COQ, "NV", "-w", "none", path], cwd=d, timeout=timeout + 30)
    if rc != 0:
        raise MachineryError("eval file failed:\n" + out[-3000:])
    res = []
    for i in range(len(terms)):
        m = re.search(r"@@T %d\n(.*?)@@T (?:%d|end)" % (i, i + 1), out, re.S)
        res.append(" ".join(m.group(1).split()) if m else None)
    return res


# --------------------------------------------------------------------------------------------------
# Verdicts, findings, evidence
# --------------------------------------------------------------------------------------------------

def load_known():
    """Known findings: the committed known_findings.json (assembled from known.d/*.json by
    harness.mkmanifest) merged with the fragments themselves (deduplicated by id).  Never written
    at check time."""
    out = {}
    if os.path.exists(KNOWN):
        for k in json.load(open(KNOWN)).get("findings", []):
            out[k["id"]] = k
    kd = os.path.join(HOME, "known.d")
    if os.path.isdir(kd):
        for f in sorted(os.listdir(kd)):
            if f.endswith(".json"):
                for k in json.load(open(os.path.join(kd, f))):
                    out[k["id"]] = k
    return list(out.values())


def stable_hash(obj):
    return hashlib.sha256(json.dumps(obj, sort_keys=True, default=str).encode()).hexdigest()[:12]


class Result:
    """Accumulates what one check run saw."""

    def __init__(self, prop, tier, seed):
        self.prop, self.tier, self.seed = prop, tier, seed
        self.t0 = time.time()
        self.broken = []          # [{"kind": translator|proof|correspondence, "name":..., "detail":...}]
        self.failing = []         # [{"signature": {...}, "what": str, "input": {...}}] from the direct oracle
        self.coverage = {}
        self.assumptions = []
        self.theorem_axioms = {}
        self.notes = []
        self.violations = 0
        self.known_lines = []

    def add_broken(self, kind, name, detail):
        self.broken.append({"kind": kind, "name": name, "detail": detail})

    def add_failing(self, signature, what, input):
        self.failing.append({"signature": signature, "what": what, "input": input})


def match_known(prop, failing):
    """The open known finding whose signature is matched by this failing input, if any.
    A signature matches when every key of the entry's signature equals the input's signature."""
    for k in load_known():
        if k.get("property") != prop or k.get("status") != "open":
            continue
        sig = k.get("signature", {})
        if all(failing["signature"].get(a) == b for a, b in sig.items()):
            return k
    return None


def finish(res, level="proof"):
    """Print the verdict lines, write replays and the evidence file, return the exit code."""
    os.makedirs(REPLAYS, exist_ok=True)
    os.makedirs(EVIDENCE, exist_ok=True)
    rc = 0
    seen_known = set()
    unlisted = []
    for f in res.failing:
        k = match_known(res.prop, f)
        if k is not None:
            if k["id"] not in seen_known:
                seen_known.add(k["id"])
                print("KNOWN-FINDING: property=%s %s" % (res.prop, k["what"]))
                res.known_lines.append(k["id"])
        else:
            unlisted.append(f)
    if unlisted:
        f = unlisted[0]
        replay = {"property": res.prop, "kind": "failing-input", "what": f["what"], "signature": f["signature"],
                  "input": f["input"], "broken": res.broken, "n_failing_inputs": len(unlisted),
                  "replay_cmd": "./check %s --replay <this file>" % res.prop}
        path = os.path.join(REPLAYS, "%s_%s.json" % (res.prop, stable_hash(replay)))
        json.dump(replay, open(path, "w"), indent=1, default=str)
        print("VIOLATION property=%s replay=%s" % (res.prop, path))
        print("  what: " + f["what"])
        rc = 1
        res.violations = len(unlisted)
    elif res.broken:
        # a proof obligation, translator or correspondence no longer checks, and no failing input
        # outside the known findings was found.  Disagreements that lie entirely inside the
        # signature of a known finding that reproduced are accounted for by that finding.
        rest = [b for b in res.broken if not b.get("covered_by_known")]
        if rest:
            replay = {"property": res.prop, "kind": "no-failing-input-found", "broken": rest,
                      "note": "the property is no longer shown to hold: the named theorem / translator / "
                              "correspondence does not check against the current source"}
            path = os.path.join(REPLAYS, "%s_%s.json" % (res.prop, stable_hash(replay)))
            json.dump(replay, open(path, "w"), indent=1, default=str)
            print("VIOLATION property=%s replay=%s no-failing-input-found" % (res.prop, path))
            for b in rest:
                print("  broken %s: %s" % (b["kind"], b["name"]))
            rc = 1
            res.violations = 1
    cov = dict(res.coverage)
    # time measurements depend on machine load and are not coverage: keep them apart
    timing = {k: cov.pop(k) for k in list(cov) if re.search(r"(seconds|wall|_s$|time)", k) and k != "coqchk"}
    cov.setdefault("trusted_base", [])
    cov["theorem_axioms"] = res.theorem_axioms
    cov["known_findings_reproduced"] = res.known_lines
    cov["broken"] = res.broken
    ev = {"property_id": res.prop, "tier": res.tier, "seed": res.seed, "level": level, "coverage": cov,
          "assumptions": res.assumptions, "wall_s": round(time.time() - res.t0, 2), "violations": res.violations,
          "notes": res.notes, "timing": timing}
    if os.path.realpath(REPO) == "/repo":
        ev_path = os.path.join(EVIDENCE, "%s.json" % res.prop)
    else:
        # self-tests against a scratch tree (VERIF_REPO) must not overwrite the evidence of /repo
        ev["repo_under_test"] = REPO
        ev_path = os.path.join(run_dir(res.prop), "evidence_scratch_%d.json" % os.getpid())
    json.dump(ev, open(ev_path, "w"), indent=1, default=str)
    if rc == 0:
        print("OK property=%s tier=%s obligations=%s evaluations=%s wall=%.1fs" % (
            res.prop, res.tier, cov.get("obligations"), cov.get("evaluations"), time.time() - res.t0))
    return rc


# --------------------------------------------------------------------------------------------------
# The standard flow
# --------------------------------------------------------------------------------------------------

class Check:
    """Base class of a property check.  Subclasses set `prop`, `coq_dir`, `trusted_base`,
    `assumptions`, and implement translate / correspondence / oracle."""
    prop = None
    coq_dir = None              # directory under coq/ holding Model.v Proofs.v Props.v
    extra_targets = []          # further .vo targets (relative to coq/)
    level = "proof"
    trusted_base = []
    assumptions = []
    build_timeout = 1500

    def translate(self, ctx):
        """Regenerate coq/<dir>/Gen_*.v from REPO's current source.  Raise TranslationError."""
        return None

    def correspondence(self, ctx, res):
        """Run model and implementation on the same cases.  Fill res.coverage; call
        res.add_broken('correspondence', ...) on disagreement; return hints for the oracle."""
        return []

    def oracle(self, ctx, res, hints, budget):
        """Direct statement of the property on the implementation.  res.add_failing(...)."""
        return None

    def replay(self, ctx, replay):
        """Re-run a stored failing input on the implementation; return True if it still fails."""
        raise NotImplementedError


class Ctx:
    def __init__(self, prop, tier, seed):
        self.prop, self.tier, self.seed = prop, tier, seed
        self.repo = REPO
        self.home = HOME
        self.quick = tier == "quick"

    def rng(self, salt=0):
        import numpy as np
        return np.random.Generator(np.random.PCG64([self.seed, salt]))

    def run_dir(self):
        return run_dir(self.prop)

    def corpus(self):
        d = os.path.join(CORPUS, self.prop)
        out = []
        if os.path.isdir(d):
            for f in sorted(os.listdir(d)):
                if f.endswith(".json"):
                    out.append(json.load(open(os.path.join(d, f))))
        return out


def write_if_changed(path, text):
    old = open(path).read() if os.path.exists(path) else None
    if old != text:
        os.makedirs(os.path.dirname(path), exist_ok=True)
        with open(path, "w") as f:
            f.write(text)
        return True
    return False


def run_check(chk, tier, seed):
    ctx = Ctx(chk.prop, tier, seed)
    res = Result(chk.prop, tier, seed)
    res.assumptions = list(chk.assumptions)
    model_ok = True
    # 1. translate
    try:
        chk.translate(ctx)
    except TranslationError as e:
        res.add_broken("translator", chk.prop, str(e)[:1000])
    # 2. build (full .vo).  Props.v is always recompiled so that the property theorems are
    #    re-checked by the kernel against whatever the translator produced now.
    targets = ["%s/Props.vo" % chk.coq_dir] + list(chk.extra_targets)
    pv = os.path.join(COQ, chk.coq_dir, "Props.vo")
    if os.path.exists(pv):
        os.remove(pv)
    ok, log = coq_build(targets, timeout=chk.build_timeout)
    thms = props_theorems(chk.coq_dir)
    n_obl = len(thms)
    discharged = n_obl
    if not ok:
        err = first_coq_error(log)
        thm = enclosing_theorem(err["file"], err["line"]) if err["file"] else None
        res.add_broken("proof", thm or (err["file"] or "build"), err)
        discharged = 0
        # the model may still run: try to build Model.vo alone
        ok_m, log_m = coq_build(["%s/Model.vo" % chk.coq_dir], timeout=chk.build_timeout)
        model_ok = ok_m
    # 3. audit + axioms
    vs = [os.path.join(COQ, f) for f in coq_project_files()
          if f.startswith(chk.coq_dir + "/") or f.startswith("Base/")]
    audit_sources(vs)
    def retry(fn):
        # Props.vo is rebuilt by every run of this property: a concurrent run (the other tier, a
        # self-test) can replace it while it is being read here.  Rebuild and try again.
        for attempt in range(3):
            try:
                return fn()
            except MachineryError:
                if attempt == 2:
                    raise
                time.sleep(3 + 5 * attempt)
                coq_build(targets, timeout=chk.build_timeout)
    if ok:
        ax = retry(lambda: print_assumptions(chk.prop, chk.coq_dir, thms))
        check_axioms(ax)
        res.theorem_axioms = ax
    # 3b. thorough tier: re-check the compiled closure of Props.vo with the independent checker
    if ok and tier == "thorough" and os.environ.get("VERIF_NO_COQCHK") != "1":
        res.coverage["coqchk"] = retry(lambda: coqchk_props(chk.coq_dir))
    # 4. correspondence
    hints = []
    if model_ok:
        try:
            hints = chk.correspondence(ctx, res) or []
        except MachineryError:
            raise
    else:
        res.add_broken("correspondence", "model does not build", first_coq_error(log_m))
    # 5/6. direct oracle on the implementation (small budget always; larger when something broke)
    budget = 1 if not res.broken else 4
    chk.oracle(ctx, res, hints, budget)
    cov = res.coverage
    cov["obligations"] = n_obl
    cov["discharged"] = discharged
    cov["theorems"] = thms
    cov["checker_cmd"] = "make -C /verif/coq %s (coqc 8.16.1, full .vo) + Print Assumptions per theorem" % " ".join(targets)
    cov["trusted_base"] = list(chk.trusted_base)
    return finish(res, chk.level)
