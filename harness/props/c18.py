"""C18 -- Variational samples have the right distribution.

Tie: hand model coq/C18/Model.v + correspondence.
 (1) classic sampler control flow: SampledKLEnergy is run on forked fake-MPI tasks (1..5 tasks) with
     a counting wrapper around SamplingEnabler.special_draw_sample; per task the list of
     (pair number, neg flag) and the indices of real draws are compared with the model inside coqc.
 (2) sampling factor by noise injection on both APIs (nifty.cl.random.Random.normal /
     nifty.re.evi.random_like patched to hand out basis vectors of the concatenated white vector):
     (T_l T_l^T)(J_l^T N^-1 J_l + 1) = 1 within 1e-8 on the liquid block and exact zeros on the frozen
     (point-estimated) block, for linear and mildly non-linear generated models, with / without
     preconditioning -- evaluated on exact dyadic rationals inside coqc.
 (3) mirrored residuals are exact negatives; (4) the geoVI update leaves samples of linear models
     unchanged (1e-7).
Direct oracle: numpy.linalg on T, bit-identical sample lists for every task count, exact negation,
mean of samples = expansion point, zero frozen residuals, distinct PRNG keys for the two white draws."""
import contextlib
import io
import json
import time
import traceback
from fractions import Fraction as Fr

import numpy as np

from .. import common as C
from .. import lg_common as L

TOL_T = 1e-8
TOL_T_Q = "(1 # 100000000)%Q"
TOL_GEO = 1e-7
TOL_GEO_Q = "(1 # 10000000)%Q"

HEADER = ("From Coq Require Import QArith List. Import ListNotations.\n"
          "Require Import NV.C20.Model NV.C18.Model.\nOpen Scope Q_scope.\n")

KEYS = ["a", "b"]


def _quiet(fn):
    buf = io.StringIO()
    with contextlib.redirect_stdout(buf), contextlib.redirect_stderr(buf):
        return fn()


def _nifty_quiet(jax_too=True):
    import logging
    try:
        import nifty.cl as ift
        ift.logger.setLevel(logging.ERROR)
    except Exception:
        pass
    if jax_too:
        try:
            import nifty.re as jft
            jft.logger.setLevel(logging.ERROR)
        except Exception:
            pass


def qv(v):
    return C.clist([C.cq(Fr(x)) for x in v])


def qm(a):
    return C.clist([qv(r) for r in a])


def fv(v):
    return C.clist([C.cq(float(x)) for x in np.asarray(v, dtype=np.float64).ravel()])


def fm(a):
    return C.clist([fv(r) for r in np.asarray(a, dtype=np.float64)])


# --------------------------------------------------------------------------------------------------
# models on two keys
# --------------------------------------------------------------------------------------------------

def sizes_of(case):
    na = case["na"]
    return [na, case["n"] - na]


def classic_model(lg, case, ic_tol=1e-15):
    import nifty.cl as ift
    sizes = sizes_of(case)
    doms = {k: ift.UnstructuredDomain(s) for k, s in zip(KEYS, sizes)}
    tgt = ift.UnstructuredDomain(lg.m_impl)
    offs = [0, sizes[0], lg.n]

    def lin(M, sq=False):
        op = None
        for i, k in enumerate(KEYS):
            ad = ift.FieldAdapter(doms[k], k)
            inner = ad.ptw("power", 2) if sq else ad
            part = L.dense_op(doms[k], tgt, M[:, offs[i]:offs[i + 1]]) @ inner
            op = part if op is None else op + part
        return op
    f = lin(lg.impl("R"))
    if case["nonlinear"]:
        cfield = ift.makeField(tgt, lg.impl("c").astype(lg.impl("d").dtype))
        f = ift.Adder(cfield) @ (f + lin(lg.impl("Q"), sq=True))
    if case["noise"] == "diag":      # has get_sqrt() and a sampling dtype: needed by the geometric sampler
        Ninv = ift.DiagonalOperator(ift.makeField(tgt, np.diag(lg.impl("Ninv")).copy()),
                                    sampling_dtype=np.complex128 if lg.is_complex else np.float64)
    else:
        Wop = L.dense_op(tgt, tgt, lg.f("W"))
        Ninv = ift.SandwichOperator.make(Wop, None, np.float64)
    lh = ift.GaussianEnergy(ift.makeField(tgt, lg.impl("d")), Ninv) @ f
    ic = ift.AbsDeltaEnergyController(ic_tol, iteration_limit=500, convergence_level=3)
    H = ift.StandardHamiltonian(lh, ic, prior_sampling_dtype=np.float64)
    p = lg.f("p")
    mean = ift.MultiField.from_dict({k: ift.makeField(doms[k], p[offs[i]:offs[i + 1]].copy())
                                     for i, k in enumerate(KEYS)})
    return H, mean, doms


def flat_mf(f, case, fill=0.0):
    d = f.asnumpy()
    return np.concatenate([np.asarray(d[k], dtype=np.float64) if k in d else np.full(s, fill)
                           for k, s in zip(KEYS, sizes_of(case))])


def jax_model(lg, case):
    import jax.numpy as jnp
    import nifty.re as jft
    sizes = sizes_of(case)
    R, Ninv, W, d = (jnp.asarray(lg.impl(k)) for k in ("R", "Ninv", "W", "d"))
    Q, c = jnp.asarray(lg.impl("Q")), jnp.asarray(lg.impl("c"))
    nonlinear = case["nonlinear"]

    def fwd(x):
        v = jnp.concatenate([x[k] for k in KEYS])
        out = R @ v
        if nonlinear:
            out = out + Q @ (v * v) + c
        return out
    dom = jft.Vector({k: jft.ShapeWithDtype((s,), jnp.float64) for k, s in zip(KEYS, sizes)})
    lh = jft.Gaussian(d, noise_cov_inv=lambda x: Ninv @ x, noise_std_inv=lambda x: W @ x).amend(fwd, domain=dom)
    p = lg.f("p")
    pos = jft.Vector({"a": jnp.asarray(p[:sizes[0]]), "b": jnp.asarray(p[sizes[0]:])})
    return lh, pos


def flat_vec(v, case=None):
    """flatten a {a, b} tree; point-estimated leaves of JAX residuals are stored as broadcastable
    zeros of shape (1,) (evi._process_point_estimate), so they are broadcast to the key's size"""
    t = v.tree if hasattr(v, "tree") else v
    if case is None:
        return np.concatenate([np.asarray(t[k], dtype=np.float64).ravel() for k in KEYS])
    return np.concatenate([np.broadcast_to(np.asarray(t[k], dtype=np.float64).ravel(), (s,))
                           for k, s in zip(KEYS, sizes_of(case))])


def gen_case(rng, idx, cplx=None):
    if cplx is None:
        cplx = (idx % 3 == 1)          # every third model: complex response and data, real signal
    case = L.gen_lg_case(rng, idx, dims=[(2, 3), (3, 3), (4, 3), (3, 4), (3, 2), (2, 2)][int(rng.integers(6))],
                         cplx=cplx)
    case["na"] = int(rng.integers(1, case["n"]))
    case["nonlinear"] = bool(rng.random() < 0.5)
    case["pe"] = [[], [], ["a"], ["b"]][int(rng.integers(4))]
    case["napprox"] = int(rng.choice([0, 0, 2]))
    return case


def mask_of(case):
    return [k not in case["pe"] for k, s in zip(KEYS, sizes_of(case)) for _ in range(s)]


# --------------------------------------------------------------------------------------------------
# (2) sampling factors
# --------------------------------------------------------------------------------------------------

def classic_T(lg, case, seed):
    import nifty.cl as ift
    H, mean, doms = classic_model(lg, case)
    pe = list(case["pe"])

    def build(white, skip, napprox):
        def go():
            with L.classic_feed_flat(white, skip=skip, skip_seed=seed) as sizes:
                kl = ift.SampledKLEnergy(mean, H, 1, None, mirror_samples=True, point_estimates=pe, napprox=napprox)
            return kl, list(sizes)
        return _quiet(go)
    _, sz_base = build(None, 0, 0)
    skip = 0
    if case["napprox"] > 0:
        _, sz_all = build(None, 0, case["napprox"])
        skip = len(sz_all) - len(sz_base)
        if skip <= 0 or sz_all[skip:] != sz_base:
            raise RuntimeError("unexpected white-noise requests with preconditioning: %r vs %r" % (sz_all, sz_base))
    K = sum(sz_base)
    cols, info = [], {"sizes": sz_base, "skip": skip}
    mflat = flat_mf(mean, case)
    for i in range(K):
        white = np.zeros(K)
        white[i] = 1.0
        kl, sz = build(white, skip, case["napprox"])
        if sz != sz_base:
            raise RuntimeError("white-noise requests changed between runs")
        r = kl._sample_list._r
        n_ = kl._sample_list._n
        if len(r) != 2 or r[0] is not r[1] or list(n_) != [False, True]:
            raise RuntimeError("mirrored pair is not (same residual, neg flags False/True)")
        col = flat_mf(r[0], case)
        smp = [flat_mf(s, case) for s in kl.samples.iterator()]
        frozen = ~np.array(mask_of(case))
        col[frozen] = (smp[0] - mflat)[frozen]          # what the sample does on point-estimated keys
        if np.any((smp[1] - mflat)[frozen] != 0):
            col[frozen] = np.nan
        cols.append(col)
    return np.array(cols).T, info


def classic_T_zero_start(lg, case, seed):
    """SamplingEnabler(likelihood metric, prior metric, ic, start_from_zero=True) built directly on the
    likelihood metric at the expansion point (the option is not used inside the library)."""
    import nifty.cl as ift
    H, mean, doms = classic_model(lg, case)
    lhx = H.likelihood_energy(ift.Linearization.make_var(mean, want_metric=True))
    prior = ift.ScalingOperator(mean.domain, 1., np.float64)
    ic = ift.AbsDeltaEnergyController(1e-15, iteration_limit=500, convergence_level=3)
    se = ift.SamplingEnabler(lhx.metric, prior, ic, start_from_zero=True)

    def draw(white):
        def go():
            with L.classic_feed_flat(white) as sizes:
                y, x = se.special_draw_sample(from_inverse=True)
            return flat_mf(x, case), flat_mf(se(x) - y, case), list(sizes)
        return _quiet(go)
    _, _, sz0 = draw(None)
    K = sum(sz0)
    cols, resid = [], 0.0
    for i in range(K):
        white = np.zeros(K)
        white[i] = 1.0
        col, r, sz = draw(white)
        if sz != sz0:
            raise RuntimeError("white-noise requests changed between runs")
        cols.append(col)
        resid = max(resid, float(np.abs(r).max()))
    return np.array(cols).T, {"sizes": sz0, "residual": resid}


def classic_T_prior(lg, case, seed, zero_start=False):
    """SamplingEnabler(likelihood metric at p, prior metric diag(sinv) != 1, ic): the classic
    Wiener-filter sampler (WienerFilterCurvature with S != 1) on the two-key domain."""
    import nifty.cl as ift
    H, mean, doms = classic_model(lg, case)
    lhx = H.likelihood_energy(ift.Linearization.make_var(mean, want_metric=True))
    sinv = lg.f("sinv")
    offs = [0, sizes_of(case)[0], lg.n]
    prior = ift.makeOp(ift.MultiField.from_dict(
        {k: ift.makeField(doms[k], sinv[offs[i]:offs[i + 1]].copy()) for i, k in enumerate(KEYS)}),
        sampling_dtype=np.float64)
    ic = ift.AbsDeltaEnergyController(1e-15, iteration_limit=500, convergence_level=3)
    se = ift.SamplingEnabler(lhx.metric, prior, ic, start_from_zero=zero_start)

    def draw(white):
        def go():
            with L.classic_feed_flat(white) as sizes:
                y, x = se.special_draw_sample(from_inverse=True)
            return flat_mf(x, case), flat_mf(se(x) - y, case), list(sizes)
        return _quiet(go)
    _, _, sz0 = draw(None)
    K = sum(sz0)
    cols, resid = [], 0.0
    for i in range(K):
        white = np.zeros(K)
        white[i] = 1.0
        col, r, sz = draw(white)
        if sz != sz0:
            raise RuntimeError("white-noise requests changed between runs")
        cols.append(col)
        resid = max(resid, float(np.abs(r).max()))
    return np.array(cols).T, {"sizes": sz0, "residual": resid}


def prior_term(lg, case, T):
    Qm = lg.Q if case["nonlinear"] else [[Fr(0)] * lg.n for _ in range(lg.m)]
    return "factor_ok_prior %s %s %s %s %s %s %s %s" % (
        TOL_T_Q, C.cnat(T.shape[1]), qm(lg.R), qm(Qm), qm(lg.Ninv), qv(lg.p), qv(lg.sinv), fm(T))


def prior_failure(lg, case, T, info):
    if not np.all(np.isfinite(T)):
        return "non-finite sampling factor"
    J = lg.np_lin()[0] if case["nonlinear"] else lg.f("R")
    A = J.T @ lg.f("Ninv") @ J + np.diag(lg.f("sinv"))
    err = np.abs(T @ T.T @ A - np.eye(lg.n)).max()
    if err > TOL_T:
        return "non-unit prior metric: |T T^T (M + S^-1) - 1| = %.3e" % err
    if info["residual"] > 1e-9:
        return "non-unit prior metric: the returned inverse sample does not solve metric @ x = b (residual %.3e)" % info["residual"]
    return None


def jax_T(lg, case, seed):
    import jax
    from nifty.re import evi
    lh, pos = jax_model(lg, case)
    pe = tuple(case["pe"])
    kw = dict(cg_kwargs=dict(L.CG_TIGHT), point_estimates=pe)
    key = jax.random.PRNGKey(seed + 3)
    with L.jax_feed_flat(None) as info0:
        evi.draw_linear_residual(lh, pos, key, **kw)
    K = sum(info0["sizes"])
    cols = []
    for i in range(K):
        white = np.zeros(K)
        white[i] = 1.0
        with L.jax_feed_flat(white) as info:
            smpl, _ = evi.draw_linear_residual(lh, pos, key, **kw)
        cols.append(flat_vec(smpl, case))
    keys = info0["keys"]
    inkey = np.asarray(jax.random.key_data(key)).tolist() if hasattr(jax.random, "key_data") else np.asarray(key).tolist()
    return np.array(cols).T, {"sizes": info0["sizes"], "keys": keys, "inkey": inkey}


def np_liquid_metric(lg, case):
    J = lg.np_lin()[0] if case["nonlinear"] else lg.f("R")
    mask = np.array(mask_of(case))
    Jl = J[:, mask]
    return Jl.T @ lg.f("Ninv") @ Jl + np.eye(mask.sum()), mask


def factor_term(lg, case, T):
    Qm = lg.Q if case["nonlinear"] else [[Fr(0)] * lg.n for _ in range(lg.m)]
    mask = C.clist([C.cbool(b) for b in mask_of(case)])
    return "factor_ok %s %s %s %s %s %s %s %s" % (
        TOL_T_Q, C.cnat(T.shape[1]), qm(lg.R), qm(Qm), qm(lg.Ninv), qv(lg.p), mask, fm(T))


def factor_failure(lg, case, T, info, api):
    if not np.all(np.isfinite(T)):
        return "non-finite sampling factor (or perturbed point-estimated key in the mirrored sample)"
    A, mask = np_liquid_metric(lg, case)
    Tl, Tf = T[mask], T[~mask]
    if Tf.size and np.any(Tf != 0):
        return "point-estimated components of the residual are not zero (max %.3e)" % np.abs(Tf).max()
    err = np.abs(Tl @ Tl.T @ A - np.eye(mask.sum())).max()
    if err > TOL_T:
        return "|T T^T (M + 1) - 1| = %.3e on the sampled block" % err
    if api == "cl0" and info["residual"] > 1e-9:
        return "start_from_zero=True: the returned inverse sample does not solve metric @ x = b (residual %.3e)" % info["residual"]
    if api == "re":
        ks = info["keys"]
        if len(ks) != 2 or ks[0] == ks[1] or info["inkey"] in ks:
            return "the two white-noise draws do not use two fresh distinct PRNG keys: %r" % (ks,)
    return None


# --------------------------------------------------------------------------------------------------
# (1) classic control flow on fake-MPI tasks
# --------------------------------------------------------------------------------------------------

def _cf_worker(comm, case, configs, seed):
    """Runs in a forked process (no JAX imported): one SampledKLEnergy per (n_samples, mirror)."""
    import nifty.cl as ift
    from nifty.cl import random as nrandom
    from nifty.cl.operators.sampling_enabler import SamplingEnabler
    import logging
    ift.logger.setLevel(logging.ERROR)
    lg = L.LG(case)
    H, mean, doms = classic_model(lg, case, ic_tol=1e-14)
    state = {"iter": 0, "log": []}
    orig_enter = nrandom.Context.__enter__
    orig_draw = SamplingEnabler.special_draw_sample

    def enter(self):
        state["iter"] += 1
        return orig_enter(self)

    def draw(self, *a, **k):
        state["log"].append(state["iter"] - 2)      # the outer Context(seed) is iteration 1
        return orig_draw(self, *a, **k)
    nrandom.Context.__enter__ = enter
    SamplingEnabler.special_draw_sample = draw
    results = []
    try:
        for n_samples, mirror in configs:
            state["iter"], state["log"] = 0, []
            buf = io.StringIO()
            with contextlib.redirect_stdout(buf), contextlib.redirect_stderr(buf):
                with ift.random.Context(seed):
                    kl = ift.SampledKLEnergy(mean, H, n_samples, None, mirror_samples=mirror, comm=comm)
            sl = kl._sample_list
            results.append({"res": [flat_mf(r, case).tobytes().hex() for r in sl._r], "neg": [bool(x) for x in sl._n],
                            "log": list(state["log"]), "value": float(kl.value).hex(),
                            "grad": flat_mf(kl.gradient, case).tobytes().hex()})
    finally:
        nrandom.Context.__enter__ = orig_enter
        SamplingEnabler.special_draw_sample = orig_draw
    return results


def run_control_flow(case, configs, ntask, seed):
    """{(n_samples, mirror): ([per-rank result], error)} for one group of `ntask` forked tasks"""
    from .. import fakecomm_proc
    out = fakecomm_proc.run(ntask, _cf_worker, case, configs, seed, timeout=240)
    per_rank, err = cf_normalise(out, ntask)
    res = {}
    for j, cfg in enumerate(configs):
        res[tuple(cfg)] = ([r[j] for r in per_rank], None) if per_rank is not None else (None, err)
    return res


def cf_normalise(out, ntask):
    """fakecomm_proc.run returns [(status, value)] by rank"""
    res = []
    for r in range(ntask):
        st, val = out[r] if r < len(out) else ("missing", None)
        if st != "ok":
            return None, "task %d: %s %s" % (r, st, str(val)[-400:])
        res.append(val)
    return res, None


# --------------------------------------------------------------------------------------------------
# (3)/(4) JAX mirrored samples and geoVI on linear models; classic geoVI
# --------------------------------------------------------------------------------------------------

def jax_samples_and_geo(lg, case, seed, n_samples=2):
    import jax
    import nifty.re as jft
    lh, pos = jax_model(lg, case)
    pe = tuple(case["pe"])
    opt = jft.OptimizeVI(lh, 1, jit=False, linear_minimizer_jit=False)
    ks = jax.random.split(jax.random.PRNGKey(seed + 17), n_samples)
    lin, _ = _quiet(lambda: opt.draw_linear_samples(pos, ks, point_estimates=pe, cg_name=None,
                                                    cg_kwargs=dict(L.CG_TIGHT)))
    res = np.array([flat_vec(jax.tree_util.tree_map(lambda a: a[i], lin._samples), case) for i in range(len(lin))])
    smp = np.array([flat_vec(jax.tree_util.tree_map(lambda a: a[i], lin.samples), case) for i in range(len(lin))])
    out = {"lin": res, "samples": smp, "pos": flat_vec(pos)}
    if not case["nonlinear"]:
        mk = dict(name=None, xtol=1e-13, absdelta=None, miniter=1, maxiter=25,
                  cg_kwargs=dict(name=None, **L.CG_TIGHT))
        upd, _ = _quiet(lambda: opt.nonlinearly_update_samples(lin, point_estimates=pe, minimize_kwargs=mk))
        out["geo"] = np.array([flat_vec(jax.tree_util.tree_map(lambda a: a[i], upd._samples), case) for i in range(len(upd))])
    # the driver's own entry point over two iterations: resample linearly, then `nonlinear_update`
    # (same number of samples, so the update branch is really taken); point estimates must stay frozen
    mk2 = dict(name=None, xtol=1e-13, absdelta=None, miniter=1, maxiter=25, cg_kwargs=dict(name=None, **L.CG_TIGHT))
    dkw = dict(point_estimates=pe, draw_linear_kwargs=dict(cg_name=None, cg_kwargs=dict(L.CG_TIGHT)),
               nonlinearly_update_kwargs=dict(minimize_kwargs=mk2), n_samples=n_samples)
    s0, _ = _quiet(lambda: opt.draw_samples(jft.Samples(pos=pos, samples=None, keys=None), key=jax.random.PRNGKey(seed + 31),
                                            sample_mode="linear_resample", **dkw))
    s1, _ = _quiet(lambda: opt.draw_samples(s0, key=jax.random.PRNGKey(seed + 37), sample_mode="nonlinear_update", **dkw))
    out["drv_lin"] = np.array([flat_vec(jax.tree_util.tree_map(lambda a: a[i], s0._samples), case) for i in range(len(s0))])
    out["drv_upd"] = np.array([flat_vec(jax.tree_util.tree_map(lambda a: a[i], s1._samples), case) for i in range(len(s1))])
    # Wiener filter of the model linearised at the (non-zero) expansion point p: the samples must be
    # exact posterior samples of the linearised model, in particular centred on its posterior mean
    if True:
        wf, _ = _quiet(lambda: jft.wiener_filter_posterior(
            lh, pos, key=jax.random.PRNGKey(seed + 29), n_samples=n_samples, model_is_linear=False, jit=False,
            draw_linear_kwargs=dict(cg_name=None, cg_kwargs=dict(L.CG_TIGHT))))
        out["wf_pos"] = flat_vec(wf.pos, case)
        out["wf_res"] = np.array([flat_vec(jax.tree_util.tree_map(lambda a: a[i], wf._samples), case) for i in range(len(wf))])
        out["wf_samples"] = np.array([flat_vec(jax.tree_util.tree_map(lambda a: a[i], wf.samples), case) for i in range(len(wf))])
    return out


def classic_geo(lg, case, seed, n_samples=2):
    import nifty.cl as ift
    H, mean, doms = classic_model(lg, case)
    pe = list(case["pe"])
    ic_n = ift.GradientNormController(tol_abs_gradnorm=1e-11, iteration_limit=25)

    def go(minim):
        with ift.random.Context(seed + 23):
            kl = ift.SampledKLEnergy(mean, H, n_samples, minim, mirror_samples=True, point_estimates=pe)
        m = flat_mf(kl.samples.mean, case)
        return np.array([flat_mf(s, case) - m for s in kl.samples.iterator()]), [bool(x) for x in kl._sample_list._n]
    lin, nlin = _quiet(lambda: go(None))
    geo, ngeo = _quiet(lambda: go(ift.NewtonCG(ic_n)))
    # a sampling minimiser that hardly iterates: for a linear model the linear sample (and its mirror
    # image) already IS the solution of the non-linear update, whatever the minimiser does
    sd, _ = _quiet(lambda: go(ift.SteepestDescent(ift.GradientNormController(iteration_limit=2))))
    return {"lin": lin, "geo": geo, "geo_weak": sd, "neg_lin": nlin, "neg_geo": ngeo}


def rows(a):
    return C.clist([fv(r) for r in a])


# --------------------------------------------------------------------------------------------------
# (6) JAX sampling sharded over several (forced host) devices, in a subprocess
# --------------------------------------------------------------------------------------------------

SHARD_SCRIPT = r"""
import json, os, sys
import numpy as np
import jax
jax.config.update("jax_enable_x64", True)
import jax.numpy as jnp
from jax import random
import nifty.re as jft
from nifty.re import evi
from harness import lg_common as L
from harness.props import c18
jft.logger.setLevel("ERROR")
case = json.load(open(sys.argv[1]))
lg = L.LG(case)
lh, pos = c18.jax_model(lg, case)
devices = jax.devices()
out = {"n_devices": len(devices)}
n_samples = len(devices) // 2
opt = jft.OptimizeVI(lh, n_total_iterations=2, devices=devices, residual_map="vmap", jit=False)
cgkw = dict(miniter=6, absdelta=1e-15, maxiter=60)
kw = dict(n_samples=n_samples, point_estimates=(),
          draw_linear_kwargs=dict(cg=jft.conjugate_gradient.static_cg, cg_name=None, cg_kwargs=cgkw),
          nonlinearly_update_kwargs=dict(minimize=jft.optimize._static_newton_cg,
                                         minimize_kwargs=dict(name=None, xtol=1e-13, cg_kwargs=dict(name=None, miniter=6), maxiter=10)))
key = random.PRNGKey(int(sys.argv[3]))
s0, _ = opt.draw_samples(jft.Samples(pos=pos, samples=None, keys=None), key=key, sample_mode="linear_resample", **kw)
s1, _ = opt.draw_samples(s0, key=random.PRNGKey(int(sys.argv[3]) + 1), sample_mode="nonlinear_update", **kw)
def res(s):
    return [c18.flat_vec(jax.tree_util.tree_map(lambda a: a[i], s._samples), case).tolist() for i in range(len(s))]
out["r0"], out["r1"] = res(s0), res(s1)
kd = lambda k: np.asarray(jax.random.key_data(k) if hasattr(jax.random, "key_data") else k).tolist()
out["keys_stored"] = kd(s0.keys)
out["keys_expected"] = kd(random.split(key, n_samples))
out["keys_after_update"] = kd(s1.keys)
single = []
for k in random.split(key, n_samples):
    r, _ = evi.draw_linear_residual(lh, pos, k, cg=jft.conjugate_gradient.static_cg, cg_kwargs=cgkw)
    single.append(c18.flat_vec(r, case).tolist())
out["single"] = single
json.dump(out, open(sys.argv[2], "w"))
"""


def run_sharded(ctx, case, seed):
    """OptimizeVI with devices= (4 forced host devices, n_samples = 2 = n_devices / 2) in a subprocess."""
    import os
    import subprocess
    d = L.scratch(ctx)
    cf = os.path.join(d, "shard_case_%d.json" % os.getpid())
    of = os.path.join(d, "shard_out_%d.json" % os.getpid())
    sf = os.path.join(d, "shard_script_%d.py" % os.getpid())
    json.dump(case, open(cf, "w"))
    open(sf, "w").write(SHARD_SCRIPT)
    env = dict(os.environ, XLA_FLAGS="--xla_force_host_platform_device_count=4", JAX_PLATFORMS="cpu", JAX_ENABLE_X64="1")
    try:
        p = subprocess.run(["/venv/bin/python", sf, cf, of, str(seed + 41)], env=env, cwd=ctx.home, timeout=900,
                           stdout=subprocess.PIPE, stderr=subprocess.STDOUT, text=True)
        if p.returncode != 0 or not os.path.exists(of):
            raise RuntimeError("sharded sampling subprocess failed: " + p.stdout[-600:])
        return json.load(open(of))
    finally:
        for f in (cf, of, sf):
            try:
                os.remove(f)
            except OSError:
                pass


def sharded_failure(o):
    if o["n_devices"] != 4:
        return None          # devices could not be forced: nothing to judge
    r0, r1, single = (np.asarray(o[k], dtype=np.float64) for k in ("r0", "r1", "single"))
    if o["keys_stored"] != o["keys_expected"] or o["keys_after_update"] != o["keys_expected"]:
        return "sharded sampling: the keys stored with the samples are not the keys the samples were drawn with"
    if np.abs(r0[0::2] + r0[1::2]).max() > 1e-10:
        return "sharded sampling: mirrored samples are not negatives of each other"
    if np.abs(r0[0::2] - single).max() > 1e-8:
        return "sharded sampling: samples differ from the single-device samples for the same keys by %.3e" % np.abs(r0[0::2] - single).max()
    if np.abs(r1 - r0).max() > TOL_GEO:
        return "sharded sampling: nonlinear_update changed the samples of a linear model by %.3e" % np.abs(r1 - r0).max()
    return None


# --------------------------------------------------------------------------------------------------
# (5) nifty.re Samples: re-centring API (at / squeeze / indexing), integer data => exact
# --------------------------------------------------------------------------------------------------

def gen_api_case(rng, idx):
    na, nb = int(rng.integers(1, 3)), int(rng.integers(1, 3))
    n = na + nb
    iv = lambda *shape: [[int(x) for x in r] for r in rng.integers(-3, 4, size=shape)]
    half = iv(2, n)
    res = [half[0], [-x for x in half[0]], half[1], [-x for x in half[1]]]
    return {"idx": int(idx), "na": na, "n": n, "with_keys": bool(idx % 2 == 0),
            "p": iv(1, n)[0], "new": iv(1, n)[0], "old": iv(1, n)[0], "res": res, "abs": iv(4, n), "mean": iv(1, n)[0]}


def run_samples_api(ac):
    import jax
    import jax.numpy as jnp
    import nifty.re as jft
    na = ac["na"]

    def vec(flat):
        a = np.asarray(flat, dtype=np.float64)
        return jft.Vector({"a": jnp.asarray(a[:na]), "b": jnp.asarray(a[na:])})

    def stack(rws):
        a = np.asarray(rws, dtype=np.float64)
        return jft.Vector({"a": jnp.asarray(a[..., :na]), "b": jnp.asarray(a[..., na:])})

    def flat(v):
        t = v.tree
        return np.concatenate([np.asarray(t["a"], dtype=np.float64), np.asarray(t["b"], dtype=np.float64)], axis=-1)

    def read(t):
        return {"pos": flat(t.pos).tolist(), "res": flat(t._samples).tolist(), "smp": flat(t.samples).tolist()}
    keys = jax.random.split(jax.random.PRNGKey(ac["idx"]), 2) if ac["with_keys"] else None
    s = jft.Samples(pos=vec(ac["p"]), samples=stack(ac["res"]), keys=keys)
    out = {}
    for name, t in (("at", s.at(vec(ac["new"]))),
                    ("at_old_is_pos", s.at(vec(ac["new"]), old_pos=vec(ac["p"]))),
                    ("at_old_other", s.at(vec(ac["new"]), old_pos=vec(ac["old"]))),
                    ("at_absolute", jft.Samples(pos=None, samples=stack(ac["abs"]), keys=keys).at(
                        vec(ac["mean"]), old_pos=vec(ac["mean"])))):
        out[name] = read(t)
        out[name]["keys_kept"] = (t.keys is keys) or (keys is not None and bool(np.all(np.asarray(t.keys) == np.asarray(keys))))
    sq = jft.Samples(pos=vec(ac["p"]), samples=stack([ac["res"][:2], ac["res"][2:]]), keys=keys).squeeze()
    out["squeeze"] = read(sq)
    out["len"] = len(s)
    out["items"] = [flat(s[i]).tolist() for i in range(len(s))]
    out["iter"] = [flat(x).tolist() for x in s]
    try:
        jft.Samples(pos=None, samples=stack(ac["abs"])).at(vec(ac["new"]))
        out["at_without_offsets"] = "returned"
    except ValueError:
        out["at_without_offsets"] = "ValueError"
    return out


def api_terms(ac, out):
    def lv(rws):
        return C.clist([qv([Fr(x) for x in r]) for r in rws])
    s = "{| jpos := Some %s; jres := %s |}" % (qv(ac["p"]), lv(ac["res"]))
    sabs = "{| jpos := None; jres := %s |}" % lv(ac["abs"])
    t = []
    for name, obj, new, old in (("at", s, ac["new"], None), ("at_old_is_pos", s, ac["new"], ac["p"]),
                                ("at_old_other", s, ac["new"], ac["old"]), ("at_absolute", sabs, ac["mean"], ac["mean"])):
        o = out[name]
        t.append((name, "jat_ok %s %s %s %s %s %s" % (obj, qv(new), "None" if old is None else "(Some %s)" % qv(old),
                                                     fv(o["pos"]), rows(o["res"]), rows(o["smp"]))))
    t.append(("squeeze", "lveqb (jres (jsqueeze (Some %s) %s)) %s && lveqb (jsamples (jsqueeze (Some %s) %s)) %s" % (
        qv(ac["p"]), C.clist([lv(ac["res"][:2]), lv(ac["res"][2:])]), rows(out["squeeze"]["res"]),
        qv(ac["p"]), C.clist([lv(ac["res"][:2]), lv(ac["res"][2:])]), rows(out["squeeze"]["smp"]))))
    t.append(("items", "lveqb (jsamples %s) %s && lveqb (jsamples %s) %s && %s" % (
        s, rows(out["items"]), s, rows(out["iter"]), C.cbool(out["len"] == 4 and out["at_without_offsets"] == "ValueError"))))
    return t


def api_failure(ac, out):
    p, new, old, mean = (np.asarray(ac[k], dtype=np.float64) for k in ("p", "new", "old", "mean"))
    r, ab = np.asarray(ac["res"], dtype=np.float64), np.asarray(ac["abs"], dtype=np.float64)
    want = {"at": new + r, "at_old_is_pos": new + r, "at_old_other": new + (p + r - old), "at_absolute": ab}
    for name, w in want.items():
        o = out[name]
        if np.any(np.asarray(o["smp"]) != w):
            return "Samples.%s: re-centred samples are not new position + (old samples - old_pos)" % name
        if np.any(np.asarray(o["pos"]) != (mean if name == "at_absolute" else new)):
            return "Samples.%s: wrong expansion point" % name
        if not o["keys_kept"]:
            return "Samples.%s: keys not kept" % name
    if np.any(np.asarray(out["at"]["res"]) != r) or np.any(np.asarray(out["at_old_is_pos"]["res"]) != r):
        return "Samples.at changed the residuals"
    if np.any(np.asarray(out["squeeze"]["smp"]) != p + r):
        return "Samples.squeeze changed or reordered the samples"
    if out["len"] != 4 or np.any(np.asarray(out["items"]) != p + r) or np.any(np.asarray(out["iter"]) != p + r):
        return "Samples indexing / iteration does not return expansion point + residual"
    if out["at_without_offsets"] != "ValueError":
        return "Samples(pos=None).at(pos) without old_pos did not raise"
    return None


class C18(C.Check):
    prop = "C18"
    coq_dir = "C18"
    build_timeout = 1500
    trusted_base = [
        "Coq 8.16.1 kernel + MathComp 1.15; all C18 theorems closed under the global context (matrix statements reuse NV.C20.ProofsMx)",
        "hand-written model coq/C18/Model.v of the classic draw_samples loop / shareRange and of the linearised metric (on NV.C20.Model); tied by correspondence",
        "noise injection (harness/lg_common.py): nifty.cl.random.Random.normal and nifty.re.evi.random_like are replaced by basis vectors of the concatenated white vector; "
        "wrappers around SamplingEnabler.special_draw_sample / random.Context.__enter__ count real draws",
        "harness/fakecomm_proc.py (forked processes with rendezvous pipes) stands in for MPI",
    ]
    assumptions = [
        "the white-noise requests of one sampling call are independent standard normal vectors (checked: the JAX sampler uses two fresh distinct PRNG keys; the classic one draws from the generator installed by random.Context)",
        "inner CG / Newton solves converge (tight tolerances, <= 4 pixels); T compared at 1e-8, geoVI-vs-linear at 1e-7",
        "distribution statements are made through the exact factor T (sample = T xi), not through Monte-Carlo statistics",
    ]

    def __init__(self):
        self.obs_cf, self.obs_T, self.obs_S, self.obs_A, self.obs_D = [], [], [], [], []

    def cases(self, ctx):
        rng = ctx.rng(18)
        nT = 7 if ctx.quick else 60
        return [gen_case(rng, i) for i in range(nT)]

    def correspondence(self, ctx, res):
        _nifty_quiet(jax_too=False)
        checks, meta = [], []
        timing = {}
        t0 = time.time()
        cases = [c["case"] for c in ctx.corpus() if "case" in c] + self.cases(ctx)
        # ---- (1) control flow, BEFORE anything imports JAX (fork) ----
        self.obs_cf = []
        cf_case = dict(cases[0], pe=[], napprox=0)
        configs = [(3, True), (2, True), (1, True), (3, False), (2, False)]
        tasks = (1, 2, 5) if ctx.quick else (1, 2, 3, 4, 5, 6, 7)
        if ctx.quick:
            configs = [(3, True), (2, True), (3, False)]
        ref = {}
        seed = 1000 * ctx.seed + 7
        groups = {}
        for ntask in tasks:
            try:
                groups[ntask] = run_control_flow(cf_case, configs, ntask, seed)
            except Exception as e:
                groups[ntask] = {tuple(c): (None, "%s: %s" % (type(e).__name__, e)) for c in configs}
        for ntask in tasks:
          for n_samples, mirror in configs:
            out, err = groups[ntask][(n_samples, mirror)]
            o = {"n": n_samples, "mirror": mirror, "ntask": ntask, "seed": seed, "err": err, "out": out}
            self.obs_cf.append(o)
            if err:
                checks.append("false")
                meta.append(("cl.control_flow", o))
                continue
            if ntask == 1:
                ref[(n_samples, mirror)] = out[0]
            r0 = ref.get((n_samples, mirror))
            uniq = []
            for x in (r0["res"] if r0 else []):
                if x not in uniq:
                    uniq.append(x)
            o["ids"] = []
            for rank, t in enumerate(out):
                ids = [(uniq.index(x) if x in uniq else 99, ng) for x, ng in zip(t["res"], t["neg"])]
                o["ids"].append(ids)
                step = 2 if mirror else 1
                drawn = [step * ids[i][0] + (1 if ids[i][1] else 0) for i in t["log"] if 0 <= i < len(ids)]
                if len(drawn) != len(t["log"]):
                    drawn = [999]
                checks.append("task_ok %s %s %s %s %s %s" % (
                    C.cbool(mirror), C.cnat(n_samples), C.cnat(ntask), C.cnat(rank),
                    C.clist(["(%s, %s)" % (C.cnat(a), C.cbool(b)) for a, b in ids]),
                    C.clist([C.cnat(x) for x in drawn])))
                meta.append(("cl.control_flow", o))
        timing["control_flow_s"] = round(time.time() - t0, 1)
        t0 = time.time()
        # ---- (2) sampling factors ----
        self.obs_T = []
        for case in cases:
            lg = L.LG(case)
            for api in ("cl", "re", "cl0", "clS", "clS0"):
                fn = {"cl": classic_T, "re": jax_T, "cl0": classic_T_zero_start, "clS": classic_T_prior,
                      "clS0": lambda a, b, c_: classic_T_prior(a, b, c_, zero_start=True)}[api]
                ecase = case if api in ("cl", "re") else dict(case, pe=[], napprox=0)
                try:
                    T, info = fn(lg, ecase, ctx.seed)
                    err = None
                except Exception as e:
                    T, info, err = None, None, "%s: %s\n%s" % (type(e).__name__, str(e)[:300], traceback.format_exc()[-800:])
                self.obs_T.append((ecase, api, T, info, err))
                if err or not np.all(np.isfinite(T)):
                    checks.append("false")
                else:
                    checks.append(prior_term(lg, ecase, T) if api.startswith("clS") else factor_term(lg, ecase, T))
                meta.append((api + ".factor", ecase))
        timing["factors_s"] = round(time.time() - t0, 1)
        t0 = time.time()
        # ---- (3)/(4) mirrored samples, geoVI on linear models ----
        self.obs_S = []
        nS = 4 if ctx.quick else 20
        jobs = [(case, "re") for case in cases[:nS]]
        # the geometric samplers need linear models with diagonal noise; real AND complex data
        want = 2 if ctx.quick else 8
        cl_geo = []
        for cplx in (False, True):
            pool = [c for c in cases if not c["nonlinear"] and c["noise"] == "diag" and ("Ri" in c) == cplx]
            rng_extra = ctx.rng(1801 + int(cplx))
            k = 0
            while len(pool) < want:
                c = gen_case(rng_extra, 500 + k, cplx=cplx)
                k += 1
                if c["noise"] == "diag":
                    c["nonlinear"] = False
                    pool.append(c)
            cl_geo += pool[:want]
        jobs += [(case, "cl") for case in cl_geo]
        jobs += [(case, "re") for case in cl_geo if case not in cases[:nS]]
        # the driver route needs point estimates: make sure two such models are among the JAX jobs
        have = [c for c, a in jobs if a == "re" and c["pe"]]
        rng_pe = ctx.rng(1811)
        k = 0
        pool = [c for c in cases if c["pe"] and c not in have]
        while len(have) < 2:
            if pool:
                c = pool.pop(0)
            else:
                c = gen_case(rng_pe, 600 + k)
                k += 1
                c["pe"] = ["b"] if k % 2 else ["a"]
            have.append(c)
            jobs.append((c, "re"))
        for case, api in jobs:
            lg = L.LG(case)
            if True:
                try:
                    if api == "re":
                        o = jax_samples_and_geo(lg, case, ctx.seed)
                    else:
                        o = classic_geo(lg, case, ctx.seed)
                    err = None
                except Exception as e:
                    o, err = None, "%s: %s\n%s" % (type(e).__name__, str(e)[:300], traceback.format_exc()[-800:])
                self.obs_S.append((case, api, o, err))
                if err:
                    checks.append("false")
                    meta.append((api + ".samples", case))
                    continue
                if api == "re":
                    checks.append("mirrored_ok %s" % rows(o["lin"]))
                    meta.append(("re.mirror", case))
                if "geo" in o:
                    checks.append("residuals_close %s %s %s" % (TOL_GEO_Q, rows(o["lin"]), rows(o["geo"])))
                    meta.append((api + ".geovi_linear", case))
                if "geo_weak" in o:
                    checks.append("residuals_close %s %s %s" % (TOL_GEO_Q, rows(o["lin"]), rows(o["geo_weak"])))
                    meta.append((api + ".geovi_linear_weak_minimiser", case))
                if "drv_upd" in o and not case["nonlinear"]:
                    checks.append("residuals_close %s %s %s" % (TOL_GEO_Q, rows(o["drv_lin"]), rows(o["drv_upd"])))
                    meta.append(("re.driver_nonlinear_update", case))
                if "wf_pos" in o:
                    Qm = lg.Q if case["nonlinear"] else [[Fr(0)] * lg.n for _ in range(lg.m)]
                    cc = lg.c if case["nonlinear"] else [Fr(0)] * lg.m
                    checks.append("corr_lin_signal %s %s %s %s %s %s %s %s %s && mirrored_ok %s" % (
                        TOL_GEO_Q, C.cnat(lg.n), qm(lg.R), qm(Qm), qm(lg.Ninv), qv(cc), qv(lg.d), qv(lg.p),
                        fv(o["wf_pos"]), rows(o["wf_res"])))
                    meta.append(("re.wf_linearised_samples", case))
        # ---- (6) sharded JAX sampling (subprocess with 4 forced host devices) ----
        self.obs_D = []
        shard_pool = [c for c in cases if not c["nonlinear"]] or [dict(cases[0], nonlinear=False)]
        for case in shard_pool[:(1 if ctx.quick else 3)]:
            scase = dict(case, pe=[], napprox=0)
            try:
                o = run_sharded(ctx, scase, ctx.seed)
                err = None
            except Exception as e:
                o, err = None, "%s: %s" % (type(e).__name__, str(e)[:600])
            self.obs_D.append((scase, o, err))
            if err:
                checks.append("false")
            elif o["n_devices"] != 4:
                checks.append("true")
            else:
                checks.append("residuals_close %s %s %s && residuals_close %s %s %s && %s" % (
                    TOL_GEO_Q, rows(o["r0"]), rows(o["r1"]),
                    TOL_T_Q, rows(np.asarray(o["r0"])[0::2]), rows(o["single"]),
                    C.cbool(o["keys_stored"] == o["keys_expected"])))
            meta.append(("re.sharded_sampling", scase))
        # ---- (5) Samples re-centring API ----
        self.obs_A = []
        rng_api = ctx.rng(1805)
        for i in range(4 if ctx.quick else 24):
            ac = gen_api_case(rng_api, i)
            try:
                o = run_samples_api(ac)
                err = None
            except Exception as e:
                o, err = None, "%s: %s\n%s" % (type(e).__name__, str(e)[:300], traceback.format_exc()[-800:])
            self.obs_A.append((ac, o, err))
            if err:
                checks.append("false")
                meta.append(("re.samples_api", ac))
                continue
            for name, term in api_terms(ac, o):
                checks.append(term)
                meta.append(("re.samples_api." + name, ac))
        timing["samples_s"] = round(time.time() - t0, 1)
        t0 = time.time()
        bad = L.eval_cases_pid(C, self.prop, HEADER, checks, 12)
        timing["coq_eval_s"] = round(time.time() - t0, 1)
        seen = set()
        for i in bad:
            name, what = meta[i]
            if name in seen:
                continue
            seen.add(name)
            det = {"what": name}
            if name == "cl.control_flow":
                det.update({k: what[k] for k in ("n", "mirror", "ntask", "seed", "err")})
                det["ids"] = what.get("ids")
                det["logs"] = [t["log"] for t in what["out"]] if what.get("out") else None
            else:
                det["case"] = what
            res.add_broken("correspondence", "%s vs coq/C18/Model.v" % name, det)
        dist = {}
        for name, _ in meta:
            dist[name] = dist.get(name, 0) + 1
        res.coverage.update({
            "evaluations": len(checks),
            "distinct_nontrivial": len({json.dumps([c["R"], c["W"], c["p"], c["pe"], c["nonlinear"], api])
                                        for c, api, T, info, err in self.obs_T if T is not None and np.any(T != 0)})
            + len({(o["n"], o["mirror"], o["ntask"]) for o in self.obs_cf if o["ntask"] > 1}),
            "rule": "control flow: (n_samples, mirror, ntask) with ntask 1..5 incl. tasks starting at an odd index; factors: generated "
                    "linear / quadratic Gaussian models on two keys, expansion point p, point estimates {}, {a}, {b}, napprox 0/2, both APIs; "
                    "non-trivial = ntask > 1 resp. non-zero factor; distinct by configuration",
            "samples": [{"case": c, "api": api} for c, api, T, info, err in self.obs_T[:2]],
            "input_distribution": dist,
            "disagreements": len(bad), "timing": timing,
            "point_estimate_cases": sum(1 for c, api, T, info, err in self.obs_T if c["pe"]),
            "nonlinear_cases": sum(1 for c, api, T, info, err in self.obs_T if c["nonlinear"]),
            "odd_start_tasks": sum(1 for o in self.obs_cf if o.get("ids") for ids in o["ids"] if ids and ids[0][1]),
        })
        return [meta[i] for i in bad]

    # ------------------------------------------------------------------------------------------
    def oracle(self, ctx, res, hints, budget):
        n = 0
        seen = set()

        def fail(sig, what, inp):
            key = json.dumps(sig, sort_keys=True)
            if key not in seen:
                seen.add(key)
                res.add_failing(sig, what, inp)
        # control flow: every task count gives the single-task list, bit for bit
        ref = {(o["n"], o["mirror"]): o["out"][0] for o in self.obs_cf if o["ntask"] == 1 and not o["err"]}
        for o in self.obs_cf:
            n += 1
            inp = {"kind": "control_flow", "n": o["n"], "mirror": o["mirror"], "ntask": o["ntask"], "seed": o["seed"]}
            sig = {"api": "cl", "fn": "draw_samples"}
            if o["err"]:
                fail(sig, "classic sampler failed on %d tasks: %s" % (o["ntask"], o["err"]), inp)
                continue
            r0 = ref.get((o["n"], o["mirror"]))
            if r0 is None:
                continue
            allres = [x for t in o["out"] for x in t["res"]]
            allneg = [x for t in o["out"] for x in t["neg"]]
            if allres != r0["res"] or allneg != r0["neg"]:
                fail(sig, "samples on %d tasks differ from the single-task samples (n_samples=%d, mirror=%s)"
                     % (o["ntask"], o["n"], o["mirror"]), inp)
            if o["mirror"]:
                if any(allres[2 * k] != allres[2 * k + 1] or allneg[2 * k] or not allneg[2 * k + 1]
                       for k in range(len(allres) // 2)):
                    fail(sig, "mirrored sample 2k+1 is not the exact negative of sample 2k", inp)
            if any(t["value"] != r0["value"] or t["grad"] != r0["grad"] for t in o["out"]):
                fail(sig, "KL value/gradient on %d tasks differ from the single-task result" % o["ntask"], inp)
        # factors
        for case, api, T, info, err in self.obs_T:
            n += 1
            lg = L.LG(case)
            if err:
                f = "sampler raised: " + err.split("\n")[0]
            elif api.startswith("clS"):
                f = prior_failure(lg, case, T, info)
            else:
                f = factor_failure(lg, case, T, info, api)
            if f:
                fail({"api": api[:2], "fn": {"cl0": "SamplingEnabler.start_from_zero", "clS": "SamplingEnabler.prior_metric",
                                             "clS0": "SamplingEnabler.prior_metric"}.get(api, "linear_sample")},
                     "%s: %s" % (api, f), {"kind": "factor", "api": api, "case": case, "seed": ctx.seed})
        # samples
        for case, api, o, err in self.obs_S:
            n += 1
            inp = {"kind": "samples", "api": api, "case": case, "seed": ctx.seed}
            if err:
                fail({"api": api, "fn": "samples"}, "%s sampler raised: %s" % (api, err.split("\n")[0]), inp)
                continue
            f = samples_failure(case, api, o)
            if f:
                fail({"api": api, "fn": "samples"}, "%s: %s" % (api, f), inp)
        for scase, o, err in self.obs_D:
            n += 1
            f = ("raised: " + err) if err else sharded_failure(o)
            if f:
                fail({"api": "re", "fn": "sharded_sampling"}, "re: %s" % f, {"kind": "sharded", "case": scase, "seed": ctx.seed})
        for ac, o, err in self.obs_A:
            n += 1
            f = ("raised: " + err.split("\n")[0]) if err else api_failure(ac, o)
            if f:
                fail({"api": "re", "fn": "Samples"}, "re: %s" % f, {"kind": "samples_api", "case": ac, "seed": ctx.seed})
        if budget > 1 and not res.failing:
            rng = ctx.rng(1818)
            for i in range(12 * budget):
                case = gen_case(rng, 3000 + i)
                lg = L.LG(case)
                for api in ("cl", "re"):
                    n += 1
                    try:
                        T, info = (classic_T if api == "cl" else jax_T)(lg, case, ctx.seed)
                        f = factor_failure(lg, case, T, info, api)
                    except Exception as e:
                        f = "sampler raised: %s: %s" % (type(e).__name__, str(e)[:200])
                    if f:
                        fail({"api": api, "fn": "linear_sample"}, "%s: %s" % (api, f),
                             {"kind": "factor", "api": api, "case": case, "seed": ctx.seed})
                if res.failing:
                    break
        res.coverage["impl_property_evaluations"] = n

    def replay(self, ctx, rp):
        i = rp["input"]
        if i["kind"] == "control_flow":
            _nifty_quiet(jax_too=False)
            case = dict(self.cases(ctx)[0], pe=[], napprox=0) if "case" not in i else i["case"]
            cfg = (i["n"], i["mirror"])
            r1, e1 = run_control_flow(case, [cfg], 1, i["seed"])[cfg]
            rt, et = run_control_flow(case, [cfg], i["ntask"], i["seed"])[cfg]
            if e1 or et:
                print("  " + str(e1 or et))
                return True
            allres = [x for t in rt for x in t["res"]]
            allneg = [x for t in rt for x in t["neg"]]
            bad = allres != r1[0]["res"] or allneg != r1[0]["neg"] or any(
                t["value"] != r1[0]["value"] or t["grad"] != r1[0]["grad"] for t in rt)
            if i["mirror"]:
                bad = bad or any(allres[2 * k] != allres[2 * k + 1] or allneg[2 * k] or not allneg[2 * k + 1]
                                 for k in range(len(allres) // 2))
            return bool(bad)
        _nifty_quiet()
        if i["kind"] == "sharded":
            try:
                f = sharded_failure(run_sharded(ctx, i["case"], i.get("seed", 0)))
            except Exception as e:
                f = "raised %s: %s" % (type(e).__name__, str(e)[:300])
            if f:
                print("  " + f)
            return f is not None
        if i["kind"] == "samples_api":
            try:
                f = api_failure(i["case"], run_samples_api(i["case"]))
            except Exception as e:
                f = "raised %s: %s" % (type(e).__name__, str(e)[:200])
            if f:
                print("  " + f)
            return f is not None
        case, api = i["case"], i["api"]
        lg = L.LG(case)
        try:
            if i["kind"] == "factor":
                fn = {"cl": classic_T, "re": jax_T, "cl0": classic_T_zero_start, "clS": classic_T_prior,
                      "clS0": lambda a, b, c_: classic_T_prior(a, b, c_, zero_start=True)}[api]
                T, info = fn(lg, case, i.get("seed", 0))
                f = prior_failure(lg, case, T, info) if api.startswith("clS") else factor_failure(lg, case, T, info, api)
            else:
                o = jax_samples_and_geo(lg, case, i.get("seed", 0)) if api == "re" else classic_geo(lg, case, i.get("seed", 0))
                f = samples_failure(case, api, o)
        except Exception as e:
            f = "raised %s: %s" % (type(e).__name__, str(e)[:200])
        if f:
            print("  " + f)
        return f is not None


def samples_failure(case, api, o):
    mask = np.array(mask_of(case))
    lin = o["lin"]
    if api == "re":
        if np.any(lin[0::2] != -lin[1::2]):
            return "mirrored residual 2k+1 is not the exact negative of residual 2k"
        if np.abs(o["samples"].mean(axis=0) - o["pos"]).max() > 1e-12:
            return "mean of the mirrored samples is not the expansion point"
        if np.abs(o["samples"] - (o["pos"][None] + lin)).max() > 0:
            return "samples are not expansion point + residual"
    else:
        if o["neg_lin"] != [False, True] * (len(lin) // 2):
            return "neg flags of mirrored linear samples are %r" % (o["neg_lin"],)
        if np.abs(lin[0::2] + lin[1::2]).max() > 1e-14:
            return "mirrored samples are not symmetric about the expansion point"
        if any(o["neg_geo"]):
            return "geometric samples carry neg flags"
    if np.any(lin[:, ~mask] != 0):
        return "point-estimated components of residuals are not zero"
    if "drv_upd" in o:
        if np.any(o["drv_lin"][:, ~mask] != 0) or np.any(o["drv_upd"][:, ~mask] != 0):
            return "OptimizeVI.draw_samples (linear_resample -> nonlinear_update): point-estimated keys have non-zero residuals (max %.3e)" \
                % max(np.abs(o["drv_lin"][:, ~mask]).max(), np.abs(o["drv_upd"][:, ~mask]).max())
        if not case["nonlinear"] and np.abs(o["drv_upd"] - o["drv_lin"]).max() > TOL_GEO:
            return "OptimizeVI.draw_samples: nonlinear_update changed the samples of a linear model by %.3e" \
                % np.abs(o["drv_upd"] - o["drv_lin"]).max()
    if "wf_pos" in o:
        lg = L.LG(case)
        J, de = lg.np_lin() if case["nonlinear"] else (lg.f("R"), lg.f("d"))
        ref = lg.np_mean(J, de)
        if np.abs(o["wf_pos"] - ref).max() > TOL_GEO:
            return "Wiener-filter samples of the model linearised at p are centred %.3e away from its posterior mean" \
                % np.abs(o["wf_pos"] - ref).max()
        if np.abs(o["wf_samples"].mean(axis=0) - ref).max() > TOL_GEO:
            return "average of the Wiener-filter samples deviates from the posterior mean of the linearised model by %.3e" \
                % np.abs(o["wf_samples"].mean(axis=0) - ref).max()
        if np.any(o["wf_res"][0::2] != -o["wf_res"][1::2]):
            return "mirrored Wiener-filter residuals are not exact negatives"
    if "geo" in o and not case["nonlinear"]:
        err = np.abs(o["geo"] - lin).max()
        if err > TOL_GEO:
            return "geoVI update changed the samples of a linear model by %.3e" % err
        if np.any(o["geo"][:, ~mask] != 0):
            return "geoVI update perturbed point-estimated components"
        if "geo_weak" in o:
            err = np.abs(o["geo_weak"] - lin).max()
            if err > TOL_GEO:
                return "geoVI with a 2-step SteepestDescent sampler changed the samples of a linear model by %.3e" % err
            if np.abs(o["geo_weak"][0::2] + o["geo_weak"][1::2]).max() > TOL_GEO:
                return "mirrored geoVI samples (weak sampling minimiser) are not negatives of each other"
    return None


CHECK = C18()
