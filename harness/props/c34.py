"""C34 -- Lanczos, stochastic log-determinant and ELBO estimators are exact in the limit.

Tie: hand model coq/C34/Model.v (Lanczos recurrence of _lanczos_tridiag with full
re-orthogonalisation; trace-log / lower-error bookkeeping of estimate_evidence_lower_bound; batch
schedule of _eigsh) + correspondence: _lanczos_tridiag on generated SPD matrices (n <= 6, small-integer
entries) against the model run in exact rationals with the implementation's own residual norms as
witnesses (each verified: b^2 = |w|^2), break-down cases, ELBO samples / lower_error recomputed from the
saved eigenvalues, eigsh batch sizes (fresh and resumed) exactly.
Direct oracle: T = V^T A V, orthonormal basis, spectrum at full order, Ritz values inside the spectrum;
stochastic_lq_logdet at order = n equals the mean of z^T log(A) z over its own probes (and slogdet for
diagonal matrices); ELBO of linear Gaussian models with exact-moment samples = closed-form log-evidence,
shifted approximations below it, eager = jitted, signal = data space, truncated runs bracket the full
one by lower_error, one go = resumed, classic = JAX."""
import json
import math
import os
import shutil
import warnings
from fractions import Fraction

import numpy as np

from .. import common as C

TOL = Fraction(1, 10 ** 8)
HEADER = ("From Coq Require Import ZArith QArith List Bool.\nImport ListNotations.\n"
          "Require Import NV.C34.Model NV.C34.Exec.\nLocal Open Scope Q_scope.\n")


def _setup():
    import jax
    jax.config.update("jax_enable_x64", True)
    warnings.simplefilter("ignore")


def cql(v):
    return C.clist([C.cq(float(x)) for x in np.asarray(v, dtype=float).ravel()])


def cqm(m):
    return C.clist([cql(r) for r in np.asarray(m, dtype=float)])


def _js(c):
    return json.loads(json.dumps(c, default=lambda x: np.asarray(x).tolist()))


def scratch(ctx_or_none=None):
    d = os.path.join(C.run_dir("C34"), "w%d" % os.getpid())
    os.makedirs(d, exist_ok=True)
    return d


# --------------------------------------------------------------------------------------------------
# Lanczos
# --------------------------------------------------------------------------------------------------

def gen_spd(rng, n, kind):
    if kind == "diag":
        return np.diag(rng.integers(1, 9, size=n).astype(float))
    if kind == "repeated":            # few distinct eigenvalues -> early breakdown
        Q, _ = np.linalg.qr(rng.normal(size=(n, n)))
        ev = rng.choice([1.0, 2.0], size=n)
        return Q @ np.diag(ev) @ Q.T
    B = rng.integers(-2, 3, size=(n, n)).astype(float)
    return B @ B.T + np.diag(rng.integers(1, 4, size=n).astype(float))


def lanczos_cases(ctx):
    rng = ctx.rng(3401)
    out = []
    for i in range(30 if ctx.quick else 200):
        n = int(rng.integers(2, 7))
        kind = ["dense", "dense", "nearinv", "diag", "repeated", "dense"][i % 6]
        A = gen_spd(rng, n, "dense" if kind == "nearinv" and i % 4 == 0 else ("diag" if kind == "nearinv" else kind))
        v = rng.integers(-3, 4, size=n).astype(float)
        if not np.any(v):
            v[0] = 1.0
        if kind == "nearinv":
            # start vector close to an invariant subspace: small but legitimate residual norms
            w, U = np.linalg.eigh(A)
            v = U[:, 0] + 2.0 ** -int(rng.integers(6, 13)) * U[:, -1] + (2.0 ** -int(rng.integers(6, 13)) * U[:, 1] if n > 2 else 0.0)
        if kind == "diag" and i % 2:
            v[rng.integers(0, n)] = 0.0          # start vector inside an invariant subspace
            if not np.any(v):
                v[0] = 1.0
        order = int(rng.integers(1, n + 1))
        if kind == "nearinv":
            # exact Krylov dimension is 3 (2 for n = 2): stay below it, beyond it the float recurrence is rounding noise
            order = min(order, 2 if n > 2 else 1)
        out.append({"kind": "lanczos", "A": A.tolist(), "v": v.tolist(), "order": order})
    return out


def run_lanczos(c):
    import jax.numpy as jnp
    from nifty.re.num import lanczos as lz
    A = jnp.asarray(np.array(c["A"]))
    v = np.array(c["v"], dtype=float)
    v1 = jnp.asarray(v / np.linalg.norm(v))
    alpha, off, beta_full, basis = lz._lanczos_tridiag(v1, lambda x: A @ x, order=c["order"], eps=1e-12,
                                                      reorth_mode=2, reorth_k=c["order"], return_basis=True)
    return {"v1": np.asarray(v1), "alpha": np.asarray(alpha), "beta": np.asarray(beta_full), "basis": np.asarray(basis)}


def lanczos_checks(c, o):
    n = len(c["v"])
    A = np.array(c["A"])
    beta, alpha, basis = o["beta"], o["alpha"], o["basis"]
    order = c["order"]
    # steps before a breakdown: beta > 0 (the implementation zeroes beta at breakdown)
    k = 0
    while k < order and beta[k] > 0:
        k += 1
    out = []
    if k == order:
        # `order` steps completed: alphas 0..order-1, basis v_0..v_{order-1}; the last beta has no successor stored
        nb = order - 1
        out.append(("lanczos", "lanczos_case %d %s %s %s %s %s %s" % (
            n, cqm(A), cql(o["v1"]), cql(beta[:nb]), C.cq(TOL), cql(alpha[:nb]), cqm(basis[:order]))))
        # the last step's alpha and beta: residual after nb steps
        out.append(("lanczos-last", "lanczos_case %d %s %s %s %s %s %s" % (
            n, cqm(A), cql(o["v1"]), cql(beta[:order]), C.cq(TOL), cql(alpha[:order]), _last_basis(A, o, order))))
    else:
        out.append(("breakdown", "breakdown_case %d %s %s %s %s %s %s" % (
            n, cqm(A), cql(o["v1"]), cql(beta[:k]), C.cq(TOL), C.cq(Fraction(1, 10 ** 16)), C.cq(float(alpha[k])))))
        out.append(("lanczos", "lanczos_case %d %s %s %s %s %s %s" % (
            n, cqm(A), cql(o["v1"]), cql(beta[:k]), C.cq(TOL), cql(alpha[:k]), cqm(basis[:k + 1]))))
    return out


def _last_basis(A, o, order):
    """basis incl. the vector produced by the last step (not stored by the implementation when
    i + 1 == order): recomputed here from the implementation's own quantities."""
    V = o["basis"][:order]
    w = A @ V[-1] - o["alpha"][order - 1] * V[-1] - (o["beta"][order - 2] * V[-2] if order > 1 else 0.0)
    w = w - V.T @ (V @ w)
    return cqm(np.vstack([V, (w / o["beta"][order - 1])[None, :]]))


# --------------------------------------------------------------------------------------------------
# ELBO
# --------------------------------------------------------------------------------------------------

def gen_model(rng, nd=None, ns=None):
    nd = nd or int(rng.integers(1, 5))
    ns = ns or int(rng.integers(2, 6))
    R = rng.integers(-3, 4, size=(nd, ns)).astype(float) / 2
    for i in range(nd):
        if not np.any(R[i]):
            R[i, i % ns] = 1.0
    sig = rng.choice([0.5, 1.0, 2.0], size=nd)
    d = rng.integers(-6, 7, size=nd).astype(float) / 2
    return {"R": R.tolist(), "sig": sig.tolist(), "d": d.tolist()}


def model_objects(m, shift=None):
    """JAX likelihood, exact-moment samples (2*ns residuals +-sqrt(ns) Lambda^-1/2 e_k around the posterior
    mean [+ shift]) and the closed-form log-evidence in NIFTy's convention (no 2 pi, no det N)."""
    import jax
    import jax.numpy as jnp
    import nifty.re as jft
    R, sig, d = np.array(m["R"]), np.array(m["sig"]), np.array(m["d"])
    nd, ns = R.shape
    Ninv = np.diag(1 / sig ** 2)
    Lam = np.eye(ns) + R.T @ Ninv @ R
    mean = np.linalg.solve(Lam, R.T @ Ninv @ d)
    w, U = np.linalg.eigh(Lam)
    Lmh = U @ np.diag(w ** -0.5) @ U.T
    res = np.concatenate([np.sqrt(ns) * Lmh, -np.sqrt(ns) * Lmh], axis=1).T
    pos = mean + (0 if shift is None else np.array(shift))
    domain = jax.ShapeDtypeStruct((ns,), jnp.float64)
    Rj, si = jnp.asarray(R), jnp.asarray(1 / sig)
    fwd = jft.Model(lambda x: Rj @ x, domain=domain)
    lh = jft.Gaussian(data=jnp.asarray(d), noise_std_inv=lambda x: si * x, noise_cov_inv=lambda x: si ** 2 * x).amend(fwd)
    smp = jft.Samples(pos=jnp.asarray(pos), samples=jnp.asarray(res))
    Rn = R / sig[:, None]
    logZ = -0.5 * d @ np.linalg.solve(np.diag(sig ** 2) + R @ R.T, d) - 0.5 * np.linalg.slogdet(np.eye(nd) + Rn @ Rn.T)[1]
    gap = 0.0 if shift is None else 0.5 * np.array(shift) @ Lam @ np.array(shift)
    return lh, smp, float(logZ), float(gap), Lam, pos, res


class EigshProxy:
    """stands in for the `ssl` name inside nifty.re.evidence_lower_bound: records eigsh batch sizes."""

    def __init__(self, real):
        self.real, self.ks = real, []

    def __getattr__(self, name):
        return getattr(self.real, name)

    def eigsh(self, A, k, **kw):
        self.ks.append(int(k))
        return self.real.eigsh(A, k=k, **kw)


def run_elbo(m, n_eig, shift=None, record_batches=False, outdir=None, **kw):
    import nifty.re as jft
    from nifty.re import evidence_lower_bound as elb
    lh, smp, logZ, gap, Lam, pos, res = model_objects(m, shift)
    proxy = EigshProxy(elb.ssl)
    if record_batches:
        elb.ssl = proxy
    try:
        # nifty.re's default output_directory="" means the current directory: never write there
        kwargs = dict(verbose=False, output_directory=outdir)
        kwargs.update(kw)
        e, st = jft.estimate_evidence_lower_bound(lh, smp, n_eig, **kwargs)
    finally:
        elb.ssl = proxy.real
    hs = [0.5 * float(np.sum(((np.array(m["d"]) - np.array(m["R"]) @ (pos + r)) / np.array(m["sig"])) ** 2) + np.sum((pos + r) ** 2))
          for r in res]
    return {"samples": np.asarray(e), "stats": {k: float(v) for k, v in st.items()}, "logZ": logZ, "gap": gap,
            "batches": proxy.ks, "hs": hs, "Lam": Lam}


def elbo_cases(ctx):
    rng = ctx.rng(3402)
    out = []
    for i in range(8 if ctx.quick else 40):
        m = gen_model(rng, nd=int(rng.integers(3, 6)), ns=int(rng.integers(4, 7)))
        nrel = min(len(m["d"]), len(m["R"][0]))
        k = int(rng.integers(1, nrel))               # strictly fewer than all: iterative branch
        nb = int(rng.integers(1, 4))
        out.append({"kind": "elbo", "model": m, "k": k, "nb": nb})
    return out


def elbo_checks(c, o_dir):
    """run the truncated eigsh ELBO saving the eigensystem; model recomputes samples and lower_error."""
    m, k, nb = c["model"], c["k"], c["nb"]
    d = os.path.join(scratch(), "elbo")
    shutil.rmtree(d, ignore_errors=True)
    os.makedirs(d)
    o = run_elbo(m, k, record_batches=True, outdir=d, n_batches=nb, min_lh_eval=-1.0)
    ev = np.load(os.path.join(d, "metric_signal_eigenvalues.npy"))
    nd, ns = np.array(m["R"]).shape
    nrel = min(nd, ns)
    logs = np.log(ev)
    out = [("elbo", "elbo_case %d %d %s %s %s %s %s" % (nrel, ns, cql(logs), cql(o["hs"]), C.cq(TOL),
                                                        C.cq(o["stats"]["lower_error"]), cql(o["samples"]))),
           ("batches", "batches_case %d %d 0 %s" % (k, nb, C.clist(["%d%%nat" % x for x in o["batches"]])))]
    # resumed: continue from the first batch's eigenpairs
    if len(o["batches"]) > 1:
        pre = o["batches"][0]
        vecs = np.load(os.path.join(d, "metric_signal_eigenvectors.npy"))
        o2 = run_elbo(m, k, record_batches=True, n_batches=nb, min_lh_eval=-1.0,
                      resume_eigenvectors=vecs[:, :pre], resume_eigenvalues=ev[:pre])
        out.append(("batches-resume", "batches_case %d %d %d %s" % (k, nb, pre, C.clist(["%d%%nat" % x for x in o2["batches"]]))))
        c["_resume_mean"] = (o["stats"]["elbo_mean"], o2["stats"]["elbo_mean"])
    return out, o



# --------------------------------------------------------------------------------------------------
# resumed runs, every split point, both implementations, both trace-log spaces
# --------------------------------------------------------------------------------------------------

SCHEDULE_REF = """
base = n_eigenvalues // n_batches
remainder = n_eigenvalues % n_batches
full_batches = [base + 1] * remainder + [base] * (n_batches - remainder)
full_batches = [batch for batch in full_batches if batch > 0]
batches = []
skip = n_precomputed
for batch in full_batches:
    if skip >= batch:
        skip -= batch
        continue
    if skip > 0:
        batch -= skip
        skip = 0
    batches.append(batch)
"""


def schedule_anchor(path):
    """The batch-schedule statements of `_eigsh` in `path` must be, statement for statement, the
    ones quoted in coq/C34/Model.v (full_batches / skip_batches).  Returns None or a message."""
    import ast
    tree = ast.parse(open(path).read())
    fs = [n for n in ast.walk(tree) if isinstance(n, ast.FunctionDef) and n.name == "_eigsh"]
    if len(fs) != 1:
        return "%s: function _eigsh not found exactly once" % path
    ref = [ast.unparse(x) for x in ast.parse(SCHEDULE_REF).body]
    for node in ast.walk(fs[0]):
        body = getattr(node, "body", None)
        if not isinstance(body, list):
            continue
        for blk in (body, getattr(node, "orelse", []) or []):
            txt = [ast.unparse(x) for x in blk]
            for i in range(len(txt) - len(ref) + 1):
                if txt[i:i + len(ref)] == ref:
                    return None
    return "%s: the batch schedule of _eigsh is not the one modelled in coq/C34/Model.v" % path


def resume_cases(ctx):
    rng = ctx.rng(3403)
    out = []
    # (nd, ns, k, nb): k < n_rel (truncated, eigsh from the start) and k = n_rel (all eigenvalues)
    confs = [(6, 8, 6, 3), (6, 8, 5, 2)] if ctx.quick else \
            [(6, 8, 6, 3), (6, 8, 5, 2), (7, 5, 5, 3), (6, 7, 6, 2), (8, 6, 4, 3), (5, 9, 5, 4), (7, 7, 6, 4)]
    for j, (nd, ns, k, nb) in enumerate(confs):
        m = gen_model(rng, nd=nd, ns=ns)
        # well separated spectrum: make the rows of R of clearly different size
        R = np.array(m["R"])
        for i in range(min(nd, ns)):
            R[i, i] += (i + 1) * 1.5
        m["R"] = R.tolist()
        for impl, space in (("jax", "signal"), ("jax", "data"), ("classic", "signal")):
            if ctx.quick and j > 0 and impl == "jax" and space == "signal":
                continue
            out.append({"kind": "resume", "model": m, "k": k, "nb": nb, "impl": impl, "space": space})
    return out


def _classic_objects(m):
    import nifty.cl as ift
    R, sig, d = np.array(m["R"]), np.array(m["sig"]), np.array(m["d"])
    nd, ns = R.shape
    dom, tgt = ift.UnstructuredDomain(ns), ift.UnstructuredDomain(nd)

    class _Mat(ift.LinearOperator):
        def __init__(self):
            self._domain = ift.DomainTuple.make(dom)
            self._target = ift.DomainTuple.make(tgt)
            self._capability = self.TIMES | self.ADJOINT_TIMES

        def apply(self, x, mode):
            self._check_input(x, mode)
            v = x.asnumpy()
            return ift.makeField(self._tgt(mode), R @ v if mode == self.TIMES else R.T @ v)
    N = ift.DiagonalOperator(ift.makeField(tgt, sig ** 2))
    lh = ift.GaussianEnergy(data=ift.makeField(tgt, d), inverse_covariance=N.inverse) @ _Mat()
    ham = ift.StandardHamiltonian(lh)
    Lam = np.eye(ns) + R.T @ np.diag(1 / sig ** 2) @ R
    mean = np.linalg.solve(Lam, R.T @ (d / sig ** 2))
    w, U = np.linalg.eigh(Lam)
    Lmh = U @ np.diag(w ** -0.5) @ U.T
    res = [ift.makeField(dom, np.sqrt(ns) * Lmh[:, k]) for k in range(ns)]
    sl = ift.ResidualSampleList(ift.makeField(dom, mean), res + res, [False] * ns + [True] * ns)
    return ham, sl


def _one_elbo(c, extra, outdir=None):
    """one ELBO run of the configured implementation; returns (mean, lower_error, elbo_lw, eigsh batch sizes)."""
    m, k, nb = c["model"], c["k"], c["nb"]
    nrel = min(np.array(m["R"]).shape)
    kw = dict(n_batches=nb, min_lh_eval=-1.0, verbose=False)
    if k == nrel:
        kw["compute_all"] = True
    if outdir is not None:
        kw["output_directory"] = outdir
    kw.update(extra)
    if c["impl"] == "jax":
        o = run_elbo(m, k, record_batches=True, trace_log_space=c["space"], metric_jit=False,
                     **{a: b for a, b in kw.items() if a != "verbose"})
        return o["stats"]["elbo_mean"], o["stats"]["lower_error"], o["stats"]["elbo_lw"], o["batches"]
    import nifty.cl as ift
    from nifty.cl import evidence_lower_bound as celb
    ham, sl = _classic_objects(m)
    proxy = EigshProxy(celb.ssl)
    celb.ssl = proxy
    try:
        e, st = ift.estimate_evidence_lower_bound(ham, sl, k, **kw)
    finally:
        celb.ssl = proxy.real
    f = lambda x: float(np.asarray(x.asnumpy())) if hasattr(x, "asnumpy") else float(x)
    return f(st["elbo_mean"]), f(st["lower_error"]), f(st["elbo_lw"]), proxy.ks


def run_resume(c, splits=None):
    """one-go run with saved eigensystem, then a resumed run from EVERY split point 1..k-1."""
    import tempfile
    k = c["k"]
    with tempfile.TemporaryDirectory(dir=scratch()) as tmp:
        ref = _one_elbo(c, {}, outdir=tmp)
        ev = np.load(os.path.join(tmp, "metric_%s_eigenvalues.npy" % c["space"]))
        vecs = np.load(os.path.join(tmp, "metric_%s_eigenvectors.npy" % c["space"]))
    out = {"ref": ref, "n_saved": int(ev.size), "splits": {}, "ev": ev, "ev_res": {}}
    for p in (splits or range(1, k)):
        with tempfile.TemporaryDirectory(dir=scratch()) as tmp2:
            out["splits"][int(p)] = _one_elbo(c, {"resume_eigenvalues": ev[:p].copy(), "resume_eigenvectors": vecs[:, :p].copy()},
                                              outdir=tmp2)
            f = os.path.join(tmp2, "metric_%s_eigenvalues.npy" % c["space"])
            out["ev_res"][int(p)] = np.load(f) if os.path.exists(f) else np.zeros(0)
    return out


def resume_checks(c, o):
    k, nb = c["k"], c["nb"]
    nrel = min(np.array(c["model"]["R"]).shape)
    out = []
    if k < nrel:          # the one-go run is iterative as well
        out.append(("batches", "batches_case %d %d 0 %s" % (k, nb, C.clist(["%d%%nat" % x for x in o["ref"][3]]))))
    sigma = 1 if c["space"] == "data" else 0
    for p, r in sorted(o["splits"].items()):
        out.append(("batches-resume", "batches_case %d %d %d %s" % (k, nb, p, C.clist(["%d%%nat" % x for x in r[3]]))))
        out.append(("shift-resume", "shift_case %d %s %s %s" % (sigma, C.cq(TOL), cql(o["ev"]), cql(o["ev_res"][p]))))
    return out


def resume_failure(c, o):
    if o["n_saved"] != c["k"]:
        return ("elbo-resume", "one-go run saved %d eigenvalues, %d requested" % (o["n_saved"], c["k"]))
    a = o["ref"]
    for p, r in sorted(o["splits"].items()):
        if sum(r[3]) != c["k"] - p:
            return ("elbo-resume", "%s ELBO (%s space) resumed from %d of %d eigenpairs computes %d more eigenvalues instead of %d" % (
                c["impl"], c["space"], p, c["k"], sum(r[3]), c["k"] - p))
        for name, x, y in (("elbo_mean", a[0], r[0]), ("lower_error", a[1], r[1]), ("elbo_lw", a[2], r[2])):
            if abs(x - y) > 1e-8 * max(1.0, abs(x)):
                return ("elbo-resume", "%s ELBO (%s space, %d eigenvalues in %d batches) resumed from %d eigenpairs: %s = %.12g, one go %.12g" % (
                    c["impl"], c["space"], c["k"], c["nb"], p, name, y, x))
    return None


# --------------------------------------------------------------------------------------------------
# pure-SLQ trace-log inside the ELBO: exact once the order reaches the operator dimension
# --------------------------------------------------------------------------------------------------

def slq_elbo_cases(ctx):
    rng = ctx.rng(3404)
    out = []
    shapes = [(2, 4), (4, 2), (3, 3)] if ctx.quick else [(2, 4), (4, 2), (3, 3), (3, 6), (6, 3), (5, 4), (2, 5)]
    for j, (nd, ns) in enumerate(shapes):
        m = gen_model(rng, nd=nd, ns=ns)
        if j < 2:       # axis-aligned response: diagonal operators, every probe gives the exact trace
            R = np.zeros((nd, ns))
            for i in range(min(nd, ns)):
                R[i, i] = 2.0 + i
            m["R"] = R.tolist()
        for space in ("signal", "data"):
            for req in (None, max(nd, ns) + 3):
                out.append({"kind": "slq_elbo", "model": m, "space": space, "order": req, "seed": 3 + j})
    return out


def run_slq_elbo(c):
    import jax
    import jax.numpy as jnp
    import nifty.re as jft
    from nifty.re import evidence_lower_bound as elb
    m = c["model"]
    lh, smp, logZ, gap, Lam, pos, res = model_objects(m)
    R, sig = np.array(m["R"]), np.array(m["sig"])
    nd, ns = R.shape
    seen = {}
    real = elb._slq_gauss_radau

    def rec(A, f, order, *a, **kw):
        seen["order"] = int(order)
        seen["n"] = int(kw.get("n"))
        return real(A, f, order, *a, **kw)
    K = 4
    kw = dict(trace_log_method="slq", slq_num_samples=K, slq_key=int(c["seed"]), metric_jit=False,
              output_directory=None, verbose=False, trace_log_space=c["space"])
    if c["order"] is not None:
        kw["slq_order"] = int(c["order"])
    elb._slq_gauss_radau = rec
    try:
        e, st = jft.estimate_evidence_lower_bound(lh, smp, 0, **kw)
    finally:
        elb._slq_gauss_radau = real
    Rn = R / sig[:, None]
    if c["space"] == "signal":
        Op, f = np.eye(ns) + Rn.T @ Rn, np.log
    else:
        Op, f = Rn @ Rn.T, np.log1p
    n = Op.shape[0]
    w, U = np.linalg.eigh(Op)
    fOp = U @ np.diag(f(np.maximum(w, 0.0) if c["space"] == "data" else w)) @ U.T
    z = np.asarray(jax.random.rademacher(jax.random.split(jax.random.PRNGKey(int(c["seed"])), 2)[0], shape=(K, n), dtype=jnp.float64))
    want = float(np.mean([zz @ fOp @ zz for zz in z]))
    requested = 64 if c["order"] is None else int(c["order"])
    return {"got": float(st["trace_log_slq"]), "want": want, "order_used": seen.get("order"), "op_size": n,
            "requested": requested, "logdet": float(np.linalg.slogdet(np.eye(ns) + Rn.T @ Rn)[1]),
            "diag": bool(np.count_nonzero(Op - np.diag(np.diagonal(Op))) == 0)}


def slq_elbo_failure(c, o):
    tag = "%s space, %dx%d model, requested order %s" % (c["space"], len(c["model"]["d"]), len(c["model"]["R"][0]), c["order"] or "default (64)")
    if abs(o["got"] - o["want"]) > 1e-7 * max(1.0, abs(o["want"])):
        return ("slq-elbo-quadrature", "pure-SLQ trace-log (%s; order used %s, operator size %d) is %.12g, the mean of z^T f(A) z over its probes is %.12g" % (
            tag, o["order_used"], o["op_size"], o["got"], o["want"]))
    if o["diag"] and abs(o["got"] - o["logdet"]) > 1e-7 * max(1.0, abs(o["logdet"])):
        return ("slq-elbo-quadrature", "pure-SLQ trace-log of a diagonal operator (%s) is %.12g, exact log-determinant %.12g" % (tag, o["got"], o["logdet"]))
    return None


# --------------------------------------------------------------------------------------------------
# option combinations, both APIs
# --------------------------------------------------------------------------------------------------

def option_cases(ctx):
    rng = ctx.rng(3405)
    out = []
    for (nd, ns) in ([(3, 5)] if ctx.quick else [(3, 5), (5, 3), (4, 4)]):
        m = gen_model(rng, nd=nd, ns=ns)
        R = np.array(m["R"])
        for i in range(min(nd, ns)):
            R[i, i] += (i + 1) * 1.5
        m["R"] = R.tolist()
        out.append({"kind": "options", "model": m})
    return out


def run_options(c):
    """compute_all x verbose x n_eigenvalues (below / at / above the relevant dofs) x n_batches, nifty.re and nifty.cl"""
    import logging
    import tempfile
    import nifty.cl as ift
    m = c["model"]
    nd, ns = np.array(m["R"]).shape
    nrel = min(nd, ns)
    ham, sl = _classic_objects(m)
    rows = []
    for ca in (False, True):
        for vb in (False, True):
            for n in (1, nrel, nrel + 2):
                for nb in (1, 3):
                    row = {"ca": ca, "vb": vb, "n": n, "nb": nb}
                    for impl in ("jax", "classic"):
                        with tempfile.TemporaryDirectory(dir=scratch()) as tmp:
                            logging.disable(logging.CRITICAL)
                            try:
                                if impl == "jax":
                                    o = run_elbo(m, n, outdir=tmp, compute_all=ca, verbose=vb, n_batches=nb, min_lh_eval=-1.0, metric_jit=False)
                                    mean, low = o["stats"]["elbo_mean"], o["stats"]["lower_error"]
                                else:
                                    e, st = ift.estimate_evidence_lower_bound(ham, sl, n, compute_all=ca, verbose=vb, n_batches=nb,
                                                                              min_lh_eval=-1.0, output_directory=tmp)
                                    f = lambda x: float(np.asarray(x.asnumpy())) if hasattr(x, "asnumpy") else float(x)
                                    mean, low = f(st["elbo_mean"]), f(st["lower_error"])
                                fn = os.path.join(tmp, "metric_signal_eigenvalues.npy")
                                cnt = int(np.load(fn).size) if os.path.exists(fn) else -1
                                row[impl] = {"count": cnt, "mean": mean, "lower": low}
                            except ValueError as e:
                                row[impl] = {"count": None, "error": str(e)[:80]}
                            finally:
                                logging.disable(logging.NOTSET)
                    rows.append(row)
    _, _, logZ, _, _, _, _ = model_objects(m)
    return {"rows": rows, "nrel": nrel, "logZ": logZ}


def options_checks(c, o):
    out = []
    for r in o["rows"]:
        for impl in ("jax", "classic"):
            cnt = r[impl]["count"]
            obs = "None" if cnt is None else "(Some %d%%nat)" % max(cnt, 0)
            out.append(("options-%s" % impl, "neig_case %s %s %d %d %s" % (C.cbool(r["ca"]), C.cbool(r["vb"]), r["n"], o["nrel"], obs)))
    return out


def options_failure(c, o):
    for r in o["rows"]:
        tag = "compute_all=%s, verbose=%s, n_eigenvalues=%d (relevant dofs %d), n_batches=%d" % (r["ca"], r["vb"], r["n"], o["nrel"], r["nb"])
        j, k = r["jax"], r["classic"]
        if (j["count"] is None) != (k["count"] is None):
            return ("elbo-options", "%s: one API raises, the other does not (nifty.re: %s, nifty.cl: %s)" % (tag, j, k))
        if j["count"] is None:
            if r["ca"] or r["n"] <= o["nrel"]:
                return ("elbo-options", "%s: both APIs raise ValueError (%s)" % (tag, j.get("error")))
            continue
        for impl, x in (("nifty.re", j), ("nifty.cl", k)):
            if (r["ca"] or r["n"] == o["nrel"]) and abs(x["mean"] - o["logZ"]) > 1e-8 * max(1.0, abs(o["logZ"])):
                return ("elbo-options", "%s: %s ELBO %.12g differs from the closed-form log-evidence %.12g (%d eigenvalues entered)" % (
                    tag, impl, x["mean"], o["logZ"], x["count"]))
        if abs(j["mean"] - k["mean"]) > 1e-8 * max(1.0, abs(j["mean"])) or abs(j["lower"] - k["lower"]) > 1e-8 * max(1.0, abs(j["lower"])):
            return ("elbo-options", "%s: nifty.re ELBO %.12g (lower_error %.6g) vs nifty.cl %.12g (lower_error %.6g)" % (
                tag, j["mean"], j["lower"], k["mean"], k["lower"]))
    return None


# --------------------------------------------------------------------------------------------------
# Gauss quadrature after a Lanczos breakdown; analytic prior term in the resolved trace-log space
# --------------------------------------------------------------------------------------------------

def gauss_cases(ctx):
    rng = ctx.rng(3406)
    out = []
    for i in range(8 if ctx.quick else 40):
        n = int(rng.integers(3, 7))
        kind = ["diag", "repeated", "dense"][i % 3]
        A = gen_spd(rng, n, kind)
        vs = []
        for _ in range(3):
            v = rng.integers(-3, 4, size=n).astype(float)
            if kind == "diag":
                v[rng.integers(0, n)] = 0.0
            if not np.any(v):
                v[0] = 1.0
            vs.append(v.tolist())
        out.append({"kind": "gauss", "A": A.tolist(), "vs": vs, "order": n + (2 if i % 2 else 0)})
    return out


def run_gauss(c):
    import jax.numpy as jnp
    from nifty.re.num import lanczos as lz
    A = np.array(c["A"])
    n = A.shape[0]
    Aj = jnp.asarray(A)
    Ts, per = [], []
    for v in c["vs"]:
        T, _ = lz.lanczos_tridiag(lambda x: Aj @ x, jnp.asarray(np.array(v, dtype=float)), order=int(c["order"]))
        T = np.asarray(T)
        Ts.append(T)
        g = float(lz._gauss_unit(jnp.asarray(np.diagonal(T)), jnp.asarray(np.diagonal(T, 1)), jnp.log, clip_eigs=False,
                                 eig_clip=1e-14, clip_eigs_max=None, nan_to_num=False, discard_eigs_below=1e-14))
        per.append(g)
    est = float(lz.stochastic_logdet_from_lanczos(jnp.asarray(np.array(Ts)), n))
    w, U = np.linalg.eigh(A)
    logA = U @ np.diag(np.log(w)) @ U.T
    want = [float((np.array(v) / np.linalg.norm(v)) @ logA @ (np.array(v) / np.linalg.norm(v))) for v in c["vs"]]
    return {"Ts": Ts, "per": per, "est": est, "want": want, "n": n}


def gauss_checks(c, o):
    out = []
    for T, g in zip(o["Ts"], o["per"]):
        if not math.isfinite(g):
            out.append(("gauss", "false"))
            continue
        ev, U = np.linalg.eigh(T)
        nodes = C.clist(["(%s, %s, %s)" % (C.cq(float(e)), C.cq(float(U[0, i])), C.cq(float(np.log(e)) if e >= 1e-14 else 0.0))
                         for i, e in enumerate(ev)])
        out.append(("gauss", "gauss_case %s %s %s %s" % (C.cq(1e-14), C.cq(TOL), nodes, C.cq(g))))
    return out


def gauss_failure(c, o):
    for k, (g, w) in enumerate(zip(o["per"], o["want"])):
        if not math.isfinite(g) or abs(g - w) > 1e-8 * max(1.0, abs(w)):
            return ("gauss-breakdown", "e1^T log(T) e1 of the zero-padded tridiagonal (order %d, dimension %d, start vector %d) is %r, v^T log(A) v = %.12g" % (
                c["order"], o["n"], k, g, w))
    want = o["n"] * float(np.mean(o["want"]))
    if not math.isfinite(o["est"]) or abs(o["est"] - want) > 1e-8 * max(1.0, abs(want)):
        return ("gauss-breakdown", "stochastic_logdet_from_lanczos (order %d, dimension %d) gives %r, exact value for these probes %.12g" % (
            c["order"], o["n"], o["est"], want))
    return None


def analytic_cases(ctx):
    rng = ctx.rng(3407)
    out = []
    for (nd, ns) in ([(3, 5), (5, 3)] if ctx.quick else [(3, 5), (5, 3), (4, 4), (2, 6)]):
        m = gen_model(rng, nd=nd, ns=ns)
        for sp in ("signal", "data", "auto"):
            out.append({"kind": "analytic", "model": m, "space": sp})
        out.append({"kind": "analytic", "model": m, "space": "signal", "impl": "classic"})
    return out


def run_analytic(c):
    import tempfile
    m = c["model"]
    nd, ns = np.array(m["R"]).shape
    if c.get("impl") == "classic":
        import nifty.cl as ift
        ham, sl = _classic_objects(m)
        _, _, logZ, _, Lam, _, _ = model_objects(m)
        with tempfile.TemporaryDirectory(dir=scratch()) as tmp:
            e, st = ift.estimate_evidence_lower_bound(ham, sl, 1, compute_all=True, analytic_prior_term=True, verbose=False,
                                                      output_directory=tmp)
            ev = np.load(os.path.join(tmp, "metric_signal_eigenvalues.npy"))
        f = lambda x: float(np.asarray(x.asnumpy())) if hasattr(x, "asnumpy") else float(x)
        return {"is_data": False, "ev": ev, "stats": {k: f(v) for k, v in st.items()}, "logZ": logZ,
                "trinv": float(np.trace(np.linalg.inv(Lam))), "nd": nd, "ns": ns}
    with tempfile.TemporaryDirectory(dir=scratch()) as tmp:
        o = run_elbo(m, 1, outdir=tmp, compute_all=True, analytic_prior_term=True, trace_log_space=c["space"], metric_jit=False)
        fd, fs = os.path.join(tmp, "metric_data_eigenvalues.npy"), os.path.join(tmp, "metric_signal_eigenvalues.npy")
        is_data = os.path.exists(fd)
        ev = np.load(fd if is_data else fs)
    Lam = o["Lam"]
    return {"is_data": bool(is_data), "ev": ev, "stats": o["stats"], "logZ": o["logZ"], "trinv": float(np.trace(np.linalg.inv(Lam))),
            "nd": nd, "ns": ns}


def analytic_checks(c, o):
    sp = {"signal": "SpSignal", "data": "SpData", "auto": "SpAuto"}[c["space"]]
    extra = []
    if not o["is_data"] and "trace_inv_const" in o["stats"]:
        extra.append(("trace-const", "trace_const_case %d %d %s" % (o["ns"], min(o["nd"], o["ns"]), C.cq(o["stats"]["trace_inv_const"]))))
    return extra + [("space", "space_case %s %d %d %s" % (sp, o["nd"], o["ns"], C.cbool(o["is_data"]))),
            ("trace-inv", "trace_inv_case %s %d %d %s %s %s" % (sp, o["nd"], o["ns"], C.cq(TOL), cql(o["ev"]), C.cq(o["stats"]["trace_inv_exact"])))]


def analytic_failure(c, o):
    st = o["stats"]
    tag = "%s analytic_prior_term=True, trace_log_space=%r, %d data / %d parameters" % (
        "nifty.cl" if c.get("impl") == "classic" else "nifty.re", c["space"], o["nd"], o["ns"])
    if abs(st["trace_inv_total"] - o["trinv"]) > 1e-8 * max(1.0, o["trinv"]):
        return ("elbo-analytic-prior", "%s: Tr(Lambda^-1) is reported as %.12g, exact %.12g" % (tag, st["trace_inv_total"], o["trinv"]))
    if abs(st["elbo_mean"] - o["logZ"]) > 1e-8 * max(1.0, abs(o["logZ"])):
        return ("elbo-analytic-prior", "%s: ELBO %.12g differs from the closed-form log-evidence %.12g" % (tag, st["elbo_mean"], o["logZ"]))
    if st["elbo_mean"] > o["logZ"] + 1e-8 * max(1.0, abs(o["logZ"])):
        return ("elbo-analytic-prior", "%s: ELBO %.12g exceeds the log-evidence %.12g" % (tag, st["elbo_mean"], o["logZ"]))
    return None


# --------------------------------------------------------------------------------------------------
# resume from an over-complete eigensystem given in ascending order
# --------------------------------------------------------------------------------------------------

def resume_over_cases(ctx):
    rng = ctx.rng(3408)
    out = []
    for (nd, ns, k) in ([(5, 6, 2), (6, 4, 3)] if ctx.quick else [(5, 6, 2), (6, 4, 3), (6, 7, 4), (4, 4, 1)]):
        m = gen_model(rng, nd=nd, ns=ns)
        R = np.array(m["R"])
        for i in range(min(nd, ns)):
            R[i, i] += (i + 1) * 1.5
        m["R"] = R.tolist()
        for impl in ("jax", "classic"):
            out.append({"kind": "resume_over", "model": m, "k": k, "impl": impl})
    return out


def run_resume_over(c):
    """all eigenpairs from a compute_all run, handed back in ASCENDING order (numpy.linalg.eigh convention)
    with a smaller n_eigenvalues: must equal the one-go run with n_eigenvalues."""
    import tempfile
    m, k = c["model"], int(c["k"])
    nd, ns = np.array(m["R"]).shape
    nrel = min(nd, ns)
    cc = {"model": m, "k": nrel, "nb": 1, "impl": c["impl"], "space": "signal"}
    with tempfile.TemporaryDirectory(dir=scratch()) as tmp:
        _one_elbo(cc, {}, outdir=tmp)
        ev = np.load(os.path.join(tmp, "metric_signal_eigenvalues.npy"))
        vecs = np.load(os.path.join(tmp, "metric_signal_eigenvectors.npy"))
    asc = np.argsort(ev)
    ck = {"model": m, "k": k, "nb": 2, "impl": c["impl"], "space": "signal"}
    ref = _one_elbo(ck, {})
    res = _one_elbo(ck, {"resume_eigenvalues": ev[asc].copy(), "resume_eigenvectors": vecs[:, asc].copy()})
    out = {"ref": ref, "res": res, "ev_given": ev[asc], "nrel": nrel, "ns": ns}
    if c["impl"] == "jax":
        o = run_elbo(m, k, n_batches=2, min_lh_eval=-1.0, metric_jit=False,
                     resume_eigenvalues=ev[asc].copy(), resume_eigenvectors=vecs[:, asc].copy())
        out["samples"], out["hs"], out["lower"] = o["samples"], o["hs"], o["stats"]["lower_error"]
    return out


def resume_over_checks(c, o):
    if c["impl"] != "jax":
        return []
    return [("resume-over", "resume_over_case %d %d %d %s %s %s %s %s" % (
        o["nrel"], o["ns"], int(c["k"]), cql(np.log(o["ev_given"])), cql(o["hs"]), C.cq(TOL), C.cq(o["lower"]), cql(o["samples"])))]


def resume_over_failure(c, o):
    a, r = o["ref"], o["res"]
    for name, x, y in (("elbo_mean", a[0], r[0]), ("lower_error", a[1], r[1]), ("elbo_lw", a[2], r[2])):
        if abs(x - y) > 1e-8 * max(1.0, abs(x)):
            return ("elbo-resume", "%s ELBO with n_eigenvalues=%d resumed from all %d eigenpairs in ascending order: %s = %.12g, one go %.12g" % (
                c["impl"], c["k"], o["nrel"], name, y, x))
    return None

# --------------------------------------------------------------------------------------------------
# direct oracle
# --------------------------------------------------------------------------------------------------

def direct_failure(c):
    k = c["kind"]
    if k == "lanczos":
        o = run_lanczos(c)
        A = np.array(c["A"])
        order = c["order"]
        nst = 0
        while nst < order and o["beta"][nst] > 0:
            nst += 1
        m = order if nst == order else nst + 1           # number of valid basis vectors
        V = o["basis"][:m]
        T = np.diag(o["alpha"][:m]) + np.diag(o["beta"][:m - 1], 1) + np.diag(o["beta"][:m - 1], -1)
        scale = max(1.0, np.max(np.abs(A)))
        if np.max(np.abs(V @ V.T - np.eye(m))) > 1e-9:
            return ("lanczos-orthonormal", "Lanczos basis is not orthonormal (%.2e)" % np.max(np.abs(V @ V.T - np.eye(m))))
        if np.max(np.abs(V @ A @ V.T - T)) > 1e-9 * scale:
            return ("lanczos-tridiagonal", "T differs from V^T A V by %.2e" % np.max(np.abs(V @ A @ V.T - T)))
        ev = np.linalg.eigvalsh(A)
        ritz = np.linalg.eigvalsh(T)
        if ritz[0] < ev[0] - 1e-9 * scale or ritz[-1] > ev[-1] + 1e-9 * scale:
            return ("lanczos-ritz", "Ritz values leave the spectrum of the operator")
        if nst < order and np.max(np.abs(A @ V.T - V.T @ T)) > 1e-8 * scale:
            return ("lanczos-breakdown", "breakdown reported after %d steps but the Krylov space is not invariant (|A V - V T| = %.2e)" % (
                nst + 1, np.max(np.abs(A @ V.T - V.T @ T))))
        if nst < order and (np.any(o["alpha"][m:] != 0) or np.any(o["basis"][m:] != 0)):
            return ("lanczos-padding", "output is not zero-padded after the breakdown")
        if order == len(c["v"]) and nst >= order - 1:
            if np.max(np.abs(ritz - ev)) > 1e-8 * scale:
                return ("lanczos-spectrum", "at full order the eigenvalues of T differ from those of A by %.2e" % np.max(np.abs(ritz - ev)))
        return None
    if k == "resume":
        return resume_failure(c, run_resume(c))
    if k == "slq_elbo":
        return slq_elbo_failure(c, run_slq_elbo(c))
    if k == "options":
        return options_failure(c, run_options(c))
    if k == "resume_over":
        return resume_over_failure(c, run_resume_over(c))
    if k == "gauss":
        return gauss_failure(c, run_gauss(c))
    if k == "analytic":
        return analytic_failure(c, run_analytic(c))
    if k == "slq":
        return _direct_slq(c)
    if k == "elbo_full":
        return _direct_elbo_full(c)
    if k == "elbo":
        m, kk, nb = c["model"], c["k"], c["nb"]
        o = run_elbo(m, kk, n_batches=nb, min_lh_eval=-1.0)
        full = run_elbo(m, 0, compute_all=True)
        a, b = o["stats"]["elbo_mean"], full["stats"]["elbo_mean"]
        if not (a >= b - 1e-9 and a - o["stats"]["lower_error"] <= b + 1e-9):
            return ("elbo-truncated", "ELBO with %d eigenvalues %.10g (lower_error %.6g) does not bracket the full one %.10g" % (
                kk, a, o["stats"]["lower_error"], b))
        return None
    raise ValueError(k)


def _direct_slq(c):
    import jax
    import jax.numpy as jnp
    from nifty.re.num import lanczos as lz
    A = np.array(c["A"])
    n = A.shape[0]
    K = c["n_samples"]
    key = jax.random.PRNGKey(c["seed"])
    est = float(lz.stochastic_lq_logdet(jnp.asarray(A), n, K, key))
    w, U = np.linalg.eigh(A)
    logA = U @ np.diag(np.log(w)) @ U.T
    z = np.asarray(jax.random.rademacher(jax.random.split(key, 2)[0], shape=(K, n), dtype=jnp.float64))
    want = float(np.mean([zz @ logA @ zz for zz in z]))
    if abs(est - want) > 1e-8 * max(1.0, abs(want)):
        return ("slq-quadrature", "stochastic_lq_logdet at order = n gives %.12g, mean of z^T log(A) z over its probes is %.12g" % (est, want))
    if c.get("diag") and abs(est - np.linalg.slogdet(A)[1]) > 1e-8 * max(1.0, abs(est)):
        return ("slq-diagonal", "stochastic_lq_logdet of a diagonal matrix %.12g differs from slogdet %.12g" % (est, np.linalg.slogdet(A)[1]))
    return None


def _direct_elbo_full(c):
    m = c["model"]
    o = run_elbo(m, 0, compute_all=True)
    if abs(o["stats"]["elbo_mean"] - o["logZ"]) > 1e-8 * max(1.0, abs(o["logZ"])):
        return ("elbo-closed-form", "ELBO with all eigenvalues %.12g differs from the log-evidence %.12g" % (o["stats"]["elbo_mean"], o["logZ"]))
    o2 = run_elbo(m, 0, compute_all=True, metric_jit=False)
    if abs(o2["stats"]["elbo_mean"] - o["stats"]["elbo_mean"]) > 1e-10 * max(1.0, abs(o["logZ"])):
        return ("elbo-jit", "eager and jitted metric give different ELBOs")
    o3 = run_elbo(m, 0, compute_all=True, trace_log_space="data")
    if abs(o3["stats"]["elbo_mean"] - o["stats"]["elbo_mean"]) > 1e-8 * max(1.0, abs(o["logZ"])):
        return ("elbo-data-space", "signal-space ELBO %.12g, data-space ELBO %.12g" % (o["stats"]["elbo_mean"], o3["stats"]["elbo_mean"]))
    sh = c.get("shift")
    if sh is not None:
        o4 = run_elbo(m, 0, shift=sh, compute_all=True)
        if o4["stats"]["elbo_mean"] > o["logZ"] + 1e-9 or abs(o["logZ"] - o4["stats"]["elbo_mean"] - o4["gap"]) > 1e-8 * max(1.0, o4["gap"]):
            return ("elbo-bound", "shifted approximation: ELBO %.12g, log-evidence %.12g, expected gap %.12g" % (
                o4["stats"]["elbo_mean"], o["logZ"], o4["gap"]))
    if c.get("classic"):
        f = _classic_elbo(m)
        if f is not None and abs(f - o["stats"]["elbo_mean"]) > 1e-8 * max(1.0, abs(o["logZ"])):
            return ("elbo-classic", "classic ELBO %.12g differs from the JAX one %.12g" % (f, o["stats"]["elbo_mean"]))
    return None


def _classic_elbo(m):
    import nifty.cl as ift
    R, sig, d = np.array(m["R"]), np.array(m["sig"]), np.array(m["d"])
    nd, ns = R.shape
    dom, tgt = ift.UnstructuredDomain(ns), ift.UnstructuredDomain(nd)

    class _Mat(ift.LinearOperator):
        def __init__(self):
            self._domain = ift.DomainTuple.make(dom)
            self._target = ift.DomainTuple.make(tgt)
            self._capability = self.TIMES | self.ADJOINT_TIMES

        def apply(self, x, mode):
            self._check_input(x, mode)
            v = x.asnumpy()
            return ift.makeField(self._tgt(mode), R @ v if mode == self.TIMES else R.T @ v)
    Rop = _Mat()
    N = ift.DiagonalOperator(ift.makeField(tgt, sig ** 2))
    lh = ift.GaussianEnergy(data=ift.makeField(tgt, d), inverse_covariance=N.inverse) @ Rop
    ham = ift.StandardHamiltonian(lh)
    Lam = np.eye(ns) + R.T @ np.diag(1 / sig ** 2) @ R
    mean = np.linalg.solve(Lam, R.T @ (d / sig ** 2))
    w, U = np.linalg.eigh(Lam)
    Lmh = U @ np.diag(w ** -0.5) @ U.T
    res = [ift.makeField(dom, np.sqrt(ns) * Lmh[:, k]) for k in range(ns)]
    sl = ift.ResidualSampleList(ift.makeField(dom, mean), res + res, [False] * ns + [True] * ns)
    e, st = ift.estimate_evidence_lower_bound(ham, sl, min(nd, ns), compute_all=True, verbose=False)
    return float(np.asarray(st["elbo_mean"].asnumpy()))


# --------------------------------------------------------------------------------------------------

class C34(C.Check):
    prop = "C34"
    coq_dir = "C34"
    extra_targets = ["C34/Exec.vo"]
    trusted_base = [
        "Coq 8.16.1 kernel (coqc, vm_compute for the correspondence); MathComp (Sylvester); classical reals of the standard library for the two ELBO theorems over R, all other theorems closed",
        "hand model coq/C34/Model.v of _lanczos_tridiag (reorth_mode = 2), of the eigsh trace-log bookkeeping and of the batch schedule (tie = correspondence, not translation)",
        "residual norms (square roots) enter the exact model as witnesses taken from the implementation and are verified against the model's residuals (b^2 = <w,w> within 1e-8)",
        "scipy eigsh / eigh, jnp.linalg.eigh (Gauss quadrature nodes) are used as black boxes; floating-point loss of orthogonality is outside the theorems",
        "observation hook: the module attribute `ssl` of nifty.re.evidence_lower_bound is replaced by a recording proxy during a call",
    ]
    assumptions = [
        "exact arithmetic in the theorems",
        "ELBO theorems: linear Gaussian model, one eigen-mode (modes add up), NIFTy's convention of dropping model-independent constants",
        "the not-computed eigenvalues are at most the smallest computed one (the solver returns the largest first) and at least 1",
    ]

    def translate(self, ctx):
        for rel in ("nifty/re/evidence_lower_bound.py", "nifty/cl/evidence_lower_bound.py"):
            msg = schedule_anchor(os.path.join(ctx.repo, rel))
            if msg:
                raise C.TranslationError(msg)

    def correspondence(self, ctx, res):
        _setup()
        checks, meta, dist = [], [], {}
        self.cases = []
        nontriv = set()
        cases = [c for c in ctx.corpus() if c.get("kind") in ("lanczos", "elbo", "resume", "slq_elbo", "options", "gauss", "analytic", "resume_over")] + lanczos_cases(ctx) + elbo_cases(ctx) + resume_cases(ctx) + slq_elbo_cases(ctx) + option_cases(ctx) + gauss_cases(ctx) + analytic_cases(ctx) + resume_over_cases(ctx)
        self.extra_obs = []
        self.resume_obs = []
        self.opt_obs = []
        self.slq_obs = []
        for c in cases:
            try:
                if c["kind"] == "lanczos":
                    o = run_lanczos(c)
                    cs = lanczos_checks(c, o)
                    nst = int(np.sum(o["beta"] > 0))
                    nontriv.add(("lanczos", len(c["v"]), c["order"], nst < c["order"]))
                elif c["kind"] == "gauss":
                    o = run_gauss(c)
                    cs = gauss_checks(c, o)
                    self.extra_obs.append((c, o, gauss_failure))
                    nontriv.add(("gauss", o["n"], c["order"], tuple(int(np.sum(np.abs(np.diagonal(T, 1)) > 0)) for T in o["Ts"])))
                elif c["kind"] == "resume_over":
                    o = run_resume_over(c)
                    cs = resume_over_checks(c, o)
                    self.extra_obs.append((c, o, resume_over_failure))
                    nontriv.add(("resume_over", c["impl"], c["k"], o["nrel"]))
                elif c["kind"] == "analytic":
                    o = run_analytic(c)
                    cs = analytic_checks(c, o)
                    self.extra_obs.append((c, o, analytic_failure))
                    nontriv.add(("analytic", c["space"], o["nd"], o["ns"], o["is_data"]))
                elif c["kind"] == "options":
                    o = run_options(c)
                    cs = options_checks(c, o)
                    self.opt_obs.append((c, o))
                    for r in o["rows"]:
                        nontriv.add(("options", r["ca"], r["vb"], r["n"], r["nb"], r["jax"]["count"], r["classic"]["count"]))
                elif c["kind"] == "slq_elbo":
                    o = run_slq_elbo(c)
                    cs = [("slq-order", "slq_order_case %d %d %d" % (o["requested"], o["op_size"], o["order_used"] if o["order_used"] is not None else 0))]
                    self.slq_obs.append((c, o))
                    nontriv.add(("slq_elbo", c["space"], o["op_size"], o["requested"], o["order_used"]))
                elif c["kind"] == "resume":
                    o = run_resume(c)
                    cs = resume_checks(c, o)
                    self.resume_obs.append((c, o))
                    for p, r in o["splits"].items():
                        nontriv.add(("resume", c["impl"], c["space"], c["k"], c["nb"], p, tuple(r[3])))
                else:
                    cs, o = elbo_checks(c, None)
                    nontriv.add(("elbo", c["k"], c["nb"], tuple(o["batches"])))
            except Exception as e:
                res.add_broken("correspondence", "implementation raised", {"case": _js({k: v for k, v in c.items() if not k.startswith("_")}), "error": repr(e)[:300]})
                continue
            self.cases.append(c)
            for lab, t in cs:
                checks.append(t)
                meta.append((lab, c))
                dist[lab] = dist.get(lab, 0) + 1
        name = "corr%d" % os.getpid()
        try:
            bad = C.eval_cases(self.prop, name, HEADER, checks)
        finally:
            for f in os.listdir(ctx.run_dir()):
                if f.startswith("cases_%s_" % name) or f.startswith(".cases_%s_" % name):
                    try:
                        os.remove(os.path.join(ctx.run_dir(), f))
                    except OSError:
                        pass
        for i in bad[:5]:
            lab, c = meta[i]
            res.add_broken("correspondence", "%s: implementation vs coq/C34 model" % lab,
                           {"case": _js({k: v for k, v in c.items() if not k.startswith("_")}), "check": checks[i][:1500]})
        self.bad_cases = [meta[i][1] for i in bad]
        res.coverage.update({
            "evaluations": len(checks), "distinct_nontrivial": len(nontriv),
            "rule": "SPD matrices B B^T + D with small-integer entries, diagonal ones, ones with two distinct eigenvalues (early breakdown), n = 2..6, integer start vectors (also inside invariant subspaces), order 1..n: alphas, basis vectors and every residual norm against the exact model; linear Gaussian models (3-5 data, 4-6 parameters), k < all eigenvalues in 1-3 batches: ELBO samples, lower_error, batch sizes fresh and resumed; resume suite: one-go run with saved eigensystem, then a resumed run from EVERY split point 1..k-1, nifty.re in signal and data space and nifty.cl, k < all and k = all eigenvalues: eigsh batch sizes against the model's schedule, exactly; distinct = (kind, n, order, breakdown) resp. (kind, k, batches) resp. (impl, space, k, batches, split, observed sizes); gauss: _gauss_unit with discard_eigs_below on tridiagonals zero-padded after a breakdown (diagonal / degenerate matrices, order = n and n + 2) against gauss_sum over the eigen-decomposition; analytic: analytic_prior_term with trace_log_space signal / data / auto on models with fewer and with more data than parameters: resolved space and trace_inv_exact from the saved eigenvalues; resume_over: all eigenpairs handed back in ascending order with a smaller n_eigenvalues (both APIs; nifty.re: ELBO samples and lower_error against resume_select); analytic also for nifty.cl (trace_inv_const); options: compute_all x verbose x n_eigenvalues below/at/above the relevant dofs x n_batches in nifty.re and nifty.cl: number of eigenvalues that entered (saved eigensystem) or ValueError against effective_n; pure-SLQ ELBO (n_eigenvalues = 0) on non-square and square models in both spaces with the default and an over-large order: the order handed to _slq_gauss_radau against clamp_order, exactly",
            "samples": [_js({k: v for k, v in c.items() if not k.startswith("_")}) for c in self.cases[:2]],
            "input_distribution": dist, "disagreements": len(bad), "exhaustive": False,
        })
        return bad

    def oracle(self, ctx, res, hints, budget):
        _setup()
        rng = ctx.rng(3410)
        todo = [c for c in getattr(self, "bad_cases", [])]
        n_hints = len(todo)
        todo += [c for c in ctx.corpus() if c.get("kind") in ("slq", "elbo_full")]
        todo += [c for c in getattr(self, "cases", []) if c.get("kind") not in ("resume", "slq_elbo", "options", "gauss", "analytic", "resume_over")]
        n_res = 0
        for c, o, fail in getattr(self, "extra_obs", []):
            n_res += 1
            f = fail(c, o)
            if f:
                res.add_failing({"fn": c["kind"], "class": f[0]}, f[1], _js(c))
        for c, o in getattr(self, "opt_obs", []):
            n_res += len(o["rows"])
            f = options_failure(c, o)
            if f:
                res.add_failing({"fn": "options", "class": f[0]}, f[1], _js(c))
        for c, o in getattr(self, "slq_obs", []):
            n_res += 1
            f = slq_elbo_failure(c, o)
            if f:
                res.add_failing({"fn": "slq_elbo", "class": f[0], "space": c["space"]}, f[1], _js(c))
                if len(res.failing) >= 3:
                    break
        for c, o in getattr(self, "resume_obs", []):
            n_res += 1
            f = resume_failure(c, o)
            if f:
                res.add_failing({"fn": "resume", "class": f[0], "impl": c["impl"], "space": c["space"]}, f[1], _js(c))
                if len(res.failing) >= 3:
                    break
        for i in range((6 if ctx.quick else 40) * budget):
            n = int(rng.integers(2, 7))
            diag = (i % 3 == 0)
            A = gen_spd(rng, n, "diag" if diag else "dense")
            todo.append({"kind": "slq", "A": A.tolist(), "n_samples": int(rng.integers(2, 6)), "seed": int(rng.integers(0, 2 ** 31)), "diag": diag})
        for i in range((3 if ctx.quick else 20) * budget):
            m = gen_model(rng)
            ns = len(m["R"][0])
            todo.append({"kind": "elbo_full", "model": m, "shift": (rng.integers(-2, 3, size=ns) / 4).tolist(), "classic": i % 3 == 0})
        n, stats = 0, {}
        for kk, c in enumerate(todo):
            if kk >= n_hints and res.failing:
                break
            try:
                f = direct_failure(c)
            except Exception as e:
                f = ("exception", "implementation raised: %r" % (e,))
            n += 1
            stats[c["kind"]] = stats.get(c["kind"], 0) + 1
            if f:
                res.add_failing({"fn": c["kind"], "class": f[0]}, f[1], _js({k: v for k, v in c.items() if not k.startswith("_")}))
                if len(res.failing) >= 3:
                    break
        # resumed runs must reproduce the one-go result (collected during the correspondence)
        for c in getattr(self, "cases", []):
            if "_resume_mean" in c and not res.failing:
                a, b = c["_resume_mean"]
                n += 1
                if abs(a - b) > 1e-8 * max(1.0, abs(a)):
                    res.add_failing({"fn": "elbo", "class": "elbo-resume"}, "one-go ELBO %.12g, resumed ELBO %.12g" % (a, b),
                                    _js({k: v for k, v in c.items() if not k.startswith("_")}))
        res.coverage["impl_property_evaluations"] = n + n_res
        res.coverage["oracle_distribution"] = stats
        shutil.rmtree(scratch(), ignore_errors=True)

    def replay(self, ctx, rp):
        _setup()
        if rp.get("kind") == "no-failing-input-found":
            checks = []
            for b in rp.get("broken", []):
                c = (b.get("detail") or {}).get("case")
                if b.get("kind") != "correspondence" or not isinstance(c, dict):
                    return True
                checks += [t for _, t in (lanczos_checks(c, run_lanczos(c)) if c["kind"] == "lanczos" else elbo_checks(c, None)[0])]
            ok, _ = C.coq_build(["C34/Exec.vo"])
            return bool(C.eval_cases(self.prop, "replay%d" % os.getpid(), HEADER, checks)) if (ok and checks) else True
        c = rp["input"]
        if c.get("kind") == "elbo" and rp.get("signature", {}).get("class") == "elbo-resume":
            _, _ = elbo_checks(c, None)
            a, b = c["_resume_mean"]
            return abs(a - b) > 1e-8 * max(1.0, abs(a))
        return direct_failure(c) is not None


CHECK = C34()
