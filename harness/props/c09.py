"""C09 -- Harmonic transforms follow the volume convention and all backends agree.

Tie: hand model coq/C09/Model.v (factor bookkeeping of FFTOperator.apply /
HartleyOperator._apply_cartesian / _dom / Hartley convention, DFT as sums against a kernel matrix)
+ correspondence inside coqc: the real operators are applied (all four modes, both Hartley
conventions, real and complex input, sub-spaces of product domains) to integer/dyadic vectors on grids
whose axis lengths are 1, 2 or 4 with power-of-two distances, where float64 is exact and the DFT
matrix lives in the Gaussian rationals; outputs must equal the model's EXACTLY.  The bare kernels
ducc_dispatch.fftn/ifftn/hartley, their SciPy twins and re.correlated_field.hartley are compared with
the model kernels the same way.
Differential runs (labelled as such, not proofs): ducc0 vs SciPy vs JAX vs an explicit DFT matrix for
arbitrary axis lengths, both conventions; JAX HEALPix SHT vs classic SHTOperator.
Direct oracle (independent of Coq): dense matrices of the operators in all four modes against an
explicit exp(-2 pi i jk/n) reference with the volume factors written out (arbitrary lengths and
distances, 1e-10), zero mode = integral, adjoint/inverse consistency, SHT columns = real spherical
harmonics / sqrt(4 pi) (scipy.special) and adjointness, harmonic smoothing = multiplication by
exp(-2 pi^2 sigma^2 k^2) in Fourier space, identity for sigma = 0, integral preserving."""
import itertools
import json
import os

import numpy as np

from .. import common as C

HEADER = ("From Coq Require Import List Arith Bool ZArith QArith Qcanon.\nImport ListNotations.\n"
          "Require Import NV.C09.Model NV.C09.ModelSHT NV.C09.ModelSeq.\nOpen Scope Q_scope.\n")

MODES = ["TIMES", "ADJ", "INV", "ADJINV"]
CONVS = ["non_canonical_hartley", "canonical_hartley"]
TOL = 1e-10


def quiet():
    import logging
    import nifty.cl as ift
    ift.logger.setLevel(logging.ERROR)
    return ift


def set_conv(conv):
    import nifty
    nifty.config.update("hartley_convention", conv)


class Conv:
    """Context manager: select a Hartley convention, restore the default afterwards."""

    def __init__(self, conv):
        self.conv = conv

    def __enter__(self):
        from nifty.config import _config
        self.old = _config.get("hartley_convention")
        set_conv(self.conv)

    def __exit__(self, *a):
        set_conv(self.old)


# ---------------------------------------------------------------------------------------------------
# operator cases
# ---------------------------------------------------------------------------------------------------

def mk_sub(s):
    ift = quiet()
    if s[0] == "u":
        return ift.UnstructuredDomain(int(s[1]))
    if s[0] == "rg":
        return ift.RGSpace(tuple(s[1]), distances=tuple(s[2]))
    raise ValueError(s)


def sub_size(s):
    return int(s[1]) if s[0] == "u" else int(np.prod(s[1]))


def build_op(case):
    ift = quiet()
    doms = [mk_sub(s) for s in case["before"]]
    space = len(doms)
    doms.append(ift.RGSpace(tuple(case["shape"]), distances=tuple(case["dist"]), harmonic=bool(case["harm"])))
    doms += [mk_sub(s) for s in case["after"]]
    cls = {"fft": ift.FFTOperator, "hartley": ift.HartleyOperator}[case["op"]]
    if len(doms) == 1 and case.get("nospace"):
        return cls(doms[0])
    return cls(tuple(doms), space=space)


def mode_const(op, m):
    return {"TIMES": op.TIMES, "ADJ": op.ADJOINT_TIMES, "INV": op.INVERSE_TIMES,
            "ADJINV": op.ADJOINT_INVERSE_TIMES}[m]


def apply_op(op, m, arr):
    """Apply the real operator in mode m to a flat array; returns the flat result (with its dtype)."""
    ift = quiet()
    md = mode_const(op, m)
    dom = op.domain if m in ("TIMES", "ADJINV") else op.target
    f = ift.Field.from_raw(dom, np.asarray(arr).reshape(dom.shape))
    r = op.apply(f, md)
    tdom = op.target if m in ("TIMES", "ADJINV") else op.domain
    if r.domain is not tdom:
        raise AssertionError("result lives on the wrong domain")
    return r.asnumpy().reshape(-1)


def geom(case):
    B = int(np.prod([sub_size(s) for s in case["before"]])) if case["before"] else 1
    A = int(np.prod([sub_size(s) for s in case["after"]])) if case["after"] else 1
    N = int(np.prod(case["shape"]))
    return B, N, A


def dyadic_vec(rng, n, cplx):
    x = rng.integers(-8, 9, size=n) * 0.125
    if cplx:
        x = x + 1j * rng.integers(-8, 9, size=n) * 0.125
    return x


def cqpairs(arr):
    arr = np.asarray(arr)
    re = np.real(arr)
    im = np.imag(arr) if np.iscomplexobj(arr) else np.zeros_like(re)
    return C.clist(["(%s, %s)" % (C.cq(float(a)), C.cq(float(b))) for a, b in zip(re, im)])


def cnats(xs):
    return C.clist(["%d%%nat" % int(x) for x in xs])


def exact_cases(ctx):
    """Grids with axis lengths in {1,2,4} and power-of-two distances (float64 exact)."""
    rng = ctx.rng(9)
    shapes = [[1], [2], [4], [2, 2], [2, 4], [4, 2], [4, 4], [1, 4], [4, 1], [2, 2, 2], [2, 4, 2]]
    if not ctx.quick:
        shapes += [[4, 4, 2], [4, 2, 4], [4, 4, 4], [1, 2, 4]]
    subs = [[], [["u", 2]], [["u", 3]], [["rg", [2], [0.5]]], [["u", 2], ["u", 2]], [["rg", [2, 2], [2.0, 0.25]]]]
    cases = []
    nrep = 2 if ctx.quick else 5
    for shape in shapes:
        for rep in range(nrep):
            before = subs[int(rng.integers(0, len(subs)))] if rep else []
            after = subs[int(rng.integers(0, len(subs)))] if rep else []
            N = int(np.prod(shape))
            if N * (np.prod([sub_size(s) for s in before + after]) if before + after else 1) > 96:
                after = []
            if N * (np.prod([sub_size(s) for s in before]) if before else 1) > 96:
                before = []
            dist = [float(2.0 ** int(e)) for e in rng.integers(-3, 4, size=len(shape))]
            harm = bool(rng.integers(0, 2)) if rep else False
            for op in ("fft", "hartley"):
                cases.append({"op": op, "before": before, "shape": shape, "dist": dist, "harm": harm,
                              "after": after, "nospace": (not before and not after and rep == 0)})
    return cases


def run_exact_case(case, m, conv, x):
    with Conv(conv):
        op = build_op(case)
        return apply_op(op, m, x)


def coq_case_term(case, m, conv, x, y):
    B, N, A = geom(case)
    args = "%d%%nat %s %s %d%%nat %s %s %s %s" % (
        B, cnats(case["shape"]), C.clist([C.cq(float(d)) for d in case["dist"]]), A,
        C.cbool(case["harm"]), m, cqpairs(x), cqpairs(y))
    if case["op"] == "fft":
        return "check_fft " + args
    return "check_hartley %s %s" % (C.cbool(conv == CONVS[0]), args)


# ---------------------------------------------------------------------------------------------------
# explicit references (numpy only; no FFT library)
# ---------------------------------------------------------------------------------------------------

def dft_matrix(shape):
    """K[k, j] = exp(-2 pi i sum_a j_a k_a / n_a) on the C-ordered flat index (numpy fftn convention)."""
    K = np.ones((1, 1), dtype=complex)
    for n in shape:
        j = np.arange(n)
        K1 = np.exp(-2j * np.pi * np.outer(j, j) / n)
        K = np.kron(K, K1)
    return K


def hartley_matrix(shape, conv):
    K = dft_matrix(shape)
    return K.real + K.imag if conv == CONVS[0] else K.real - K.imag


def lift(K, B, A):
    return np.kron(np.kron(np.eye(B), K), np.eye(A))


def dense(op, m, n_in, cplx):
    """Dense matrix of op in mode m from basis vectors (and i*basis vectors if cplx)."""
    cols = []
    icols = []
    for j in range(n_in):
        e = np.zeros(n_in, dtype=complex if cplx else float)
        e[j] = 1.0
        cols.append(apply_op(op, m, e))
        if cplx:
            e2 = np.zeros(n_in, dtype=complex)
            e2[j] = 1j
            icols.append(apply_op(op, m, e2))
    M = np.stack(cols, axis=1)
    Mi = np.stack(icols, axis=1) if cplx else None
    return M, Mi


def op_case_failures(case):
    """The property stated directly on the implementation for one operator case.
    Returns a list of (check_name, detail)."""
    out = []
    conv = case.get("conv", CONVS[0])
    B, N, A = geom(case)
    n = B * N * A
    shape, dist = case["shape"], np.array(case["dist"], dtype=float)
    dd = float(np.prod(dist))                               # dvol of the operator's domain sub-space
    dt = float(np.prod(1.0 / (np.array(shape) * dist)))     # dvol of the codomain
    with Conv(conv):
        op = build_op(case)
        if case["op"] == "fft":
            K = dft_matrix(shape)
            # volume convention: position -> harmonic  = dvol_pos * sum_x e^{-ikx};
            #                    harmonic -> position  = dvol_harm * sum_k e^{+ikx}
            T = dd * (np.conj(K) if case["harm"] else K)
            Tinv = dt * (K if case["harm"] else np.conj(K))
        else:
            H = hartley_matrix(shape, conv)
            T = dd * H
            Tinv = dt * H
        T = lift(T, B, A)
        Tinv = lift(Tinv, B, A)
        ref = {"TIMES": T, "ADJ": T.conj().T, "INV": Tinv, "ADJINV": Tinv.conj().T}
        mats = {}
        for m in MODES:
            M, Mi = dense(op, m, n, True)
            mats[m] = M
            scale = max(1.0, np.abs(ref[m]).max())
            if np.abs(M - ref[m]).max() > TOL * scale:
                out.append(("matrix_" + m, "dense matrix differs from the explicit reference by %.3e" % np.abs(M - ref[m]).max()))
            if np.abs(Mi - 1j * M).max() > TOL * scale:
                out.append(("complex_linear_" + m, "op(i e_j) != i op(e_j)"))
        # internal consistency of the four modes (no reference involved)
        sc = max(1.0, np.abs(mats["TIMES"]).max())
        si = max(1.0, np.abs(mats["INV"]).max())
        if np.abs(mats["ADJ"] - mats["TIMES"].conj().T).max() > TOL * sc:
            out.append(("adjoint", "ADJOINT_TIMES is not the conjugate transpose of TIMES"))
        if np.abs(mats["INV"] @ mats["TIMES"] - np.eye(n)).max() > TOL * sc * si:
            out.append(("inverse", "INVERSE_TIMES o TIMES is not the identity"))
        if np.abs(mats["ADJINV"] - mats["INV"].conj().T).max() > TOL * si:
            out.append(("adjoint_inverse", "ADJOINT_INVERSE_TIMES is not the conjugate transpose of INVERSE_TIMES"))
        # zero mode of the transform of a position-space field = its integral over the sub-space
        rng = np.random.default_rng(case.get("seed", 0))
        x = rng.normal(size=(B, N, A))
        if case["op"] == "fft":
            x = x + 1j * rng.normal(size=(B, N, A))
        m_pos = "INV" if case["harm"] else "TIMES"           # the mode whose input is position space
        dpos = dt if case["harm"] else dd
        y = apply_op(op, m_pos, x.reshape(-1)).reshape(B, N, A)
        integ = x.sum(axis=1) * dpos
        if np.abs(y[:, 0, :] - integ).max() > TOL * max(1.0, np.abs(integ).max()):
            out.append(("zero_mode", "zero mode of the transform differs from the integral"))
        # real input to the Hartley operator gives real output of the same dtype
        if case["op"] == "hartley":
            yr = apply_op(op, "TIMES", rng.normal(size=n))
            if np.iscomplexobj(yr):
                out.append(("hartley_dtype", "real input produced complex output"))
    return out


def random_op_case(rng, i):
    nd = int(rng.integers(1, 4))
    shape = [int(rng.integers(1, 8)) for _ in range(nd)]
    while np.prod(shape) > 40:
        shape[int(np.argmax(shape))] -= 1
    dist = [float(np.round(rng.uniform(0.1, 3.0), 3)) for _ in range(nd)]
    subs = [[], [["u", 2]], [["u", 3]], [["rg", [2], [0.7]]], [["rg", [3], [1.3]]]]
    before = subs[int(rng.integers(0, len(subs)))]
    after = subs[int(rng.integers(0, len(subs)))]
    if np.prod(shape) > 20:
        after = []
    return {"kind": "op", "op": ["fft", "hartley"][i % 2], "before": before, "shape": shape, "dist": dist,
            "harm": bool(rng.integers(0, 2)), "after": after, "conv": CONVS[(i // 2) % 2],
            "seed": int(rng.integers(0, 2 ** 31))}


# ---------------------------------------------------------------------------------------------------
# backends
# ---------------------------------------------------------------------------------------------------

def backend_failures(case):
    """ducc_dispatch native vs SciPy twins vs JAX hartley vs explicit DFT, one array, both conventions."""
    from nifty.cl import ducc_dispatch as dd
    from nifty.cl.any_array import AnyArray
    from nifty.re.correlated_field import hartley as jhartley
    out = []
    shape = tuple(case["shape"])
    axes = tuple(case["axes"])
    rng = np.random.default_rng(case["seed"])
    x = rng.normal(size=shape) + 1j * rng.normal(size=shape)
    # reference by explicit matrices along the chosen axes
    other = [a for a in range(len(shape)) if a not in axes]
    perm = other + list(axes)
    sub = [shape[a] for a in axes]
    K = dft_matrix(sub)

    def along(M, arr):
        t = np.transpose(arr, perm).reshape(-1, int(np.prod(sub)))
        r = t @ M.T
        r = r.reshape([shape[a] for a in perm])
        return np.transpose(r, np.argsort(perm))

    n = int(np.prod(sub))
    scale = max(1.0, np.abs(x).max() * n)
    ref_f = along(K, x)
    ref_i = along(np.conj(K), x) / n
    for nm, f, ref in [("fftn", dd.fftn, ref_f), ("_scipy_fftn", dd._scipy_fftn, ref_f),
                       ("ifftn", dd.ifftn, ref_i), ("_scipy_ifftn", dd._scipy_ifftn, ref_i)]:
        y = f(AnyArray(x), axes=axes).asnumpy()
        if y.shape != ref.shape or np.abs(y - ref).max() > TOL * scale:
            out.append((nm, "differs from the explicit DFT"))
    xr = x.real.copy()
    for conv in CONVS:
        with Conv(conv):
            ref = along(hartley_matrix(sub, conv), xr)
            res = {"hartley": dd.hartley(AnyArray(xr), axes=axes).asnumpy(),
                   "_scipy_hartley": dd._scipy_hartley(AnyArray(xr), axes=axes).asnumpy(),
                   "re.hartley": np.asarray(jhartley(xr, axes=axes))}
            for nm, y in res.items():
                if y.shape != ref.shape or np.abs(y - ref).max() > TOL * scale:
                    out.append((nm + ":" + conv, "differs from Re %s Im of the explicit DFT" % ("+" if conv == CONVS[0] else "-")))
    return out


def random_backend_case(rng, i):
    nd = int(rng.integers(1, 4))
    shape = [int(rng.integers(1, 10)) for _ in range(nd)]
    while np.prod(shape) > 200:
        shape[int(np.argmax(shape))] -= 1
    k = int(rng.integers(1, nd + 1))
    start = int(rng.integers(0, nd - k + 1))
    axes = list(range(start, start + k))
    return {"kind": "backend", "shape": shape, "axes": axes, "seed": int(rng.integers(0, 2 ** 31))}


def config_alias_failures():
    """nifty.config.update accepts the documented aliases and rejects anything else."""
    import nifty
    from nifty.config import _config
    out = []
    old = _config.get("hartley_convention")
    try:
        for v, want in [("ducc_hartley", CONVS[0]), ("non_canonical_hartley", CONVS[0]),
                        ("ducc_fht", CONVS[1]), ("canonical_hartley", CONVS[1])]:
            nifty.config.update("hartley_convention", v)
            if _config.get("hartley_convention") != want:
                out.append(("config_alias", "%s -> %s" % (v, _config.get("hartley_convention"))))
        try:
            nifty.config.update("hartley_convention", "something_else")
            out.append(("config_reject", "invalid convention accepted"))
        except ValueError:
            pass
    finally:
        set_conv(old)
    return out


# ---------------------------------------------------------------------------------------------------
# sphere
# ---------------------------------------------------------------------------------------------------

def sht_matrix(op, lm, tgt):
    ift = quiet()
    n = lm.size
    M = np.stack([op.times(ift.Field.from_raw(lm, np.eye(n)[i])).asnumpy().reshape(-1) for i in range(n)], axis=1)
    Ad = np.stack([op.adjoint_times(ift.Field.from_raw(tgt, np.eye(tgt.size)[i].reshape(tgt.shape))).asnumpy().reshape(-1)
                   for i in range(tgt.size)], axis=1)
    return M, Ad


def real_sph_reference(lmax, mmax, theta, phi):
    """Columns: real spherical harmonics / sqrt(4 pi) in LMSpace order
    (m = 0: l = 0..lmax; then for m = 1..mmax, l = m..lmax: sqrt(2) Re Y_lm, -sqrt(2) Im Y_lm)."""
    import scipy.special as sp
    cols = []
    for l in range(lmax + 1):
        cols.append(sp.sph_harm_y(l, 0, theta, phi).real)
    for m in range(1, mmax + 1):
        for l in range(m, lmax + 1):
            Y = sp.sph_harm_y(l, m, theta, phi)
            cols.append(np.sqrt(2) * Y.real)
            cols.append(-np.sqrt(2) * Y.imag)
    return np.stack(cols, axis=1) / np.sqrt(4 * np.pi)


def sht_failures(case):
    ift = quiet()
    import ducc0
    out = []
    lmax, mmax = case["lmax"], case["mmax"]
    lm = ift.LMSpace(lmax, mmax)
    if case["grid"] == "gl":
        tgt = lm.get_default_codomain() if case.get("nlat") is None else ift.GLSpace(case["nlat"], case["nlon"])
        theta = np.repeat(ducc0.misc.GL_thetas(tgt.nlat), tgt.nlon)
        phi = np.tile(2 * np.pi * np.arange(tgt.nlon) / tgt.nlon, tgt.nlat)
    else:
        tgt = ift.HPSpace(case["nside"])
        ang = ducc0.healpix.Healpix_Base(case["nside"], "RING").pix2ang(np.arange(tgt.size))
        theta, phi = ang[:, 0], ang[:, 1]
    op = ift.SHTOperator(lm, tgt)
    M, Ad = sht_matrix(op, lm, tgt)
    if M.shape != (tgt.size, lm.size):
        out.append(("sht_shape", "unexpected matrix shape"))
        return out
    if np.abs(Ad - M.T).max() > TOL:
        out.append(("sht_adjoint", "adjoint_times is not the transpose of times"))
    ref = real_sph_reference(lmax, mmax, theta, phi)
    if np.abs(ref - M).max() > TOL:
        out.append(("sht_normalisation", "columns are not the real spherical harmonics / sqrt(4 pi): %.3e" % np.abs(ref - M).max()))
    if np.abs(M[:, 0] - 1.0 / (4 * np.pi)).max() > TOL:
        out.append(("sht_monopole", "unit monopole does not give the constant 1/(4 pi) = 1/volume"))
    if case["grid"] == "gl":
        w = np.asarray(tgt.dvol, dtype=float)
        w = np.repeat(w, tgt.nlon) if w.size == tgt.nlat else np.broadcast_to(w, (tgt.size,))
        G = 4 * np.pi * (M.T @ (w[:, None] * M))
        if np.abs(G - np.eye(lm.size)).max() > 1e-9:
            out.append(("sht_isometry", "packing is not an isometry up to 1/(4 pi) under Gauss-Legendre quadrature"))
    # complex input: real and imaginary parts separately
    rng = np.random.default_rng(case.get("seed", 0))
    z = rng.normal(size=lm.size) + 1j * rng.normal(size=lm.size)
    y = op.times(ift.Field.from_raw(lm, z)).asnumpy().reshape(-1)
    if np.abs(y - (M @ z)).max() > TOL:
        out.append(("sht_complex", "complex input is not transformed part by part"))
    if case["grid"] == "hp":
        from nifty.re.correlated_field import get_sht
        f = get_sht(case["nside"], 1, lmax, mmax, 1)
        x = rng.normal(size=(2, lm.size))
        yj = np.asarray(f(x)) / (4 * np.pi)
        if np.abs(yj - (M @ x.T).T).max() > TOL:
            out.append(("sht_jax", "JAX HEALPix SHT (times harmonic dvol) differs from the classic SHTOperator"))
    # sub-space of a product domain
    dom = (ift.UnstructuredDomain(2), lm)
    op2 = ift.SHTOperator(dom, tgt, space=1)
    x = rng.normal(size=(2, lm.size))
    y2 = op2.times(ift.Field.from_raw(op2.domain, x)).asnumpy()
    if np.abs(y2 - (M @ x.T).T.reshape(y2.shape)).max() > TOL:
        out.append(("sht_subspace", "transform on a sub-space differs from the slice-wise transform"))
    return out


# ---------------------------------------------------------------------------------------------------
# smoothing
# ---------------------------------------------------------------------------------------------------

def smoothing_failures(case):
    ift = quiet()
    out = []
    conv = case.get("conv", CONVS[0])
    shape, dist = case["shape"], case["dist"]
    sigma = case["sigma"]
    B, N, A = geom(case)
    with Conv(conv):
        doms = [mk_sub(s) for s in case["before"]]
        space = len(doms)
        doms.append(ift.RGSpace(tuple(shape), distances=tuple(dist)))
        doms += [mk_sub(s) for s in case["after"]]
        op = ift.HarmonicSmoothingOperator(tuple(doms), sigma, space=space)
        dom = ift.DomainTuple.make(tuple(doms))
        rng = np.random.default_rng(case.get("seed", 0))
        n = B * N * A
        M = np.stack([op(ift.Field.from_raw(dom, np.eye(n)[i].reshape(dom.shape))).asnumpy().reshape(-1) for i in range(n)], axis=1)
        if sigma == 0:
            if np.abs(M - np.eye(n)).max() != 0:
                out.append(("smoothing_zero_width", "sigma = 0 is not the identity"))
            return out
        # documented: Gaussian kernel of width sigma  <=> multiplication by exp(-2 pi^2 sigma^2 |k|^2)
        k2 = np.zeros(shape)
        for a, (nn, d) in enumerate(zip(shape, dist)):
            j = np.arange(nn)
            ka = np.minimum(j, nn - j) / (nn * d)
            sh = [1] * len(shape)
            sh[a] = nn
            k2 = k2 + (ka ** 2).reshape(sh)
        g = np.exp(-2 * np.pi ** 2 * sigma ** 2 * k2).reshape(-1)
        K = dft_matrix(shape)
        S = (np.conj(K) @ (g[:, None] * K)) / N
        if np.abs(S.imag).max() > TOL:
            out.append(("smoothing_reference", "reference not real (machinery)"))
        S = lift(S.real, B, A)
        if np.abs(M - S).max() > TOL:
            out.append(("smoothing_kernel", "not the convolution with the documented Gaussian: %.3e" % np.abs(M - S).max()))
        if np.abs(M - M.T).max() > TOL:
            out.append(("smoothing_selfadjoint", "smoothing matrix is not symmetric"))
        x = rng.normal(size=(B, N, A))
        y = (M @ x.reshape(-1)).reshape(B, N, A)
        if np.abs(y.sum(axis=1) - x.sum(axis=1)).max() > TOL * N:
            out.append(("smoothing_integral", "smoothing does not preserve the integral"))
    return out


def random_smoothing_case(rng, i):
    nd = int(rng.integers(1, 3))
    shape = [int(rng.integers(1, 8)) for _ in range(nd)]
    dist = [float(np.round(rng.uniform(0.2, 2.0), 3)) for _ in range(nd)]
    subs = [[], [["u", 2]], [["rg", [3], [1.3]]]]
    return {"kind": "smoothing", "before": subs[int(rng.integers(0, 3))], "shape": shape, "dist": dist,
            "after": subs[int(rng.integers(0, 3))], "sigma": [0.0, 0.3, 1.1, 2.5][i % 4], "conv": CONVS[(i // 4) % 2],
            "seed": int(rng.integers(0, 2 ** 31))}


# ---------------------------------------------------------------------------------------------------
# SHT packing: what SHTOperator hands to / takes from ducc0.sht, against coq/C09/ModelSHT.v
# ---------------------------------------------------------------------------------------------------

TOLP = "(1 # 1000000000000)%Q"     # 1e-12 relative, applied inside Coq (entries are k*sqrt(1/2), k*sqrt(2))


def sht_packing_terms(ctx):
    """Run the real SHTOperator with ducc0.sht.synthesis / adjoint_synthesis wrapped (in this process
    only): capture the alm array built by _slice_h2p, and feed a prescribed alm array to _slice_p2h."""
    ift = quiet()
    import ducc0
    rng = ctx.rng(94)
    terms, meta = [], []
    orig_s, orig_a = ducc0.sht.synthesis, ducc0.sht.adjoint_synthesis
    lms = [(0, 0), (1, 0), (1, 1), (2, 1), (3, 3), (3, 1), (4, 2)] + ([] if ctx.quick else [(6, 6), (5, 0), (7, 3)])
    try:
        for lmax, mmax in lms:
            lm = ift.LMSpace(lmax, mmax)
            tgt = lm.get_default_codomain() if (lmax + mmax) % 2 == 0 else ift.HPSpace(2)
            op = ift.SHTOperator(lm, tgt)
            terms.append("c_sizes %d%%nat %d%%nat %d%%nat" % (lmax, mmax, lm.size))
            meta.append({"kind": "sht_packing", "what": "sizes", "lmax": lmax, "mmax": mmax})
            # h2p: capture alm
            cap = {}

            def fake_s(*a, **kw):
                cap["alm"] = np.array(kw["alm"]).reshape(-1)
                return orig_s(*a, **kw)
            ducc0.sht.synthesis = fake_s
            inp = rng.integers(-8, 9, size=lm.size).astype(float)
            try:
                op.times(ift.Field.from_raw(lm, inp))
                alm = cap["alm"]
                terms.append("c_pack %s %d%%nat %d%%nat %s %s" % (TOLP, lmax, mmax, C.clist([C.cq(float(v)) for v in inp]), cqpairs(alm)))
            except Exception:
                terms.append("false")
            finally:
                ducc0.sht.synthesis = orig_s
            meta.append({"kind": "sht_packing", "what": "h2p", "lmax": lmax, "mmax": mmax})
            # p2h: prescribe rr
            nalm = ((mmax + 1) * (mmax + 2)) // 2 + (mmax + 1) * (lmax - mmax)
            rr = rng.integers(-8, 9, size=nalm) + 1j * rng.integers(-8, 9, size=nalm)

            def fake_a(*a, **kw):
                return rr.reshape(1, -1).astype(complex)
            ducc0.sht.adjoint_synthesis = fake_a
            try:
                y = op.adjoint_times(ift.Field.from_raw(tgt, np.zeros(tgt.shape))).asnumpy().reshape(-1) * np.sqrt(4 * np.pi)
                terms.append("c_unpack %s %d%%nat %d%%nat %s %s" % (TOLP, lmax, mmax, cqpairs(rr), C.clist([C.cq(float(v)) for v in y])))
            except Exception:
                terms.append("false")
            finally:
                ducc0.sht.adjoint_synthesis = orig_a
            meta.append({"kind": "sht_packing", "what": "p2h", "lmax": lmax, "mmax": mmax})
    finally:
        ducc0.sht.synthesis, ducc0.sht.adjoint_synthesis = orig_s, orig_a
    return terms, meta


# ---------------------------------------------------------------------------------------------------
# operation SEQUENCES in one process: every step is compared with the model / reference evaluated on
# that step's arguments alone (operators must not remember anything from earlier constructions or calls)
# ---------------------------------------------------------------------------------------------------

def gauss_kernel(shape, dist, sigma):
    """exp(-2 pi^2 sigma^2 |k|^2) on the harmonic grid, from the step's own arguments (numpy only)."""
    k2 = np.zeros(shape)
    for a, (nn, d) in enumerate(zip(shape, dist)):
        j = np.arange(nn)
        ka = np.minimum(j, nn - j) / (nn * d)
        sh = [1] * len(shape)
        sh[a] = nn
        k2 = k2 + (ka ** 2).reshape(sh)
    return np.exp(-2 * np.pi ** 2 * float(sigma) ** 2 * k2).reshape(-1)


def gen_sequences(ctx):
    """Lists of steps.  Smoothing steps share one RGSpace (possibly embedded in different DomainTuples) and
    differ in sigma / convention; operator steps reuse one operator object under changing conventions;
    backend steps reuse one array shape with the backends' conventions switched in between."""
    rng = ctx.rng(95)
    seqs = []

    def sm(shape, dist, sigma, conv, before=(), after=()):
        return {"kind": "smoothing", "before": list(before), "shape": shape, "dist": dist, "after": list(after),
                "sigma": sigma, "conv": conv, "seed": int(rng.integers(0, 2 ** 31))}
    u2, r2 = ["u", 2], ["rg", [2], [0.5]]
    seqs.append([sm([4, 2], [0.5, 2.0], 0.5, CONVS[0]), sm([4, 2], [0.5, 2.0], 1.25, CONVS[0]),
                 sm([4, 2], [0.5, 2.0], 0.0, CONVS[1]), sm([4, 2], [0.5, 2.0], 0.25, CONVS[1], before=[u2]),
                 sm([4, 2], [0.5, 2.0], 0.5, CONVS[0], after=[r2]), sm([4, 2], [0.5, 2.0], 2.0, CONVS[1])])
    seqs.append([sm([4], [0.25], 1.0, CONVS[1]), sm([4], [0.25], 0.3, CONVS[1], before=[u2]),
                 sm([4], [0.25], 0.3, CONVS[0]), sm([4], [0.25], 0.05, CONVS[0])])
    seqs.append([sm([5, 3], [0.7, 1.3], 0.3, CONVS[0]), sm([5, 3], [0.7, 1.3], 1.1, CONVS[1]),
                 sm([5, 3], [0.7, 1.3], 2.5, CONVS[0], before=[u2]), sm([5, 3], [0.7, 1.3], 0.3, CONVS[1])])
    # operators: same domain, built once, applied under alternating conventions and modes
    base = {"before": [u2], "shape": [4, 2], "dist": [0.5, 0.25], "harm": False, "after": []}
    order = [("hartley", "TIMES", 0), ("fft", "TIMES", 1), ("hartley", "INV", 1), ("hartley", "ADJ", 0),
             ("fft", "ADJINV", 0), ("hartley", "ADJINV", 1), ("hartley", "TIMES", 1), ("fft", "INV", 0)]
    seqs.append([dict(base, kind="op_reuse", op=o, mode=m, conv=CONVS[c], seed=int(rng.integers(0, 2 ** 31)))
                 for o, m, c in order])
    # oracle-only: dense operator cases and backend cases on one grid with the convention changing in between
    seqs.append([dict(base, kind="op", op=o, conv=CONVS[c], seed=7 + i, shape=[3, 2], dist=[0.7, 1.1])
                 for i, (o, c) in enumerate([("hartley", 0), ("hartley", 1), ("fft", 1), ("hartley", 0)])]
                + [{"kind": "backend", "shape": [3, 4, 2], "axes": ax, "seed": 3 + i} for i, ax in enumerate([[0, 1], [1, 2], [0, 1, 2], [1]])])
    return seqs


class SeqRunner:
    """Executes the steps of one sequence on the real implementation, keeping operator objects alive."""

    def __init__(self):
        self.ops = {}

    def op_reuse(self, step):
        key = json.dumps([step["op"], step["before"], step["shape"], step["dist"], step["harm"], step["after"]])
        if key not in self.ops:
            with Conv(step["conv"]):
                self.ops[key] = build_op(step)
        return self.ops[key]


def smooth_op_term(ift, rng, step, sigma):
    """check_smooth_op term: HarmonicSmoothingOperator built with [sigma] on the step's domain; ValueError from the
    constructor is reported to the model as None (any other exception propagates)."""
    B, N, A = geom(step)
    x = dyadic_vec(rng, B * N * A, False)
    with Conv(step["conv"]):
        doms = [mk_sub(s) for s in step["before"]]
        space = len(doms)
        doms.append(ift.RGSpace(tuple(step["shape"]), distances=tuple(step["dist"])))
        doms += [mk_sub(s) for s in step["after"]]
        try:
            op = ift.HarmonicSmoothingOperator(tuple(doms), sigma, space=space)
        except ValueError:
            op = None
        if op is not None:
            dom = ift.DomainTuple.make(tuple(doms))
            y = op(ift.Field.from_raw(dom, x.reshape(dom.shape))).asnumpy().reshape(-1)
    ker = gauss_kernel(step["shape"], step["dist"], sigma)
    q = lambda v: C.clist([C.cq(float(t)) for t in v])
    return "check_smooth_op %s %s %s %d%%nat %s %s %d%%nat %s %s %s" % (
        TOLP, C.cq(float(sigma)), C.cbool(step["conv"] == CONVS[0]), B, cnats(step["shape"]), q(step["dist"]), A,
        q(ker), q(x), "None" if op is None else "(Some %s)" % q(y))


def sequence_terms(ctx):
    """Coq terms for the sequences: each step against the model on the step's own arguments."""
    ift = quiet()
    rng = ctx.rng(96)
    terms, meta = [], []
    for si, seq in enumerate(gen_sequences(ctx)):
        run = SeqRunner()
        for ti, step in enumerate(seq):
            m = {"kind": "sequence", "seq": si, "step": ti, "what": step["kind"]}
            try:
                if step["kind"] == "smoothing" and all(n in (1, 2, 4) for n in step["shape"]):
                    terms.append(smooth_op_term(ift, rng, step, step["sigma"]))
                    meta.append(m)
                elif step["kind"] == "op_reuse":
                    op = run.op_reuse(step)
                    B, N, A = geom(step)
                    x = dyadic_vec(rng, B * N * A, True)
                    with Conv(step["conv"]):
                        y = apply_op(op, step["mode"], x)
                    terms.append(coq_case_term(step, step["mode"], step["conv"], x, y))
                    meta.append(m)
            except Exception as e:
                terms.append("false")
                meta.append(dict(m, error=repr(e)[:200]))
        # the factory's sigma branches (ModelSeq.smooth_op): sigma < 0 must raise ValueError, sigma == 0 (also -0.0,
        # int 0) must be the identity EXACTLY; appended after the sequence so the sequence itself is unchanged
        step0 = seq[0]
        if step0["kind"] == "smoothing" and all(n in (1, 2, 4) for n in step0["shape"]):
            for xi, sg in enumerate([-0.5, 0.0, -0.0, 0, -1e-300]):
                for st in (step0, seq[-1]):
                    m = {"kind": "sequence", "seq": si, "step": len(seq) + xi, "what": "smoothing_sigma_branch", "sigma": repr(sg)}
                    try:
                        terms.append(smooth_op_term(ift, rng, st, sg))
                        meta.append(m)
                    except Exception as e:
                        terms.append("false")
                        meta.append(dict(m, error=repr(e)[:200]))
    return terms, meta


def sequence_failures(case):
    """Direct oracle for a sequence: every step must satisfy the property on its own arguments, in order."""
    out = []
    run = SeqRunner()
    for ti, step in enumerate(case["steps"]):
        if step["kind"] == "op_reuse":
            op = run.op_reuse(step)
            B, N, A = geom(step)
            shape, dist = step["shape"], np.array(step["dist"], dtype=float)
            dd = float(np.prod(dist))
            dt = float(np.prod(1.0 / (np.array(shape) * dist)))
            if step["op"] == "fft":
                K = dft_matrix(shape)
                T, Ti = dd * (np.conj(K) if step["harm"] else K), dt * (K if step["harm"] else np.conj(K))
            else:
                H = hartley_matrix(shape, step["conv"])
                T, Ti = dd * H, dt * H
            T, Ti = lift(T, B, A), lift(Ti, B, A)
            ref = {"TIMES": T, "ADJ": T.conj().T, "INV": Ti, "ADJINV": Ti.conj().T}[step["mode"]]
            with Conv(step["conv"]):
                M, _ = dense(op, step["mode"], B * N * A, True)
            if np.abs(M - ref).max() > TOL * max(1.0, np.abs(ref).max()):
                out.append(("sequence_matrix_" + step["mode"], "step %d: a reused %s operator differs from the reference for the "
                            "convention in force at call time" % (ti, step["op"])))
        else:
            for name, detail in case_failures(step):
                out.append((name, "step %d of a sequence in one process: %s" % (ti, detail)))
    return out


# ---------------------------------------------------------------------------------------------------
# nifty.re CorrelatedFieldMaker.finalize: harmonic transform of a product of >= 2 sub-grids (each sub-grid
# along its own axes, factor 1/V_i), against coq/C09/ModelSeq.v [outer_ht] and an explicit Kronecker product
# ---------------------------------------------------------------------------------------------------

CF_SPECS = [
    {"shapes": [[2], [4], [2, 2]], "dists": [[0.5], [0.25], [1.0, 0.5]], "conv": CONVS[0], "seed": 1},
    {"shapes": [[2], [2], [4], [2]], "dists": [[1.0], [0.25], [0.5], [2.0]], "conv": CONVS[1], "seed": 2},
    {"shapes": [[4, 2], [2], [2]], "dists": [[0.5, 0.5], [1.0], [0.25]], "conv": CONVS[1], "seed": 3},
    {"shapes": [[4], [2, 2]], "dists": [[0.5], [0.25, 2.0]], "conv": CONVS[0], "seed": 4},
    {"shapes": [[3], [2], [3, 2]], "dists": [[0.7], [1.3], [0.4, 0.9]], "conv": CONVS[0], "seed": 5},
    {"shapes": [[2], [3], [2], [3]], "dists": [[0.6], [1.1], [0.3], [0.8]], "conv": CONVS[1], "seed": 6},
]


def cf_observe(spec):
    """Columns of the linear map excitations -> field of the JAX model, divided by the coefficient
    azm * outer normalised amplitude (which finalize's transform bookkeeping does not touch); and the
    classic field for the same latent parameters."""
    import nifty.re as jft
    ift = quiet()
    shapes, dists = spec["shapes"], spec["dists"]
    with Conv(spec["conv"]):
        jm = jft.CorrelatedFieldMaker("")
        cm = ift.CorrelatedFieldMaker("")
        jm.set_amplitude_total_offset(offset_mean=0.25, offset_std=(0.5, 0.1))
        cm.set_amplitude_total_offset(0.25, (0.5, 0.1))
        for i, (sh, d) in enumerate(zip(shapes, dists)):
            kw = dict(scale=(1.0 + 0.1 * i, 0.1), cutoff=(0.8, 0.1), loglogslope=(-2.0, 0.2), prefix="g%d" % i)
            jm.add_fluctuations_matern(tuple(sh), distances=tuple(d), renormalize_amplitude=False, **kw)
            cm.add_fluctuations_matern(ift.RGSpace(tuple(sh), tuple(d)), **kw)
        jcf = jm.finalize()
        cf = cm.finalize()
        rng = np.random.default_rng([int(spec["seed"]), 9])
        pos = {k: rng.normal(size=tuple(v.shape)) for k, v in sorted(jcf.domain.items())}
        xshape = tuple(pos["xi"].shape)
        want = tuple(n for sh in shapes for n in sh)
        out = {"xi_shape": list(xshape), "want_shape": list(want)}
        if xshape != want:
            return out
        n = int(np.prod(xshape))

        def field(xi):
            p = dict(pos)
            p["xi"] = np.asarray(xi, dtype=float).reshape(xshape)
            return np.asarray(jcf(p))
        f0 = field(np.zeros(n))
        out["field_shape"] = list(f0.shape)
        azm = float(jm.azm(pos))
        coef = np.ones(())
        for amp, g in zip(jcf.normalized_amplitudes, jm._target_grids):
            a = np.asarray(amp(pos))[np.asarray(g.harmonic_grid.power_distributor)]
            coef = np.tensordot(coef, a, axes=0)
        coef = azm * coef.reshape(-1)
        cols = np.stack([(field(np.eye(n)[j]) - f0).reshape(-1) / coef[j] for j in range(n)], axis=1)
        out["cols"] = cols
        out["vols"] = [float(g.total_volume) for g in jm._target_grids]
        npos = ift.MultiField.from_dict({k: ift.makeField(cf.domain[k], np.array(v)) for k, v in pos.items()}, cf.domain)
        out["diff_classic"] = float(np.abs(cf(npos).asnumpy() - np.asarray(jcf(pos))).max())
        out["scale"] = float(max(1.0, np.abs(np.asarray(jcf(pos))).max()))
    return out


def cf_transform_failures(spec):
    out = []
    o = cf_observe(spec)
    if o["xi_shape"] != o["want_shape"]:
        return [("cf_excitation_shape", "excitations have shape %r instead of %r" % (o["xi_shape"], o["want_shape"]))]
    if o["field_shape"] != o["want_shape"]:
        out.append(("cf_field_shape", "field has shape %r instead of %r" % (o["field_shape"], o["want_shape"])))
        return out
    T = np.ones((1, 1))
    for sh, d in zip(spec["shapes"], spec["dists"]):
        V = float(np.prod(np.array(sh) * np.array(d)))
        T = np.kron(T, hartley_matrix(sh, spec["conv"]) / V)
    if np.abs(o["cols"] - T).max() > TOL * max(1.0, np.abs(T).max()):
        out.append(("cf_transform_matrix", "harmonic transform of the product of %d sub-grids is not the Kronecker product of the "
                    "per-sub-grid Hartley transforms / V_i (max dev %.3e)" % (len(spec["shapes"]), np.abs(o["cols"] - T).max())))
    if o["diff_classic"] > 1e-10 * o["scale"]:
        out.append(("cf_classic_vs_jax", "classic and JAX fields differ by %.3e on %d sub-grids" % (o["diff_classic"], len(spec["shapes"]))))
    return out


def cf_transform_terms(ctx):
    rng = ctx.rng(97)
    terms, meta = [], []
    for spec in CF_SPECS:
        if not all(n in (1, 2, 4) for sh in spec["shapes"] for n in sh):
            continue
        m = {"kind": "cf_transform", "what": "%d sub-grids" % len(spec["shapes"]), "spec": spec}
        try:
            o = cf_observe(spec)
            if "cols" not in o:
                raise ValueError("excitation shape %r" % (o["xi_shape"],))
            n = o["cols"].shape[1]
            js = list(range(n)) if (n <= 16 or not ctx.quick) else sorted(set([0, 1, n - 1] + [int(j) for j in rng.integers(0, n, size=9)]))
            shapes = C.clist([cnats(sh) for sh in spec["shapes"]])
            vols = C.clist([C.cq(float(v)) for v in o["vols"]])
            for j in js:
                terms.append("check_outer_ht %s %s %s %s %d%%nat %s" % (
                    TOLP, C.cbool(spec["conv"] == CONVS[0]), shapes, vols, j, C.clist([C.cq(float(v)) for v in o["cols"][:, j]])))
                meta.append(m)
        except Exception as e:
            terms.append("false")
            meta.append(dict(m, error=repr(e)[:200]))
    return terms, meta


def case_failures(case):
    k = case.get("kind", "op")
    if k == "op":
        return op_case_failures(case)
    if k == "backend":
        return backend_failures(case)
    if k == "sht":
        return sht_failures(case)
    if k == "smoothing":
        return smoothing_failures(case)
    if k == "config":
        return config_alias_failures()
    if k == "sequence":
        return sequence_failures(case)
    if k == "cf_transform":
        return cf_transform_failures(case["spec"])
    raise ValueError(k)


def signature(case, name):
    k = case.get("kind", "op")
    if k == "sequence":
        kinds = sorted({st["kind"] for st in case["steps"]})
        return {"fn": "sequence:" + "+".join(kinds), "check": name}
    fn = {"op": {"fft": "FFTOperator.apply", "hartley": "HartleyOperator.apply"}.get(case.get("op")),
          "backend": "ducc_dispatch/re.hartley", "sht": "SHTOperator.apply",
          "smoothing": "HarmonicSmoothingOperator", "config": "nifty.config.update",
          "cf_transform": "re.CorrelatedFieldMaker.finalize(harmonic transforms)"}[k]
    return {"fn": fn, "check": name}


def sweep_old(prop, max_age=3600):
    """Remove this check's per-process case files of earlier runs (older than an hour)."""
    import glob
    import time
    for f in glob.glob(os.path.join(C.run_dir(prop), "*corr_p*")):
        try:
            if time.time() - os.path.getmtime(f) > max_age:
                os.remove(f)
        except OSError:
            pass


class C09(C.Check):
    prop = "C09"
    coq_dir = "C09"
    trusted_base = [
        "Coq 8.16.1 kernel (coqc, vm_compute for the correspondence evaluation)",
        "hand-written model coq/C09/Model.v of FFTOperator.apply / HartleyOperator._apply_cartesian / _dom / "
        "Hartley convention selection (tied by exact correspondence, not by translation)",
        "the FFT kernels (ducc0.fft.c2c / genuine_hartley / genuine_fht, scipy.fft.fftn, jax.numpy.fft.fftn) are "
        "library code: modelled as DFT sums against a kernel matrix; checked exactly for axis lengths 1,2,4 and "
        "against an explicit exp(-2 pi i jk/n) matrix (1e-10) for other lengths",
        "general axis length n: existence of a twiddle table with the group and orthogonality laws is a hypothesis "
        "of the theorems (proved for n in {1,2,4} over the Gaussian rationals, and closed under tensor products)",
        "n*dvol*dvol' = 1 is a hypothesis (RGSpace.check_codomain / C08); proved for the model's own geometry",
        "sphere transforms, smoothing kernel values: direct oracle only (scipy.special.sph_harm_y, numpy)",
    ]
    assumptions = [
        "float64 arithmetic is exact on the dyadic inputs of the exact correspondence (power-of-two distances, "
        "axis lengths 1,2,4, multiples of 1/8)",
        "fields are C-ordered arrays; the axes of one sub-domain are contiguous",
    ]

    def __init__(self):
        self.exact = []

    # -----------------------------------------------------------------------------------------------
    def correspondence(self, ctx, res):
        quiet()
        sweep_old(self.prop)
        rng = ctx.rng(91)
        checks = []
        meta = []
        cases = [c for c in ctx.corpus() if c.get("kind") == "exact"] + exact_cases(ctx)
        for case in cases:
            B, N, A = geom(case)
            n = B * N * A
            convs = CONVS if case["op"] == "hartley" else [CONVS[0]]
            for conv in convs:
                for m in MODES:
                    vecs = [dyadic_vec(rng, n, True)]
                    if case["op"] == "hartley":
                        vecs.append(dyadic_vec(rng, n, False))
                    if n <= (4 if ctx.quick else 8):
                        for j in range(n):
                            e = np.zeros(n, dtype=complex)
                            e[j] = 1.0 if case["op"] == "hartley" else 1j
                            vecs.append(e)
                    for x in vecs:
                        try:
                            y = run_exact_case(case, m, conv, x)
                            if not np.iscomplexobj(x) and np.iscomplexobj(y):
                                term = "false"
                            else:
                                term = coq_case_term(case, m, conv, x, y)
                        except Exception as e:  # the model is total: an exception is a disagreement
                            term = "false"
                            y = repr(e)
                        checks.append(term)
                        meta.append({"kind": "exact", "case": case, "mode": m, "conv": conv,
                                     "x": [[float(np.real(v)), float(np.imag(v))] for v in x]})
        # bare kernels, exact
        from nifty.cl import ducc_dispatch as dd
        from nifty.cl.any_array import AnyArray
        from nifty.re.correlated_field import hartley as jhartley
        kshapes = [[1], [2], [4], [2, 4], [4, 4], [2, 2, 2], [4, 2, 4]]
        for shape in kshapes:
            n = int(np.prod(shape))
            x = dyadic_vec(rng, n, True)
            xr = dyadic_vec(rng, n, False)
            for nm, f in [("fftn", dd.fftn), ("_scipy_fftn", dd._scipy_fftn)]:
                y = f(AnyArray(x.reshape(shape))).asnumpy().reshape(-1)
                checks.append("check_kernel_fftn %s %s %s" % (cnats(shape), cqpairs(x), cqpairs(y)))
                meta.append({"kind": "kernel", "fn": nm, "shape": shape})
            for nm, f in [("ifftn", dd.ifftn), ("_scipy_ifftn", dd._scipy_ifftn)]:
                y = f(AnyArray(x.reshape(shape))).asnumpy().reshape(-1)
                checks.append("check_kernel_ifftn %s %s %s" % (cnats(shape), cqpairs(x), cqpairs(y)))
                meta.append({"kind": "kernel", "fn": nm, "shape": shape})
            for conv in CONVS:
                with Conv(conv):
                    for nm, f in [("hartley", lambda a: dd.hartley(AnyArray(a)).asnumpy()),
                                  ("_scipy_hartley", lambda a: dd._scipy_hartley(AnyArray(a)).asnumpy()),
                                  ("re.hartley", lambda a: np.asarray(jhartley(a)))]:
                        y = f(xr.reshape(shape)).reshape(-1)
                        checks.append("check_kernel_hartley %s %s %s %s" % (
                            C.cbool(conv == CONVS[0]), cnats(shape), cqpairs(xr), cqpairs(y)))
                        meta.append({"kind": "kernel", "fn": nm, "shape": shape, "conv": conv})
        pt, pm = sht_packing_terms(ctx)
        checks += pt
        meta += pm
        st, sm_ = sequence_terms(ctx)
        checks += st
        meta += sm_
        ct, cm_ = cf_transform_terms(ctx)
        checks += ct
        meta += cm_
        bad = C.eval_cases(self.prop, "corr_p%d" % os.getpid(), HEADER, checks, shard=200, jobs=4)
        hints = []
        for i in bad[:4]:
            res.add_broken("correspondence", "SHTOperator packing vs coq/C09/ModelSHT.v" if meta[i]["kind"] == "sht_packing"
                           else "operation sequence in one process vs the model on each step's own arguments" if meta[i]["kind"] == "sequence"
                           else "re.CorrelatedFieldMaker.finalize harmonic transform vs coq/C09/ModelSeq.v (outer_ht)" if meta[i]["kind"] == "cf_transform"
                           else "harmonic operators vs coq/C09/Model.v (exact)", meta[i])
        for i in bad:
            if meta[i]["kind"] in ("sequence", "cf_transform"):
                continue            # these are always part of the oracle's cases
            if meta[i]["kind"] == "sht_packing":
                hints.append({"kind": "sht", "grid": "gl", "lmax": meta[i]["lmax"], "mmax": meta[i]["mmax"]})
            else:
                hints.append(meta[i])
        # differential runs (implementations against each other / explicit DFT): labelled, not proofs
        drng = ctx.rng(92)
        ndiff = 12 if ctx.quick else 80
        dbad = 0
        for i in range(ndiff):
            bc = random_backend_case(drng, i)
            f = backend_failures(bc)
            if f:
                dbad += 1
                if dbad <= 2:
                    res.add_broken("correspondence", "differential: backends disagree (%s)" % f[0][0], bc)
                hints.append(bc)
        distinct = len({json.dumps([m["case"]["op"], m["case"]["shape"], m["case"]["before"], m["case"]["after"],
                                    m["case"]["harm"], m["mode"], m["conv"]], sort_keys=True)
                        for m in meta if m["kind"] == "exact" and int(np.prod(m["case"]["shape"])) > 1})
        dist = {}
        for m in meta:
            key = (m["case"]["op"] + ":" + m["mode"] if m["kind"] == "exact" else
                   "kernel:" + m["fn"] if m["kind"] == "kernel" else m["kind"] + ":" + m["what"])
            dist[key] = dist.get(key, 0) + 1
        res.coverage.update({
            "evaluations": len(checks), "distinct_nontrivial": distinct,
            "rule": "exact: FFTOperator/HartleyOperator on product domains (sub-space with axis lengths in {1,2,4}, "
                    "power-of-two distances, position or harmonic domain), 4 modes, both Hartley conventions, random "
                    "dyadic complex/real vectors and all basis vectors when size<=8, compared exactly with the model "
                    "in Qc[i]; non-trivial = transformed sub-space has more than one cell; distinct by (op, grid, "
                    "neighbours, harmonic flag, mode, convention); plus bare kernels of the three backends",
            "samples": [{k: meta[i][k] for k in ("case", "mode", "conv")} for i in (0, len(meta) // 3) if meta[i]["kind"] == "exact"],
            "input_distribution": dist,
            "disagreements": len(bad),
            "differential_backend_runs": ndiff, "differential_disagreements": dbad,
            "exhaustive": False,
        })
        return hints

    # -----------------------------------------------------------------------------------------------
    def oracle_cases(self, ctx, budget):
        rng = ctx.rng(93)
        cases = [c for c in ctx.corpus() if c.get("kind") != "exact"]
        nop = (10 if ctx.quick else 60) * budget
        for i in range(nop):
            cases.append(random_op_case(rng, i))
        # fixed small ones: every (op, harm, conv) on a 1-D odd grid and a sub-space
        for op, harm, conv in itertools.product(("fft", "hartley"), (False, True), CONVS):
            cases.append({"kind": "op", "op": op, "before": [["u", 2]], "shape": [3], "dist": [0.7], "harm": harm,
                          "after": [], "conv": conv, "seed": 5})
        for i in range((4 if ctx.quick else 30) * budget):
            cases.append(random_backend_case(rng, i))
        cases.append({"kind": "config"})
        for seq in gen_sequences(ctx):
            cases.append({"kind": "sequence", "steps": seq})
        for spec in CF_SPECS:
            cases.append({"kind": "cf_transform", "spec": spec})
        sht = [{"kind": "sht", "grid": "gl", "lmax": 2, "mmax": 2}, {"kind": "sht", "grid": "gl", "lmax": 3, "mmax": 1},
               {"kind": "sht", "grid": "hp", "nside": 2, "lmax": 3, "mmax": 2},
               {"kind": "sht", "grid": "gl", "lmax": 0, "mmax": 0}]
        if not ctx.quick or budget > 1:
            sht += [{"kind": "sht", "grid": "gl", "lmax": 6, "mmax": 6}, {"kind": "sht", "grid": "gl", "lmax": 5, "mmax": 3, "nlat": 8, "nlon": 13},
                    {"kind": "sht", "grid": "hp", "nside": 4, "lmax": 6, "mmax": 6}, {"kind": "sht", "grid": "hp", "nside": 1, "lmax": 2, "mmax": 0}]
        cases += sht
        for i in range((8 if ctx.quick else 40) * budget):
            cases.append(random_smoothing_case(rng, i))
        return cases

    def oracle(self, ctx, res, hints, budget):
        quiet()
        n = 0
        cases = []
        for h in hints:
            if h.get("kind") == "exact":
                c = dict(h["case"])
                c.update({"kind": "op", "conv": h["conv"], "seed": 1})
                cases.append(c)
            elif h.get("kind") == "kernel":
                cases.append({"kind": "backend", "shape": h["shape"], "axes": list(range(len(h["shape"]))), "seed": 1})
            else:
                cases.append(h)
        cases += self.oracle_cases(ctx, budget)
        seen = set()
        for case in cases:
            n += 1
            try:
                fl = case_failures(case)
            except Exception as e:
                fl = [("exception", repr(e)[:300])]
            for name, detail in fl:
                sig = signature(case, name)
                key = json.dumps(sig, sort_keys=True)
                if key in seen:
                    continue
                seen.add(key)
                res.add_failing(sig, "%s: %s [%s]" % (sig["fn"], detail, name), case)
            if len(res.failing) >= 6:
                break
        res.coverage["impl_property_evaluations"] = n

    def replay(self, ctx, rp):
        quiet()
        case = rp["input"]
        try:
            return len(case_failures(case)) > 0
        except Exception:
            return True


CHECK = C09()
