"""C20 -- Linear Gaussian problems: Wiener filter and VI give the exact posterior.

Tie: hand model coq/C20/Model.v (exact rational arithmetic; solves certified inside coqc) +
correspondence: every route of the implementation (JAX wiener_filter_posterior signal/data space,
linear and linearised; JAX optimize_kl MAP / MGVI; classic WienerFilterCurvature, NewtonCG MAP,
SampledKLEnergy MGVI, classic optimize_kl; sampling factors T by noise injection on both APIs) is run
on generated small models with exactly representable entries and compared with the model within
1e-7 inside vm_compute.  Direct oracle: numpy.linalg closed forms, branch agreement, T T^T = D."""
import io
import contextlib
import json
import os
import traceback
from fractions import Fraction as Fr

import numpy as np

from .. import common as C
from .. import lg_common as L

TOL = 1e-7
TOLQ = "(1 # 10000000)%Q"

HEADER = ("From Coq Require Import QArith List. Import ListNotations.\n"
          "Require Import NV.C20.Model.\nOpen Scope Q_scope.\n")

JAX_CHEAP = ["re.wf.signal", "re.wf.data", "re.wf.lin.signal", "re.wf.lin.data", "re.T", "re.wf.samples"]
JAX_OKL = ["re.okl.map", "re.okl.mgvi", "re.okl.schedule"]
CL_ROUTES = ["cl.wfc.inverse", "cl.newton.map", "cl.kl.mgvi", "cl.okl.mgvi", "cl.T.kl", "cl.T.wfc"]


def qv(v):
    return C.clist([C.cq(Fr(x)) for x in v])


def qm(a):
    return C.clist([qv(r) for r in a])


def fv(v):
    return C.clist([C.cq(float(x)) for x in np.asarray(v, dtype=np.float64).ravel()])


def fm(a):
    return C.clist([fv(r) for r in np.asarray(a, dtype=np.float64)])


# --------------------------------------------------------------------------------------------------
# running the implementation
# --------------------------------------------------------------------------------------------------

def _quiet(fn):
    buf = io.StringIO()
    with contextlib.redirect_stdout(buf), contextlib.redirect_stderr(buf):
        return fn()


def _nifty_quiet():
    import logging
    for name in ("NIFTy", "NIFTy8", "nifty", "jax"):
        logging.getLogger(name).setLevel(logging.ERROR)
    try:
        import nifty.cl as ift
        ift.logger.setLevel(logging.ERROR)
    except Exception:
        pass
    try:
        import nifty.re as jft
        jft.logger.setLevel(logging.ERROR)
    except Exception:
        pass


# --------------------------------------------------------------------------------------------------
# round 6: responses with a real scalar gain (R = g*A in several spellings) and heteroscedastic noise
# given as a DiagonalOperator that is used through `.inverse` (lazily inverted diagonal).  The exact
# model only sees the dense matrix g*A and diag N.  (helpers live here, lg_common.py is shared)
# --------------------------------------------------------------------------------------------------

GAINS = [Fr(3), Fr(2), Fr(-2), Fr(1, 2), Fr(4), Fr(-3), Fr(3, 2), Fr(1, 4)]
SPELLINGS = ["scaling_left", "scaling_right", "mul", "scale", "scaling_both"]
NMODES = ["diag_inverse", "makeop_ninv"]
GAIN_RKINDS = ["full", "dup_row", "dup_col", "full", "rank1", "zero_row"]
GAIN_ROUTES = ["re.wf.signal", "re.wf.data"]
VARS = [Fr(1, 4), Fr(1), Fr(4), Fr(1, 16), Fr(16)]


def gen_gain_case(rng, idx, k=None):
    """R = g*A with a real scalar gain g != +-1 absorbed by ChainOperator into neighbouring diagonal
    operators; noise = DiagonalOperator of distinct variances, inverse taken lazily by the code."""
    k = int(rng.integers(1000)) if k is None else k
    case = L.gen_lg_case(rng, idx, rkind=GAIN_RKINDS[k % len(GAIN_RKINDS)], noise="diag")
    m = case["m"]
    A = case["R"]
    if not any(any(x != 0 for x in r) for r in A):
        A[0][0] = 1
        case["rank"] = 1
    g = GAINS[k % len(GAINS)]
    # heteroscedastic: variances sigma^2 from VARS, not all equal when m > 1
    sig2 = [VARS[int(rng.integers(len(VARS)))] for _ in range(m)]
    if m > 1 and len(set(sig2)) == 1:
        sig2[0] = VARS[(VARS.index(sig2[0]) + 1) % len(VARS)]
    sq = {Fr(1, 4): Fr(1, 2), Fr(1): Fr(1), Fr(4): Fr(2), Fr(1, 16): Fr(1, 4), Fr(16): Fr(4)}
    case["W"] = [[str(1 / sq[sig2[i]]) if i == j else "0" for j in range(m)] for i in range(m)]
    case["Wi"] = [[str(sq[sig2[i]]) if i == j else "0" for j in range(m)] for i in range(m)]
    case["A"] = [[int(x) for x in r] for r in A]
    case["R"] = [[str(g * x) for x in r] for r in A]
    case["Q"] = [[0] * case["n"] for _ in range(m)]
    case["gain"] = str(g)
    case["spelling"] = SPELLINGS[k % len(SPELLINGS)]
    case["nmode"] = NMODES[(k // 2) % len(NMODES)]
    case["rkind"] = "gain_" + case["rkind"]
    return case


def classic_ops_gain(lg):
    import nifty.cl as ift
    case = lg.case
    g = float(Fr(case["gain"]))
    dom = ift.UnstructuredDomain(lg.n)
    tgt = ift.UnstructuredDomain(lg.m)
    Aop = L.dense_op(dom, tgt, np.array(case["A"], dtype=np.float64))
    sp = case["spelling"]
    if sp == "scaling_left":
        Rop = ift.ScalingOperator(tgt, g) @ Aop
    elif sp == "scaling_right":
        Rop = Aop @ ift.ScalingOperator(dom, g)
    elif sp == "mul":
        Rop = g * Aop
    elif sp == "scale":
        Rop = Aop.scale(g)
    elif sp == "scaling_both":      # g = (g/2) * 2, one factor on either side of the matrix part
        Rop = ift.ScalingOperator(tgt, g / 2.) @ Aop @ ift.ScalingOperator(dom, 2.)
    else:
        raise ValueError(sp)
    var = np.diag(lg.f("N")).copy()
    if case["nmode"] == "diag_inverse":
        Nop = ift.DiagonalOperator(ift.makeField(tgt, var), sampling_dtype=np.float64)
        Ninv = Nop.inverse
    else:                           # the user holds N^-1 = makeOp(1/var); the covariance is its lazy inverse
        Ninv = ift.makeOp(ift.makeField(tgt, 1. / var), sampling_dtype=np.float64)
        Nop = Ninv.inverse
    d = ift.makeField(tgt, lg.f("d"))
    return {"dom": dom, "tgt": tgt, "R": Rop, "W": None, "Ninv": Ninv, "N": Nop, "d": d, "signal": Rop}


def _jax_lh(lg, nonlinear=False):
    case = lg.case
    if not case.get("gain"):
        return L.jax_likelihood(lg, nonlinear)
    import jax.numpy as jnp
    import nifty.re as jft
    g = float(Fr(case["gain"]))
    A = jnp.asarray(np.array(case["A"], dtype=np.float64))
    var = jnp.asarray(np.diag(lg.f("N")).copy())
    left = case["spelling"] in ("scaling_left", "mul", "scale")

    def fwd(x):
        return g * (A @ x) if left else A @ (g * x)
    lh = jft.Gaussian(jnp.asarray(lg.f("d")), noise_cov_inv=lambda x: x / var, noise_std_inv=lambda x: x / jnp.sqrt(var))
    return lh.amend(fwd, domain=jft.ShapeWithDtype((lg.n,), jnp.float64))


def run_route(lg, route, seed=0):
    """Run one route of the implementation on one case; returns a numpy array (vector or matrix T
    given by rows n x k)."""
    case = lg.case
    if route.startswith("re."):
        import jax
        import jax.numpy as jnp
        import nifty.re as jft
        kw = dict(cg_name=None, cg_kwargs=dict(L.CG_TIGHT))
        key = jax.random.PRNGKey(seed + 11)
        N = jnp.asarray(lg.impl("N"))
        if route == "re.wf.absdelta":
            # the accuracy is requested through `absdelta` alone (documented to take precedence over the
            # default relative-residual tolerance); ill-conditioned models make the difference visible
            lh = _jax_lh(lg, False)
            s, _ = jft.wiener_filter_posterior(
                lh, key=key, n_samples=0, jit=False,
                draw_linear_kwargs=dict(cg_name=None, cg_kwargs=dict(absdelta=1e-13, maxiter=100)))
            return np.asarray(s.pos)
        if route.startswith("re.wf.") and route != "re.wf.samples":
            nl = ".lin." in route
            lh = _jax_lh(lg, nl)
            pos = jnp.asarray(lg.f("p")) if nl else None
            sig = route.endswith("signal")
            s, _ = jft.wiener_filter_posterior(
                lh, pos, key=key, n_samples=0, draw_linear_kwargs=kw, signal_space=sig, jit=False,
                model_is_linear=not nl, noise_covariance=None if sig else (lambda x: N @ x))
            return np.asarray(s.pos)
        lh = _jax_lh(lg, False)
        if route == "re.T":
            from nifty.re import evi
            mean = jnp.asarray(lg.np_mean())
            dk = dict(cg_kwargs=dict(L.CG_TIGHT))
            with L.jax_feed_flat(None) as info0:
                evi.draw_linear_residual(lh, mean, key, **dk)
            K = sum(info0["sizes"])
            cols = []
            for i in range(K):
                white = np.zeros(K)
                white[i] = 1.0
                with L.jax_feed_flat(white):
                    smpl, _ = evi.draw_linear_residual(lh, mean, key, **dk)
                cols.append(np.asarray(smpl))
            return np.array(cols).T
        if route == "re.wf.samples":
            s, _ = jft.wiener_filter_posterior(lh, key=key, n_samples=2, draw_linear_kwargs=kw, jit=False)
            from nifty.re import evi
            res = np.asarray(s._samples)
            chk = []
            for k in range(2):
                r, _ = evi.draw_linear_residual(lh, s.pos, s.keys[k], **kw)
                chk.append(np.asarray(r))
            # rows: pos, residuals (4), re-drawn residuals (2)
            return np.vstack([np.asarray(s.pos)[None], res, np.array(chk)])
        if route == "re.okl.schedule":
            # two global iterations on a two-key domain with a point estimate: iteration 0 draws linear
            # samples, iteration 1 keeps them and runs `nonlinear_update` (same n_samples).  For the linear
            # model the result must be: exact posterior mean, zero residuals on the frozen key, and the
            # residuals of the sampled key = linear residuals for the stored keys (exact posterior samples
            # of the frozen likelihood).
            from . import c18 as P18
            from nifty.re import evi
            case2 = dict(case, na=1 if lg.n > 1 else 1, nonlinear=False, pe=["b"], napprox=0)
            lh2, pos2 = P18.jax_model(lg, case2)
            mk = dict(name=None, xtol=1e-13, absdelta=None, miniter=2, maxiter=30,
                      cg_kwargs=dict(name=None, **L.CG_TIGHT))
            mk2 = dict(name=None, xtol=1e-13, absdelta=None, miniter=1, maxiter=25,
                       cg_kwargs=dict(name=None, **L.CG_TIGHT))
            samples, _ = _quiet(lambda: jft.optimize_kl(
                lh2, pos2, key=key, n_total_iterations=2, n_samples=2, point_estimates=("b",),
                sample_mode=lambda i: "linear_resample" if i == 0 else "nonlinear_update",
                draw_linear_kwargs=kw, nonlinearly_update_kwargs=dict(minimize_kwargs=mk2),
                kl_kwargs=dict(minimize_kwargs=mk), odir=None))
            res = np.array([P18.flat_vec(jax.tree_util.tree_map(lambda a: a[i], samples._samples), case2)
                            for i in range(len(samples))])
            redraw = []
            for k in range(len(samples.keys)):
                r, _ = evi.draw_linear_residual(lh2, samples.pos, samples.keys[k], point_estimates=("b",),
                                                cg_kwargs=dict(L.CG_TIGHT))
                r = P18.flat_vec(r, case2)
                redraw += [r, -r]
            # rows: pos, residuals (4), re-drawn linear residuals (4)
            return np.vstack([P18.flat_vec(samples.pos, case2)[None], res, np.array(redraw)])
        if route in ("re.okl.map", "re.okl.mgvi"):
            mk = dict(name=None, xtol=1e-13, absdelta=None, miniter=2, maxiter=30,
                      cg_kwargs=dict(name=None, **L.CG_TIGHT))
            ns = 0 if route.endswith("map") else 2
            samples, _ = _quiet(lambda: jft.optimize_kl(
                lh, jnp.asarray(lg.f("s0")), key=key, n_total_iterations=1, n_samples=ns,
                sample_mode="linear_resample", draw_linear_kwargs=kw,
                kl_kwargs=dict(minimize_kwargs=mk), odir=None))
            return np.asarray(samples.pos)
        raise ValueError(route)
    import nifty.cl as ift
    o = classic_ops_gain(lg) if case.get("gain") else L.classic_ops(lg)
    ic_s = ift.AbsDeltaEnergyController(1e-15, iteration_limit=400, convergence_level=3)
    ic_n = ift.GradientNormController(tol_abs_gradnorm=1e-12, iteration_limit=30)
    lhc = ift.GaussianEnergy(o["d"], o["Ninv"]) @ o["R"]
    s0 = ift.makeField(o["dom"], lg.f("s0"))
    if route in ("cl.wfc.inverse", "cl.T.wfc"):
        Nop = o["N"]
        if case.get("scaling_response"):
            Sop = ift.ScalingOperator(o["dom"], 1., np.float64)
        else:
            Sop = ift.DiagonalOperator(ift.makeField(o["dom"], 1. / lg.f("sinv")), sampling_dtype=np.float64)
        icc = ift.GradientNormController(tol_abs_gradnorm=1e-13, iteration_limit=400)
        if route == "cl.wfc.inverse":
            D = ift.WienerFilterCurvature(o["R"], Nop, Sop, icc, None).inverse
            j = o["R"].adjoint(Nop.inverse(o["d"]))
            return _quiet(lambda: D(j)).asnumpy()
        curv = ift.WienerFilterCurvature(o["R"], Nop, Sop, icc, ic_s)

        def draw(white):
            with L.classic_feed_flat(white) as sizes:
                smp = _quiet(lambda: curv.draw_sample(from_inverse=True))
            return smp.asnumpy(), list(sizes)
        _, sz0 = draw(None)
        K = sum(sz0)
        cols = []
        for i in range(K):
            white = np.zeros(K)
            white[i] = 1.0
            col, sz = draw(white)
            if sz != sz0:
                raise RuntimeError("white-noise requests changed between runs: %r vs %r" % (sz, sz0))
            cols.append(col)
        return np.array(cols).T
    H = ift.StandardHamiltonian(lhc, ic_s, prior_sampling_dtype=np.float64)
    minim = ift.NewtonCG(ic_n)
    if route == "cl.newton.map":
        e, _ = _quiet(lambda: minim(ift.EnergyAdapter(s0, H, want_metric=True)))
        return e.position.asnumpy()
    if route == "cl.kl.mgvi":
        def go():
            with ift.random.Context(seed + 5):
                kl = ift.SampledKLEnergy(s0, H, 2, None, mirror_samples=True)
            e, _ = minim(kl)
            return e.position.asnumpy()
        return _quiet(go)
    if route == "cl.okl.mgvi":
        lhm = lhc.ducktape("x")

        def go():
            with ift.random.Context(seed + 6):
                sl, mean = ift.optimize_kl(lhm, 1, 2, minim, ic_s, nonlinear_sampling_minimizer=None, output_directory=None,
                                           initial_position=ift.MultiField.from_dict({"x": s0}),
                                           return_final_position=True, plot_energy_history=False,
                                           plot_minisanity_history=False, sanity_checks=False)
            return mean["x"].asnumpy()
        return _quiet(go)
    if route == "cl.T.kl":
        mean = ift.makeField(o["dom"], lg.np_mean())

        def draw(white):
            def go():
                with L.classic_feed_flat(white) as sizes:
                    kl = ift.SampledKLEnergy(mean, H, 1, None, mirror_samples=True)
                return kl, list(sizes)
            return _quiet(go)
        _, sz0 = draw(None)
        K = sum(sz0)
        cols = []
        for i in range(K):
            white = np.zeros(K)
            white[i] = 1.0
            kl, sz = draw(white)
            if sz != sz0:
                raise RuntimeError("white-noise requests changed between runs: %r vs %r" % (sz, sz0))
            smp = [s_.asnumpy() for s_ in kl.samples.iterator()]
            cols.append(smp[0] - mean.asnumpy())
            if np.abs((smp[1] - mean.asnumpy()) + cols[-1]).max() > 1e-12:
                raise RuntimeError("mirrored sample is not the negative")
        return np.array(cols).T
    raise ValueError(route)


def safe_route(lg, route, seed=0):
    try:
        out = run_route(lg, route, seed)
        if out is None:
            return None
        out = np.asarray(out, dtype=np.float64)
        if not np.all(np.isfinite(out)):
            return {"error": "non-finite result"}
        return out
    except Exception as e:  # an exception of the implementation is an observation, not a crash
        return {"error": "%s: %s" % (type(e).__name__, str(e)[:300]),
                "trace": traceback.format_exc()[-1200:]}


# --------------------------------------------------------------------------------------------------
# model terms and the direct (numpy) statement of the property
# --------------------------------------------------------------------------------------------------

def coq_term(lg, route, out):
    n = C.cnat(lg.n)
    # same comparison class as the direct oracle: 1e-7 * max(1, |result|_inf) for the mean routes
    # (absolute 1e-7 for the covariance identities, whose entries are O(1))
    import math
    scale = max(1, int(math.ceil(float(np.abs(np.asarray(out, dtype=np.float64)).max())))) \
        if route not in ("re.T", "cl.T.kl", "cl.T.wfc") else 1
    TOLQ = C.cq(Fr(scale, 10 ** 7))
    R, Ninv, N, d = qm(lg.R), qm(lg.Ninv), qm(lg.N), qv(lg.d)
    if route in ("re.wf.signal", "re.wf.absdelta"):
        return "corr_signal %s %s %s %s %s %s" % (TOLQ, n, R, Ninv, d, fv(out))
    if route == "re.wf.data":
        return "corr_data %s %s %s %s %s %s %s" % (TOLQ, n, R, N, Ninv, d, fv(out))
    if route == "re.wf.lin.signal":
        return "corr_lin_signal %s %s %s %s %s %s %s %s %s" % (TOLQ, n, R, qm(lg.Q), Ninv, qv(lg.c), d, qv(lg.p), fv(out))
    if route == "re.wf.lin.data":
        return "corr_lin_data %s %s %s %s %s %s %s %s %s %s" % (TOLQ, n, R, qm(lg.Q), N, Ninv, qv(lg.c), d, qv(lg.p), fv(out))
    if route in ("re.okl.map", "re.okl.mgvi", "cl.newton.map", "cl.kl.mgvi", "cl.okl.mgvi"):
        return "corr_map %s %s %s %s %s %s %s" % (TOLQ, n, R, Ninv, d, qv(lg.s0), fv(out))
    if route == "cl.wfc.inverse":
        j = [sum((lg.R[i][k] * sum((lg.Ninv[i][l] * lg.d[l] for l in range(lg.m)), Fr(0)) for i in range(lg.m)), Fr(0))
             for k in range(lg.n)]
        return "corr_curvature %s %s %s %s %s %s %s" % (TOLQ, n, R, Ninv, qv(lg.sinv), qv(j), fv(out))
    if route in ("re.T", "cl.T.kl"):
        return "corr_cov %s %s %s (post_cov_inv %s %s %s) %s" % (TOLQ, n, C.cnat(out.shape[1]), n, R, Ninv, fm(out))
    if route == "cl.T.wfc":
        return "corr_cov %s %s %s (curvature %s %s %s %s) %s" % (TOLQ, n, C.cnat(out.shape[1]), n, R, Ninv, qv(lg.sinv), fm(out))
    if route == "re.okl.schedule":
        k = (out.shape[0] - 1) // 2
        s0 = [Fr(x) for x in lg.p]          # P18.jax_model starts at the expansion point p
        terms = ["corr_map %s %s %s %s %s %s %s" % (TOLQ, n, R, Ninv, d, qv(s0), fv(out[0]))]
        for a, b in zip(out[1:1 + k], out[1 + k:]):
            terms.append("close %s %s %s" % (TOLQ, fv(a), fv(b)))
        return " && ".join("(%s)" % t for t in terms)
    if route == "re.wf.samples":
        # pos is the mean; the samples themselves are judged by the direct oracle and by re.T
        return "corr_signal %s %s %s %s %s %s" % (TOLQ, n, R, Ninv, d, fv(out[0]))
    raise ValueError(route)


def direct_failure(lg, route, out):
    """The property stated on the implementation with numpy.linalg; None if it holds."""
    if out is None:
        return None
    if isinstance(out, dict):
        return "route raised: " + out["error"]
    Rf, Ninv = lg.f("R"), lg.f("Ninv")
    if ".lin." in route:
        J, de = lg.np_lin()
        ref = lg.np_mean(J, de)
    elif route == "cl.wfc.inverse":
        A = Rf.T @ Ninv @ Rf + np.diag(lg.f("sinv"))
        ref = np.linalg.solve(A, Rf.T @ Ninv @ lg.f("d"))
    else:
        ref = lg.np_mean()
    if route in ("re.T", "cl.T.kl", "cl.T.wfc"):
        A = Rf.T @ Ninv @ Rf + (np.diag(lg.f("sinv")) if route == "cl.T.wfc" else np.eye(lg.n))
        err = np.abs(out @ out.T @ A - np.eye(lg.n)).max()
        if err > TOL:
            return "sampling factor: |T T^T (R^T N^-1 R + S^-1) - 1| = %.3e" % err
        return None
    if route == "re.okl.schedule":
        k = (out.shape[0] - 1) // 2
        pos, res, red = out[0], out[1:1 + k], out[1 + k:]
        if np.abs(pos - ref).max() > TOL * max(1.0, np.abs(ref).max()):
            return "two-iteration schedule with a point estimate: position differs from the exact posterior mean by %.3e" \
                % np.abs(pos - ref).max()
        nfro = lg.n - 1
        if np.any(res[:, 1:] != 0):
            return "two-iteration schedule (linear_resample -> nonlinear_update): point-estimated key has non-zero residuals (max %.3e)" \
                % np.abs(res[:, 1:]).max()
        if np.abs(res - red).max() > TOL:
            return "two-iteration schedule: residuals are not the linear residuals of the frozen likelihood (max dev. %.3e)" \
                % np.abs(res - red).max()
        return None
    if route == "re.wf.samples":
        pos, res, chk = out[0], out[1:5], out[5:7]
        if np.abs(pos - ref).max() > TOL:
            return "posterior mean off by %.3e" % np.abs(pos - ref).max()
        if np.abs(res[0::2] + res[1::2]).max() > 0:
            return "mirrored Wiener-filter samples are not exact negatives"
        if np.abs(res[0::2] - chk).max() > 1e-10:
            return "Wiener-filter samples are not draw_linear_residual at the posterior mean"
        return None
    err = np.abs(out - ref).max()
    if err > TOL * max(1.0, np.abs(ref).max()):
        return "result differs from the exact posterior mean by %.3e" % err
    return None


def route_sig(route):
    return {"api": "re" if route.startswith("re.") else "cl", "route": route}


class C20(C.Check):
    prop = "C20"
    coq_dir = "C20"
    build_timeout = 1500
    trusted_base = [
        "Coq 8.16.1 kernel, MathComp 1.15 (ssralg, matrix, mxalgebra, ssrnum); all C20 theorems are closed under the global context",
        "hand-written executable model coq/C20/Model.v (lists over Q) of wiener_filter_posterior / WienerFilterCurvature / Newton MAP; "
        "its linear solves are certified inside vm_compute (is_solution), the matrix theorems are stated on MathComp matrices "
        "(the two representations are related by reading, not by a proved isomorphism)",
        "harness/lg_common.py: case generator, rectangular dense LinearOperator for the classic API, noise-injection patches of "
        "nifty.re.evi.random_like and nifty.cl.random.Random.normal",
        "numpy.linalg closed forms in the direct oracle",
    ]
    assumptions = [
        "the inner iterative solves (CG, Newton-CG) converge: runs use tight tolerances (resnorm 1e-13 / abs. gradient norm 1e-12) on <= 4 pixel models; agreement demanded to 1e-7",
        "convergence of sample covariances is shown through the exact sampling factor T (T T^T = posterior covariance), not through Monte-Carlo sampling",
        "float64 evaluation of the generated models (small integers / dyadic rationals) is exact for the inputs; outputs are compared as exact dyadic rationals inside coqc",
    ]

    def __init__(self):
        self.obs = []

    def gen_cases(self, ctx):
        rng = ctx.rng(20)
        ncheap, nokl = (12, 3) if ctx.quick else (120, 24)
        cases = []
        # deterministic coverage of every response kind first, then random
        kinds = L.RKINDS
        for i in range(ncheap):
            rk = kinds[i % len(kinds)] if i < 2 * len(kinds) else None
            noise = "dense" if i % 4 == 3 else None
            # every third model has a complex-valued response and complex data (real signal)
            cases.append(L.gen_lg_case(rng, i, rkind=rk, noise=noise, cplx=(i % 3 == 1)))
        for i in range(3 if ctx.quick else 10):      # ill-conditioned models (solver-accuracy options)
            cases.append(L.gen_illcond_case(rng, 700 + i))
        for i in range(2 if ctx.quick else 6):       # classic CG beyond its reset interval
            cases.append(L.gen_illcond_cg_case(rng, 800 + i))
        for i in range(2 if ctx.quick else 8):       # identity response / operator simplification paths
            cases.append(L.gen_identity_case(rng, 900 + i))
        rng6 = ctx.rng(2006)                          # own stream: the cases above stay what they were
        for i in range(10 if ctx.quick else 60):     # round 6: scalar gain in R, lazily inverted diagonal noise
            cases.append(gen_gain_case(rng6, 600 + i, k=i))
        return cases, nokl

    def correspondence(self, ctx, res):
        _nifty_quiet()
        corpus = [c["case"] for c in ctx.corpus() if "case" in c]
        gen, nokl = self.gen_cases(ctx)
        cases = corpus + gen
        self.obs = []
        checks, meta = [], []
        for ci, case in enumerate(cases):
            lg = L.LG(case)
            routes = JAX_CHEAP + CL_ROUTES
            if case["rkind"] == "illcond":
                routes = ["re.wf.absdelta", "re.wf.signal", "re.wf.data"]
            if case["rkind"] == "illcond_cg":
                routes = ["cl.wfc.inverse", "re.wf.signal"]
            if case.get("gain"):
                routes = CL_ROUTES + GAIN_ROUTES
            # the expensive driver routes on a subset that always contains rank-deficient cases
            if case["rkind"] not in ("illcond", "illcond_cg") and (ci < len(corpus) or (ci - len(corpus)) < nokl):
                routes = routes + JAX_OKL
            for route in routes:
                out = safe_route(lg, route, seed=ctx.seed)
                if out is None:
                    continue
                self.obs.append((case, route, out))
                if isinstance(out, dict):
                    checks.append("false")
                else:
                    checks.append(coq_term(lg, route, out))
                meta.append((case, route))
        bad = L.eval_cases_pid(C, self.prop, HEADER, checks, 40)
        for i in bad[:4]:
            case, route = meta[i]
            out = self.obs[i][2]
            res.add_broken("correspondence", "%s vs coq/C20/Model.v" % route,
                           {"route": route, "case": case,
                            "impl": out if isinstance(out, dict) else np.asarray(out).tolist()})
        rd = {(json.dumps(c["R"]), c["noise"]) for c, r, o in self.obs if c["rank"] < min(c["m"], c["n"])}
        distinct = len({(json.dumps(c["R"]), json.dumps(c["W"]), json.dumps(c["d"])) for c, r, o in self.obs
                        if any(any(x != 0 for x in row) for row in c["R"])})
        dist = {}
        for c, r, o in self.obs:
            dist[r] = dist.get(r, 0) + 1
        res.coverage.update({
            "evaluations": len(checks), "distinct_nontrivial": distinct,
            "rule": "generated linear Gaussian models d = R s + n on %s pixels, R integer in [-2,2] of kinds %s, noise diagonal "
                    "(sigma in 1/2,1,2) or dense unimodular SPD, integer data; every route of both APIs; non-trivial = R != 0; "
                    "distinct by (R, noise, d); plus R = g*A with a real scalar gain g in %s spelled as %s and heteroscedastic "
                    "DiagonalOperator noise used through .inverse (%s)"
                    % (sorted(set(L.DIMS)), L.RKINDS, [str(g) for g in GAINS], SPELLINGS, NMODES),
            "gain_models": len({c["idx"] for c, r, o in self.obs if c.get("gain")}),
            "rank_deficient_models": len(rd),
            "samples": [{"case": c, "route": r} for c, r, o in self.obs[3:5]],
            "input_distribution": dist,
            "disagreements": len(bad),
            "tolerance": TOL,
        })
        return [meta[i] for i in bad]

    def oracle(self, ctx, res, hints, budget):
        _nifty_quiet()
        n = 0
        seen = set()
        for case, route, out in self.obs:
            n += 1
            lg = L.LG(case)
            f = direct_failure(lg, route, out)
            if f and route not in seen:
                seen.add(route)
                res.add_failing(route_sig(route), "%s: %s" % (route, f), {"case": case, "route": route, "seed": ctx.seed})
        # the two branches must agree with each other
        by_case = {}
        for case, route, out in self.obs:
            if isinstance(out, np.ndarray):
                by_case.setdefault(case["idx"], {})[route] = (case, out)
        for idx, d in by_case.items():
            for a, b in (("re.wf.signal", "re.wf.data"), ("re.wf.lin.signal", "re.wf.lin.data")):
                if a in d and b in d:
                    n += 1
                    err = np.abs(d[a][1] - d[b][1]).max()
                    if err > TOL and b not in seen:
                        seen.add(b)
                        res.add_failing(route_sig(b), "signal-space and data-space Wiener filter differ by %.3e" % err,
                                        {"case": d[a][0], "route": b, "seed": ctx.seed})
        if budget > 1 and not res.failing:
            rng = ctx.rng(2020)
            routes = [h[1] for h in hints] or (JAX_CHEAP + CL_ROUTES)
            for i in range(40 * budget):
                case = gen_gain_case(rng, 1000 + i) if i % 4 == 2 else L.gen_lg_case(rng, 1000 + i, cplx=(i % 2 == 1))
                lg = L.LG(case)
                for route in sorted(set(routes) & set(CL_ROUTES + GAIN_ROUTES) if case.get("gain") else set(routes)):
                    out = safe_route(lg, route, seed=ctx.seed)
                    n += 1
                    f = direct_failure(lg, route, out)
                    if f:
                        res.add_failing(route_sig(route), "%s: %s" % (route, f),
                                        {"case": case, "route": route, "seed": ctx.seed})
                        break
                if res.failing:
                    break
        res.coverage["impl_property_evaluations"] = n

    def replay(self, ctx, rp):
        _nifty_quiet()
        i = rp["input"]
        lg = L.LG(i["case"])
        route = i["route"]
        out = safe_route(lg, route, seed=i.get("seed", 0))
        f = direct_failure(lg, route, out)
        if f is None and route.endswith(".data"):
            a = safe_route(lg, route.replace(".data", ".signal"), seed=i.get("seed", 0))
            if isinstance(a, np.ndarray) and isinstance(out, np.ndarray) and np.abs(a - out).max() > TOL:
                f = "branches differ"
        if f:
            print("  " + f)
        return f is not None


CHECK = C20()
