"""C35 -- Response operators compute their documented quantity.

Tie: hand models coq/C35/Model.v (LinearInterpolator._build_mat, LOSResponse._comp_traverse,
RegriddingOperator / FieldZeroPadder per axis, MaskOperator) + correspondence: dense matrices of the
real operators (public API, applied to unit vectors) on generated grids / positions / segments /
masks are compared inside coqc with the model in exact rational arithmetic -- exactly where float64 is
exact (dyadic positions, power-of-two pixel sizes, small-integer fields), with an absolute tolerance
1e-6*length for the line-of-sight weights (the implementation stores them in float32 and shortens
every line by 2e-7 in the line parameter).
Direct oracle (implementation only): interpolation of sampled multilinear functions, exact rational
clipping of every segment against every pixel box (slab method) and brute-force sub-sampling for LOS,
response to a constant field = c * clipped length, independent NumPy references for regridding /
padding / masks, the explicit Fourier sums for Nufft (tolerance 10*epsilon), and the JAX sampling
LOS on constant / linear fields."""
import itertools
import json
import math
import os
from fractions import Fraction

import numpy as np

from .. import common as C

HEADER = ("From Coq Require Import ZArith QArith List Bool.\nImport ListNotations.\n"
          "Require Import NV.C35.Model NV.C35.Exec.\nLocal Open Scope Q_scope.\n")
EPS_HACK = 1e-7          # the literal of los_response.py (checked against the source in translate())


def dy(rng, lo, hi, bits):
    s = 1 << bits
    return int(rng.integers(int(lo * s), int(hi * s) + 1)) / s


def cql(v):
    return C.clist([C.cq(float(x)) for x in np.asarray(v, dtype=float).ravel()])


def czl(v):
    return C.clist([C.cz(int(x)) for x in v])


def _js(c):
    return json.loads(json.dumps(c, default=lambda x: np.asarray(x).tolist()))


def dense(op, mode="times"):
    """dense matrix of a NIFTy linear operator through its public interface."""
    import nifty.cl as ift
    dom = op.domain if mode == "times" else op.target
    n = int(np.prod(dom.shape)) if dom.shape else 1
    cols = []
    for j in range(n):
        e = np.zeros(n)
        e[j] = 1.0
        f = ift.makeField(dom, e.reshape(dom.shape))
        r = op(f) if mode == "times" else op.adjoint(f)
        cols.append(np.asarray(r.asnumpy(), dtype=float).ravel())
    return np.array(cols).T


# --------------------------------------------------------------------------------------------------
# case generation
# --------------------------------------------------------------------------------------------------

def gen_grid(rng, maxdim=3):
    d = int(rng.integers(1, maxdim + 1))
    shape = [int(rng.integers(2, 6 if d < 3 else 4)) for _ in range(d)]
    dist = [[0.25, 0.5, 1.0, 2.0][int(rng.integers(0, 4))] for _ in range(d)]
    return shape, dist


def interp_cases(ctx):
    rng = ctx.rng(3501)
    out = []
    for i in range(25 if ctx.quick else 200):
        shape, dist = gen_grid(rng)
        npts = int(rng.integers(1, 5))
        pts = []
        for _ in range(npts):
            mode = int(rng.integers(0, 4))
            p = []
            for k in range(len(shape)):
                L = shape[k] * dist[k]
                if mode == 0:      # on a grid point
                    p.append(int(rng.integers(0, shape[k])) * dist[k])
                elif mode == 1:    # outside: periodic wrap, also negative
                    p.append(dy(rng, -2 * L, 3 * L, 3) * 1.0)
                else:
                    p.append(int(rng.integers(0, 8 * shape[k])) * dist[k] / 8)
            pts.append(p)
        c = {"kind": "interp", "shape": shape, "dist": dist, "points": pts}
        if len(shape) > 1 and i % 2 == 0:
            # the same grid given as a tuple of 1-D RGSpaces, with pairwise DIFFERENT pixel sizes
            c["product"] = True
            pool = [0.25, 0.5, 1.0, 2.0]
            c["dist"] = [pool[(int(rng.integers(0, 4)) + k) % 4] for k in range(len(shape))]
            c["points"] = [[p[k] / dist[k] * c["dist"][k] for k in range(len(shape))] for p in pts]
        out.append(c)
    return out


def los_cases(ctx):
    rng = ctx.rng(3502)
    out = []
    for i in range(30 if ctx.quick else 250):
        shape, dist = gen_grid(rng)
        d = len(shape)
        L = [shape[k] * dist[k] for k in range(d)]
        nl = int(rng.integers(1, 4))
        st, en = [], []
        for _ in range(nl):
            mode = int(rng.integers(0, 5))
            s = [dy(rng, -0.5, 1.25, 4) * L[k] for k in range(d)]
            e = [dy(rng, -0.5, 1.25, 4) * L[k] for k in range(d)]
            if mode == 0 and d > 1:        # axis aligned
                ax = int(rng.integers(0, d))
                for k in range(d):
                    if k != ax:
                        e[k] = s[k]
            elif mode == 1:                # through pixel corners / along pixel boundaries
                s = [(int(rng.integers(0, shape[k] + 1)) - 0.5) * dist[k] for k in range(d)]
                e = [(int(rng.integers(0, shape[k] + 1)) - 0.5) * dist[k] for k in range(d)]
            elif mode == 2:                # fully inside
                s = [dy(rng, 0.0, 0.75, 4) * (L[k] - dist[k]) for k in range(d)]
                e = [dy(rng, 0.0, 0.75, 4) * (L[k] - dist[k]) for k in range(d)]
            if all(abs(a - b) < 1e-3 for a, b in zip(s, e)):
                e[0] = s[0] + dist[0]
            st.append(s)
            en.append(e)
        out.append({"kind": "los", "shape": shape, "dist": dist, "starts": st, "ends": en})
    return out


def ops_cases(ctx):
    rng = ctx.rng(3503)
    out = []
    for (no, nn) in [(8, 4), (8, 8), (12, 8), (10, 8), (7, 4), (6, 4), (5, 4), (4, 2), (3, 2), (16, 4), (9, 8), (2, 1), (2, 2)]:
        out.append({"kind": "regrid", "n_old": no, "n_new": nn, "v": [int(x) for x in rng.integers(-8, 9, size=no)],
                    "w": [int(x) for x in rng.integers(-8, 9, size=nn)]})
    for n in range(1, 8):
        for nn in range(n, n + 4):
            for central in (False, True):
                out.append({"kind": "pad", "n": n, "n_new": nn, "central": central,
                            "v": [int(x) for x in rng.integers(-8, 9, size=n)],
                            "w": [int(x) for x in rng.integers(-8, 9, size=nn)]})
    for i in range(12 if ctx.quick else 60):
        shape = [int(rng.integers(1, 5)) for _ in range(int(rng.integers(1, 3)))]
        n = int(np.prod(shape))
        flags = [bool(x) for x in rng.integers(0, 2, size=n)]
        if i == 0:
            flags = [True] * n
        if i == 1:
            flags = [False] * n
        out.append({"kind": "mask", "shape": shape, "flags": flags, "x": [int(x) for x in rng.integers(-8, 9, size=n)],
                    "y": [int(x) for x in rng.integers(-8, 9, size=n - sum(flags))]})
    return out


# --------------------------------------------------------------------------------------------------
# observation of the implementation
# --------------------------------------------------------------------------------------------------

def observe(c):
    import nifty.cl as ift
    k = c["kind"]
    if k == "interp":
        if c.get("product"):
            dom = tuple(ift.RGSpace((n,), distances=(dd,)) for n, dd in zip(c["shape"], c["dist"]))
        else:
            dom = ift.RGSpace(tuple(c["shape"]), distances=tuple(c["dist"]))
        op = ift.LinearInterpolator(dom, np.array(c["points"], dtype=float).T)
        return {"M": dense(op)}
    if k == "los":
        dom = ift.RGSpace(tuple(c["shape"]), distances=tuple(c["dist"]))
        op = ift.LOSResponse(dom, np.array(c["starts"], dtype=float).T, np.array(c["ends"], dtype=float).T)
        return {"M": dense(op)}
    if k == "regrid":
        dom = ift.RGSpace((c["n_old"],))
        op = ift.RegriddingOperator(dom, (c["n_new"],))
        o = {"y": op(ift.makeField(dom, np.array(c["v"], dtype=float))).asnumpy()}
        if c.get("w") is not None:
            o["z"] = op.adjoint(ift.makeField(op.target, np.array(c["w"], dtype=float))).asnumpy()
        return o
    if k == "pad":
        dom = ift.RGSpace((c["n"],))
        op = ift.FieldZeroPadder(dom, (c["n_new"],), central=c["central"])
        return {"y": op(ift.makeField(dom, np.array(c["v"], dtype=float))).asnumpy(),
                "z": op.adjoint(ift.makeField(op.target, np.array(c["w"], dtype=float))).asnumpy()}
    if k == "mask":
        dom = ift.RGSpace(tuple(c["shape"]))
        op = ift.MaskOperator(ift.makeField(dom, np.array(c["flags"]).reshape(c["shape"])))
        return {"y": op(ift.makeField(dom, np.array(c["x"], dtype=float).reshape(c["shape"]))).asnumpy(),
                "z": op.adjoint(ift.makeField(op.target, np.array(c["y"], dtype=float))).asnumpy(),
                "ntarget": int(op.target.shape[0])}
    raise ValueError(k)


def checks_for(c, o):
    k = c["kind"]
    out = []
    if k == "interp":
        npix = int(np.prod(c["shape"]))
        for p, row in zip(c["points"], o["M"]):
            out.append(("interp", "interp_case %s %s %s %d %s" % (czl(c["shape"]), cql(c["dist"]), cql(p), npix, cql(row))))
    elif k == "los":
        npix = int(np.prod(c["shape"]))
        for s, e, row in zip(c["starts"], c["ends"], o["M"]):
            ps = [Fraction(a) / Fraction(dd) + Fraction(1, 2) for a, dd in zip(s, c["dist"])]
            pe = [Fraction(a) / Fraction(dd) + Fraction(1, 2) for a, dd in zip(e, c["dist"])]
            corfac = float(np.linalg.norm(np.array(e) - np.array(s)))
            tol = 1e-6 * corfac + 1e-12
            out.append(("los", "los_case %s %s %s %s %d %s %s %s" % (
                C.cq(EPS_HACK), C.clist([C.cq(x) for x in ps]), C.clist([C.cq(x) for x in pe]), czl(c["shape"]), npix,
                C.cq(corfac), C.cq(tol), cql(row))))
    elif k == "regrid":
        out.append(("regrid", "regrid_case %s %s %s" % (cql(c["v"]), C.cz(c["n_new"]), cql(o["y"]))))
        if "z" in o:
            out.append(("regrid_adj", "regrid_adj_case %s %s %s" % (cql(c["w"]), C.cz(c["n_old"]), cql(o["z"]))))
    elif k == "pad":
        out.append(("pad", "pad_case %s %s %d %s" % (C.cbool(c["central"]), cql(c["v"]), c["n_new"], cql(o["y"]))))
        out.append(("crop", "crop_case %s %s %d %s" % (C.cbool(c["central"]), cql(c["w"]), c["n"], cql(o["z"]))))
    elif k == "mask":
        fl = C.clist([C.cbool(f) for f in c["flags"]])
        out.append(("mask", "mask_case %s %s %s" % (fl, cql(c["x"]), cql(o["y"]))))
        out.append(("mask_adj", "mask_adj_case %s %s %s" % (fl, cql(c["y"]), cql(o["z"]))))
    return out



# --------------------------------------------------------------------------------------------------
# LOS with parallax errors (sigmas)
# --------------------------------------------------------------------------------------------------

def los_sigma_cases(ctx):
    rng = ctx.rng(3504)
    out = []
    for i in range(10 if ctx.quick else 60):
        shape, dist = gen_grid(rng, maxdim=2)
        d = len(shape)
        L = [shape[k] * dist[k] for k in range(d)]
        st, en, sg = [], [], []
        for _ in range(int(rng.integers(1, 4))):
            s = [dy(rng, -0.25, 0.75, 4) * L[k] for k in range(d)]
            e = [dy(rng, 0.0, 1.0, 4) * L[k] for k in range(d)]
            if all(abs(a - b) < 1e-3 for a, b in zip(s, e)):
                e[0] = s[0] + dist[0]
            ln = float(np.linalg.norm(np.array(e) - np.array(s)))
            frac = [0.0, 0.25, 0.5, 0.75][int(rng.integers(0, 4))]
            st.append(s)
            en.append(e)
            sg.append(frac / (3.0 * ln))
        out.append({"kind": "los_sigma", "shape": shape, "dist": dist, "starts": st, "ends": en, "sigmas": sg})
    return out


def los_sigma_reference(c):
    """per line: implementation row, exact per-pixel (length, mid-point distance) of the extended segment,
    and the documented weight  length * [1 | sf((1/mid - 1/dist)/sigma) | 0]."""
    import nifty.cl as ift
    from scipy.special import erfc
    dom = ift.RGSpace(tuple(c["shape"]), distances=tuple(c["dist"]))
    op = ift.LOSResponse(dom, np.array(c["starts"], dtype=float).T, np.array(c["ends"], dtype=float).T,
                         sigmas=np.array(c["sigmas"], dtype=float))
    M = dense(op)
    out = []
    for s, e, sig, row in zip(c["starts"], c["ends"], c["sigmas"], M):
        s, e = np.array(s, float), np.array(e, float)
        ln = float(np.linalg.norm(e - s))
        lo, hi = 1.0 / (1.0 / ln + 3.0 * sig), 1.0 / (1.0 / ln - 3.0 * sig)
        real_end = s + (e - s) / ln * hi
        pieces = exact_los_pieces(c["shape"], c["dist"], s.tolist(), real_end.tolist())
        want = np.zeros(len(row))
        info = []
        for j, (t0, t1) in pieces.items():
            length = float(t1 - t0) * hi
            md = float((t0 + t1) / 2) * hi
            if md > hi:
                f = 0.0
            elif md > lo and sig > 0:
                f = 0.5 * erfc(((-1.0 / md + 1.0 / ln) / sig) / math.sqrt(2.0))
            else:
                f = 1.0
            want[j] = length * f
            info.append((j, length, md))
        out.append({"row": row, "want": want, "lo": lo, "hi": hi, "len": ln, "sig": sig, "pieces": info})
    return out


def exact_los_pieces(shape, dist, s, e):
    """like exact_los_row, but returns the parameter interval (t0, t1) per pixel"""
    d = len(shape)
    S = [Fraction(x) for x in s]
    E = [Fraction(x) for x in e]
    D = [Fraction(x) for x in dist]
    out = {}
    for idx in itertools.product(*[range(n) for n in shape]):
        t0, t1 = Fraction(0), Fraction(1)
        ok = True
        for k in range(d):
            lo, hi = (idx[k] - Fraction(1, 2)) * D[k], (idx[k] + Fraction(1, 2)) * D[k]
            dr = E[k] - S[k]
            if dr == 0:
                if not (lo <= S[k] < hi) or (idx[k] == 0 and S[k] == lo):
                    ok = False
                    break
            else:
                a, b = (lo - S[k]) / dr, (hi - S[k]) / dr
                if a > b:
                    a, b = b, a
                t0, t1 = max(t0, a), min(t1, b)
        if ok and t1 > t0:
            out[int(np.ravel_multi_index(idx, shape))] = (t0, t1)
    return out


def los_sigma_checks(c, ref):
    """regime of every sub-segment (from the ratio implementation weight / exact length) against erf_regime"""
    out = []
    for r in ref:
        if r["sig"] == 0:
            continue
        for j, length, md in r["pieces"]:
            if length < 1e-3 * r["len"] or min(abs(md - r["lo"]), abs(md - r["hi"])) < 1e-4 * r["len"]:
                continue
            ratio = r["row"][j] / length
            obs = 0 if ratio > 1 - 1e-4 else (2 if ratio < 1e-4 else 1)
            out.append(("los-regime", "regime_case %s %s %s %d" % (C.cq(r["lo"]), C.cq(r["hi"]), C.cq(md), obs)))
    return out


def los_sigma_failure(c, ref):
    for i, r in enumerate(ref):
        tol = 3e-6 * r["hi"] + 1e-12
        if np.max(np.abs(r["row"] - r["want"])) > tol:
            j = int(np.argmax(np.abs(r["row"] - r["want"])))
            return ("los-parallax", "line %d (length %.6g, sigma %.4g: near / far truncation %.6g / %.6g): pixel %d gets weight %.9g, documented %.9g" % (
                i, r["len"], r["sig"], r["lo"], r["hi"], j, r["row"][j], r["want"][j]))
    return None

# --------------------------------------------------------------------------------------------------
# direct oracle
# --------------------------------------------------------------------------------------------------

def exact_los_row(shape, dist, s, e):
    """Exact (rational) length of the segment s->e inside every pixel box; pixel i covers
    [(i-1/2) d, (i+1/2) d] on each axis.  Returns parameter fractions per flat pixel."""
    d = len(shape)
    S = [Fraction(x) for x in s]
    E = [Fraction(x) for x in e]
    D = [Fraction(x) for x in dist]
    row = {}
    for idx in itertools.product(*[range(n) for n in shape]):
        t0, t1 = Fraction(0), Fraction(1)
        ok = True
        for k in range(d):
            lo, hi = (idx[k] - Fraction(1, 2)) * D[k], (idx[k] + Fraction(1, 2)) * D[k]
            dr = E[k] - S[k]
            if dr == 0:
                # a line running exactly on an inner pixel boundary belongs to the upper pixel (half-open
                # boxes); one running exactly on an outer face of the volume does not intersect it
                # (boundary conventions on sets of measure zero, as coded: `start > 0`, `start < pmax`)
                if not (lo <= S[k] < hi) or (idx[k] == 0 and S[k] == lo):
                    ok = False
                    break
            else:
                a, b = (lo - S[k]) / dr, (hi - S[k]) / dr
                if a > b:
                    a, b = b, a
                t0, t1 = max(t0, a), min(t1, b)
        if ok and t1 > t0:
            row[int(np.ravel_multi_index(idx, shape))] = t1 - t0
    return row


def direct_failure(c):
    import nifty.cl as ift
    k = c["kind"]
    if k == "interp":
        o = observe(c)
        M = o["M"]
        shape, dist = c["shape"], c["dist"]
        d = len(shape)
        if not np.all(M >= 0):
            return ("interp-weights", "negative interpolation weight")
        if np.max(np.abs(M.sum(axis=1) - 1)) > 1e-12:
            return ("interp-weights", "interpolation weights of a point do not sum to 1")
        # a multilinear function with integer coefficients sampled on the grid
        rng = np.random.default_rng(c.get("seed", 1))
        coef = rng.integers(-3, 4, size=(2,) * d).astype(float)

        def f(x):
            return sum(coef[b] * np.prod([x[k] if b[k] else 1.0 for k in range(d)]) for b in itertools.product((0, 1), repeat=d))
        grid = np.array([f([i * dd for i, dd in zip(idx, dist)]) for idx in itertools.product(*[range(n) for n in shape])])
        for p, row in zip(c["points"], M):
            if all(0 <= p[kk] <= (shape[kk] - 1) * dist[kk] for kk in range(d)):
                got, want = float(row @ grid), f(p)
                if abs(got - want) > 1e-9 * max(1.0, abs(want)):
                    return ("interp-multilinear", "multilinear function interpolated to %r instead of %r at %r" % (got, want, p))
            if all(abs(p[kk] / dist[kk] - round(p[kk] / dist[kk])) == 0 for kk in range(d)):
                idx = tuple(int(round(p[kk] / dist[kk])) % shape[kk] for kk in range(d))
                j = int(np.ravel_multi_index(idx, shape))
                if abs(row[j] - 1) > 1e-12:
                    return ("interp-gridpoint", "a sampling position on a grid point does not return that pixel")
        return None
    if k == "los":
        o = observe(c)
        M = o["M"]
        shape, dist = c["shape"], c["dist"]
        for s, e, row in zip(c["starts"], c["ends"], M):
            length = float(np.linalg.norm(np.array(e) - np.array(s)))
            ex = exact_los_row(shape, dist, s, e)
            want = np.zeros(len(row))
            for j, fr in ex.items():
                want[j] = float(fr) * length
            tol = 2e-6 * length + 1e-12
            if np.max(np.abs(row - want)) > tol:
                j = int(np.argmax(np.abs(row - want)))
                return ("los-weights", "pixel %d gets weight %.9g, the exact length of the segment inside it is %.9g" % (j, row[j], want[j]))
            if abs(row.sum() - want.sum()) > tol * 2:
                return ("los-constant", "response to a constant field is %.9g * c, clipped length %.9g" % (row.sum(), want.sum()))
            # brute force: nearest-pixel field sampled along the line (not for lines that run exactly
            # along a pixel boundary: which side they belong to is a convention, handled above)
            if any(a == b and (Fraction(a) / Fraction(dd) + Fraction(1, 2)).denominator == 1 for a, b, dd in zip(s, e, dist)):
                continue
            rng = np.random.default_rng(5)
            field = rng.integers(-4, 5, size=len(row)).astype(float)
            Msub = 4000
            t = (np.arange(Msub) + 0.5) / Msub
            pts = np.array(s)[:, None] + (np.array(e) - np.array(s))[:, None] * t[None, :]
            pix = np.floor(pts / np.array(dist)[:, None] + 0.5).astype(int)
            inside = np.all((pix >= 0) & (pix < np.array(shape)[:, None]), axis=0)
            flat = np.ravel_multi_index(tuple(np.where(inside, pix[kk], 0) for kk in range(len(shape))), shape)
            brute = float(np.sum(np.where(inside, field[flat], 0.0))) * length / Msub
            ncross = sum(shape) + 2
            if abs(float(row @ field) - brute) > 4.0 * ncross * length / Msub + tol * 8:
                return ("los-integral", "line integral %.6g, brute-force sub-sampling gives %.6g" % (float(row @ field), brute))
        return None
    if k == "regrid":
        o = observe(c)
        v = np.array(c["v"], dtype=float)
        no, nn = c["n_old"], c["n_new"]
        want = np.zeros(nn)
        for i in range(nn):
            t = Fraction(i * no, nn)
            b = min(no - 2, t.numerator // t.denominator)
            fr = float(t - b)
            want[i] = v[b] * (1 - fr) + v[b + 1] * fr
        if np.max(np.abs(o["y"] - want)) > 1e-9 * max(1.0, np.max(np.abs(v))):
            return ("regrid", "regridding %d -> %d differs from linear interpolation at positions i*n_old/n_new" % (no, nn))
        if "z" in o:
            w = np.array(c["w"], dtype=float)
            if abs(float(o["y"] @ w) - float(v @ o["z"])) > 1e-9 * max(1.0, float(np.abs(v).sum() * np.abs(w).sum())):
                return ("regrid-adjoint", "regridding %d -> %d: <Rv,w> != <v,R^T w>" % (no, nn))
            if len(o["z"]) != no or abs(float(o["z"].sum()) - float(w.sum())) > 1e-9 * max(1.0, float(np.abs(w).sum())):
                return ("regrid-adjoint", "adjoint regridding %d -> %d does not conserve the total" % (no, nn))
        return None
    if k == "pad":
        o = observe(c)
        v, w, n, nn = np.array(c["v"], float), np.array(c["w"], float), c["n"], c["n_new"]
        want = np.zeros(nn)
        if n == nn or not c["central"]:
            want[:n] = v
            wadj = w[:n]
        else:
            ny = n // 2
            want[:ny + 1] = v[:ny + 1]
            for j in range(1, ny + 1):
                want[nn - j] = v[n - j]
            wadj = np.zeros(n)
            wadj[:ny + 1] = w[:ny + 1]
            for j in range(1, ny + 1):
                wadj[n - j] += w[nn - j]
        if not np.array_equal(o["y"], want):
            return ("pad", "zero padding %d -> %d (central=%s) is not the documented embedding" % (n, nn, c["central"]))
        if not np.array_equal(o["z"], wadj):
            return ("pad-adjoint", "adjoint of zero padding %d -> %d (central=%s) is wrong" % (n, nn, c["central"]))
        if abs(float(o["y"] @ w) - float(v @ o["z"])) > 1e-9:
            return ("pad-adjoint", "<Pv,w> != <v,P^T w>")
        return None
    if k == "mask":
        o = observe(c)
        fl = np.array(c["flags"])
        x = np.array(c["x"], float)
        if o["ntarget"] != int((~fl).sum()) or not np.array_equal(o["y"], x[~fl]):
            return ("mask", "mask does not return exactly the unflagged pixels in C order")
        back = np.zeros(len(x))
        back[~fl] = np.array(c["y"], float)
        if not np.array_equal(np.asarray(o["z"]).ravel(), back):
            return ("mask-adjoint", "adjoint of the mask does not scatter / zero")
        return None
    if k == "nufft":
        return _direct_nufft(c)
    if k == "shiftfft":
        return _direct_shiftfft(c)
    if k == "los_sigma":
        return los_sigma_failure(c, los_sigma_reference(c))
    if k == "sampling_los":
        return _direct_sampling_los(c)
    raise ValueError(k)


def _direct_nufft(c):
    import nifty.cl as ift
    rng = np.random.default_rng(c["seed"])
    shape, dist, eps, N = c["shape"], c["dist"], c["eps"], c["n"]
    d = len(shape)
    dom = ift.RGSpace(tuple(shape), distances=tuple(dist))
    pos = (rng.random((N, d)) - 0.5) / np.array(dist)
    vis = rng.standard_normal(N) + 1j * rng.standard_normal(N)
    op = ift.Nufft(dom, pos=pos, eps=eps)
    got = op(ift.makeField(op.domain, vis)).asnumpy()
    ks = np.meshgrid(*[-n / 2 + np.arange(n) for n in shape], indexing="ij")
    phase = lambda i: 2j * np.pi * sum(ks[a] * pos[i, a] * dist[a] for a in range(d))
    want = sum((vis[i] * np.exp(phase(i))).real for i in range(N))
    err = np.linalg.norm(got - want) / np.linalg.norm(want)
    if not err < 10 * eps:
        return ("nufft", "Nufft differs from the explicit Fourier sum: relative l2 error %.2e for epsilon %.0e" % (err, eps))
    g = rng.standard_normal(shape)
    gota = op.adjoint(ift.makeField(op.target, g)).asnumpy()
    wanta = np.array([np.sum(g * np.exp(-phase(i))) for i in range(N)])
    erra = np.linalg.norm(gota - wanta) / np.linalg.norm(wanta)
    if not erra < 10 * eps:
        return ("nufft-adjoint", "adjoint Nufft differs from the explicit sum: relative l2 error %.2e for epsilon %.0e" % (erra, eps))
    return None


def _direct_shiftfft(c):
    """ShiftedPositionFFT documents `shift_directions : int, set of ints or None`: every documented form
    must construct the operator, and equal forms must give the same operator."""
    import nifty.cl as ift
    dom = ift.RGSpace(tuple(c["shape"]), distances=tuple(c["dist"]))
    forms = {"int": int(c["dir"]), "set": {int(c["dir"])}, "tuple": (int(c["dir"]),)}
    if c.get("all_dirs"):
        forms = {"none": None, "set": set(range(len(c["shape"]))), "tuple": tuple(range(len(c["shape"])))}
    ops = {}
    for name, sd in forms.items():
        try:
            ops[name] = ift.ShiftedPositionFFT(dom, 1e-9, None, sd)
        except Exception as e:
            return ("shiftfft-argument", "ShiftedPositionFFT(shift_directions=%r) raises %s: %s (documented: int, set of ints or None)" % (
                sd, type(e).__name__, str(e)[:100]))
    rng = np.random.default_rng(c["seed"])
    ref = None
    for name, op in ops.items():
        inp = ift.MultiField.from_dict({
            "grid": ift.makeField(op.domain["grid"], rng.standard_normal(op.domain["grid"].shape) + 0j) if ref is None else ref[0]["grid"],
            "delta_coord": ift.makeField(op.domain["delta_coord"], 0.25 * rng.standard_normal(op.domain["delta_coord"].shape)) if ref is None else ref[0]["delta_coord"],
        }, domain=op.domain)
        val = op(inp).asnumpy()
        if ref is None:
            ref = (inp, val)
        elif np.max(np.abs(val - ref[1])) > 1e-7 * max(1.0, np.max(np.abs(ref[1]))):
            return ("shiftfft-argument", "ShiftedPositionFFT gives different results for equivalent forms of shift_directions")
    return None


def _direct_sampling_los(c):
    import jax
    jax.config.update("jax_enable_x64", True)
    import jax.numpy as jnp
    from nifty.re.extra.sampling_los import SamplingCartesianGridLOS
    shape, dist = c["shape"], c["dist"]
    d = len(shape)
    rng = np.random.default_rng(c["seed"])
    ext = np.array(shape) * np.array(dist)
    st = rng.random((3, d)) * 0.8 * ext + 0.05 * ext
    en = rng.random((3, d)) * 0.8 * ext + 0.05 * ext
    op = SamplingCartesianGridLOS(st, en, shape=tuple(shape), distances=tuple(dist), n_sampling_points=64)
    length = np.linalg.norm(en - st, axis=1)
    cval = 2.5
    got = np.asarray(op(jnp.full(tuple(shape), cval)))
    if np.max(np.abs(got - cval * length)) > 1e-9 * np.max(length):
        return ("sampling-los-constant", "sampling LOS of a constant field is not c * length")
    # field linear in the index coordinates of the operator's own location->index map
    a = rng.integers(-3, 4, size=d).astype(float)
    idx = np.stack(np.meshgrid(*[np.arange(n) for n in shape], indexing="ij"), axis=-1).astype(float)
    fld = idx @ a + 1.0
    l2i = ((np.array(shape) - 1) / np.array(shape)) / np.array(dist)
    mid = 0.5 * (st + en) * l2i
    want = (mid @ a + 1.0) * length
    got = np.asarray(op(jnp.asarray(fld)))
    if np.max(np.abs(got - want)) > 1e-9 * max(1.0, np.max(np.abs(want))):
        return ("sampling-los-linear", "sampling LOS of a linear field differs from length * value at the midpoint")
    return None


# --------------------------------------------------------------------------------------------------

class C35(C.Check):
    prop = "C35"
    coq_dir = "C35"
    extra_targets = ["C35/Exec.vo"]
    trusted_base = [
        "Coq 8.16.1 kernel (coqc, vm_compute for the correspondence); no axioms: all C35 theorems are closed under the global context",
        "hand models coq/C35/Model.v of LinearInterpolator._build_mat, LOSResponse._comp_traverse (sigma = 0), RegriddingOperator / FieldZeroPadder (one axis), MaskOperator -- tied by correspondence, not by translation",
        "dense matrices obtained through the operators' public interface (application to unit vectors)",
        "LOS weights: tolerance 1e-6 * segment length (float32 storage and the 1e-7 parameter offset of the implementation); |direction*dist| (a square root) is supplied by the harness",
        "ducc0's NUFFT kernel accuracy (oracle only: explicit Fourier sums within 10*epsilon)",
    ]
    assumptions = [
        "exact arithmetic in the theorems; float64 is exact on the dyadic correspondence inputs",
        "LOS: that each sub-segment lies in the cell it is attributed to is not proved (exact rational clipping in the oracle)",
        "Gridder, VariablePositionNufft, parallax-error (sigma > 0) weighting of LOSResponse: not covered",
    ]

    def __init__(self):
        self.cases, self.obs = [], []

    def translate(self, ctx):
        # the model's constants must be the source's
        src = open(os.path.join(ctx.repo, "nifty/cl/library/los_response.py")).read()
        for needle in ("dmin += 1e-7", "dmax -= 1e-7", "xwgt = np.empty(ntot, dtype=np.float32)", "1e12", "pixel_starts = starts/dist + 0.5"):
            if needle not in src:
                raise C.TranslationError("los_response.py: `%s` not found; the model's constants are stale" % needle)

    def correspondence(self, ctx, res):
        cases = [c for c in ctx.corpus() if c.get("kind") in ("interp", "los", "regrid", "pad", "mask")]
        cases += interp_cases(ctx) + los_cases(ctx) + ops_cases(ctx)
        self.sigma_obs = []
        checks, meta, dist = [], [], {}
        self.cases, self.obs = [], []
        nontriv = set()
        for c in cases:
            try:
                o = observe(c)
            except Exception as e:
                res.add_broken("correspondence", "implementation raised", {"case": _js(c), "error": repr(e)[:300]})
                continue
            self.cases.append(c)
            self.obs.append(o)
            for lab, t in checks_for(c, o):
                checks.append(t)
                meta.append((lab, c))
                dist[lab] = dist.get(lab, 0) + 1
            if c["kind"] in ("interp", "los"):
                nz = int(np.count_nonzero(o["M"]))
                nontriv.add((c["kind"], len(c["shape"]), min(nz, 12), bool(c.get("product"))))
            else:
                nontriv.add((c["kind"], c.get("central"), c.get("n_new", 0) > c.get("n", 0)))
        for c in [c for c in ctx.corpus() if c.get("kind") == "los_sigma"] + los_sigma_cases(ctx):
            try:
                ref = los_sigma_reference(c)
            except Exception as e:
                res.add_broken("correspondence", "implementation raised", {"case": _js(c), "error": repr(e)[:300]})
                continue
            self.sigma_obs.append((c, ref))
            for lab, t in los_sigma_checks(c, ref):
                checks.append(t)
                meta.append((lab, c))
                dist[lab] = dist.get(lab, 0) + 1
            nontriv.add(("los_sigma", len(c["shape"]), tuple(round(x * 1e3) for x in c["sigmas"])))
        name = "corr%d" % os.getpid()
        try:
            bad = C.eval_cases(self.prop, name, HEADER, checks)
        finally:
            for f in os.listdir(ctx.run_dir()):
                if f.startswith("cases_%s_" % name) or f.startswith(".cases_%s_" % name):
                    try:
                        os.remove(os.path.join(ctx.run_dir(), f))
                    except OSError:
                        pass
        for i in bad[:5]:
            lab, c = meta[i]
            res.add_broken("correspondence", "%s: implementation vs coq/C35 model" % lab, {"case": _js(c), "check": checks[i][:1500]})
        self.bad_cases = [meta[i][1] for i in bad]
        res.coverage.update({
            "evaluations": len(checks), "distinct_nontrivial": len(nontriv),
            "rule": "generated RGSpaces (1-3 axes, 2-5 pixels, pixel sizes 1/4..2), dyadic sampling positions (grid points, inside, outside/negative: periodic wrap), dyadic segment end points (inside/outside the volume, axis aligned, through pixel corners and along pixel boundaries), LOS with parallax errors (sigmas, truncation 3): for every sub-segment the treatment (full / survival-function weighted / dropped, read off the ratio weight / exact length) against erf_regime; regridding with dyadic ratios, padding n -> n..n+3 (end / central), random masks incl. all/none; one check per matrix row; distinct = (kind, dimension, number of non-zero entries) resp. (kind, central, grows)",
            "samples": [_js(c) for c in self.cases[:2]],
            "input_distribution": dist, "disagreements": len(bad), "exhaustive": False,
        })
        return bad

    def oracle(self, ctx, res, hints, budget):
        rng = ctx.rng(3510)
        todo = list(getattr(self, "bad_cases", []))
        n_hints = len(todo)
        todo += [c for c in ctx.corpus() if c.get("kind") in ("nufft", "sampling_los", "shiftfft")]
        todo += self.cases if self.cases else (interp_cases(ctx) + los_cases(ctx) + ops_cases(ctx))
        for i in range((4 if ctx.quick else 30) * budget):
            d = 1 + i % 2
            todo.append({"kind": "nufft", "shape": [[8], [6, 4]][d - 1], "dist": [[0.25], [0.5, 1.25]][d - 1],
                         "eps": [1e-4, 1e-9][i % 2 if ctx.quick else int(rng.integers(0, 2))], "n": 1 + 3 * (i % 3), "seed": int(rng.integers(0, 2 ** 31))})
        for i in range(2 if ctx.quick else 10):
            todo.append({"kind": "sampling_los", "shape": [[6], [5, 4], [3, 4, 3]][i % 3], "dist": [[0.5], [1.0, 0.25], [0.5, 2.0, 1.0]][i % 3],
                         "seed": int(rng.integers(0, 2 ** 31))})
        # last (an open known finding must not cut the other oracle cases short)
        todo.append({"kind": "shiftfft", "shape": [4, 6], "dist": [0.5, 1.0], "dir": 0, "all_dirs": True, "seed": 2})
        todo.append({"kind": "shiftfft", "shape": [4, 6], "dist": [0.5, 1.0], "dir": 1, "seed": 1})
        n, stats = 0, {}
        for c, ref in getattr(self, "sigma_obs", []):
            n += 1
            stats["los_sigma"] = stats.get("los_sigma", 0) + 1
            f = los_sigma_failure(c, ref)
            if f:
                res.add_failing({"fn": "los_sigma", "class": f[0]}, f[1], _js(c))
                if len(res.failing) >= 3:
                    break
        for kk, c in enumerate(todo):
            if kk >= n_hints and res.failing:
                break
            try:
                f = direct_failure(c)
            except Exception as e:
                f = ("exception", "implementation raised: %r" % (e,))
            n += 1
            stats[c["kind"]] = stats.get(c["kind"], 0) + 1
            if f:
                res.add_failing({"fn": c["kind"], "class": f[0]}, f[1], _js(c))
                if len(res.failing) >= 3:
                    break
        res.coverage["impl_property_evaluations"] = n
        res.coverage["oracle_distribution"] = stats

    def replay(self, ctx, rp):
        if rp.get("kind") == "no-failing-input-found":
            checks = []
            for b in rp.get("broken", []):
                c = (b.get("detail") or {}).get("case")
                if b.get("kind") != "correspondence" or not isinstance(c, dict):
                    return True
                checks += [t for _, t in checks_for(c, observe(c))]
            ok, _ = C.coq_build(["C35/Exec.vo"])
            return bool(C.eval_cases(self.prop, "replay%d" % os.getpid(), HEADER, checks)) if (ok and checks) else True
        return direct_failure(rp["input"]) is not None


CHECK = C35()
