"""C21 helper: small classic and JAX VI runs executed in a FRESH process (python -m harness.props.c21_runs
<spec.json> <out.json>).  Everything that is written is a bit-exact hex dump, so that two processes can be
compared byte by byte and different execution strategies numerically."""
import json
import sys

import numpy as np


def hx(a):
    a = np.ascontiguousarray(np.asarray(a))
    return {"dtype": str(a.dtype), "shape": list(a.shape), "hex": a.tobytes().hex()}


def unhx(d):
    return np.frombuffer(bytes.fromhex(d["hex"]), dtype=np.dtype(d["dtype"])).reshape(d["shape"])


# ---- classic ----------------------------------------------------------------------------------

def classic_draws(seed):
    """A fixed sequence of nested contexts, spawns and draws."""
    import nifty.cl as ift
    R = ift.random
    out = []
    with R.Context(seed):
        out.append(R.Random.normal(np.float64, (3,)))
        kids = R.spawn_sseq(3)
        for k in kids:
            with R.Context(k):
                out.append(R.Random.uniform(np.float64, (2,)))
                out.append(R.Random.normal(np.complex128, (2,)))
        out.append(R.Random.pm1(np.int64, (4,)))
    out.append(R.Random.normal(np.float64, (2,)))          # module default seed, after the context
    return [hx(x) for x in out]


def classic_vi(seed, nonlinear):
    import nifty.cl as ift
    d = ift.RGSpace(4)
    a = ift.ScalingOperator(d, 1.).ducktape("a")
    b = ift.ScalingOperator(d, 1.).ducktape("b")
    op = a + (0.3 * b).ptw("exp")
    data = ift.Field.from_raw(d, np.array([1.3, 0.7, -0.2, 2.1]))
    lh = ift.GaussianEnergy(data, ift.ScalingOperator(d, 4., np.float64)) @ op
    ic = ift.AbsDeltaEnergyController(1e-6, iteration_limit=8)
    mini = ift.NewtonCG(ift.AbsDeltaEnergyController(1e-6, iteration_limit=4))
    nl = ift.NewtonCG(ift.AbsDeltaEnergyController(1e-6, iteration_limit=3)) if nonlinear else None
    with ift.random.Context(seed):
        sl, mean = ift.optimize_kl(lh, 2, 2, mini, ic, nonlinear_sampling_minimizer=nl, output_directory=None,
                                   return_final_position=True, plot_energy_history=False, sanity_checks=False,
                                   plot_minisanity_history=False)
    out = {"mean": {k: hx(v.asnumpy()) for k, v in sorted(mean.items())}, "samples": []}
    for s in sl.iterator():
        out["samples"].append({k: hx(v.asnumpy()) for k, v in sorted(s.items())})
    return out


# ---- JAX --------------------------------------------------------------------------------------

def jax_vi(seed, sample_mode, n_samples, configs):
    import logging

    import jax
    import jax.numpy as jnp
    from jax import random
    import nifty.re as jft
    jft.logger.setLevel(logging.ERROR)
    import warnings
    warnings.filterwarnings("ignore")

    class Fwd(jft.Model):
        def __init__(self):
            super().__init__(domain={"a": jax.ShapeDtypeStruct((2,), jnp.float64)})

        def __call__(self, x):
            return jnp.exp(0.3 * x["a"]) + jnp.array([0.5, -0.25]) * x["a"][::-1]

    lh = jft.Gaussian(jnp.array([1.25, 0.75]), noise_cov_inv=lambda x: 4.0 * x).amend(Fwd())
    key = random.PRNGKey(seed)
    key, sk = random.split(key)
    pos = jft.Vector({"a": 0.1 * random.normal(sk, (2,))})
    delta = 1e-4
    out = {}
    for rm, km, jit in configs:
        samples, st = jft.optimize_kl(
            lh, pos, key=key, n_total_iterations=2, n_samples=n_samples,
            draw_linear_kwargs=dict(cg=jft.conjugate_gradient.static_cg, cg_name=None,
                                    cg_kwargs=dict(miniter=2, absdelta=delta / 10., maxiter=10)),
            nonlinearly_update_kwargs=dict(minimize=jft.optimize._static_newton_cg,
                                           minimize_kwargs=dict(name=None, xtol=delta, cg_kwargs=dict(name=None), maxiter=5)),
            kl_kwargs=dict(minimize_kwargs=dict(name=None, xtol=delta, cg_kwargs=dict(name=None), maxiter=5)),
            sample_mode=sample_mode, odir=None, residual_map=rm, kl_map=km, jit=bool(jit))
        out["%s/%s/%s" % (rm, km, "jit" if jit else "nojit")] = {
            "pos": hx(samples.pos.tree["a"]), "samples": hx(samples.samples.tree["a"]),
            "keys": hx(samples.keys), "state_key": hx(st.key)}
    return out


# ---- JAX driver split into segments by stop / resume -----------------------------------------------

def jax_resume(seed, entries, scratch):
    """An entry is [sample_mode, n_samples, total, cuts(, schedule)]: one uninterrupted optimize_kl run
    with an output directory, and the same run stopped after each of `cuts` iterations and continued
    with resume=True (same seed, same arguments, growing n_total_iterations).  With schedule=True,
    draw_linear_kwargs / nonlinearly_update_kwargs / kl_kwargs / n_samples are given in their documented
    callable form with VALUES that change from iteration to iteration (cheap solvers first, accurate
    ones later; n_samples, n_samples+1, n_samples, ...)."""
    import logging
    import os
    import shutil
    import warnings

    import jax
    import jax.numpy as jnp
    from jax import random
    import nifty.re as jft
    jft.logger.setLevel(logging.ERROR)
    warnings.filterwarnings("ignore")

    class Fwd(jft.Model):
        def __init__(self):
            super().__init__(domain={"a": jax.ShapeDtypeStruct((2,), jnp.float64)})

        def __call__(self, x):
            return jnp.exp(0.3 * x["a"]) + jnp.array([0.5, -0.25]) * x["a"][::-1]

    lh = jft.Gaussian(jnp.array([1.25, 0.75]), noise_cov_inv=lambda x: 4.0 * x).amend(Fwd())
    key = random.PRNGKey(seed)
    key, sk = random.split(key)
    pos = jft.Vector({"a": 0.1 * random.normal(sk, (2,))})
    delta = 1e-4

    def call(total, odir, resume, mode, ns, sched=False):
        dl = lambda i: dict(cg_name=None, cg_kwargs=dict(absdelta=delta / 10., maxiter=[1, 10, 3, 10][i % 4]))
        nu = lambda i: dict(minimize_kwargs=dict(name=None, xtol=delta, cg_kwargs=dict(name=None), maxiter=[1, 5, 2, 5][i % 4]))
        kk = lambda i: dict(minimize_kwargs=dict(name=None, xtol=delta, cg_kwargs=dict(name=None), maxiter=[1, 5, 2, 4][i % 4]))
        nn = (lambda i: ns + (i % 2)) if ns else ns
        return jft.optimize_kl(
            lh, pos, key=key, n_total_iterations=total, n_samples=nn if sched else ns,
            draw_linear_kwargs=dl if sched else dl(1),
            nonlinearly_update_kwargs=nu if sched else nu(1),
            kl_kwargs=kk if sched else kk(1),
            sample_mode=mode, odir=odir, resume=resume)

    def dump(samples, st):
        return {"pos": hx(samples.pos.tree["a"]),
                "samples": hx(samples.samples.tree["a"]) if len(samples) else None,
                "keys": None if samples.keys is None else hx(samples.keys), "state_key": hx(st.key), "nit": int(st.nit)}
    out = {}
    for j, ent in enumerate(entries):
        mode, ns, total, cuts = ent[:4]
        sched = bool(ent[4]) if len(ent) > 4 else False
        d1 = os.path.join(scratch, "resume_a%d" % j)
        d2 = os.path.join(scratch, "resume_b%d" % j)
        for d in (d1, d2):
            shutil.rmtree(d, ignore_errors=True)
        ref = dump(*call(total, d1, False, mode, ns, sched))
        res = None
        for k, t in enumerate(list(cuts) + [total]):
            res = call(t, d2, k > 0, mode, ns, sched)
        out["%s:%d:%d:%s%s" % (mode, ns, total, "+".join(str(c) for c in cuts), ":schedule" if sched else "")] = {"uninterrupted": ref, "segmented": dump(*res)}
        for d in (d1, d2):
            shutil.rmtree(d, ignore_errors=True)
    return out


# ---- execution strategies of the samplers under every form of the solver options ------------------

CG_FORMS = {"absdelta": dict(absdelta=1e-20, maxiter=60), "resnorm": dict(resnorm=1e-11, maxiter=60),
            "both": dict(absdelta=1e-20, resnorm=1e-11, maxiter=60), "neither": dict(maxiter=60),
            # non-default iteration bounds: the criterion is met at once, miniter decides / maxiter decides
            "miniter": dict(resnorm=1e3, miniter=4, maxiter=60), "maxiter": dict(absdelta=1e-20, miniter=2, maxiter=7),
            "miniter_abs": dict(absdelta=1e3, miniter=5, maxiter=60)}
NL_FORMS = {"xtol": dict(xtol=1e-10, maxiter=8), "absdelta": dict(absdelta=1e-14, maxiter=8),
            "both": dict(xtol=1e-10, absdelta=1e-14, maxiter=8), "neither": dict(maxiter=8),
            # xtol / absdelta are met from the first step on: the number of Newton steps is fixed by miniter
            "miniter": dict(xtol=1e3, miniter=2, maxiter=8), "miniter1": dict(xtol=1e3, miniter=1, maxiter=8),
            "miniter_abs": dict(absdelta=1e3, miniter=2, maxiter=8), "maxiter": dict(xtol=1e-30, miniter=1, maxiter=2)}


def jax_strategy(seed, entries):
    """Sampling step of OptimizeVI (draw_samples) in isolation.  An entry is
    [kind, form, variants]; kind 'lin': linear samples with cg_kwargs = CG_FORMS[form]; kind 'nl':
    non-linear samples with minimize_kwargs = NL_FORMS[form] (tight CG).  A variant is
    [linear_minimizer_jit, nonlinear_minimizer_jit, residual_map, jit]; jit-ted minimisers use
    static_cg / _static_newton_cg, eager ones cg / _newton_cg (the pairs NIFTy offers).  The eager
    solvers are Python loops over concrete values: they are legal only with the Python-loop map `lmap`
    (under vmap / smap they would see tracers), so every variant with another map uses the static ones."""
    import logging
    import warnings

    import jax
    import jax.numpy as jnp
    from jax import random
    from jax.tree_util import tree_leaves, tree_map
    import nifty.re as jft
    jft.logger.setLevel(logging.CRITICAL)
    warnings.filterwarnings("ignore")
    k1, k2, k3, k4 = random.split(random.PRNGKey(1 + seed), 4)
    n, nd = 24, 16
    R = random.normal(k1, (nd, n)) / 6.0

    def fwd(x):
        return R @ jnp.exp(0.3 * x["a"]) + 0.05 * x["b"].sum()

    truth = {"a": random.normal(k2, (n,)), "b": random.normal(k4, (2,))}
    d = fwd(truth) + 0.1 * random.normal(k3, (nd,))
    dom = tree_map(jft.ShapeWithDtype.from_leave, truth)
    lh = jft.Gaussian(d, noise_cov_inv=lambda x: x / 0.01).amend(fwd, domain=dom)
    pos0 = jft.Vector(tree_map(lambda x: 0.1 * jnp.ones_like(x), truth))
    out = {}
    for kind, form, variants in entries:
        res = {}
        for lin_jit, nl_jit, rmap, jit in variants:
            vi = jft.OptimizeVI(lh, n_total_iterations=1, jit=bool(jit), linear_minimizer_jit=bool(lin_jit),
                                nonlinear_minimizer_jit=bool(nl_jit), residual_map=rmap)
            cg = jft.conjugate_gradient.static_cg if (lin_jit or rmap != "lmap") else jft.conjugate_gradient.cg
            kw = {}
            if kind == "lin":
                cgkw, mode = dict(CG_FORMS[form]), "linear_resample"
            else:
                cgkw, mode = dict(CG_FORMS["absdelta"]), "nonlinear_resample"
                mini = jft.optimize._static_newton_cg if (nl_jit or rmap != "lmap") else jft.optimize._newton_cg
                kw = dict(nonlinearly_update_kwargs=dict(minimize=mini, minimize_kwargs=dict(
                    name=None, cg_kwargs=dict(name=None), **NL_FORMS[form])))
            smp, _ = vi.draw_samples(jft.Samples(pos=pos0, samples=None, keys=None), key=random.PRNGKey(7),
                                     sample_mode=mode, n_samples=2, point_estimates=(),
                                     draw_linear_kwargs=dict(cg=cg, cg_name=None, cg_kwargs=cgkw), **kw)
            flat = np.concatenate([np.asarray(x).ravel() for x in tree_leaves(smp._samples)])
            res["%s/%s/%s/%s" % ("linjit" if lin_jit else "lineager", "nljit" if nl_jit else "nleager", rmap,
                                 "jit" if jit else "nojit")] = hx(flat)
        out["%s:%s" % (kind, form)] = res
    return out


def main():
    spec = json.load(open(sys.argv[1]))
    out = {}
    if spec.get("classic"):
        out["classic_draws"] = classic_draws(spec["seed"])
        out["classic_vi_mgvi"] = classic_vi(spec["seed"], False)
        out["classic_vi_geovi"] = classic_vi(spec["seed"], True)
    for j, (mode, ns) in enumerate(spec.get("jax_modes", [])):
        out["jax:%s:%d" % (mode, ns)] = jax_vi(spec["seed"], mode, ns, spec["jax_configs"])
    if spec.get("strategy") and int(sys.argv[3] if len(sys.argv) > 3 else 0) == 0:
        out["strategy"] = jax_strategy(spec["seed"], spec["strategy"])
    if spec.get("resume") and int(sys.argv[3] if len(sys.argv) > 3 else 0) == 1:
        import os
        out["resume"] = jax_resume(spec["seed"], spec["resume"], os.path.dirname(os.path.abspath(sys.argv[2])) + "/p%d" % os.getpid())
    json.dump(out, open(sys.argv[2], "w"))


if __name__ == "__main__":
    main()
