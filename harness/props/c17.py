"""C17 -- JAX Newton minimisers never go uphill and make progress when they can.

Tie: hand model coq/C17/Model.v (one Newton-CG iteration of `_newton_cg`, of `_static_newton_cg` with
`_line_search_successive_halving`, CG through the C15 model) + correspondence: both real minimisers
are run on generated polynomial objectives  f(x) = sum_i (a_i x_i^4/4 + b_i x_i^2/2 + c_i x_i) +
k (x_1 - x_0^2)^2  (non-convex: b_i < 0, Rosenbrock-like coupling k > 0) from dyadic starts in convex,
flat and concave regions, with iteration limits 1..3, absdelta / xtol / miniter variations; accepted
position (1e-8), energy, status and iteration count are compared with the model inside coqc.  A case
is used only if every decision of the eager run (line-search comparisons, convergence tests, CG
curvature signs) is away from a tie, as measured on the logged values of the run itself.

Direct oracle (no Coq): result energy <= start energy and = f(result) for `_newton_cg`,
`_static_newton_cg`, `_trust_ncg`; eager == compiled; at a start with non-zero gradient and negative
curvature along it: the point after one iteration is the first of the nine trial points
x - s*t*g (t = g.g/|g.Hg|) that does not raise the energy, and status -1 only if there is none."""
import math
from fractions import Fraction as Fr

import numpy as np

from .. import common as C
from . import c15 as K15

EPS = K15.EPS
TINY = K15.TINY
SCAL = [1.0, 0.5, 0.25, 0.125, 1.0 / 16, 1.0 / 32, 1.0, 0.5, 0.25]


# --------------------------------------------------------------------------------------------------
# objectives
# --------------------------------------------------------------------------------------------------

def make_fun(obj):
    import jax.numpy as jnp
    if obj["type"] == "poly":
        a = jnp.asarray(obj["a"], dtype=jnp.float64)
        b = jnp.asarray(obj["b"], dtype=jnp.float64)
        c = jnp.asarray(obj["c"], dtype=jnp.float64)
        k = float(obj["k"])
        n = len(obj["a"])

        def f(x):
            v = jnp.sum(a * x ** 4 / 4 + b * x ** 2 / 2 + c * x)
            if n >= 2:
                v = v + k * (x[1] - x[0] ** 2) ** 2
            return v
        return f
    if obj["type"] == "illc":
        A = jnp.asarray(illc_matrix(obj))
        return lambda x: 0.5 * x @ A @ x + 0.01 * jnp.sum(x ** 4) - 0.1 * jnp.sum(jnp.cos(x))
    # trigonometric (direct oracle only): sum cos(x_i) + A cos(w x_i + ph)
    A, w, ph = obj["A"], obj["w"], obj["ph"]
    return lambda x: jnp.sum(jnp.cos(x) + A * jnp.cos(w * x + ph))


def illc_matrix(obj):
    """Q diag(logspace(lo, hi, n)) Q^T with a seeded orthogonal Q: ill-conditioned quadratic part."""
    rng = np.random.default_rng(int(obj["seed"]))
    n = int(obj["n"])
    Q, _ = np.linalg.qr(rng.normal(size=(n, n)))
    return Q @ np.diag(np.logspace(obj["lo"], obj["hi"], n)) @ Q.T


def np_fun(obj):
    if obj["type"] == "poly":
        a, b, c, k = np.array(obj["a"], float), np.array(obj["b"], float), np.array(obj["c"], float), float(obj["k"])

        def f(x):
            v = np.sum(a * x ** 4 / 4 + b * x ** 2 / 2 + c * x)
            if len(a) >= 2:
                v = v + k * (x[1] - x[0] ** 2) ** 2
            return float(v)
        return f
    if obj["type"] == "illc":
        A = illc_matrix(obj)
        return lambda x: float(0.5 * x @ A @ x + 0.01 * np.sum(x ** 4) - 0.1 * np.sum(np.cos(x)))
    A, w, ph = obj["A"], obj["w"], obj["ph"]
    return lambda x: float(np.sum(np.cos(x) + A * np.cos(w * x + ph)))


# --------------------------------------------------------------------------------------------------
# implementation side
# --------------------------------------------------------------------------------------------------

def run_impl(case, want_log=True):
    """Run the three minimisers.  Returns observations and (for the eager run) a decision log."""
    import logging
    import jax
    import jax.numpy as jnp
    from jax import value_and_grad, grad, jvp
    from nifty.re import optimize as opt
    from nifty.re import conjugate_gradient as cgm
    logging.getLogger("nifty.re.logger").setLevel(logging.CRITICAL)
    f = make_fun(case["obj"])
    x0 = jnp.asarray(case["x0"], dtype=jnp.float64)
    kw = case["kw"]
    vg = value_and_grad(f)
    gf = grad(f)

    def hessp(p, t):
        return jvp(gf, (p,), (t,))[1]

    log = {"trials": [], "cg": [], "strials": []}
    big = len(case["x0"]) > 4

    def vg_logged(x):
        v, g = vg(x)
        log["trials"].append((np.asarray(x, float).tolist(), float(v)))
        return v, g

    def cg_logged(mat, j, *a, **k):
        res = cgm._cg(mat, j, *a, **k)
        n = j.shape[0]
        H = np.array([np.asarray(mat(jnp.eye(n)[i]), float) for i in range(n)]).T
        log["cg"].append({"H": H.tolist(), "g": np.asarray(j, float).tolist(), "x": np.asarray(res.x, float).tolist(), "info": int(res.info),
                          "nit": int(res.nit), "absdelta": None if k.get("absdelta") is None else float(k["absdelta"]),
                          "resnorm": float(k["resnorm"])})
        return res

    def vg_static_logged(x):
        v, g = vg(x)
        jax.debug.callback(lambda xx, vv: log["strials"].append((np.asarray(xx, float).tolist(), float(vv))), x, v, ordered=True)
        return v, g

    kwargs = dict(maxiter=kw["maxiter"], miniter=kw["miniter"], absdelta=kw["absdelta"], xtol=kw["xtol"],
                  energy_reduction_factor=kw["erf"])
    out = {}
    try:
        r = opt._newton_cg(x0=x0, fun_and_grad=vg_logged, hessp=hessp, cg=cg_logged, **kwargs)
        out["eager"] = {"raised": False, "x": np.asarray(r.x, float).tolist(), "status": int(r.status), "nit": int(r.nit), "fun": float(r.fun),
                        "nhev": int(r.nhev), "nfev": int(r.nfev)}
    except ValueError as e:
        out["eager"] = {"raised": True, "x": None, "status": -7, "nit": 0, "fun": 0.0, "error": str(e)[:80]}
    try:
        r = opt._static_newton_cg(x0=x0, fun_and_grad=vg_static_logged, hessp=hessp, **kwargs)
        jax.effects_barrier()
        out["static"] = {"raised": False, "x": np.asarray(r.x, float).tolist(), "status": int(r.status), "nit": int(r.nit), "fun": float(r.fun),
                         "nhev": int(r.nhev), "nfev": int(r.nfev)}
    except Exception as e:  # conditional_raise surfaces as a runtime error of the callback
        out["static"] = {"raised": True, "x": None, "status": -7, "nit": 0, "fun": 0.0, "error": str(e)[:80]}
    if case.get("trust"):
        # default sub-problem limits and small ones (subproblem_kwargs={"maxiter": k}): with an indefinite Hessian
        # the iteration limit and the negative-curvature / boundary branches of the sub-problem meet
        for name, skw in (("trust", None), ("trust_m1", {"maxiter": 1}), ("trust_m2", {"maxiter": 2})):
            try:
                r = opt._trust_ncg(f, x0, maxiter=kw["maxiter"] + 3, energy_reduction_factor=kw["erf"], absdelta=kw["absdelta"],
                                   subproblem_kwargs=skw)
                out[name] = {"raised": False, "x": np.asarray(r.x, float).tolist(), "status": int(r.status), "nit": int(r.nit), "fun": float(r.fun)}
            except Exception as e:
                out[name] = {"raised": True, "x": None, "status": -7, "nit": 0, "fun": 0.0, "error": str(e)[:80]}
        # the property C17_never_uphill_trust_partial ASSUMES of the sub-problem: predicted value <= current value,
        # step inside the trust region -- checked here on the implementation at the start point
        f0, g0 = vg(x0)
        gm = float(jnp.abs(g0).sum())
        sub = []
        for tr in (0.25, 8.0):
            for mx in (None, 1):
                try:
                    sr = cgm._cg_steihaug_subproblem(f0, g0, lambda t: hessp(x0, t), trust_radius=tr, resnorm=min(0.5, math.sqrt(gm)) * gm,
                                                     norm_ord=1, maxiter=mx)
                    sub.append({"tr": tr, "maxiter": mx, "pred_f": float(sr.pred_f), "step": np.asarray(sr.step, float).tolist(),
                                "hits": bool(sr.hits_boundary)})
                except Exception as e:
                    sub.append({"tr": tr, "maxiter": mx, "error": str(e)[:80]})
        out["steihaug"] = {"f0": float(f0), "runs": sub}
    out["log"] = log
    return out


def tie_free(case, obs):
    """True if every decision of the eager run is away from a tie (measured on the run's own values)."""
    log = obs["log"]
    e = obs["eager"]
    if e["raised"]:
        return False
    kw = case["kw"]
    n = len(case["x0"])
    tr = log["trials"]
    if not tr:
        return False
    # replay the accepted sequence: first entry is the start; afterwards each trial is compared with the current energy
    cur_x, cur_e = tr[0]
    it = 0
    k = 1
    xtol = kw["xtol"] * n
    while k < len(tr):
        it += 1
        accepted = None
        for _ in range(9):
            if k >= len(tr):
                break
            x, v = tr[k]
            k += 1
            if not math.isfinite(v):
                return False
            if x == cur_x and v == cur_e:
                pass        # zero step (CG returned 0, e.g. exactly zero curvature): the same point, `<=` holds exactly
            elif abs(v - cur_e) <= 1e-9 * max(1.0, abs(cur_e), abs(v)):
                return False
            if v <= cur_e:
                accepted = (x, v)
                break
        if accepted is None:
            break
        x, v = accepted
        ediff = cur_e - v
        dn = float(np.abs(np.array(x) - np.array(cur_x)).sum())
        if kw["absdelta"] is not None and abs(ediff - kw["absdelta"]) <= 1e-6 * kw["absdelta"]:
            return False
        if abs(dn - xtol) <= 1e-6 * xtol:
            return False
        cur_x, cur_e = x, v
    if n > 4:
        return all(cg_margin(c) > 1e-6 for c in log["cg"])
    # CG calls: curvature signs along the exact trajectory must be clear
    for c in log["cg"]:
        H = [[Fr(v) for v in row] for row in c["H"]]
        g = [Fr(v) for v in c["g"]]
        if not all(math.isfinite(float(v)) for row in c["H"] for v in row):
            return False
        Hn = np.array(c["H"], float)
        if np.abs(Hn - Hn.T).max() > 1e-9 * max(1.0, np.abs(Hn).max()):
            return False
        if all(v == 0 for v in g):
            continue
        rows, end, start = K15.trajectory(H, g, None, n + 1)
        gn = float(sum(v * v for v in g))
        hs = max(1e-300, float(np.abs(Hn).max()))
        d2 = gn
        small = all(_short_dyadic(v) for row in H for v in row) and all(_short_dyadic(v) for v in g)
        for m, row in enumerate(rows, 1):
            cv = float(row["curv"])
            if row["curv"] == 0 and m == 1 and small:
                break       # exactly zero curvature along the gradient on exactly representable data: float64 sees 0.0 too
            if abs(cv) < 1e-7 * hs * max(d2, 1e-300):
                return False
            if cv <= 0:
                break
            if row["gamma"] == 0:
                break
            if float(row["gamma"]) < 1e-20 * gn:
                break       # converged to rounding level; later float iterations do not move the point
            d2 = float(row["gamma"])
    return True


def _short_dyadic(fr):
    d = fr.denominator
    return d & (d - 1) == 0 and abs(fr.numerator).bit_length() <= 20 and d.bit_length() <= 20


def cg_margin(c):
    """Smallest relative distance from a tie over all decisions of one logged `_cg` call (NumPy float64 replay of
    the loop with the kwargs the Newton minimiser passed: norm_ord 1, default miniter/maxiter, no failure
    reporting).  Used for the larger systems, where the inner CG is stopped by its thresholds."""
    H = np.array(c["H"], float)
    j = np.array(c["g"], float)
    n = len(j)
    ad, rn = c["absdelta"], c["resnorm"]
    miniter = min(6, 20 * n)
    maxiter = max(min(200, 20 * n), miniter)
    eps = 6.0 * np.finfo(float).eps
    pos = np.zeros(n)
    r = -j
    d = r.copy()
    energy = 0.0
    gam = float(r @ r)
    marg = 1.0
    if gam == 0:
        return marg

    def rel(a, b):
        return abs(a - b) / max(abs(a), abs(b), 1e-300)

    hs = max(np.abs(H).max(), 1e-300)
    for i in range(1, maxiter + 1):
        q = H @ d
        curv = float(d @ q)
        marg = min(marg, abs(curv) / (hs * float(d @ d) + 1e-300) * 1e3)
        if curv <= 0:
            return marg
        alpha = gam / curv
        pos = pos - alpha * d
        r = H @ pos - j if i % 20 == 0 else r - q * alpha
        gamma = float(r @ r)
        if gamma <= 6.0 * np.finfo(float).tiny:
            return marg
        nr = float(np.abs(r).sum())
        if i >= miniter:
            marg = min(marg, rel(nr, rn))
            if nr < rn:
                return marg
        ne = float(((r - j) / 2) @ pos)
        ed = energy - ne
        marg = min(marg, (ed + eps * abs(ne)) / (abs(ne) + 1e-300) * 1e6) if ed + eps * abs(ne) > 0 else 0.0
        if ed < -eps * abs(ne):
            return marg
        if ad is not None and i >= miniter:
            marg = min(marg, rel(ed, ad))
            if ed < ad:
                return marg
        energy = ne
        d = d * max(0.0, gamma / gam) + r
        gam = gamma
    return marg


def first_sequence(trials):
    """Trial points of the first Newton iteration from a fun_and_grad log: entry 0 is the start."""
    if not trials:
        return []
    e0 = trials[0][1]
    out = []
    for x, v in trials[1:10]:
        out.append(x)
        if v <= e0:
            break
    return out


# --------------------------------------------------------------------------------------------------
# direct oracle
# --------------------------------------------------------------------------------------------------

def direct_failures(case, obs, tiefree):
    f = np_fun(case["obj"])
    x0 = np.array(case["x0"], float)
    f0 = f(x0)
    scale = max(1.0, abs(f0))
    fails = []
    st = obs.get("steihaug")
    if st:
        for r in st["runs"]:
            if "error" in r:
                fails.append(("steihaug", "sub-problem raised: %s" % r["error"]))
                continue
            # a NaN prediction (zero gradient: 0/0) cannot be accepted (`rho > eta` is False for NaN) and is harmless
            if r["pred_f"] > st["f0"] + 1e-10 * max(1.0, abs(st["f0"])):
                fails.append(("steihaug", "sub-problem (trust_radius %g, maxiter %s) predicts %.12g above the current value %.12g" % (r["tr"], r["maxiter"], r["pred_f"], st["f0"])))
            if max((abs(v) for v in r["step"] if math.isfinite(v)), default=0.0) > r["tr"] * (1 + 1e-9):
                fails.append(("steihaug", "sub-problem step %s leaves the trust region %g" % (r["step"], r["tr"])))
    for name in ("eager", "static", "trust", "trust_m1", "trust_m2"):
        o = obs.get(name)
        if o is None or o["raised"]:
            continue
        x = np.array(o["x"], float)
        fx = f(x)
        if not (fx <= f0 + 1e-10 * scale):
            fails.append(("uphill", "%s: energy %.12g at the result above the start %.12g" % (name, fx, f0)))
        if abs(o["fun"] - fx) > 1e-8 * max(1.0, abs(fx)):
            fails.append(("uphill", "%s: reported energy %.12g is not the objective at the result %.12g" % (name, o["fun"], fx)))
    e, s = obs["eager"], obs["static"]
    if tiefree:
        if e["raised"] != s["raised"]:
            fails.append(("eager-vs-static", "eager raised %s, compiled raised %s" % (e["raised"], s["raised"])))
        elif not e["raised"]:
            xs = max(1.0, np.abs(np.array(e["x"])).max())
            if e["status"] != s["status"] or e["nit"] != s["nit"]:
                fails.append(("eager-vs-static", "eager (status %d, nit %d) vs compiled (status %d, nit %d)" % (e["status"], e["nit"], s["status"], s["nit"])))
            elif np.abs(np.array(e["x"]) - np.array(s["x"])).max() > 1e-8 * xs:
                fails.append(("eager-vs-static", "results differ: eager %s compiled %s" % (e["x"][:6], s["x"][:6])))
            elif len(x0) > 4 and (e["nhev"] != s["nhev"] or e["nfev"] != s["nfev"]):
                fails.append(("eager-vs-static", "eager (nhev %d, nfev %d) vs compiled (nhev %d, nfev %d)" % (e["nhev"], e["nfev"], s["nhev"], s["nfev"])))
        # the sequence of trial points of the first iteration: same for both, step lengths 1, 1/2, .., 1/32 along the
        # first direction, then 1, 1/2, 1/4 along a second one
        if not e["raised"] and not s["raised"] and case["kw"]["maxiter"] >= 1:
            te, ts = first_sequence(obs["log"]["trials"]), first_sequence(obs["log"].get("strials", []))
            for name, t in (("eager", te), ("compiled", ts)):
                pts = [np.array(p, float) - x0 for p in t]
                bad = None
                for k in range(1, min(len(pts), 6)):
                    if np.abs(pts[k] - pts[0] * 0.5 ** k).max() > 1e-9 * max(1.0, np.abs(pts[0]).max()):
                        bad = "trial %d is not the first trial step scaled by 1/%d" % (k + 1, 2 ** k)
                for k in range(7, len(pts)):
                    if np.abs(pts[k] - pts[6] * 0.5 ** (k - 6)).max() > 1e-9 * max(1.0, np.abs(pts[6]).max()):
                        bad = "trial %d is not the reset step scaled by 1/%d" % (k + 1, 2 ** (k - 6))
                if bad:
                    fails.append(("trial-sequence", "%s line search: %s" % (name, bad)))
            if len(te) != len(ts) or any(np.abs(np.array(a) - np.array(b)).max() > 1e-9 * max(1.0, np.abs(np.array(a)).max()) for a, b in zip(te, ts)):
                fails.append(("trial-sequence", "eager and compiled line search evaluate different trial points in the first iteration: %d vs %d points, step factors %s vs %s"
                              % (len(te), len(ts), step_factors(te, x0), step_factors(ts, x0))))
    # progress at negative curvature (first iteration, from the logged Hessian of the first CG call)
    cgl = obs["log"]["cg"]
    if cgl and case["kw"]["maxiter"] >= 1:
        H = np.array(cgl[0]["H"], float)
        g = np.array(cgl[0]["g"], float)
        gam = float(g @ g)
        curv = float(g @ H @ g)
        if gam > 1e-12 and curv < -1e-9 * max(1.0, np.abs(H).max()) * gam:
            t = gam / (-curv)
            pts = [x0 - sc * t * g for sc in SCAL]
            vals = [f(p) for p in pts]
            clear = all(abs(v - f0) > 1e-9 * scale for v in vals)
            if clear:
                ok = [i for i, v in enumerate(vals) if v <= f0]
                for name in ("eager", "static"):
                    o = obs[name]
                    if o["raised"]:
                        fails.append(("negcurv-progress", "%s raised at a start with negative curvature" % name))
                        continue
                    x1 = first_iterate(case, obs, name)
                    if x1 is None:
                        continue
                    if ok:
                        want = pts[ok[0]]
                        if np.abs(x1 - want).max() > 1e-8 * max(1.0, np.abs(want).max()):
                            fails.append(("negcurv-progress", "%s: negative curvature along the gradient; expected the step to the first acceptable trial point %s (s=%g, along -g), got %s (status %d)"
                                          % (name, want.tolist(), SCAL[ok[0]], x1.tolist(), o["status"])))
                    else:
                        if np.abs(x1 - x0).max() > 0 and float((x1 - x0) @ (-g)) <= 0:
                            fails.append(("negcurv-progress", "%s: negative curvature along the gradient, no trial along -g lowers the energy, but the iterate moved along +g to %s" % (name, x1.tolist())))
    return fails


def step_factors(seq, x0):
    if not seq:
        return []
    d0 = np.array(seq[0], float) - x0
    i = int(np.abs(d0).argmax())
    return [round(float((np.array(p, float) - x0)[i] / d0[i]), 5) if d0[i] != 0 else None for p in seq]


def first_iterate(case, obs, name):
    """Position after the first iteration: for maxiter = 1 the result itself."""
    if case["kw"]["maxiter"] == 1:
        return np.array(obs[name]["x"], float)
    if name == "eager":
        # second accepted entry of the trial log
        tr = obs["log"]["trials"]
        cur = tr[0][1]
        for x, v in tr[1:10]:
            if v <= cur:
                return np.array(x, float)
        return np.array(tr[0][0], float)
    return None


# --------------------------------------------------------------------------------------------------
# cases
# --------------------------------------------------------------------------------------------------

def gen_cases(ctx, salt=17, ncase=None):
    rng = ctx.rng(salt)
    ncase = ncase or (24 if ctx.quick else 300)
    cases = []
    for i in range(ncase):
        n = int(rng.integers(1, 4))
        a = [int(v) for v in rng.integers(1, 5, size=n)]
        b = [int(v) for v in rng.integers(-4, 3, size=n)]
        c = [int(v) for v in rng.integers(-2, 3, size=n)]
        k = int(rng.choice([0, 0, 1, 3])) if n >= 2 else 0
        x0 = [float(v) / 4 for v in rng.integers(-8, 9, size=n)]
        mode = i % 4
        kw = {"maxiter": int(rng.choice([1, 1, 2, 2, 2, 3])) if mode else 1, "miniter": int(rng.integers(0, 2)), "absdelta": None,
              "xtol": 1e-5, "erf": 0.1}
        if mode == 1:
            kw["absdelta"] = float(rng.choice([1e-3, 0.5, 10.0]))
        if mode == 2:
            kw["xtol"] = float(rng.choice([1e-5, 0.05, 0.5]))
            kw["erf"] = None
        if mode == 3:
            kw["absdelta"] = float(rng.choice([0.1, 5.0]))
            kw["xtol"] = 0.1
        # the exact-rational model run is only affordable for short runs on few unknowns
        if n == 3 or (n == 2 and k > 0):
            kw["maxiter"] = min(kw["maxiter"], 1)
        elif n == 2:
            kw["maxiter"] = min(kw["maxiter"], 2)
        if i % 11 == 10:
            kw["maxiter"] = 0
        cases.append({"obj": {"type": "poly", "a": a, "b": b, "c": c, "k": k}, "x0": x0, "kw": kw, "trust": (i % 7 == 0)})
    # starts next to an inflection (12 x^2 - 3 = 0 at x = 1/2): huge Newton steps, many rejected trials, reset reached
    nin = 7 if ctx.quick else 60
    for i in range(nin):
        n = int(rng.integers(1, 3))
        d = float(rng.choice([1, -1])) / float(rng.choice([32, 64, 128, 256, 512]))
        a = [4] + [int(v) for v in rng.integers(1, 5, size=n - 1)]
        b = [-3] + [int(v) for v in rng.integers(-4, 3, size=n - 1)]
        c = [int(rng.integers(-1, 2))] + [int(v) for v in rng.integers(-2, 3, size=n - 1)]
        x0 = [0.5 + d] + [float(v) / 4 for v in rng.integers(-6, 7, size=n - 1)]
        kw = {"maxiter": 1, "miniter": 0, "absdelta": None, "xtol": 1e-5, "erf": 0.1}
        cases.append({"obj": {"type": "poly", "a": a, "b": b, "c": c, "k": 0}, "x0": x0, "kw": kw, "trust": False})
    # separable 2-d objectives whose first acceptable trial is one of the three after the reset (selected with a
    # NumPy evaluation of the nine trial energies; selection only)
    want = {5: 2, 6: 1, 7: 1, 8: 2} if ctx.quick else {5: 8, 6: 6, 7: 6, 8: 8}
    got = {}
    for _ in range(20000):
        if all(got.get(k, 0) >= v for k, v in want.items()):
            break
        d = float(rng.choice([1, -1])) / float(rng.choice([32, 64, 128, 256, 512]))
        a = [4, int(rng.integers(1, 5))]
        b = [-3, int(rng.integers(-4, 3))]
        c = [int(rng.integers(-1, 2)), int(rng.integers(-2, 3))]
        x0 = [0.5 + d, float(rng.integers(-8, 9)) / 4]
        an, bn, cn, xn = (np.array(v, float) for v in (a, b, c, x0))
        fn = lambda x: float(np.sum(an * x ** 4 / 4 + bn * x ** 2 / 2 + cn * x))
        g = an * xn ** 3 + bn * xn + cn
        H = 3 * an * xn ** 2 + bn
        if np.any(H <= 1e-6):
            continue
        ngd = g / H
        rd = (g @ g) / abs(float(g @ (H * g))) * g
        f0 = fn(xn)
        vals = [fn(xn - sc * ngd) for sc in SCAL[:6]] + [fn(xn - sc * rd) for sc in SCAL[6:]]
        if any(abs(v - f0) < 1e-6 * max(1.0, abs(f0)) for v in vals):
            continue
        ok = [i for i, v in enumerate(vals) if v <= f0]
        k = ok[0] if ok else 9
        if k in want and got.get(k, 0) < want[k]:
            got[k] = got.get(k, 0) + 1
            kw = {"maxiter": 1, "miniter": 0, "absdelta": None, "xtol": 1e-5, "erf": 0.1}
            cases.append({"obj": {"type": "poly", "a": a, "b": b, "c": c, "k": 0}, "x0": x0, "kw": kw, "trust": False})
    # starts with a non-zero gradient and EXACTLY zero curvature along it (exactly representable): at the origin with
    # b_i = 0 where c_i != 0, or b.c^2 cancelling, or 12 x^2 - 3 = 0 at x = 1/2
    zc = [({"a": [1, 1], "b": [0, 0], "c": [1, 0], "k": 0}, [0.0, 0.0]),
          ({"a": [2, 1, 3], "b": [0, 2, 0], "c": [-1, 0, 2], "k": 0}, [0.0, 0.0, 0.0]),
          ({"a": [1, 2], "b": [1, -1], "c": [2, 2], "k": 0}, [0.0, 0.0]),
          ({"a": [4], "b": [-3], "c": [0], "k": 0}, [0.5]),
          ({"a": [4, 1], "b": [-3, 2], "c": [-1, 0], "k": 0}, [0.5, 0.0]),
          ({"a": [1, 1, 1], "b": [4, -1, 0], "c": [1, 2, 0], "k": 0}, [0.0, 0.0, 0.0]),
          ({"a": [4], "b": [-3], "c": [2], "k": 0}, [-0.5]),
          ({"a": [3, 3], "b": [-2, 2], "c": [1, -1], "k": 0}, [0.0, 0.0])]
    pick = rng.permutation(len(zc))[: (4 if ctx.quick else len(zc))]
    for q, i in enumerate(sorted(int(v) for v in pick)):
        ob, x0 = zc[i]
        kw = {"maxiter": 1 + (q % 2), "miniter": 0, "absdelta": None, "xtol": 1e-5, "erf": 0.1}
        cases.append({"obj": dict(ob, type="poly"), "x0": x0, "kw": kw, "trust": (q == 0)})
    # ill-conditioned objectives in more than 6 dimensions, default options, >= 2 Newton iterations: the inner CG is
    # stopped by its thresholds (energy criterion derived from the previous Newton step / residual norm); eager and
    # compiled minimiser are compared on result, status, nit, nhev, nfev (no model run: too large for exact rationals)
    for i in range(3 if ctx.quick else 14):
        n = int(rng.choice([12, 16, 24, 40]))
        obj = {"type": "illc", "n": n, "seed": int(rng.integers(0, 10 ** 6)), "lo": -2.0, "hi": 2.0}
        x0 = [float(v) for v in np.round(rng.normal(size=n) * 2, 3)]
        kw = {"maxiter": 2 + (i % 2), "miniter": 0, "absdelta": None, "xtol": 1e-5, "erf": 0.1}
        cases.append({"obj": obj, "x0": x0, "kw": kw, "trust": False})
    return cases


# --------------------------------------------------------------------------------------------------
# Coq side
# --------------------------------------------------------------------------------------------------

HEADER = ("From Coq Require Import List ZArith QArith Qcanon Bool.\nImport ListNotations.\n"
          "Require Import NV.C15.Model NV.C17.Model.\nOpen Scope Q_scope.\n")


def qlist(v):
    return C.clist([C.cq(x) for x in v])


def obs_args(o, n):
    ok = (not o["raised"]) and o["x"] is not None and all(math.isfinite(v) for v in o["x"]) and math.isfinite(o["fun"])
    x = o["x"] if ok else [0.0] * n
    return "%s %s %s %s %s" % (C.cbool(not ok), qlist(x), C.cz(o["status"] if ok else -7), C.cnat(max(o["nit"], 0)), C.cq(o["fun"] if ok else 0.0))


def check_term(case, obs):
    n = len(case["x0"])
    ob, kw = case["obj"], case["kw"]
    cf = "(mkncfg %s %s %s %s %s None)" % (C.cnat(kw["miniter"]), C.cnat(kw["maxiter"]), C.copt(kw["erf"], C.cq),
                                           C.copt(kw["absdelta"], C.cq), C.cq(Fr(kw["xtol"]) * n))
    xs = [abs(v) for o in (obs["eager"], obs["static"]) if o["x"] is not None for v in o["x"] if math.isfinite(v)]
    fs = [abs(o["fun"]) for o in (obs["eager"], obs["static"]) if math.isfinite(o["fun"])]
    tolx = 1e-8 * max([1.0] + xs)
    tolf = 1e-8 * max([1.0] + fs)
    return "chk_newton %s %s %s %s %s %s %s %s %s %s %s %s %s" % (
        C.cnat(n), qlist(ob["a"]), qlist(ob["b"]), qlist(ob["c"]), C.cq(ob["k"]), qlist(case["x0"]), cf,
        C.cq(EPS), C.cq(TINY), C.cq(tolx), C.cq(tolf), obs_args(obs["eager"], n), obs_args(obs["static"], n))


def trials_term(case, obs):
    n = len(case["x0"])
    ob, kw = case["obj"], case["kw"]
    cf = "(mkncfg %s %s %s %s %s None)" % (C.cnat(kw["miniter"]), C.cnat(kw["maxiter"]), C.copt(kw["erf"], C.cq),
                                           C.copt(kw["absdelta"], C.cq), C.cq(Fr(kw["xtol"]) * n))
    te, ts = first_sequence(obs["log"]["trials"]), first_sequence(obs["log"].get("strials", []))
    if not all(math.isfinite(v) for t in te + ts for v in t):
        return "false"      # the model's trial points are always finite: a non-finite logged point is a disagreement
    xs = [abs(v) for t in te + ts for v in t]
    tolx = 1e-8 * max([1.0] + xs)
    ql = lambda seq: C.clist([qlist(p) for p in seq])
    return "chk_trials %s %s %s %s %s %s %s %s %s %s %s %s" % (
        C.cnat(n), qlist(ob["a"]), qlist(ob["b"]), qlist(ob["c"]), C.cq(ob["k"]), qlist(case["x0"]), cf,
        C.cq(EPS), C.cq(TINY), C.cq(tolx), ql(te), ql(ts))


def strip(case):
    return {"obj": case["obj"], "x0": case["x0"], "kw": case["kw"], "trust": bool(case.get("trust"))}


class C17(C.Check):
    prop = "C17"
    coq_dir = "C17"
    trusted_base = [
        "Coq 8.16.1 kernel (coqc; vm_compute for the correspondence evaluation); no axioms",
        "hand-written model coq/C17/Model.v of _newton_cg / _static_newton_cg / _line_search_successive_halving / the outer loop of _trust_ncg, with the C15 model as conjugate-gradient solver (tied by correspondence on generated polynomial objectives)",
        "sqrt in cg_resnorm is a rational approximation to 2^-100 (Heron steps); NaN handling, counters, time_threshold, logging are not modelled",
        "tie filter: decisions of the eager run measured on its own logged values (trial energies, accepted steps, Hessians of the CG calls)",
    ]
    assumptions = [
        "exact arithmetic in the model; float64 runs compared away from near-ties only",
        "C17_equiv_partial assumes a CG oracle that answers alike for both variants and independently of the absdelta argument",
        "C17_never_uphill_trust_partial assumes the Steihaug property of the sub-problem (predicted value <= current value); `_cg_steihaug_subproblem` is not modelled",
    ]

    def __init__(self):
        self.cases, self.obs, self.tf = [], [], []

    def correspondence(self, ctx, res):
        corpus = [c for c in ctx.corpus()]
        self.cases = corpus + gen_cases(ctx)
        self.obs = K15.run_cases(self.cases, module="harness.props.c17", prop="C17", chunk=30, jobs=4)
        self.tf = [tie_free(c, o) for c, o in zip(self.cases, self.obs)]
        idx = [i for i, c in enumerate(self.cases) if c["obj"]["type"] == "poly" and self.tf[i]]
        checks = [check_term(self.cases[i], self.obs[i]) for i in idx]
        # the sequence of trial points of the first iteration (both line searches) against the model
        tidx = [i for i in idx if self.cases[i]["kw"]["maxiter"] >= 1 and not self.obs[i]["eager"]["raised"]
                and not self.obs[i]["static"]["raised"] and all(math.isfinite(v) for t in self.obs[i]["log"]["trials"] for v in t[0])]
        checks += [trials_term(self.cases[i], self.obs[i]) for i in tidx]
        idx_all = idx + tidx
        bad = C.eval_cases(self.prop, "corr", HEADER, checks, shard=4, timeout=600)
        for b in bad[:4]:
            i = idx_all[b]
            res.add_broken("correspondence", "_newton_cg/_static_newton_cg vs coq/C17/Model.v",
                           {"case": strip(self.cases[i]), "eager": self.obs[i]["eager"], "static": self.obs[i]["static"]})
        classes = set()
        dist = {}
        for i in idx:
            c, o = self.cases[i], self.obs[i]
            e = o["eager"]
            negc = any(np.array(cl["g"]) @ np.array(cl["H"]) @ np.array(cl["g"]) < 0 for cl in o["log"]["cg"])
            key = (len(c["x0"]), c["kw"]["maxiter"], c["kw"]["absdelta"] is not None, c["kw"]["miniter"], e["status"], e["nit"], negc,
                   len(o["log"]["trials"]))
            classes.add(key)
            d = "status%d/%s" % (e["status"] if e["status"] <= 0 else 1, "negcurv" if negc else "convex")
            dist[d] = dist.get(d, 0) + 1
        res.coverage.update({
            "evaluations": len(idx), "distinct_nontrivial": len({k for k in classes if k[5] >= 1}),
            "rule": "polynomial objectives sum(a x^4/4 + b x^2/2 + c x) + k (x1 - x0^2)^2, n = 1..3, integer coefficients (b < 0: non-convex), starts on a 1/4 grid, "
                    "maxiter 0..3, miniter 0/1, absdelta / xtol / energy_reduction_factor variations; only runs whose decisions are tie-free; "
                    "non-trivial = at least one iteration; distinct by (n, maxiter, absdelta?, miniter, status, nit, negative curvature met, number of energy evaluations)",
            "samples": [{"case": strip(self.cases[i]), "eager": self.obs[i]["eager"], "static": self.obs[i]["static"]} for i in idx[2:5]],
            "trial_sequence_checks": len(tidx), "illconditioned_highdim_cases": sum(1 for c in self.cases if c["obj"]["type"] == "illc"),
            "illconditioned_tie_free": sum(1 for c, t in zip(self.cases, self.tf) if c["obj"]["type"] == "illc" and t),
            "input_distribution": dist, "disagreements": len(bad), "dropped_near_ties": sum(1 for c, t in zip(self.cases, self.tf) if not t),
            "exhaustive": False,
        })
        return bad

    def oracle(self, ctx, res, hints, budget):
        nev = 0
        seen = {}

        def report(case, obs, tf):
            for cl, msg in direct_failures(case, obs, tf):
                seen[cl] = seen.get(cl, 0) + 1
                if seen[cl] <= 2:
                    res.add_failing({"fn": "newton_cg", "class": cl}, msg, {"case": strip(case)})

        for c, o, t in zip(self.cases, self.obs, self.tf):
            nev += 1
            report(c, o, t)
        if budget > 1 and not res.failing:
            extra = gen_cases(ctx, salt=1717, ncase=60)
            for c, o in zip(extra, K15.run_cases(extra, module="harness.props.c17", prop="C17", chunk=30, jobs=4)):
                nev += 1
                report(c, o, tie_free(c, o))
                if res.failing:
                    break
        res.coverage["impl_property_evaluations"] = nev

    def replay(self, ctx, rp):
        case = rp["input"]["case"]
        o = run_impl(case)
        return len(direct_failures(case, o, tie_free(case, o))) > 0


CHECK = C17()

if __name__ == "__main__":
    import sys
    if len(sys.argv) >= 4 and sys.argv[1] == "--worker":
        K15.worker_main(sys.argv[2:4], run_impl)
