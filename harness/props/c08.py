"""C08 -- Domain geometry is self-consistent and domain identity is canonical.

Tie: hand model coq/C08/Model.v + correspondence inside coqc on generated spaces:
  LMSpace (all lmax<=L, mmax<=lmax): size, k-length table, unique lengths -- exact integers;
  RGSpace harmonic tables (1-3 axes): k-lengths and unique lengths (squared, tolerance 2^-40),
      natural power indices -- exact integers; equal and unequal distances;
  RGSpace geometry: distances, dvol, size, total volume, extents, codomain -- exact rationals vs float64;
  PowerSpace on the real k-length array and bounds: pindex (exact), rho/dvol/k_lengths, "empty bins";
  DomainTuple / MultiDomain make + make(obj) + pickle histories: identity classes (`is`) vs the
      hash-consing model.
Direct oracle: total volume = sum of pixel volumes for every domain kind (GL/HP through ducc0),
k-length table vs unique lengths as sets, bins non-empty / volumes / means by brute force, identity
iff equal descriptions (also through a fresh subprocess), codomain involution and n*d*d' = 1."""
import copy
import json
import os
import pickle
import subprocess
import sys

import numpy as np

from .. import common as C

HEADER = ("From Coq Require Import List Arith Bool ZArith QArith Qcanon.\nImport ListNotations.\n"
          "Require Import NV.C08.Model NV.C08.Corr.\nOpen Scope Q_scope.\n")


class NonFinite(Exception):
    """inf/nan returned by the implementation: no exact rational image, the comparison is `false`."""


def cq(x):
    x = float(x)
    if not np.isfinite(x):
        raise NonFinite()
    return C.cq(x)


def cqs(xs):
    return C.clist([cq(x) for x in xs])


def cnats(xs):
    return C.clist(["%d%%nat" % int(x) for x in xs])


def quiet():
    import logging
    import nifty.cl as ift
    ift.logger.setLevel(logging.ERROR)
    return ift


# ---------------------------------------------------------------------------------------------------
# spaces from JSON-able specs
# ---------------------------------------------------------------------------------------------------

def mk_space(s):
    ift = quiet()
    from nifty.cl.domains.dof_space import DOFSpace
    k = s[0]
    if k == "rg":
        d = s[2]
        if isinstance(d, list):
            d = tuple(d)
        return ift.RGSpace(tuple(s[1]) if isinstance(s[1], list) else s[1], distances=d, harmonic=bool(s[3]))
    if k == "lm":
        return ift.LMSpace(int(s[1]), None if s[2] is None else int(s[2]))
    if k == "gl":
        return ift.GLSpace(int(s[1]), None if s[2] is None else int(s[2]))
    if k == "hp":
        return ift.HPSpace(int(s[1]))
    if k == "power":
        return ift.PowerSpace(mk_space(s[1]), None if s[2] is None else tuple(s[2]))
    if k == "dof":
        return DOFSpace(np.array(s[1], dtype=np.float64))
    if k == "unstructured":
        return ift.UnstructuredDomain(tuple(s[1]) if isinstance(s[1], list) else s[1])
    raise ValueError(k)


def spec_key(s):
    """Description of a domain at the level of its constructor ARGUMENTS, with the documented defaults filled
    in and scalar / sequence spellings identified: two specs with the same key are 'equal descriptions'.
    (RG: distances None = 1/n in position space and 1 in harmonic space; LM: mmax None = lmax;
    GL: nlon None = 2*nlat-1; a scalar shape / distance is the 1-tuple / the broadcast tuple.)"""
    k = s[0]
    if k == "rg":
        shape = tuple(int(n) for n in (s[1] if isinstance(s[1], list) else [s[1]]))
        d = s[2]
        if d is None:
            dist = tuple(1.0 for _ in shape) if s[3] else tuple(float(1. / np.float64(n)) for n in shape)
        else:
            dist = tuple(float(x) for x in d) if isinstance(d, list) else tuple(float(d) for _ in shape)
        return ("RGSpace", shape, dist, bool(s[3]))
    if k == "lm":
        return ("LMSpace", int(s[1]), int(s[1] if s[2] is None else s[2]))
    if k == "gl":
        return ("GLSpace", int(s[1]), int(2 * s[1] - 1 if s[2] is None else s[2]))
    if k == "hp":
        return ("HPSpace", int(s[1]))
    if k == "power":
        return ("PowerSpace", spec_key(s[1]), None if s[2] is None else tuple(float(x) for x in s[2]))
    if k == "dof":
        return ("DOFSpace", tuple(float(x) for x in s[1]))
    if k == "unstructured":
        return ("UnstructuredDomain", tuple(int(x) for x in (s[1] if isinstance(s[1], list) else [s[1]])))
    raise ValueError(k)


def desc_key(obj):
    """Description of a Domain through its PUBLIC attributes (independent of __eq__/__hash__ and of
    `_needed_for_hash`): class name + constructor-level parameters."""
    n = type(obj).__name__
    if n == "RGSpace":
        return (n, tuple(int(x) for x in obj.shape), tuple(float(x) for x in obj.distances), bool(obj.harmonic))
    if n == "LMSpace":
        return (n, int(obj.lmax), int(obj.mmax))
    if n == "GLSpace":
        return (n, int(obj.nlat), int(obj.nlon))
    if n == "HPSpace":
        return (n, int(obj.nside))
    if n == "PowerSpace":
        bb = obj.binbounds
        return (n, desc_key(obj.harmonic_partner), None if bb is None else tuple(float(x) for x in bb))
    if n == "DOFSpace":
        return (n, tuple(float(x) for x in obj.dvol))
    if n == "UnstructuredDomain":
        return (n, tuple(int(x) for x in obj.shape))
    raise C.MachineryError("no description for domain class " + n)


# ---------------------------------------------------------------------------------------------------
# cases
# ---------------------------------------------------------------------------------------------------

DYAD = [0.125, 0.25, 0.5, 0.75, 1.0, 1.5, 2.0, 3.0]
ODD = [0.1, 0.3, 0.7, 1.1, 2.5]


def gen_cases(ctx):
    rng = ctx.rng(8)
    cases = []
    L = 5 if ctx.quick else 8
    for lmax in range(L + 1):
        for mmax in range(lmax + 1):
            cases.append({"kind": "lm", "lmax": lmax, "mmax": mmax})
    # sphere pair: constructor options (None defaults, ValueError branches) and default codomains, both directions
    SL = 6 if ctx.quick else 12
    for a in range(SL + 1):
        cases.append({"kind": "sph", "cls": "lm", "a": a, "b": None})
        cases.append({"kind": "sph", "cls": "gl", "a": a, "b": None})
    for a in range(SL + 1):
        for b in sorted(set([0, 1, 2, a, a + 1, 2 * a - 1 if a else 3, 2 * a, 2 * a + 1, 2 * a + 4] + [int(x) for x in rng.integers(0, 3 * SL, 2)])):
            cases.append({"kind": "sph", "cls": "gl", "a": a, "b": b})
            if ctx.quick is False or b <= a + 1:
                cases.append({"kind": "sph", "cls": "lm", "a": a, "b": b})
    # harmonic RG tables, equal distances
    shapes = [[n] for n in range(1, 10)]
    shapes += [[a, b] for a in range(1, 7) for b in range(1, 7) if ctx.quick is False or (a + b) % 2 == 0 or a * b <= 6]
    shapes += [[2, 3, 4], [3, 3, 3], [1, 4, 2], [4, 2, 5]] if ctx.quick else [[a, b, c] for a in range(1, 5) for b in range(1, 5) for c in range(1, 5)]
    # non-square grids (shortcut branch needs the per-axis extents), both orders
    shapes += [[6, 10], [10, 6], [3, 8], [8, 3], [2, 9], [5, 7], [4, 6, 9], [9, 4, 6], [2, 3, 7]]
    if not ctx.quick:
        shapes += [[a, b] for a in (7, 8, 9, 10) for b in (2, 3, 5, 6, 10)] + [[6, 9, 4], [3, 5, 8]]
    for i, sh in enumerate(shapes):
        d = float(rng.choice(DYAD + ODD))
        cases.append({"kind": "rgtab", "shape": sh, "dist": d if i % 3 else None})   # None: default distances
    # unequal distances
    for _ in range(12 if ctx.quick else 80):
        nd = int(rng.integers(2, 4))
        sh = [int(x) for x in rng.integers(1, 6 if nd == 2 else 4, size=nd)]
        ds = [float(x) for x in rng.choice(DYAD, size=nd)]
        cases.append({"kind": "rgtab_q", "shape": sh, "dists": ds})
    # geometry
    for _ in range(40 if ctx.quick else 300):
        nd = int(rng.integers(1, 4))
        sh = [int(x) for x in rng.integers(1, 10, size=nd)]
        r = int(rng.integers(0, 4))
        if r == 0:
            dist = None
        elif r == 1:
            dist = float(rng.choice(DYAD + ODD))
        else:
            dist = [float(x) for x in rng.choice(DYAD + ODD, size=nd)]
        cases.append({"kind": "rggeom", "shape": sh, "dist": dist, "harmonic": bool(rng.integers(0, 2))})
    # power spaces
    for _ in range(40 if ctx.quick else 300):
        r = int(rng.integers(0, 10))
        if r < 4:
            h = ["rg", [int(rng.integers(1, 10))], float(rng.choice(DYAD + ODD)), True]
        elif r < 8:
            h = ["rg", [int(rng.integers(1, 6)), int(rng.integers(1, 6))],
                 ([float(rng.choice(DYAD))] * 2 if rng.integers(0, 2) else [float(x) for x in rng.choice(DYAD, size=2)]), True]
        else:
            lmax = int(rng.integers(0, 5))
            h = ["lm", lmax, int(rng.integers(0, lmax + 1))]
        cases.append({"kind": "power", "h": h, "binning": gen_binning(rng, h)})
    # identity histories
    for i in range(12 if ctx.quick else 80):
        cases.append(gen_history(rng, "dt" if i % 2 == 0 else "md"))
    # repeated queries on ONE domain object, interleaved with useful_binbounds / PowerSpace construction
    for i in range(16 if ctx.quick else 100):
        cases.append(gen_qhist(rng, i))
    # one description, many spellings of every constructor argument
    for i in range(24 if ctx.quick else 160):
        cases.append(gen_spell(rng, i))
    # single domains through pickle / deepcopy (also twice, also via the codomain)
    for i in range(30 if ctx.quick else 200):
        cases.append(gen_dround(rng, i))
    # pickles made here, loaded in fresh interpreters with other hash seeds
    for hs in ([1, 4242] if ctx.quick else [1, 2, 77, 4242, 99999]):
        items = []
        for _ in range(10):
            q = int(rng.integers(0, 4))
            if q == 3:
                items.append(["md", {str(nm): [int(x) for x in rng.integers(0, len(SPELLINGS), size=int(rng.integers(0, 3)))]
                                     for nm in rng.permutation(["a", "b", "c"])[:int(rng.integers(1, 4))]}])
            else:
                k = 1 if q == 0 else int(rng.integers(0, 4))
                items.append(["dom" if q == 0 else "dt", [int(x) for x in rng.integers(0, len(SPELLINGS), size=k)]])
        cases.append({"kind": "xproc", "hashseed": hs, "items": items})
    # DOF spaces, cached power-index arrays
    for i in range(4 if ctx.quick else 20):
        cases.append({"kind": "dof", "weights": [float(x) for x in rng.choice(DYAD + ODD, size=int(rng.integers(1, 7)))]})
    for i in range(4 if ctx.quick else 20):
        keys = []
        for _ in range(int(rng.integers(3, 9))):
            hi = int(rng.integers(0, len(PC_PARTNERS)))
            u = ref_unique(PC_PARTNERS[hi])
            m = [float(0.5 * (u[0] + u[1])), float(0.5 * (u[1] + u[2]))]
            keys.append([hi, [None, None, m[:1], m][int(rng.integers(0, 4))]])
        cases.append({"kind": "pcache", "keys": keys})
    return cases


SENSITIVE = [0.789, 1.3, 0.3, 0.7, 1.1, 2.5, 0.1, 0.37, 1.9]


def gen_spell(rng, i):
    """One description, several spellings of every constructor argument (int / tuple / list / ndarray shape,
    float / numpy scalar / tuple / list / ndarray distances, defaults written out), on values where
    1/n/d, 1/(n*d) and their reciprocals differ in the last bit."""
    r = i % 4
    if r < 3:
        nd = int(rng.choice([1, 1, 2, 3]))
        sh = [int(x) for x in rng.choice([3, 5, 6, 7, 9, 11, 13], size=nd)]
        d = float(rng.choice(SENSITIVE))
        harm = bool(r != 1)
        hows = [["tuple", "scalar"], ["list", "tuple"], ["array", "npscalar"], ["tuple", "list"], ["list", "array"]]
        if nd == 1:
            hows += [["int", "scalar"], ["npint", "tuple"], ["int", "array"]]
        return {"kind": "spell", "cls": "rg", "shape": sh, "dist": d, "harmonic": harm, "hows": hows}
    q = int(rng.integers(0, 4))
    if q == 0:
        lmax = int(rng.integers(0, 7))
        return {"kind": "spell", "cls": "lm", "lmax": lmax, "hows": [["int", "none"], ["int", "int"], ["npint", "npint"], ["float", "none"]]}
    if q == 1:
        return {"kind": "spell", "cls": "gl", "nlat": int(rng.integers(1, 6)), "hows": [["int", "none"], ["int", "int"], ["npint", "npint"]]}
    if q == 2:
        return {"kind": "spell", "cls": "unstructured", "n": int(rng.integers(1, 6)), "hows": [["int"], ["tuple"], ["list"], ["npint"]]}
    n = int(rng.choice([5, 7, 9]))
    d = float(rng.choice(SENSITIVE))
    u = ref_unique(["rg", [n], d, True])
    bb = [float(0.5 * (u[0] + u[1])), float(0.5 * (u[1] + u[2]))]
    return {"kind": "spell", "cls": "power", "n": n, "dist": d, "bb": bb if rng.integers(0, 2) else None,
            "hows": [["scalar", "tuple"], ["tuple", "list"], ["scalar", "array"], ["list", "tuple"]]}


def build_spelled(case, how):
    ift = quiet()
    c = case["cls"]

    def num(x, h):
        return {"int": int(x), "npint": np.int64(x), "float": float(x)}[h]

    def seq(xs, h, scalar_ok):
        if h in ("scalar", "npscalar"):
            assert scalar_ok
            return float(xs[0]) if h == "scalar" else np.float64(xs[0])
        return {"tuple": tuple(xs), "list": list(xs), "array": np.array(xs)}[h]
    if c == "rg":
        sh = case["shape"]
        shape = num(sh[0], how[0]) if how[0] in ("int", "npint") else seq(sh, how[0], False)
        return ift.RGSpace(shape, distances=seq([case["dist"]] * len(sh), how[1], True), harmonic=case["harmonic"])
    if c == "lm":
        return ift.LMSpace(num(case["lmax"], how[0])) if how[1] == "none" else ift.LMSpace(num(case["lmax"], how[0]), num(case["lmax"], how[1]))
    if c == "gl":
        n = case["nlat"]
        return ift.GLSpace(num(n, how[0])) if how[1] == "none" else ift.GLSpace(num(n, how[0]), num(2 * n - 1, how[1]))
    if c == "unstructured":
        n = case["n"]
        return ift.UnstructuredDomain(num(n, how[0]) if how[0] in ("int", "npint") else seq([n], how[0], False))
    if c == "power":
        h = ift.RGSpace(case["n"], distances=seq([case["dist"]], how[0], True), harmonic=True)
        return ift.PowerSpace(h) if case["bb"] is None and how[1] == "tuple" else ift.PowerSpace(h, None if case["bb"] is None else seq(case["bb"], how[1], False))
    raise ValueError(c)


def state_bits(o):
    """The identifying internal state of a domain, bit for bit (recursively)."""
    from nifty.cl.domains.domain import Domain

    def conv(v):
        if isinstance(v, Domain):
            return state_bits(v)
        if isinstance(v, (tuple, list, np.ndarray)):
            return tuple(conv(x) for x in v)
        if isinstance(v, (float, np.floating)):
            return float(v).hex()
        if isinstance(v, (bool, np.bool_)):
            return bool(v)
        if isinstance(v, (int, np.integer)):
            return int(v)
        return v
    return (type(o).__name__,) + tuple(conv(vars(o)[k]) for k in o._needed_for_hash)


def run_spell(case):
    ift = quiet()
    objs = [build_spelled(case, h) for h in case["hows"]]
    n = len(objs)
    out = {"eq": all(bool(objs[i] == objs[j]) and not (objs[i] != objs[j]) for i in range(n) for j in range(n)),
           "hash": len({hash(o) for o in objs}) == 1,
           "state": len({state_bits(o) for o in objs}) == 1,
           "geom": all(geom(o) == geom(objs[0]) for o in objs),
           "pub": len({desc_key(o) for o in objs}) == 1}
    dts = [ift.DomainTuple.make(o if i % 2 else (o,)) for i, o in enumerate(objs)]
    mds = [ift.MultiDomain.make({"a": o}) for o in objs]
    out["classes"] = [next(j for j in range(i + 1) if dts[j] is dts[i]) for i in range(n)]
    out["classes_md"] = [next(j for j in range(i + 1) if mds[j] is mds[i]) for i in range(n)]
    if case["cls"] == "rg":
        gs = []
        for t in (objs[0], objs[-1]):
            co = t.get_default_codomain()
            gs.append(dict(distances=fl(t.distances), dvol=float(t.scalar_dvol), size=int(t.size), total=float(t.total_volume),
                           extents=fl(t.extents), codist=fl(co.distances), codvol=float(co.scalar_dvol)))
        out["geoms"] = gs
    return out


def gen_dround(rng, i):
    r = i % 5
    if r < 3:          # RG grids, mostly sizes / distances whose public distances do not reproduce the internal ones
        nd = int(rng.choice([1, 1, 2, 3]))
        pool = [3, 5, 6, 7, 9, 10, 11, 12, 13, 49, 98, 103, 107] if nd == 1 else ([3, 5, 7, 10, 13] if nd == 2 else [3, 5, 7])
        sh = [int(x) for x in rng.choice(pool, size=nd)]
        q = int(rng.integers(0, 3))
        dist = None if q == 0 else (float(rng.choice(DYAD + ODD)) if q == 1 else [float(x) for x in rng.choice(DYAD + ODD, size=nd)])
        spec = ["rg", sh, dist, bool(r != 2 or rng.integers(0, 2))]
    elif r == 3:
        lmax = int(rng.integers(0, 6))
        spec = [["lm", lmax, int(rng.integers(0, lmax + 1))], ["gl", int(rng.integers(1, 5)), None], ["hp", int(rng.choice([1, 2, 4]))],
                ["unstructured", [int(rng.integers(1, 4)), int(rng.integers(1, 4))]],
                ["dof", [float(x) for x in rng.choice(DYAD + ODD, size=int(rng.integers(1, 4)))]]][int(rng.integers(0, 5))]
    else:              # power space over a harmonic grid that does not round-trip through its public distances
        n = int(rng.choice([7, 10, 13, 49]))
        h = ["rg", [n], float(rng.choice(ODD)), True]
        u = ref_unique(h)
        spec = ["power", h, None if rng.integers(0, 2) else [float(0.5 * (u[0] + u[1])), float(0.5 * (u[1] + u[2]))]]
    return {"kind": "dround", "spec": spec, "how": str(rng.choice(["pickle", "deepcopy", "pickle2"]))}


# harmonic partners for the power-index cache cases; 0/1 and 3/4 are two spellings of one description
PC_PARTNERS = [["rg", 4, None, True], ["rg", [4], 1.0, True], ["rg", [4], 0.5, True], ["lm", 2, None], ["lm", 2, 2],
               ["rg", [3, 2], None, True]]


def gen_qhist(rng, i):
    r = i % 4
    if r == 0:       # anisotropic 2-D / 3-D grid ("hard way" branch)
        nd = int(rng.choice([2, 2, 3]))
        sh = [int(x) for x in rng.integers(2, 11 if nd == 2 else 5, size=nd)]
        if nd == 2 and sh[0] * sh[1] > 60:
            sh = [6, 10]
        ds = [float(x) for x in rng.choice(DYAD + ODD, size=nd, replace=False)]
        h = ["rg", sh, ds, True]
    elif r == 1:     # isotropic, non-square (shortcut branch)
        a, b = int(rng.integers(2, 8)), int(rng.integers(2, 11))
        h = ["rg", [a, b], float(rng.choice(DYAD + ODD)), True]
    elif r == 2:
        h = ["rg", [int(rng.integers(3, 12))], float(rng.choice(DYAD + ODD)), True]
    else:
        lmax = int(rng.integers(2, 6))
        h = ["lm", lmax, int(rng.integers(0, lmax + 1))]
    ops = []
    for _ in range(int(rng.integers(4, 9))):
        q = int(rng.integers(0, 10))
        if q < 3:
            ops.append(["uniq"])
        elif q < 6:
            ops.append(["useful", bool(rng.integers(0, 2)), None if rng.integers(0, 2) else int(rng.integers(3, 6))])
        elif q < 7:
            ops.append(["ktab"])
        elif q < 9:
            ops.append(["power", None])
        else:
            ops.append(["power_useful", bool(rng.integers(0, 2))])
    ops.append(["uniq"])
    return {"kind": "qhist", "h": h, "ops": ops}


def ref_klengths(h):
    """k-length table of a harmonic space spec, computed here (not by the code under test)."""
    if h[0] == "lm":
        lmax, mmax = int(h[1]), int(h[1] if h[2] is None else h[2])
        return np.array([l for l in range(lmax + 1)] + [l for m in range(1, mmax + 1) for l in range(m, lmax + 1) for _ in (0, 1)], dtype=np.float64)
    shape = [int(n) for n in (h[1] if isinstance(h[1], list) else [h[1]])]
    d = h[2]
    ds = [1.0] * len(shape) if d is None else ([float(d)] * len(shape) if not isinstance(d, list) else [float(x) for x in d])
    res = np.zeros(())
    for n, dd in zip(shape, ds):
        j = np.arange(n, dtype=np.float64)
        res = np.add.outer(res, (np.minimum(j, n - j) * dd) ** 2)
    return np.sqrt(res).ravel()


def ref_unique(h):
    k = np.unique(ref_klengths(h))
    keep = np.r_[True, np.diff(k) > 1e-10 * max(1.0, float(k[-1]))]
    return k[keep]


def gen_binning(rng, h):
    ift = quiet()
    uk = ref_unique(h)
    r = int(rng.integers(0, 10))
    if r < 3:
        return None
    if r < 6:          # arbitrary ascending positive bounds (may or may not leave bins empty)
        n = int(rng.integers(1, 5))
        top = float(uk[-1]) if uk[-1] > 0 else 1.0
        b = np.sort(rng.choice(np.arange(1, 33), size=n, replace=False)) * (top / 24.0)
        return [float(x) for x in b]
    if r < 8 and len(uk) >= 2:    # bounds exactly AT k values (boundary: k <= bound goes left)
        sel = [float(u) for u in uk[1:] if rng.integers(0, 2)]
        return sel if sel else [float(uk[1])]
    if len(uk) >= 3:        # linear / logarithmic bounds as PowerSpace.useful_binbounds documents them
        lb, rb = 0.5 * (uk[0] + uk[1]), 0.5 * (uk[-2] + uk[-1])
        nb = int(rng.integers(3, 6))
        if rng.integers(0, 2):
            return [float(b) for b in np.linspace(lb, rb, nb - 1)]
        return [float(b) for b in np.logspace(np.log(lb), np.log(rb), nb - 1, base=np.e)]
    return None


SPELLINGS = [
    ["rg", 4, None, False], ["rg", [4], 0.25, False], ["rg", [4], [0.25], False],      # one description
    ["rg", 4, None, True], ["rg", [4], 1.0, True],                                      # one description
    ["rg", [4], 0.5, False], ["rg", [2, 2], None, False], ["rg", [2, 2], [0.5, 0.5], False],
    ["lm", 2, None], ["lm", 2, 2], ["lm", 2, 1],
    ["gl", 2, None], ["gl", 2, 3], ["hp", 1],
    ["unstructured", 3], ["unstructured", [3]], ["unstructured", [1, 3]],
    ["power", ["rg", 4, None, True], None], ["power", ["rg", [4], 1.0, True], None], ["power", ["rg", 4, None, True], [0.3]],
    ["dof", [1.0, 2.0]], ["dof", [1.0, 2.0]], ["dof", [2.0, 1.0]],
    # harmonic grids whose public distances are NOT bit-identical to what the constructor would
    # recompute from them (1/(n*(1/(n*d))) != d): any re-creation must go through the internal state
    ["rg", 49, None, True], ["rg", [7], 0.3, True], ["rg", [5, 7], [0.3, 1.7], True], ["rg", [10, 13], 0.3, True],
    ["rg", 49, None, False], ["rg", [7], [0.3], True],
    # scalar / sequence spellings of ONE description on rounding-sensitive values (1/n/d != 1/(n*d))
    ["rg", [3], 0.789, True], ["rg", [3], [0.789], True], ["rg", 3, 0.789, True],
    ["rg", [7], 1.3, True], ["rg", 7, [1.3], True],
    ["rg", [3, 7], 0.789, True], ["rg", [3, 7], [0.789, 0.789], True],
    ["rg", [3], 0.789, False], ["rg", 3, [0.789], False],
]


def gen_history(rng, which):
    ops = []
    n = int(rng.integers(4, 12))
    for t in range(n):
        r = int(rng.integers(0, 10))
        if t == 0 or r < 6:
            if which == "dt":
                k = int(rng.choice([0, 1, 1, 1, 2, 2, 3]))
                sp = [int(x) for x in rng.integers(0, len(SPELLINGS), size=k)]
                ops.append(["make", sp, str(rng.choice(["tuple", "list", "single"] if k == 1 else ["tuple", "list"]))])
            else:
                names = [str(x) for x in rng.permutation(["a", "b", "c"])[:int(rng.integers(0, 4))]]
                items = []
                for nm in names:
                    k = int(rng.choice([0, 1, 1, 2]))
                    sp = [int(x) for x in rng.integers(0, len(SPELLINGS), size=k)]
                    items.append([nm, sp, str(rng.choice(["tuple", "domaintuple", "single"] if k == 1 else ["tuple", "domaintuple"]))])
                ops.append(["make", items])
        elif r < 7:
            ops.append(["same", int(rng.integers(0, t))])
        elif r < 9:
            ops.append(["pickle", int(rng.integers(0, t))])
        else:
            ops.append(["deepcopy", int(rng.integers(0, t))])
    return {"kind": "hist_" + which, "ops": ops}


# ---------------------------------------------------------------------------------------------------
# running the implementation
# ---------------------------------------------------------------------------------------------------

def fl(xs):
    return [float(x) for x in np.asarray(xs, dtype=np.float64).ravel()]


def run_history(case):
    ift = quiet()
    which = case["kind"][5:]
    objs, descs = [], []

    def dt_value(sp, how):
        doms = [mk_space(SPELLINGS[i]) for i in sp]
        d = tuple(spec_key(SPELLINGS[i]) for i in sp)
        if how == "single":
            return doms[0], d
        if how == "list":
            return list(doms), d
        if how == "domaintuple":
            return ift.DomainTuple.make(tuple(doms)), d
        return tuple(doms), d

    for op in case["ops"]:
        if op[0] == "make":
            if which == "dt":
                v, d = dt_value(op[1], op[2])
                objs.append(ift.DomainTuple.make(v))
                descs.append(d)
            else:
                dct, d = {}, []
                for nm, sp, how in op[1]:
                    v, dd = dt_value(sp, how)
                    dct[nm] = v
                    d.append((nm, dd))
                objs.append(ift.MultiDomain.make(dct))
                descs.append(tuple(d))
        elif op[0] == "same":
            cls = ift.DomainTuple if which == "dt" else ift.MultiDomain
            objs.append(cls.make(objs[op[1]]))
            descs.append(descs[op[1]])
        else:
            src = objs[op[1]]
            objs.append(pickle.loads(pickle.dumps(src)) if op[0] == "pickle" else copy.deepcopy(src))
            descs.append(descs[op[1]])
    classes = []
    for i, o in enumerate(objs):
        classes.append(next(j for j in range(i + 1) if objs[j] is o))

    def observed(o):       # the description the result actually has
        if which == "dt":
            return tuple(desc_key(x) for x in o)
        return tuple(sorted((k, tuple(desc_key(x) for x in v)) for k, v in o.items()))
    # a copy (make(obj), pickle, deepcopy) must have the public description of its source
    changed = [i for i, op in enumerate(case["ops"]) if op[0] != "make" and observed(objs[i]) != observed(objs[op[1]])]
    return {"classes": classes, "descs": descs, "objs": objs, "changed": changed}


def qh_answer(sp, op, ift):
    """One query on the given domain object; returns a JSON-able answer (exceptions are answers)."""
    try:
        if op[0] == "uniq":
            return {"v": fl(sp.get_unique_k_lengths())}
        if op[0] == "ktab":
            return {"v": fl(sp.get_k_length_array().asnumpy())}
        if op[0] == "useful":
            bb = ift.PowerSpace.useful_binbounds(sp, op[1], op[2])
            return {"v": None if bb is None else fl(bb)}
        if op[0] in ("power", "power_useful"):
            bb = op[1] if op[0] == "power" else ift.PowerSpace.useful_binbounds(sp, op[1])
            p = ift.PowerSpace(sp, None if bb is None else tuple(float(x) for x in bb))
            return {"v": None, "bb": None if bb is None else fl(bb), "pindex": [int(x) for x in p.pindex.ravel()],
                    "klen": fl(p.k_lengths), "dvol": fl(p.dvol)}
    except Exception as e:  # noqa: BLE001
        return {"error": type(e).__name__, "message": str(e)[:120]}
    raise C.MachineryError("unknown query " + repr(op))


def run_qhist(case):
    ift = quiet()
    sp = mk_space(case["h"])            # ONE object for the whole history
    ans, fresh = [], []
    for op in case["ops"]:
        ans.append(qh_answer(sp, op, ift))
        fresh.append(qh_answer(mk_space(case["h"]), op, ift))      # the same query on a brand-new object
    f = mk_space(case["h"])
    out = {"answers": ans, "fresh": fresh, "pdvol": float(f.scalar_dvol)}
    try:
        out["distances"] = fl(f.distances) if case["h"][0] == "rg" else None
        out["ks"] = fl(f.get_k_length_array().asnumpy())
        out["uniq_fresh"] = fl(f.get_unique_k_lengths())
    except Exception as e:  # noqa: BLE001
        out["error"] = type(e).__name__
        out["message"] = str(e)[:120]
    return out


def roundtrip(o, how):
    if how == "deepcopy":
        return copy.deepcopy(o)
    o = pickle.loads(pickle.dumps(o))
    return pickle.loads(pickle.dumps(o)) if how == "pickle2" else o


def geom(sp):
    """Everything observable about a domain's geometry, bit for bit."""
    g = {"shape": [int(x) for x in sp.shape], "size": int(sp.size)}
    for a in ("harmonic", "scalar_dvol", "total_volume", "distances", "dvol", "binbounds", "k_lengths", "pindex"):
        try:
            v = getattr(sp, a)
        except (AttributeError, NotImplementedError):
            continue
        g[a] = None if v is None else (bool(v) if isinstance(v, bool) else [float(x).hex() for x in np.asarray(v, dtype=np.float64).ravel()])
    if getattr(sp, "harmonic", False):
        g["ks"] = [float(x).hex() for x in sp.get_k_length_array().asnumpy().ravel()]
        g["uniq"] = [float(x).hex() for x in sp.get_unique_k_lengths()]
    return g


def run_dround(case):
    ift = quiet()
    s = mk_space(case["spec"])
    t = roundtrip(s, case["how"])
    out = {"eq": bool(s == t and t == s and not (s != t)), "hash": hash(s) == hash(t), "desc": desc_key(s) == desc_key(t),
           "geom": geom(s) == geom(t), "type": type(s) is type(t)}
    a, b = ift.DomainTuple.make((s,)), ift.DomainTuple.make((t,))
    c = roundtrip(a, case["how"])
    out["classes"] = [0, 0 if b is a else 1, 0 if c is a else (1 if c is b else 2)]
    out["codomain"] = True
    if case["spec"][0] == "rg":
        co = roundtrip(s.get_default_codomain(), case["how"])
        back = co.get_default_codomain()
        out["codomain"] = bool(back == s and s == back and hash(back) == hash(s) and geom(back) == geom(s))
        out["t_geom"] = dict(distances=fl(t.distances), dvol=float(t.scalar_dvol), size=int(t.size), total=float(t.total_volume),
                             extents=fl(t.extents), codist=fl(co.distances), codvol=float(co.scalar_dvol))
    return out


def run_case(case):
    ift = quiet()
    k = case["kind"]
    obs = {"error": None}
    try:
        if k == "lm":
            s = ift.LMSpace(case["lmax"], case["mmax"])
            obs.update(size=int(s.size), ks=fl(s.get_k_length_array().asnumpy()), uniq=fl(s.get_unique_k_lengths()),
                       shape=list(s.shape))
        elif k in ("rgtab", "rgtab_q"):
            d = case["dist"] if k == "rgtab" else tuple(case["dists"])
            s = ift.RGSpace(tuple(case["shape"]), distances=d, harmonic=True)
            obs.update(distances=fl(s.distances), ks=fl(s.get_k_length_array().asnumpy()), uniq=fl(s.get_unique_k_lengths()),
                       pindex=[int(x) for x in ift.PowerSpace(s).pindex.ravel()])
        elif k == "rggeom":
            d = case["dist"]
            s = ift.RGSpace(tuple(case["shape"]), distances=tuple(d) if isinstance(d, list) else d, harmonic=case["harmonic"])
            c = s.get_default_codomain()
            s.check_codomain(c)
            c.check_codomain(s)
            obs.update(distances=fl(s.distances), dvol=float(s.scalar_dvol), size=int(s.size), total=float(s.total_volume),
                       extents=fl(s.extents), codist=fl(c.distances), codvol=float(c.scalar_dvol),
                       involution=bool(c.get_default_codomain() == s), co_harm=bool(c.harmonic), shape=list(s.shape))
        elif k == "power":
            h = mk_space(case["h"])
            obs.update(ks=fl(h.get_k_length_array().asnumpy()), uniq=fl(h.get_unique_k_lengths()), pdvol=float(h.scalar_dvol),
                       hsize=int(h.size), htotal=float(h.total_volume))
            def attempt(hh):
                try:
                    p = ift.PowerSpace(hh, None if case["binning"] is None else tuple(case["binning"]))
                    return dict(error=None, pindex=[int(x) for x in p.pindex.ravel()], klen=fl(p.k_lengths), dvol=fl(p.dvol),
                                psize=int(p.size), ptotal=float(p.total_volume),
                                binbounds=None if p.binbounds is None else fl(p.binbounds))
                except ValueError as e:
                    return dict(error="ValueError", message=str(e))
            obs.update(attempt(h))
            # the same request again (retry after a possible failure), then through a fresh equal partner
            obs["retries"] = [attempt(h), attempt(mk_space(case["h"]))]
        elif k == "dround":
            obs.update(run_dround(case))
        elif k == "xproc":
            obs.update(run_xproc(case))
        elif k == "spell":
            obs.update(run_spell(case))
        elif k == "qhist":
            obs.update(run_qhist(case))
        elif k == "dof":
            sp = mk_space(["dof", case["weights"]])
            obs.update(size=int(sp.size), shape=list(sp.shape), dvol=fl(sp.dvol), total=float(sp.total_volume),
                       scalar=sp.scalar_dvol is None, harmonic=bool(sp.harmonic))
        elif k == "pcache":
            arrs, descs = [], []
            for sidx, bb in case["keys"]:
                h = mk_space(PC_PARTNERS[sidx])
                p = ift.PowerSpace(h, None if bb is None else tuple(bb))
                arrs.append((p.pindex, p.k_lengths, p.dvol))
                descs.append((spec_key(PC_PARTNERS[sidx]), None if bb is None else tuple(bb)))
            obs["classes"] = [next(j for j in range(i + 1) if arrs[j][0] is arrs[i][0]) for i in range(len(arrs))]
            obs["classes_k"] = [next(j for j in range(i + 1) if arrs[j][1] is arrs[i][1]) for i in range(len(arrs))]
            obs["classes_v"] = [next(j for j in range(i + 1) if arrs[j][2] is arrs[i][2]) for i in range(len(arrs))]
            obs["descs"] = descs
        elif k.startswith("hist_"):
            r = run_history(case)
            obs["classes"] = r["classes"]
            obs["changed"] = r["changed"]
            dcode, codes = {}, []
            for d in r["descs"]:
                codes.append(d)
            obs["descs"] = codes
        elif k == "sph":
            def par(o):
                return [int(o.lmax), int(o.mmax)] if type(o).__name__ == "LMSpace" else [int(o.nlat), int(o.nlon)]
            try:
                s = ift.LMSpace(case["a"], case["b"]) if case["cls"] == "lm" else ift.GLSpace(case["a"], case["b"])
            except ValueError:
                obs.update(rejected=True)
            else:
                c = s.get_default_codomain()
                cc = c.get_default_codomain()
                s.check_codomain(c)
                c.check_codomain(s)
                obs.update(rejected=False, vals=par(s) + [int(s.size)] + par(c) + [int(c.size)] + par(cc),
                           types=[type(s).__name__, type(c).__name__, type(cc).__name__],
                           shapes=[list(s.shape), list(c.shape)], back=bool(cc == s), harmonic=[bool(s.harmonic), bool(c.harmonic)])
        else:
            raise C.MachineryError("unknown case kind " + k)
    except C.MachineryError:
        raise
    except Exception as e:  # noqa: BLE001
        obs["error"] = type(e).__name__
        obs["message"] = str(e)[:200]
    return obs


# ---------------------------------------------------------------------------------------------------
# Coq terms
# ---------------------------------------------------------------------------------------------------

def as_ints(xs):
    out = []
    for x in xs:
        if float(x) != int(x):
            return None
        out.append(int(x))
    return out


def hist_terms(case, obs):
    """Coq history with descriptions coded as nat (one code per distinct description)."""
    which = case["kind"][5:]
    dom_codes, tup_codes = {}, {}

    def dcode(d):
        return dom_codes.setdefault(d, len(dom_codes))

    def tcode(t):
        return tup_codes.setdefault(t, len(tup_codes))
    ops = []
    for op, d in zip(case["ops"], obs["descs"]):
        if op[0] == "make":
            if which == "dt":
                ops.append("Make _ %s" % cnats([dcode(x) for x in d]))
            else:
                items = ["(%d%%nat, %d%%nat)" % ("abc".index(nm), tcode(tuple(dcode(x) for x in dd))) for nm, dd in d]
                ops.append("Make _ %s" % C.clist(items))
        elif op[0] == "same":
            ops.append("Same _ %d%%nat" % op[1])
        else:               # pickle and deepcopy both go through __reduce__ -> make(description)
            ops.append("Pickle _ %d%%nat" % op[1])
    if obs.get("changed"):
        return "false"      # a result does not have the description the model assigns to it
    fn = "dt_classes" if which == "dt" else "md_classes"
    return "nat_list_eqb (%s %s) %s" % (fn, C.clist(ops), cnats(obs["classes"]))


def coq_check(case, obs):
    try:
        return coq_check_(case, obs)
    except NonFinite:
        return "false"


def coq_check_(case, obs):
    k = case["kind"]
    if k == "power":
        if "ks" not in obs:
            return "false"
        parts = []
        for a in [obs] + obs.get("retries", []):       # every attempt against the pure model of the arguments
            o = "None" if a["error"] == "ValueError" else (
                None if a["error"] else "(Some (%s, (%s, %s)))" % (cnats(a["pindex"]), cqs(a["klen"]), cqs(a["dvol"])))
            if o is None:
                return "false"
            if case["binning"] is None:
                parts.append("(ps_natural_ok %s %s %s %s)" % (cqs(obs["uniq"]), cqs(obs["ks"]), cq(obs["pdvol"]), o))
            else:
                parts.append("(ps_ok %s %s %s %s)" % (cqs(case["binning"]), cqs(obs["ks"]), cq(obs["pdvol"]), o))
        return " && ".join(parts)
    if obs["error"] is not None:
        return "false"
    if k == "sph":
        lm = case["cls"] == "lm"
        b = "None" if case["b"] is None else "(Some %d%%nat)" % case["b"]
        if obs["rejected"]:
            o = "None"
        else:
            want = ["LMSpace", "GLSpace", "LMSpace"] if lm else ["GLSpace", "LMSpace", "GLSpace"]
            if obs["types"] != want or obs["shapes"] != [[obs["vals"][2]], [obs["vals"][5]]] or obs["harmonic"] != [lm, not lm]:
                return "false"
            o = "(Some %s)" % cnats(obs["vals"])
        return "sph_ok %s %d%%nat %s %s" % (C.cbool(lm), case["a"], b, o)
    if k == "lm":
        ks, uq = as_ints(obs["ks"]), as_ints(obs["uniq"])
        if ks is None or uq is None:
            return "false"
        return "lm_ok %d%%nat %d%%nat %d%%nat %s %s" % (case["lmax"], case["mmax"], obs["size"], cnats(ks), cnats(uq))
    if k == "rgtab":
        return "rg_tables_ok %s %s %s %s %s" % (cnats(case["shape"]), cq(obs["distances"][0]), cqs(obs["ks"]), cqs(obs["uniq"]), cnats(obs["pindex"]))
    if k == "rgtab_q":
        return "rg_tables_q_ok %s %s %s %s %s" % (cnats(case["shape"]), cqs(obs["distances"]), cqs(obs["ks"]), cqs(obs["uniq"]), cnats(obs["pindex"]))
    if k == "rggeom":
        d = case["dist"]
        nd = len(case["shape"])
        dist = "None" if d is None else "(Some %s)" % cqs(d if isinstance(d, list) else [d] * nd)
        if not (obs["involution"] and obs["co_harm"] != case["harmonic"]):
            return "false"
        return "rg_geom_ok %s %s %s %s %s %d%%nat %s %s %s %s" % (
            cnats(case["shape"]), dist, C.cbool(case["harmonic"]), cqs(obs["distances"]), cq(obs["dvol"]), obs["size"],
            cq(obs["total"]), cqs(obs["extents"]), cqs(obs["codist"]), cq(obs["codvol"]))
    if k.startswith("hist_"):
        return hist_terms(case, obs)
    if k == "dof":
        if not obs["scalar"] or obs["harmonic"] or obs["shape"] != [obs["size"]]:
            return "false"
        return "dof_ok %s %d%%nat %s %s" % (cqs(case["weights"]), obs["size"], cqs(obs["dvol"]), cq(obs["total"]))
    if k == "pcache":
        codes, keys = {}, []
        for d in obs["descs"]:
            keys.append(codes.setdefault(d, len(codes)))
        return " && ".join("(nat_list_eqb (pc_classes %s) %s)" % (cnats(keys), cnats(obs[c])) for c in ("classes", "classes_k", "classes_v"))
    if k == "qhist":
        return qhist_terms(case, obs)
    if k == "spell":
        # all spellings are ONE description: `Make d` n times in the hash-consing model, and the geometry is the
        # pure function of the constructor arguments
        if not (obs["eq"] and obs["hash"] and obs["state"] and obs["geom"] and obs["pub"]):
            return "false"
        n = len(case["hows"])
        t = "nat_list_eqb (dt_classes %s) %s && nat_list_eqb (dt_classes %s) %s" % (
            C.clist(["Make _ [0%nat]"] * n), cnats(obs["classes"]), C.clist(["Make _ [0%nat]"] * n), cnats(obs["classes_md"]))
        if case["cls"] == "rg":
            sh = case["shape"]
            for g in obs["geoms"]:
                t += " && rg_geom_ok %s (Some %s) %s %s %s %d%%nat %s %s %s %s" % (
                    cnats(sh), cqs([case["dist"]] * len(sh)), C.cbool(case["harmonic"]), cqs(g["distances"]), cq(g["dvol"]), g["size"],
                    cq(g["total"]), cqs(g["extents"]), cqs(g["codist"]), cq(g["codvol"]))
        return t
    if k == "xproc":
        if not all(all(f) for f in obs["flags"]):
            return "false"
        table, ops = {}, []
        for c in obs["codes"]:            # per item: load (= make in the child's empty cache), make, reload
            code = table.setdefault(c, len(table))
            ops += ["Make _ [%d%%nat]" % code] * 3
        return "nat_list_eqb (dt_classes %s) %s" % (C.clist(ops), cnats(obs["classes"]))
    if k == "dround":
        # a round trip is `Pickle` in the hash-consing model (same description, hence same canonical tuple),
        # and the copy's geometry is the pure function of the ORIGINAL constructor arguments
        if not (obs["eq"] and obs["hash"] and obs["desc"] and obs["geom"] and obs["type"] and obs["codomain"]):
            return "false"
        t = "nat_list_eqb (dt_classes [Make _ [0%%nat]; Make _ [0%%nat]; Pickle _ 0%%nat]) %s" % cnats(obs["classes"])
        if case["spec"][0] == "rg":
            sp = case["spec"]
            sh = sp[1] if isinstance(sp[1], list) else [sp[1]]
            d = sp[2]
            dist = "None" if d is None else "(Some %s)" % cqs(d if isinstance(d, list) else [d] * len(sh))
            g = obs["t_geom"]
            t += " && rg_geom_ok %s %s %s %s %s %d%%nat %s %s %s %s" % (
                cnats(sh), dist, C.cbool(sp[3]), cqs(g["distances"]), cq(g["dvol"]), g["size"], cq(g["total"]),
                cqs(g["extents"]), cqs(g["codist"]), cq(g["codvol"]))
        return t
    return "false"


def qhist_terms(case, obs):
    """Every answer of the history against the (pure) model: unique lengths = value set of the table,
    PowerSpace results = binning of the real k-length floats; exceptions must be the fresh object's."""
    h = case["h"]
    parts = []
    for op, a, f in zip(case["ops"], obs["answers"], obs["fresh"]):
        if ("error" in a) != ("error" in f) or ("error" in a and a["error"] != f["error"]):
            return "false"
        if "error" in a:
            if a["error"] != "ValueError":
                return "false"
            continue
        if op[0] == "uniq":
            if h[0] == "lm":
                u = as_ints(a["v"])
                if u is None:
                    return "false"
                parts.append("uniq_lm_ok %d%%nat %s" % (h[1], cnats(u)))
            else:
                parts.append("uniq_q_ok %s %s %s" % (cnats(h[1]), cqs(obs["distances"]), cqs(a["v"])))
        elif op[0] in ("power", "power_useful"):
            o = "(Some (%s, (%s, %s)))" % (cnats(a["pindex"]), cqs(a["klen"]), cqs(a["dvol"]))
            if a["bb"] is None:
                parts.append("ps_natural_ok %s %s %s %s" % (cqs(obs["uniq_fresh"]), cqs(obs["ks"]), cq(obs["pdvol"]), o))
            else:
                parts.append("ps_ok %s %s %s %s" % (cqs(a["bb"]), cqs(obs["ks"]), cq(obs["pdvol"]), o))
    if obs.get("error"):
        return "false"
    return " && ".join("(%s)" % p for p in parts) if parts else "true"


# ---------------------------------------------------------------------------------------------------
# direct oracle
# ---------------------------------------------------------------------------------------------------

def near(a, b, tol=1e-9):
    a, b = np.asarray(a, dtype=np.float64), np.asarray(b, dtype=np.float64)
    return a.shape == b.shape and bool(np.all(np.abs(a - b) <= tol * np.maximum(1.0, np.abs(b))))


def volume_failure(sp):
    """total volume = sum of pixel volumes; uniform volume agrees with per-pixel volumes."""
    dv = sp.dvol
    tv = sp.total_volume
    if np.isscalar(dv):
        if sp.scalar_dvol is None or not near(sp.scalar_dvol, dv):
            return "scalar_dvol disagrees with dvol"
        if not near(tv, sp.size * dv):
            return "total_volume != size * dvol"
    else:
        dv = np.asarray(dv, dtype=np.float64)
        if dv.shape != tuple(sp.shape):
            return "dvol has shape %r, domain has shape %r" % (dv.shape, sp.shape)
        if sp.scalar_dvol is not None:
            return "scalar_dvol given although dvol is an array"
        if not near(tv, dv.sum()):
            return "total_volume %r != sum of pixel volumes %r" % (float(tv), float(dv.sum()))
    if int(np.prod(sp.shape, dtype=np.int64)) != sp.size:
        return "size != prod(shape)"
    return None


def klength_failure(h):
    k = h.get_k_length_array().asnumpy().ravel()
    u = np.asarray(h.get_unique_k_lengths(), dtype=np.float64)
    if k.shape != (h.size,):
        return "k-length table has the wrong size"
    if len(u) == 0:
        return "no unique k-lengths although the table has %d pixels" % len(k)
    if not np.all(np.diff(u) > 0):
        return "unique k-lengths are not strictly increasing"
    scale = max(1.0, float(u[-1]))
    d = np.abs(k[:, None] - u[None, :])
    if not np.all(d.min(axis=1) <= 1e-9 * scale):
        return "a pixel's k-length is not among the unique k-lengths"
    if not np.all(d.min(axis=0) <= 1e-9 * scale):
        return "a unique k-length belongs to no pixel"
    return None


def power_failure(h, binning):
    ift = quiet()
    k = h.get_k_length_array().asnumpy().ravel()
    try:
        p = ift.PowerSpace(h, None if binning is None else tuple(binning))
    except ValueError:
        # legitimate only if some requested bin is empty
        bb = np.asarray(binning if binning is not None else [], dtype=np.float64)
        pin = np.array([int(np.sum(bb < x)) for x in k])
        if binning is not None and len(set(pin.tolist())) < len(bb) + 1:
            return None
        return "PowerSpace rejected a binning without empty bins"
    pin = p.pindex.ravel()
    nb = p.size
    if pin.shape != (h.size,) or pin.min() < 0 or pin.max() >= nb:
        return "pindex does not assign every pixel to a bin"
    cnt = np.array([np.sum(pin == b) for b in range(nb)])
    if np.any(cnt == 0):
        return "an empty bin was accepted"
    if cnt.sum() != h.size:
        return "bin sizes do not add up to the partner's size"
    if not near(p.dvol, cnt * h.scalar_dvol):
        return "bin volumes are not the sums of the member pixel volumes"
    if not near(p.total_volume, h.total_volume):
        return "power space and partner have different total volumes"
    means = np.array([k[pin == b].mean() for b in range(nb)])
    if not near(p.k_lengths, means):
        return "bin k-lengths are not the averages over the member pixels"
    bb = p.binbounds
    if bb is not None:
        bb = np.asarray(bb, dtype=np.float64)
        ref = np.array([int(np.sum(bb < x)) for x in k])
        if not np.array_equal(ref, pin):
            return "pindex is not the number of bounds below the pixel's k-length"
    else:
        u = np.asarray(h.get_unique_k_lengths(), dtype=np.float64)
        if nb != len(u):
            return "natural binning does not have one bin per unique k-length"
        if not np.all(np.abs(k - u[pin]) <= 1e-9 * max(1.0, float(u[-1]))):
            return "natural binning: a bin holds a pixel of a different k-length"
    return volume_failure(p)


def rg_failure(case, obs):
    n = np.array(obs["shape"], dtype=np.float64)
    d, dc = np.array(obs["distances"]), np.array(obs["codist"])
    if not near(n * d * dc, np.ones_like(n)):
        return "n * d * d' != 1 between a grid and its codomain"
    if not obs["involution"]:
        return "codomain of the codomain is a different space"
    if not near(obs["dvol"], np.prod(d)) or not near(obs["total"], obs["size"] * obs["dvol"]):
        return "dvol != prod(distances) or total_volume != size*dvol"
    if not near(np.prod(obs["extents"]), obs["total"]):
        return "prod(extents) != total volume"
    if obs["size"] * obs["dvol"] * obs["codvol"] and not near(obs["size"] * obs["dvol"] * obs["codvol"], 1.0):
        return "size * dvol * dvol' != 1"
    dist = case["dist"]
    if dist is not None and not near(d, np.broadcast_to(np.array(dist, dtype=np.float64), d.shape)):
        return "the space does not report the distances it was constructed with"
    return None


def history_failure(case, obs):
    cl, ds = obs["classes"], obs["descs"]
    if obs.get("changed"):
        i = obs["changed"][0]
        return "result %d (%s): the object does not have the description it was made / copied from" % (i, case["ops"][i][0])

    def canon(d):
        return tuple(sorted(d)) if case["kind"] == "hist_md" else d
    for i in range(len(cl)):
        for j in range(i):
            same_obj = cl[i] == cl[j]
            same_desc = canon(ds[i]) == canon(ds[j])
            if same_obj != same_desc:
                return "results %d and %d: identical object = %s but equal description = %s" % (j, i, same_obj, same_desc)
    return None


def qhist_failure(case, obs):
    if obs.get("error"):
        return "query on a fresh domain raised %s (%s)" % (obs["error"], obs.get("message"))
    ks = np.array(obs["ks"])
    scale = max(1.0, float(ks.max()))
    for i, (op, a, f) in enumerate(zip(case["ops"], obs["answers"], obs["fresh"])):
        if a != f:
            return "query %d (%s) on a domain object that was used before answers differently from a fresh, equal domain" % (i, op[0])
        if "error" in a:
            if a["error"] != "ValueError":
                return "query %d (%s) raised %s" % (i, op[0], a["error"])
            continue
        if op[0] == "uniq":
            u = np.array(a["v"])
            if len(u) == 0 or not np.all(np.diff(u) > 0):
                return "query %d: unique k-lengths empty or not strictly increasing" % i
            d = np.abs(ks[:, None] - u[None, :])
            if not (np.all(d.min(axis=1) <= 1e-9 * scale) and np.all(d.min(axis=0) <= 1e-9 * scale)):
                return "query %d: the unique k-lengths no longer agree with the k-length table" % i
        if op[0] == "ktab" and not np.array_equal(np.array(a["v"]), ks):
            return "query %d: the k-length table changed" % i
        if op[0] in ("power", "power_useful"):
            pin = np.array(a["pindex"])
            bb = a["bb"]
            if bb is not None:
                ref = np.array([int(np.sum(np.array(bb) < x)) for x in ks])
                if not np.array_equal(ref, pin):
                    return "query %d: pindex is not the number of bounds below the pixel's k-length" % i
            nb = len(a["klen"])
            cnt = np.array([np.sum(pin == b) for b in range(nb)])
            if np.any(cnt == 0) or not near(a["dvol"], cnt * obs["pdvol"]) or \
               not near(a["klen"], [ks[pin == b].mean() for b in range(nb)]):
                return "query %d: bin sizes / volumes / mean k-lengths are not the sums and averages over member pixels" % i
    return None


def direct_failure(case, obs):
    """The property on the implementation; an exception of the code under test is a failure, not a crash."""
    try:
        return direct_failure_(case, obs)
    except C.MachineryError:
        raise
    except Exception as e:  # noqa: BLE001
        return "%s: the implementation raised %s (%s)" % (case["kind"], type(e).__name__, str(e)[:120])


def direct_failure_(case, obs):
    k = case["kind"]
    if k == "qhist":
        return qhist_failure(case, obs)
    if k == "spell":
        if obs["error"]:
            return "constructing a %s domain raised %s (%s)" % (case["cls"], obs["error"], obs.get("message"))
        what = {"eq": "compare unequal", "hash": "hash differently", "state": "have different internal state (bit for bit)",
                "geom": "have different geometry (bit for bit)", "pub": "report different public attributes"}
        for key, msg in what.items():
            if not obs[key]:
                return "scalar / sequence / numpy spellings %r of ONE %s description %s" % (case["hows"], case["cls"], msg)
        if set(obs["classes"]) != {0} or set(obs["classes_md"]) != {0}:
            return "DomainTuple / MultiDomain made from different spellings of one %s description are not the identical object" % case["cls"]
        return None
    if k == "xproc":
        if obs["error"]:
            return "unpickling in a fresh process (PYTHONHASHSEED=%s) failed: %s" % (case["hashseed"], obs.get("message"))
        for i, f in enumerate(obs["flags"]):
            if not all(f):
                return "object pickled here and loaded in a process with PYTHONHASHSEED=%s: equal / same hash / same description / same canonical tuple = %r" % (case["hashseed"], f)
        cl, codes = obs["classes"], [c for c in obs["codes"] for _ in range(3)]
        for i in range(len(cl)):
            for j in range(i):
                if (cl[i] == cl[j]) != (codes[i] == codes[j]):
                    return "process with PYTHONHASHSEED=%s: loaded / made objects %d and %d: identical = %s, equal description = %s" % (
                        case["hashseed"], j, i, cl[i] == cl[j], codes[i] == codes[j])
        return None
    if k == "dround":
        if obs["error"]:
            return "%s round trip of a domain raised %s (%s)" % (case["how"], obs["error"], obs.get("message"))
        what = {"eq": "compares unequal to the original", "hash": "hashes differently", "desc": "has a different description",
                "geom": "has different geometry (distances / volumes / k-lengths, bit for bit)", "type": "has another class",
                "codomain": "breaks codomain(codomain(s)) == s"}
        for key, msg in what.items():
            if not obs[key]:
                return "a domain that went through %s %s" % (case["how"], msg)
        if obs["classes"] != [0, 0, 0]:
            return "DomainTuple of a %s-copied domain is not the identical object (classes %r)" % (case["how"], obs["classes"])
        return None
    if k == "dof":
        if obs["error"]:
            return "DOFSpace raised %s" % obs["error"]
        w = np.array(case["weights"])
        if obs["size"] != len(w) or not np.array_equal(np.array(obs["dvol"]), w) or not near(obs["total"], w.sum()):
            return "DOFSpace: size / dvol / total volume are not len / the weights / their sum"
        return volume_failure(mk_space(["dof", case["weights"]]))
    if k == "pcache":
        if obs["error"]:
            return "PowerSpace raised %s" % obs["error"]
        for c in ("classes", "classes_k", "classes_v"):
            for i in range(len(obs[c])):
                for j in range(i):
                    if (obs[c][i] == obs[c][j]) != (obs["descs"][i] == obs["descs"][j]):
                        return "cached power-space arrays %d and %d: identical = %s, equal (partner, binbounds) = %s" % (
                            j, i, obs[c][i] == obs[c][j], obs["descs"][i] == obs["descs"][j])
        return None
    if k == "power":
        if obs["error"] not in (None, "ValueError"):
            return "PowerSpace raised %s" % obs["error"]
        for i, a in enumerate(obs.get("retries", [])):
            if {x: y for x, y in a.items() if x != "message"} != {x: y for x, y in obs.items() if x in a and x != "message"}:
                return "PowerSpace: asking again for the same (partner, binbounds) gives a different outcome (attempt %d: %s, first: %s)" % (
                    i + 2, a["error"] or "accepted", obs["error"] or "accepted")
        h = mk_space(case["h"])
        return klength_failure(h) or volume_failure(h) or power_failure(h, case["binning"])
    if obs["error"] is not None:
        return "%s raised %s (%s)" % (k, obs["error"], obs.get("message"))
    if k == "sph":
        a, b = case["a"], case["b"]
        valid = (b is None or b <= a) if case["cls"] == "lm" else (a >= 1 and (b is None or b >= 1))
        if obs["rejected"] != (not valid):
            return "%s(%r, %r): %s" % ("LMSpace" if case["cls"] == "lm" else "GLSpace", a, b,
                                       "valid arguments rejected" if valid else "invalid arguments accepted")
        if not valid:
            return None
        v = obs["vals"]
        if case["cls"] == "lm":
            if b is None and (v[1] != a or v[2] != (a + 1) ** 2):
                return "LMSpace(lmax) is not LMSpace(lmax, lmax) with (lmax+1)^2 coefficients"
            if not obs["back"] or v[6:8] != v[0:2]:
                return "LMSpace: the default codomain of the default codomain is not the space itself"
            if v[5] < v[2]:
                return "LMSpace: the default Gauss-Legendre partner has fewer pixels than there are coefficients"
        else:
            if v[2] != v[0] * v[1]:
                return "GLSpace: size is not nlat*nlon"
            if v[4] > v[3] or v[3] < v[0] - 1 or v[4] != v[1] // 2:
                return "GLSpace: the default codomain does not resolve nlat-1 / nlon//2"
            if v[6] < v[0] or v[7] < v[1] or (b is None and v[6:8] != v[0:2]):
                return "GLSpace: the codomain of the default codomain is coarser than the space (or, for the default nlon, not the space itself)"
        return None
    if k == "lm":
        s = mk_space(["lm", case["lmax"], case["mmax"]])
        ks = np.array(obs["ks"])
        ref = [l for l in range(case["lmax"] + 1)] + [l for m in range(1, case["mmax"] + 1) for l in range(m, case["lmax"] + 1) for _ in (0, 1)]
        if len(ks) != obs["size"] or sorted(ks.tolist()) != sorted(float(x) for x in ref):
            return "LMSpace k-lengths: l does not appear 1 + 2*min(l, mmax) times"
        return klength_failure(s) or volume_failure(s)
    if k in ("rgtab", "rgtab_q"):
        d = case["dist"] if k == "rgtab" else tuple(case["dists"])
        s = mk_space(["rg", case["shape"], d if k == "rgtab" else list(d), True])
        return klength_failure(s) or volume_failure(s) or power_failure(s, None)
    if k == "rggeom":
        return rg_failure(case, obs)
    if k.startswith("hist_"):
        return history_failure(case, obs)
    return None


XPROC = r"""
import sys, json, pickle
import nifty.cl as ift
from harness.props import c08
c08.quiet()
items = json.load(sys.stdin)
objs, flags = [], []
for it in items:
    t = pickle.loads(bytes.fromhex(it["blob"]))                  # made in ANOTHER process (other hash seed)
    doms = tuple(c08.mk_space(s) for s in it["specs"])           # made here
    if it["what"] == "dom":
        d = pickle.loads(bytes.fromhex(it["dblob"]))
        flags.append([bool(d == doms[0] and doms[0] == d), hash(d) == hash(doms[0]), c08.desc_key(d) == c08.desc_key(doms[0]),
                      ift.DomainTuple.make((d,)) is ift.DomainTuple.make((doms[0],))])
    if it["what"] == "md":
        f = ift.MultiDomain.make({k: tuple(c08.mk_space(s) for s in v) for k, v in it["dict"].items()})
    else:
        f = ift.DomainTuple.make(doms)
    flags.append([bool(t == f and f == t), hash(t) == hash(f)])
    objs += [t, f, pickle.loads(pickle.dumps(t))]
print(json.dumps({"classes": [next(j for j in range(i + 1) if objs[j] is objs[i]) for i in range(len(objs))], "flags": flags}))
"""


def run_xproc(case):
    """Pickles made in THIS process (hashes already cached in the objects), loaded in a fresh interpreter
    with a different PYTHONHASHSEED, next to freshly made equal objects: the child's history is
    [load_0, make_0, reload_0, load_1, ...] starting from an empty cache."""
    ift = quiet()
    items, codes = [], []
    for entry in case["items"]:
        if entry[0] == "md":
            dct = {k: tuple(mk_space(SPELLINGS[i]) for i in v) for k, v in entry[1].items()}
            for v in dct.values():
                [hash(x) for x in v]
            o = ift.MultiDomain.make(dct)
            hash(o)
            items.append({"what": "md", "specs": [], "dict": {k: [SPELLINGS[i] for i in v] for k, v in entry[1].items()}, "blob": pickle.dumps(o).hex()})
            codes.append(("md",) + tuple(sorted((k, tuple(spec_key(SPELLINGS[i]) for i in v)) for k, v in entry[1].items())))
        else:
            specs = [SPELLINGS[i] for i in entry[1]]
            doms = tuple(mk_space(sp) for sp in specs)
            [hash(x) for x in doms]                  # the cached hash travels inside the pickle
            o = ift.DomainTuple.make(doms)
            hash(o)
            it = {"what": entry[0], "specs": specs, "blob": pickle.dumps(o).hex()}
            if entry[0] == "dom":
                it["dblob"] = pickle.dumps(doms[0]).hex()
            items.append(it)
            codes.append(("dt",) + tuple(spec_key(sp) for sp in specs))
    env = dict(os.environ, PYTHONHASHSEED=str(case["hashseed"]))
    p = subprocess.run([sys.executable, "-c", XPROC], input=json.dumps(items), stdout=subprocess.PIPE, stderr=subprocess.PIPE,
                       text=True, env=env, timeout=900)
    if p.returncode != 0:
        return {"error": "ChildFailed", "message": p.stderr[-300:]}
    r = json.loads(p.stdout.strip().splitlines()[-1])
    r["codes"] = codes
    return r


SUBPROC = r"""
import sys, json, pickle
import nifty.cl as ift
blobs = [bytes.fromhex(h) for h in json.load(sys.stdin)]
objs = [pickle.loads(b) for b in blobs]
n = len(objs)
print(json.dumps([[objs[i] is objs[j] for j in range(n)] for i in range(n)]))
"""


def subprocess_identity_failure(ctx):
    """Pickles written here, loaded in a fresh interpreter: identical iff equal description."""
    ift = quiet()
    objs, descs = [], []
    for sp in ([0], [1], [3], [4, 8], [4, 9], [17], [18], [19], [], [23], [24, 25], [28, 25], [26]):
        doms = tuple(mk_space(SPELLINGS[i]) for i in sp)
        objs.append(ift.DomainTuple.make(doms))
        descs.append(("dt",) + tuple(spec_key(SPELLINGS[i]) for i in sp))
    for dct in ({"a": [0], "b": [8]}, {"b": [9], "a": [2]}, {"a": [0]}, {"b": [0]}):
        objs.append(ift.MultiDomain.make({k: tuple(mk_space(SPELLINGS[i]) for i in v) for k, v in dct.items()}))
        descs.append(("md",) + tuple(sorted((k, tuple(spec_key(SPELLINGS[i]) for i in v)) for k, v in dct.items())))
    blobs = [pickle.dumps(o).hex() for o in objs]
    rc, out = C.sh([sys.executable, "-c", SUBPROC], input=json.dumps(blobs), timeout=120)
    if rc != 0:
        return "unpickling in a fresh process failed: " + out[-300:]
    m = json.loads(out.strip().splitlines()[-1])
    for i in range(len(objs)):
        for j in range(len(objs)):
            if m[i][j] != (descs[i] == descs[j]):
                return "fresh process: pickles %d and %d give identical object = %s, equal description = %s" % (i, j, m[i][j], descs[i] == descs[j])
    return None


def extra_domains(ctx, budget):
    """Domains that only the oracle looks at (sphere pixelisations through ducc0, DOF spaces, products)."""
    out = [["gl", n, None] for n in (1, 2, 3, 5)] + [["gl", 3, 4], ["hp", 1], ["hp", 2], ["hp", 4],
           ["dof", [1.0, 2.0, 0.5]], ["dof", [3.0]], ["lm", 3, 1],
           ["power", ["lm", 3, 2], None], ["power", ["rg", [4, 3], [0.5, 0.25], True], [0.4, 0.9]]]
    if budget > 1:
        out += [["gl", n, None] for n in range(6, 12)] + [["hp", 8]]
    return out


def signature(case, obs):
    sig = {"what": case["kind"], "error": obs.get("error")}
    if case["kind"] in ("rgtab", "rgtab_q"):
        sig["all_axes_size_1"] = all(n == 1 for n in case["shape"])
    return sig


class C08(C.Check):
    prop = "C08"
    coq_dir = "C08"
    extra_targets = ["C08/Corr.vo"]
    trusted_base = [
        "Coq 8.16.1 kernel (coqc; vm_compute for the correspondence evaluation)",
        "hand-written model coq/C08/Model.v (tied by correspondence, not by translation)",
        "numpy sqrt/searchsorted/bincount/unique and float64 rounding: k-lengths, volumes and means are compared within 2^-40 relative; integer tables and power indices exactly",
        "ducc0 Gauss-Legendre weights and HEALPix geometry (oracle only: total volume = sum of weights = 4 pi numerically)",
        "description of a domain = class name + its public constructor-level attributes (shape/distances/harmonic, lmax/mmax, nlat/nlon, nside, partner+binbounds, dvol), read by the harness independently of __eq__/__hash__/_needed_for_hash",
        "pickle protocol of CPython (__reduce__ -> make)",
    ]
    assumptions = [
        "grid sizes >= 1, distances > 0, bin bounds strictly ascending (the constructors' preconditions)",
        "dictionary lookup finds a key iff an equal description was inserted (hash/eq of descriptions agree)",
    ]

    def __init__(self):
        self.cases, self.obs = [], []

    def correspondence(self, ctx, res):
        corpus = [c["input"] if "input" in c else c for c in ctx.corpus()]
        self.cases = corpus + gen_cases(ctx)
        self.obs = [run_case(c) for c in self.cases]
        checks = [coq_check(c, o) for c, o in zip(self.cases, self.obs)]
        tag = "corr_%d" % os.getpid()          # per-process scratch names: concurrent runs do not collide
        try:
            bad = C.eval_cases(self.prop, tag, HEADER, checks, shard=40 if ctx.quick else 120, jobs=5)
        finally:
            for f in os.listdir(ctx.run_dir()):
                if f.startswith("cases_%s_" % tag) or f.startswith(".cases_%s_" % tag):
                    try:
                        os.remove(os.path.join(ctx.run_dir(), f))
                    except OSError:
                        pass
        for i in bad[:4]:
            o = {k: v for k, v in self.obs[i].items() if k not in ("objs",)}
            res.add_broken("correspondence", "%s vs coq/C08/Model.v" % self.cases[i]["kind"], {"case": self.cases[i], "observed": o})
        kinds = {}
        nontrivial = set()
        for c, o in zip(self.cases, self.obs):
            kinds[c["kind"]] = kinds.get(c["kind"], 0) + 1
            k = c["kind"]
            if (k == "lm" and c["lmax"] >= 1) or (k == "sph" and c["a"] >= 2 and not o.get("rejected", True)) or (k in ("rgtab", "rgtab_q") and int(np.prod(c["shape"])) >= 3) or \
               (k == "rggeom" and int(np.prod(c["shape"])) >= 2) or (k == "power" and o.get("hsize", 0) >= 3) or \
               (k == "qhist" and sum(1 for op in c["ops"] if op[0] in ("useful", "power_useful")) >= 1 and len(c["ops"]) >= 4) or \
               (k == "dof" and len(c["weights"]) >= 2) or (k == "dround") or (k == "xproc") or (k == "spell") or \
               (k == "pcache" and len(set(o.get("classes", []))) >= 2 and len(set(o.get("classes", []))) < len(o.get("classes", []))) or \
               (k.startswith("hist_") and len(set(o.get("classes", []))) >= 2 and len(set(o.get("classes", []))) < len(o.get("classes", []))):
                nontrivial.add(json.dumps(c, sort_keys=True))
        res.coverage.update({
            "evaluations": len(self.cases), "distinct_nontrivial": len(nontrivial),
            "rule": "LMSpace/GLSpace constructors with default (None) and explicit second argument incl. the rejected ones, default codomain and its codomain (parameters, sizes, shapes, classes) for first argument <= 6 (12 thorough); LMSpace all lmax<=%d,mmax<=lmax; harmonic RGSpace tables 1-D sizes 1-9, 2-D up to 6x6, 3-D up to 4^3 (equal and unequal distances, dyadic and non-dyadic); RG geometry 1-3 axes sizes 1-9 with None/scalar/tuple distances, both kinds; PowerSpace over RG 1-D/2-D and LM partners with natural, arbitrary ascending, at-k-value, linear and logarithmic bounds; DomainTuple/MultiDomain histories of make / make(obj) / pickle over a pool of %d domain spellings; histories of repeated get_unique_k_lengths / get_k_length_array / useful_binbounds / PowerSpace queries on ONE domain object (anisotropic and isotropic non-square RG up to 6x10, 1-D, LM) compared with a fresh object and the model; non-square equal-distance grids up to 6x10 / 4x6x9 in both axis orders; DOFSpace; identity classes of the cached power-index arrays; single domains of every class through pickle / deepcopy / double pickle (RG sizes incl. 49, 98, 103, 107 and non-dyadic distances, both kinds, also via the codomain): equality, hash, description, bit-exact geometry, canonical DomainTuple; every PowerSpace request repeated (retry after rejection, fresh equal partner); scalar / sequence / numpy spellings of every constructor argument of one description on rounding-sensitive values (equality, hash, bit-exact internal state and geometry, canonical DomainTuple / MultiDomain); pickles of DomainTuples / MultiDomains / single domains (hash already cached) loaded in fresh interpreters with different PYTHONHASHSEED next to freshly made equal objects; non-trivial = more than a couple of pixels, resp. a history with both identical and distinct results; distinct by full case" % (5 if ctx.quick else 8, len(SPELLINGS)),
            "samples": [{"case": c} for c in self.cases[40:43]],
            "input_distribution": {"by_kind": kinds, "power_rejected": sum(1 for c, o in zip(self.cases, self.obs) if c["kind"] == "power" and o["error"] == "ValueError")},
            "disagreements": len(bad), "exhaustive": False,
            "comparison": "EXACT for sizes, LM tables, RG integer tables via squares, power indices, identity classes; 2^-40 relative for distances, volumes, k-lengths, bin means; ValueError('empty bins') <-> model ps_valid = false",
        })
        return bad

    def oracle(self, ctx, res, hints, budget):
        n = 0
        for c, o in zip(self.cases, self.obs):
            n += 1
            f = direct_failure(c, o)
            if f:
                res.add_failing(signature(c, o), f, c)
                if len(res.failing) >= 3:
                    break
        for spec in extra_domains(ctx, budget):
            n += 1
            try:
                sp = mk_space(spec)
                f = volume_failure(sp)
                if f is None and getattr(sp, "harmonic", False):
                    f = klength_failure(sp)
                if f is None and spec[0] in ("gl", "hp") and not near(sp.total_volume, 4 * np.pi):
                    f = "sphere pixelisation does not have total volume 4 pi"
                if f is None:
                    ift = quiet()
                    dt = ift.DomainTuple.make((sp, mk_space(["rg", [3], 0.5, False])))
                    if not near(dt.total_volume(), sp.total_volume * 1.5) or dt.size != sp.size * 3:
                        f = "DomainTuple total volume / size is not the product over its sub-domains"
            except Exception as e:  # noqa: BLE001
                f = "raised %s: %s" % (type(e).__name__, str(e)[:100])
            if f:
                res.add_failing({"what": "volume", "domain": spec[0]}, f, {"kind": "domain", "spec": spec})
        n += 1
        f = subprocess_identity_failure(ctx)
        if f:
            res.add_failing({"what": "identity-subprocess"}, f, {"kind": "subprocess"})
        res.coverage["impl_property_evaluations"] = n

    def replay(self, ctx, rp):
        c = rp["input"]
        if c["kind"] == "subprocess":
            return subprocess_identity_failure(ctx) is not None
        if c["kind"] == "domain":
            try:
                sp = mk_space(c["spec"])
                return (volume_failure(sp) or (klength_failure(sp) if getattr(sp, "harmonic", False) else None)) is not None
            except Exception:  # noqa: BLE001
                return True
        return direct_failure(c, run_case(c)) is not None


CHECK = C08()
