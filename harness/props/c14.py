"""C14 -- Classic conjugate gradient solves positive definite systems.

Tie: translator for the LinearOperator mode tables (tr/c14_tables.py -> coq/C14/Gen_tables.v) + hand
model coq/C14/Model.v + correspondence:
 (i)   the five iteration controllers, EXACT-FLOAT: real controller objects are fed generated
       sequences of (value, gradient norm, inf-norm) and the model must produce the same statuses;
 (ii)  ConjugateGradient.__call__ + QuadraticEnergy + controller, EXACT-FLOAT: real runs on generated
       real HPD systems with recording operator / preconditioner wrappers and recording
       Field.s_vdot / Field.norm; the model recomputes every elementwise update, the energy
       bookkeeping, the controller and the control flow in PrimFloat (operator, preconditioner,
       inner products and norms are table look-ups of what the implementation computed) and must
       return the same status, iteration count, position, gradient and value bit for bit;
 (iii) InversionEnabler.apply: all 16 capabilities x 4 modes with mode-recording operators.
Direct oracle (no Coq): true residual / energy change of the returned solution against the controller's
criterion, energy value and gradient against dense formulas, no ERROR on HPD input, InversionEnabler
against numpy.linalg.solve; real and complex."""
import contextlib
import math
import os
import warnings

import numpy as np

from .. import common as C

HEADER = ("From Coq Require Import List Bool ZArith PrimFloat. Import ListNotations.\n"
          "Require Import NV.C14.Model NV.C14.Gen_tables.\n")

ST = {0: "CONVERGED", 1: "CONTINUE", 2: "ERROR"}
KINDS = ["gradnorm", "gradinf", "deltaE", "absdeltaE", "stoch"]


def quiet():
    import logging
    for nm in ("NIFTy", "NIFTy8", "nifty"):
        logging.getLogger(nm).setLevel(logging.CRITICAL)
    try:
        from nifty.cl.logger import logger
        logger.setLevel(logging.CRITICAL)
    except Exception:
        pass


def cf(x):
    return C.cfloat(float(x))


def cvec(v):
    return C.clist([cf(t) for t in v])


# --------------------------------------------------------------------------------------------------
# controllers
# --------------------------------------------------------------------------------------------------

def make_controller(c):
    import nifty.cl as ift
    k = c["kind"]
    kw = dict(convergence_level=c["level"], iteration_limit=c["limit"])
    if k == "gradnorm":
        return ift.GradientNormController(tol_abs_gradnorm=c["tol_abs"], tol_rel_gradnorm=c["tol_rel"], **kw)
    if k == "gradinf":
        return ift.GradInfNormController(c["tol"], **kw)
    if k == "deltaE":
        return ift.DeltaEnergyController(c["tol"], **kw)
    if k == "absdeltaE":
        return ift.AbsDeltaEnergyController(c["tol"], **kw)
    if k == "stoch":
        return ift.StochasticAbsDeltaEnergyController(c["tol"], memory_length=c["memlen"], **kw)
    raise AssertionError(k)


def coq_cparams(c):
    k = c["kind"]
    if k == "gradnorm":
        kind = "(GradNorm %s %s)" % (C.copt(c["tol_abs"], cf), C.copt(c["tol_rel"], cf))
    elif k == "gradinf":
        kind = "(GradInf %s)" % C.copt(c["tol"], cf)
    elif k == "deltaE":
        kind = "(DeltaE %s)" % cf(c["tol"])
    elif k == "absdeltaE":
        kind = "(AbsDeltaE %s)" % cf(c["tol"])
    else:
        kind = "(Stoch %s %d)" % (cf(c["tol"]), c["memlen"])
    return "(Build_cparams %s %s %s)" % (kind, C.cz(c["level"]), C.copt(c["limit"], C.cz))


def std_table(c, values):
    """np.std of every memory window the stochastic controller can hold for this value sequence."""
    if c["kind"] != "stoch":
        return []
    L = c["memlen"]
    out = []
    for j in range(len(values)):
        w = values[max(0, j - L + 1):j + 1] if L >= 1 else []
        if not w:
            continue
        with warnings.catch_warnings():
            warnings.simplefilter("ignore")
            out.append((list(w), float(np.std(w))))
    return out


def coq_stds(tab):
    return C.clist(["(%s, %s)" % (cvec(w), cf(s)) for w, s in tab])


class _FakeGrad:
    def __init__(self, n2, ninf):
        self._n2, self._ninf = n2, ninf

    def norm(self, ord=2):
        return np.float64(self._ninf if ord == np.inf else self._n2)


class _FakeEnergy:
    """What the controllers read: .value (Python float, like QuadraticEnergy), .gradient_norm and
    .gradient.norm(ord) (numpy.float64, like Field.norm)."""

    def __init__(self, v, n2, ninf):
        self.value = float(v)
        self.gradient_norm = np.float64(n2)
        self.gradient = _FakeGrad(n2, ninf)


def run_ctrl_case(spec):
    ic = make_controller(spec["ctrl"])
    seq = spec["seq"]
    out = []
    with warnings.catch_warnings():
        warnings.simplefilter("ignore")
        try:
            for i, (v, n2, ninf) in enumerate(seq):
                e = _FakeEnergy(v, n2, ninf)
                s = ic.start(e) if i == 0 else ic.check(e)
                out.append(int(s))
                if s != ic.CONTINUE:
                    break
        except ZeroDivisionError as ex:
            return {"spec": spec, "statuses": out, "exception": "ZeroDivisionError"}
    return {"spec": spec, "statuses": out, "exception": None}


def coq_ctrl_case(o):
    sp = o["spec"]
    es = ["(Build_eobs %s %s %s)" % (cf(v), cf(a), cf(b)) for v, a, b in sp["seq"]]
    return "ctrl_case %s %s %s %s" % (coq_cparams(sp["ctrl"]), coq_stds(std_table(sp["ctrl"], [float(t[0]) for t in sp["seq"]])),
                                     C.clist(es), C.clist([ST[s] for s in o["statuses"]]))


def ctrl_oracle(o):
    """Independent statement of 'CONVERGED only if criterion met or limit reached', on the fed sequence."""
    if o["exception"]:
        return "controller raised %s on the sequence %r" % (o["exception"], o["spec"]["seq"][:3])
    sp = o["spec"]
    c = sp["ctrl"]
    sts = o["statuses"]
    if 2 in sts:
        return "controller reported ERROR"
    if not sts or sts[-1] != 0:
        return None
    k = len(sts) - 1                      # index of the call that reported CONVERGED
    if c["limit"] is not None and k >= c["limit"]:
        return None
    if c["level"] <= 0:
        return None
    seq = sp["seq"]
    v, n2, ninf = seq[k]
    with warnings.catch_warnings():
        warnings.simplefilter("ignore")
        if c["kind"] == "gradnorm":
            ok = (c["tol_abs"] is not None and n2 <= c["tol_abs"]) or \
                 (c["tol_rel"] is not None and n2 <= c["tol_rel"] * seq[0][1])
        elif c["kind"] == "gradinf":
            ok = c["tol"] is not None and np.float64(ninf) / abs(v) <= c["tol"]
        elif c["kind"] == "deltaE":
            sc = max(abs(seq[k - 1][0]), abs(v)) if k > 0 else 0.0
            ok = k > 0 and (abs(seq[k - 1][0] - v) / sc if sc != 0 else 0.0) < c["tol"]
        elif c["kind"] == "absdeltaE":
            ok = k > 0 and abs(seq[k - 1][0] - v) < c["tol"]
        else:
            w = [t[0] for t in seq[max(0, k - c["memlen"] + 1):k + 1]]
            ok = k > 0 and len(w) > 0 and np.std(w) < c["tol"]
    if not ok:
        return "%s reported CONVERGED at call %d although its criterion does not hold there and the limit is not reached" % (c["kind"], k)
    return None


# --------------------------------------------------------------------------------------------------
# recorded CG runs
# --------------------------------------------------------------------------------------------------

class Recorder:
    def __init__(self):
        self.opA, self.prec, self.dots, self.norm2, self.norminf = [], [], [], [], []
        self.n_energies = 0
        self.check_pos = []
        self.check_vals = []


@contextlib.contextmanager
def recording(rec):
    """Record every Field.s_vdot / Field.norm / QuadraticEnergy construction of the run (the
    originals are called; nothing is changed)."""
    import nifty.cl as ift
    from nifty.cl.minimization import quadratic_energy as qe
    F = ift.Field
    o_vdot, o_norm, o_init = F.s_vdot, F.norm, qe.QuadraticEnergy.__init__

    def s_vdot(self, x):
        r = o_vdot(self, x)
        rec.dots.append((self.asnumpy().copy(), x.asnumpy().copy(), r))
        return r

    def norm(self, ord=2):
        r = o_norm(self, ord)
        (rec.norminf if ord == np.inf else rec.norm2).append((self.asnumpy().copy(), float(r)))
        return r

    def init(self, *a, **k):
        rec.n_energies += 1
        return o_init(self, *a, **k)

    F.s_vdot, F.norm, qe.QuadraticEnergy.__init__ = s_vdot, norm, init
    try:
        yield
    finally:
        F.s_vdot, F.norm, qe.QuadraticEnergy.__init__ = o_vdot, o_norm, o_init


def make_ops(spec, rec):
    import nifty.cl as ift
    n = len(spec["b"]) if spec.get("b") is not None else len(spec["x0"])
    dom = ift.DomainTuple.make(ift.UnstructuredDomain((n,)))
    cplx = bool(spec.get("complex"))

    def arr(v):
        if cplx:
            return np.array([complex(a, b) for a, b in v], dtype=np.complex128)
        return np.array(v, dtype=np.float64)

    M = np.array([[complex(*t) for t in row] for row in spec["A"]], dtype=np.complex128) if cplx \
        else np.array(spec["A"], dtype=np.float64)

    class MatOp(ift.EndomorphicOperator):
        def __init__(self, M, log):
            self._M, self._log = M, log
            self._domain = dom
            self._capability = self.TIMES | self.ADJOINT_TIMES

        def apply(self, x, mode):
            self._check_input(x, mode)
            Mm = self._M if mode == self.TIMES else self._M.conj().T
            xin = x.asnumpy().copy()
            y = Mm @ xin
            if self._log is not None:
                self._log.append((xin, y.copy()))
            return ift.Field.from_raw(dom, y)

    A = MatOp(M, rec.opA if rec is not None else None)
    P = None
    if spec.get("prec") is not None:
        P = MatOp(np.diag(arr(spec["prec"])) if not cplx else np.diag(np.array(spec["prec"], dtype=np.float64)).astype(np.complex128),
                  rec.prec if rec is not None else None)
    b = None if spec.get("b") is None else ift.Field.from_raw(dom, arr(spec["b"]))
    x0 = ift.Field.from_raw(dom, arr(spec["x0"]))
    return dom, M, A, P, b, x0


def run_cg_case(spec):
    import nifty.cl as ift
    quiet()
    rec = Recorder()
    dom, M, A, P, b, x0 = make_ops(spec, rec)
    inner = make_controller(spec["ctrl"])

    class RecC(ift.IterationController):
        def __init__(self):
            super().__init__()
            self.statuses = []

        def start(self, energy):
            s = inner.start(energy)
            self.statuses.append(int(s))
            rec.check_pos.append(energy.position.asnumpy().copy())
            rec.check_vals.append(float(energy.value))
            return s

        def check(self, energy):
            s = inner.check(energy)
            self.statuses.append(int(s))
            rec.check_pos.append(energy.position.asnumpy().copy())
            rec.check_vals.append(float(energy.value))
            return s

    rc = RecC()
    out = {"spec": spec}
    with warnings.catch_warnings():
        warnings.simplefilter("ignore")
        try:
            with recording(rec):
                e0 = ift.QuadraticEnergy(x0, A, b)
                n0 = rec.n_energies
                en, st = ift.ConjugateGradient(rc, nreset=spec["nreset"])(e0, P)
        except ZeroDivisionError as ex:
            out["exception"] = "ZeroDivisionError"
            return out
    out["exception"] = None
    out["status"] = int(st)
    out["n"] = rec.n_energies - n0
    out["pos"] = en.position.asnumpy().copy()
    out["grad"] = en.gradient.asnumpy().copy()
    out["value"] = float(en.value)
    out["statuses"] = rc.statuses
    out["rec"] = rec
    out["M"] = M
    return out


def coq_cg_case(o):
    """Only for real systems."""
    sp, rec = o["spec"], o["rec"]
    vt = lambda tab: C.clist(["(%s, %s)" % (cvec(a), cvec(b)) for a, b in tab])
    dots = C.clist(["(%s, %s, %s)" % (cvec(a), cvec(b), cf(np.real(r))) for a, b, r in rec.dots])
    nt = lambda tab: C.clist(["(%s, %s)" % (cvec(a), cf(r)) for a, r in tab])
    # the energy values the controller sees are recomputed by the model itself; the harness only
    # supplies np.std of the memory windows of the stochastic controller
    stds = std_table(sp["ctrl"], rec.check_vals)
    b = sp.get("b")
    return "cg_case %s %s %s %s %s %s %s %s %s %s %s %d %s %d %s %s %s" % (
        coq_cparams(sp["ctrl"]), coq_stds(stds), vt(rec.opA), vt(rec.prec), C.cbool(sp.get("prec") is not None),
        dots, nt(rec.norm2), nt(rec.norminf), C.copt(b, cvec), C.cz(sp["nreset"]), cvec(sp["x0"]),
        o["n"] + 2, ST[o["status"]], o["n"], cvec(o["pos"]), cvec(o["grad"]), cf(o["value"]))
